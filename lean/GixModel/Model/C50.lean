import GixModel.Basic.Hex
/-
C50 — repository discovery.

Rust code modelled (all in /repo):
  gix_discover::upwards::discover_opts        gix-discover/src/upwards/mod.rs  (the upward walk, ceiling height)
  upwards::util::find_ceiling_height           gix-discover/src/upwards/util.rs
  upwards::types::parse_ceiling_dirs           gix-discover/src/upwards/types.rs
  is::git_with_metadata (which locations count as a repository) and repository::Path::from_dot_git_dir
      (which git-dir / work-dir is reported) — as a classification of file-system nodes
The walk is modelled over the list of LEVELS it looks at (the start directory, its parent, …): per
level, what is at `dir/.git`, what `dir` itself is, and whether `dir` is named `.git`. The driver
computes the levels from a description of the directory tree. `cross_fs`, `required_trust` and
`dot_git_only` are left at their defaults (one device, reduced trust, false).
-/
namespace GixModel.C50
open GixModel

/-! ## 1. The walk over levels -/

/-- what is found at a candidate location -/
inductive Cand where
  | none
  | repo
  /-- a `.git` FILE that does not lead to a repository: git aborts, gitoxide walks on -/
  | invalid
  deriving Repr, DecidableEq

structure Level where
  dotGit : Cand
  self : Cand
  isDotGit : Bool
  deriving Repr, DecidableEq

inductive Slot where
  | dotGit
  | self
  deriving Repr, DecidableEq

inductive Res where
  | found (level : Nat) (slot : Slot)
  | notFound
  /-- gitoxide: `NoGitRepositoryWithinCeiling` -/
  | ceiling
  /-- git: "invalid gitfile format" / "not a git repository: <target>" -/
  | fatal
  deriving Repr, DecidableEq

/-- `discover_opts`: level `h` is looked at iff `h ≤ max_height`; `dir/.git` is only tried when `dir`
is not itself called `.git`; then `dir` itself. -/
def gixWalk : List Level → Option Nat → Nat → Res
  | [], _, _ => .notFound
  | l :: ls, mh, h =>
    if (match mh with | some x => decide (h > x) | none => false) then .ceiling
    else if !l.isDotGit && l.dotGit == .repo then .found h .dotGit
    else if l.self == .repo then .found h .self
    else gixWalk ls mh (h + 1)

/-- `setup_git_directory_gently_1`: `k` = number of levels strictly below the longest ceiling that is
a proper ancestor of the start directory (`none`: no such ceiling). The start directory is always
looked at; a broken `.git` file is fatal. -/
def gitWalk : List Level → Option Nat → Nat → Res
  | [], _, _ => .notFound
  | l :: ls, k, h =>
    if h != 0 && (match k with | some x => decide (h ≥ x) | none => false) then .notFound
    else if l.dotGit == .invalid then .fatal
    else if l.dotGit == .repo then .found h .dotGit
    else if l.self == .repo then .found h .self
    else gitWalk ls k (h + 1)

/-! ## 2. Ceilings on component paths -/

abbrev Path := List Bytes

/-- `find_ceiling_height`: the smallest positive number of components between a ceiling and the
search directory -/
def ceilHeight (start : Path) : List Path → Option Nat
  | [] => none
  | c :: cs =>
    let rest := ceilHeight start cs
    if c.isPrefixOf start ∧ c.length < start.length then
      let h := start.length - c.length
      match rest with
      | none => some h
      | some r => some (min h r)
    else rest

/-- `longest_ancestor_length`, in components: the length of the longest ceiling that is a proper
ancestor of the start directory -/
def longestAncestor (start : Path) : List Path → Option Nat
  | [] => none
  | c :: cs =>
    let rest := longestAncestor start cs
    if c.isPrefixOf start ∧ c.length < start.length then
      match rest with
      | none => some c.length
      | some r => some (max c.length r)
    else rest

/-! ## 3. The driver: levels from a directory tree -/

inductive NodeKind where
  /-- a directory that `is_git` accepts (HEAD, objects, refs) -/
  | repoDir
  /-- a `.git` file with `gitdir: <target>` -/
  | gitFile (target : Bytes)
  /-- the private git directory of a linked worktree (`commondir` + `gitdir` files) whose `gitdir`
  file names `<workdir>/.git` -/
  | wtGitDir (workdir : Bytes)
  /-- something else where a repository would be: an empty `.git` directory, a `.git` file with garbage -/
  | junkFile
  | junkDir
  deriving Repr, DecidableEq

def splitSlash : Bytes → List Bytes
  | [] => [[]]
  | b :: rest =>
    if b = 47 then [] :: splitSlash rest
    else match splitSlash rest with
      | [] => [[b]]
      | c :: cs => (b :: c) :: cs

def normComps : List Bytes → List Bytes → Option (List Bytes)
  | [], acc => some acc.reverse
  | c :: cs, acc =>
    if c = [] ∨ c = [46] then normComps cs acc
    else if c = [46, 46] then
      match acc with
      | [] => none
      | _ :: acc' => normComps cs acc'
    else normComps cs (c :: acc)

/-- lexical normalisation of `p` against the absolute `cwd` -/
def absNorm (cwd p : Bytes) : Option Path :=
  match p with
  | 47 :: _ => normComps (splitSlash p) []
  | _ => normComps (splitSlash cwd ++ splitSlash p) []

def showPath (p : Path) : Bytes := if p.isEmpty then [47] else p.flatMap (fun c => 47 :: c)

structure Tree where
  nodes : List (Path × NodeKind)

def Tree.at (t : Tree) (p : Path) : Option NodeKind := (t.nodes.find? (fun e => e.1 = p)).map (·.2)

def dotGitName : Bytes := [46, 103, 105, 116]

/-- is the location a repository for `is::git`? a repo dir, a worktree git dir, or a `.git` file
whose target is one -/
def Tree.isRepoDir (t : Tree) (p : Path) : Bool :=
  match t.at p with
  | some .repoDir => true
  | some (.wtGitDir _) => true
  | _ => false

def Tree.cand (t : Tree) (cwdOfFile : Path) (p : Path) : Cand :=
  match t.at p with
  | some .repoDir => .repo
  | some (.wtGitDir _) => .repo
  | some (.gitFile target) =>
    match absNorm (showPath cwdOfFile) target with
    | some tp => if t.isRepoDir tp then .repo else .invalid
    | none => .invalid
  | some .junkFile => .invalid
  | some .junkDir => .none
  | none => .none

def Tree.level (t : Tree) (dir : Path) : Level :=
  { dotGit := t.cand dir (dir ++ [dotGitName]),
    self := (match t.cand dir.dropLast dir with | .repo => .repo | _ => .none),
    isDotGit := dir.getLast? == some dotGitName }

/-- the start directory, its parent, …, the root -/
def ancestors : Nat → Path → List Path
  | 0, _ => []
  | n + 1, p => p :: (if p.isEmpty then [] else ancestors n p.dropLast)

def Tree.levels (t : Tree) (start : Path) : List Level := (ancestors (start.length + 1) start).map t.level

/-- what `repository::Path::from_dot_git_dir` + `into_repository_and_work_tree_directories` report
for the selected candidate: (git dir, work dir) -/
def Tree.answer (t : Tree) (start : Path) (lv : Nat) (slot : Slot) : Option (Path × Option Path) :=
  let dir := start.take (start.length - lv)
  match slot with
  | .dotGit =>
    match t.at (dir ++ [dotGitName]) with
    | some (.gitFile target) => (absNorm (showPath dir) target).map fun tp => (tp, some dir)
    | _ => some (dir ++ [dotGitName], some dir)
  | .self =>
    match t.at dir with
    | some (.wtGitDir wd) =>
      (absNorm [47] wd).map fun w => (dir, some (if w.getLast? == some dotGitName then w.dropLast else w))
    | _ => if dir.getLast? == some dotGitName then some (dir, some dir.dropLast) else some (dir, none)

/-- `parse_ceiling_dirs` (`:`-separated; empty entries switch normalisation off and are skipped;
relative entries are dropped) followed by the normalisation `find_ceiling_height` applies anyway -/
def splitColon : Bytes → List Bytes
  | [] => [[]]
  | b :: rest =>
    if b = 58 then [] :: splitColon rest
    else match splitColon rest with
      | [] => [[b]]
      | c :: cs => (b :: c) :: cs

def parseCeilings (env : Bytes) : List Path :=
  (splitColon env).filterMap fun e =>
    match e with
    | 47 :: _ => normComps (splitSlash e) []
    | _ => none

def stripSlashes (e : Bytes) : Bytes :=
  let r := (e.reverse.dropWhile (· == 47)).reverse
  if r.isEmpty then [47] else r

/-- git's `canonicalize_ceiling_entry` + the textual prefix test of `longest_ancestor_length`: after
an empty entry the entries are used verbatim, so one with a trailing slash or `..` matches nothing -/
def gitCeilings : List Bytes → Bool → List Path
  | [], _ => []
  | e :: es, canon =>
    match e with
    | [] => gitCeilings es false
    | 47 :: _ =>
      if canon then
        (match normComps (splitSlash e) [] with | some p => [p] | none => []) ++ gitCeilings es canon
      else
        -- verbatim entry: trailing slashes are ignored by `longest_ancestor_length`, anything else that
        -- is not in normal form (`//`, `.`, `..`) cannot be a textual prefix of the physical cwd
        let e' := stripSlashes e
        (if e' == showPath ((splitSlash e').filter (· ≠ [])) ∧ ¬ (splitSlash e').any (fun c => c = [46] ∨ c = [46, 46])
         then [(splitSlash e').filter (· ≠ [])] else []) ++ gitCeilings es canon
    | _ => gitCeilings es canon

def parseNodes : Nat → List String → Option (List (Path × NodeKind))
  | 0, [] => some []
  | 0, _ :: _ => none
  | n + 1, p :: k :: rest => do
    let p ← bytesOfHex p
    let pp ← normComps (splitSlash p) []
    let kind ← (match k.splitOn ":" with
      | ["R"] => some NodeKind.repoDir
      | ["F", t] => (bytesOfHex t).map NodeKind.gitFile
      | ["W", w] => (bytesOfHex w).map NodeKind.wtGitDir
      | ["XF"] => some NodeKind.junkFile
      | ["XD"] => some NodeKind.junkDir
      | _ => none)
    let ns ← parseNodes n rest
    some ((pp, kind) :: ns)
  | _ + 1, _ => none

def showAnswer (t : Tree) (start : Path) : Res → String
  | .found lv slot =>
    match t.answer start lv slot with
    | some (g, some w) => s!"found {hexOfBytes (showPath g)} {hexOfBytes (showPath w)}"
    | some (g, none) => s!"found {hexOfBytes (showPath g)} none"
    | none => "err"
  | .notFound => "notfound"
  | .ceiling => "ceiling"
  | .fatal => "fatal"

def handle? : List String → Option String
  | kind :: cwd :: start :: ceil :: n :: rest => do
    let cwd ← bytesOfHex cwd
    let start ← bytesOfHex start
    let ceil ← bytesOfHex ceil
    let n ← n.toNat?
    let nodes ← parseNodes n rest
    let t : Tree := ⟨nodes⟩
    match absNorm cwd start with
    | none => some "err"
    | some sp =>
      let levels := t.levels sp
      if kind == "disc" then
        let mh := if ceil.isEmpty then none else ceilHeight sp (parseCeilings ceil)
        some (showAnswer t sp (gixWalk levels mh 0))
      else if kind == "gitdisc" then
        let k := if ceil.isEmpty then none else
          (longestAncestor sp (gitCeilings (splitColon ceil) true)).map fun l => sp.length - l
        match gitWalk levels k 0 with
        | .found lv slot =>
          match t.answer sp lv slot with
          | some (g, _) => some s!"found {hexOfBytes (showPath g)}"
          | none => some "err"
        | .notFound => some "notfound"
        | .ceiling => some "notfound"
        | .fatal => some "fatal"
      else none
  | _ => none

def handle (args : List String) : String := (handle? args).getD "bad-op"

end GixModel.C50
