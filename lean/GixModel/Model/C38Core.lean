import GixModel.Basic.Hex
import GixModel.Basic.AsciiCase
/-
C38 — model of gitoxide's attribute parsing and resolution.

Rust functions modelled (all in /repo):
  gix_attributes::parse::{Lines::next, parse_line, Iter::{next,parse_attr}, check_attr}   gix-attributes/src/parse.rs
  gix_quote::ansi_c::undo                                                                 gix-quote/src/ansi_c.rs
  gix_glob::parse::pattern (flags of a pattern; the *matching* is a parameter)            gix-glob/src/parse.rs
  unicode_bom::Bom::from (external crate, transcribed)                                    (only UTF-8 is honoured)
  gix_glob::search::pattern::{List::from_bytes (base), strip_base_handle_recompute_basename_pos}
  gix_attributes::search::{Attributes::bytes_to_patterns, Search::{new_globals, add_patterns_buffer/file,
      pattern_matching_relative_path}, pattern_matching_relative_path (per list)}         gix-attributes/src/search/attributes.rs
  gix_attributes::search::{MetadataCollection::update_from_list, Outcome::{initialize, initialize_with_selection,
      fill_attributes, has_unspecified_attributes, reduce_and_check_if_done, iter, iter_selected}}   …/search/outcome.rs
  gix_worktree::stack::state::Attributes::{push_directory, matching_attributes}           gix-worktree/src/stack/state/attributes.rs

What is a PARAMETER (an `Env`): `pm p rel isDir icase` — the verdict of
`gix_glob::Pattern::matches_repo_relative_path(rel, basename_pos(rel), Some(isDir), case, NO_MATCH_SLASH_LITERAL)`
for the parsed pattern `p` and the path `rel` made relative to the pattern list's base. Wildcard
matching is property C36; every theorem here holds for ANY `pm`. The driver receives the real
verdicts from the harness (which calls gix-glob) as a table.

Attribute ids (`AttributeId`, `matches_by_id`) are represented by the attribute names they are in
bijection with (`MetadataCollection::name_to_meta`); `Out.filled` is `matches_by_id` restricted to
the `Some` slots. `Out.bad` records a `usize` underflow of `remaining` (a panic with overflow checks).
-/
namespace GixModel.C38
open GixModel

/-! ### data -/

/-- `gix_attributes::State` -/
inductive St where
  | set | unset | value (v : Bytes) | unspecified
  deriving DecidableEq, Repr

/-- `gix_attributes::Assignment` -/
structure Asg where
  name : Bytes
  st : St
  deriving DecidableEq, Repr

/-- `gix_glob::Pattern` (text + `Mode` flags + `first_wildcard_pos`) -/
structure Pat where
  text : Bytes
  negative : Bool
  absolute : Bool
  mustBeDir : Bool
  noSubDir : Bool
  endsWith : Bool
  fwp : Option Nat
  deriving DecidableEq, Repr

/-- `pattern::Mode::bits()` -/
def Pat.bits (p : Pat) : Nat :=
  (if p.noSubDir then 1 else 0) + (if p.endsWith then 2 else 0) + (if p.mustBeDir then 4 else 0)
    + (if p.negative then 8 else 0) + (if p.absolute then 16 else 0)

/-- `parse::Kind` -/
inductive Kind where
  | pattern (p : Pat)
  | macro (name : Bytes)
  deriving DecidableEq, Repr

/-- one usable line of an attributes file: `pattern::Mapping<Value>` -/
structure Line where
  kind : Kind
  attrs : List Asg
  lineNo : Nat
  deriving DecidableEq, Repr

abbrev PFile := List Line

def Line.isMacro (l : Line) : Bool := match l.kind with | .macro _ => true | .pattern _ => false

/-- The matcher parameter (see the header). -/
structure Env where
  pm : Pat → Bytes → Bool → Bool → Bool

/-! ### gix_glob::parse::pattern -/

def isGlobChar (c : UInt8) : Bool := c == 42 || c == 63 || c == 91 || c == 92

def firstWildcardPos : Bytes → Option Nat
  | [] => none
  | c :: rest => if isGlobChar c then some 0 else (firstWildcardPos rest).map (· + 1)

/-- `u8::is_ascii_whitespace` -/
def isAsciiWhitespace (c : UInt8) : Bool := c == 32 || c == 9 || c == 10 || c == 12 || c == 13

/-- leading `!` / `\!` / `\#` handling (`may_alter = true`) -/
def stripNegation : Bytes → Bool × Bytes
  | 33 :: r => (true, r)
  | 92 :: 33 :: r => (false, 33 :: r)
  | 92 :: 35 :: r => (false, 35 :: r)
  | p => (false, p)

def stripAbsolute : Bytes → Bool × Bytes
  | 47 :: r => (true, r)
  | p => (false, p)

def stripMustBeDir (p : Bytes) : Bool × Bytes :=
  if p.getLast? == some 47 then (true, p.dropLast) else (false, p)

def endsWithFlag : Bytes → Bool
  | 42 :: r => (firstWildcardPos r).isNone
  | _ => false

/-- `gix_glob::Pattern::from_bytes` -/
def parsePat (raw : Bytes) : Option Pat :=
  if raw.isEmpty then none else
  let (neg, p1) := stripNegation raw
  if p1.all isAsciiWhitespace then none else
  let (abs, p2) := stripAbsolute p1
  let (mbd, p3) := stripMustBeDir p2
  some { text := p3, negative := neg, absolute := abs, mustBeDir := mbd,
         noSubDir := !p3.contains 47, endsWith := endsWithFlag p3, fwp := firstWildcardPos p3 }

/-! ### gix_quote::ansi_c::undo -/

def simpleEscape (c : UInt8) : Option UInt8 :=
  if c == 110 then some 10 else if c == 114 then some 13 else if c == 116 then some 9
  else if c == 97 then some 7 else if c == 98 then some 8 else if c == 118 then some 11
  else if c == 102 then some 12 else if c == 34 then some 34 else if c == 92 then some 92
  else none

def isOct (c : UInt8) : Bool := 48 ≤ c && c ≤ 55

def octVal (a b c : UInt8) : UInt8 :=
  UInt8.ofNat ((a.toNat - 48) * 64 + (b.toNat - 48) * 8 + (c.toNat - 48))

/-- the loop of `undo` after the opening quote: `(unquoted, bytes consumed)`; note that the end of
input without a closing quote is accepted (the `None` arm of `find_byteset`). -/
def undoBody : Bytes → Option (Bytes × Nat)
  | [] => some ([], 0)
  | 34 :: _ => some ([], 1)
  | 92 :: [] => none
  | 92 :: c :: rest =>
    match simpleEscape c with
    | some e => (undoBody rest).map fun (o, n) => (e :: o, n + 2)
    | none =>
      if 48 ≤ c && c ≤ 51 then
        match rest with
        | d1 :: d2 :: rest2 =>
          if isOct d1 && isOct d2 then (undoBody rest2).map fun (o, n) => (octVal c d1 d2 :: o, n + 4)
          else none
        | _ => none
      else none
  | b :: rest => (undoBody rest).map fun (o, n) => (b :: o, n + 1)

/-- `ansi_c::undo` on an input that starts with `"` -/
def undo (line : Bytes) : Option (Bytes × Nat) :=
  match line with
  | 34 :: rest => if rest.isEmpty then none else (undoBody rest).map fun (o, n) => (o, n + 1)
  | _ => none

/-! ### gix_attributes::parse -/

/-- `BLANKS = b" \t\r"` -/
def isBlank (b : UInt8) : Bool := b == 32 || b == 9 || b == 13

def attrChar (b : UInt8) : Bool :=
  b == 45 || b == 46 || b == 95 || (65 ≤ b && b ≤ 90) || (97 ≤ b && b ≤ 122) || (48 ≤ b && b ≤ 57)

/-- `check_attr` / `attr_valid`: non-empty, no leading `-`, only `[-._A-Za-z0-9]` -/
def attrValid (n : Bytes) : Bool :=
  !n.isEmpty && n.head? != some 45 && n.all attrChar

/-- `Iter::parse_attr` on one blank-separated token -/
def parseAttr (tok : Bytes) : Option Asg :=
  let name0 := tok.takeWhile (· != 61)
  let value : Option Bytes := if tok.contains 61 then some ((tok.dropWhile (· != 61)).drop 1) else none
  let (name, st) : Bytes × St :=
    match name0 with
    | 45 :: r => (r, St.unset)
    | 33 :: r => (r, St.unspecified)
    | _ => (name0, match value with | none => St.set | some v => St.value v)
  if attrValid name then some ⟨name, st⟩ else none

/-- maximal runs of non-blank bytes (`fields_with(BLANKS)`) -/
def fieldsAux : Bytes → Bytes → List Bytes
  | acc, [] => if acc.isEmpty then [] else [acc.reverse]
  | acc, b :: rest =>
    if isBlank b then (if acc.isEmpty then fieldsAux [] rest else acc.reverse :: fieldsAux [] rest)
    else fieldsAux (b :: acc) rest

def fields (bs : Bytes) : List Bytes := fieldsAux [] bs

def allSome {α : Type} : List (Option α) → Option (List α)
  | [] => some []
  | none :: _ => none
  | some a :: rest => (allSome rest).map (a :: ·)

/-- all assignments of a line, or `none` if one of them is invalid (the line is then dropped by
`bytes_to_patterns::into_owned_assignments`) -/
def parseAttrs (rest : Bytes) : Option (List Asg) := allSome ((fields rest).map parseAttr)

def macroPrefix : Bytes := [91, 97, 116, 116, 114, 93]   -- "[attr]"

/-- lines at or above this length are ignored (git's `ATTR_MAX_LINE_LENGTH`) -/
def maxLineLen : Nat := 2048

/-- `Lines::next` body + `parse_line` + the lenient filtering of `bytes_to_patterns` for ONE line
(already split off and stripped of its terminator). `none` = the line contributes nothing. -/
def parseLine (raw : Bytes) (no : Nat) : Option Line :=
  if raw.length ≥ maxLineLen then none else
  let line := raw.dropWhile isBlank
  if line.isEmpty then none
  else if line.head? == some 35 then none
  else
    let split : Option (Bytes × Bytes) :=
      if line.head? == some 34 then
        match undo line with
        | some (u, consumed) => some (u, line.drop consumed)
        | none => none
      else some (line.takeWhile (fun b => !isBlank b), line.dropWhile (fun b => !isBlank b))
    match split with
    | none => none
    | some (pat, rest) =>
      let kind : Option Kind :=
        if macroPrefix.isPrefixOf pat && pat.length > macroPrefix.length then
          let name := pat.drop macroPrefix.length
          if attrValid name then some (Kind.macro name) else none
        else
          match parsePat pat with
          | none => none
          | some p => if p.negative then none else some (Kind.pattern p)
      match kind, parseAttrs rest with
      | some k, some as => some ⟨k, as, no⟩
      | _, _ => none

/-- `bstr::ByteSlice::lines`: split after each `\n`; the terminator (`\n` or `\r\n`) is removed; a
final piece without `\n` is a line as is; the empty input has no lines. -/
def stripCr (l : Bytes) : Bytes := if l.getLast? == some 13 then l.dropLast else l

def splitLinesAux : Bytes → Bytes → List Bytes
  | acc, [] => if acc.isEmpty then [] else [acc.reverse]
  | acc, b :: rest =>
    if b == 10 then stripCr acc.reverse :: splitLinesAux [] rest else splitLinesAux (b :: acc) rest

def splitLines (bs : Bytes) : List Bytes := splitLinesAux [] bs

/-- only the UTF-8 byte order mark is skipped -/
def stripBom : Bytes → Bytes
  | 239 :: 187 :: 191 :: rest => rest
  | bs => bs

def parseLinesFrom : Nat → List Bytes → PFile
  | _, [] => []
  | n, l :: rest =>
    match parseLine l n with
    | some x => x :: parseLinesFrom (n + 1) rest
    | none => parseLinesFrom (n + 1) rest

/-- `Attributes::bytes_to_patterns` -/
def parseFile (bytes : Bytes) : PFile := parseLinesFrom 1 (splitLines (stripBom bytes))

/-! ### pattern lists, the metadata collection -/

/-- `pattern::List<Attributes>`: `base` is `Some("dir/")` for a `.gitattributes` below the root -/
structure PList where
  base : Option Bytes
  lines : List Line
  deriving Repr

def dropMacros (f : PFile) : PFile := f.filter fun l => !l.isMacro

/-- `MetadataCollection`: all names seen so far (index = `AttributeId`) and the macro bodies, the
most recently processed definition first -/
structure Coll where
  names : List Bytes
  macros : List (Bytes × List Asg)
  deriving Repr

def Coll.empty : Coll := ⟨[], []⟩

def Coll.addName (c : Coll) (n : Bytes) : Coll :=
  if c.names.contains n then c else { c with names := c.names ++ [n] }

def Coll.addAsgs (c : Coll) (as : List Asg) : Coll := as.foldl (fun c a => c.addName a.name) c

/-- one mapping of `update_from_list` (`id_for_macro` / `assign_order_to_attributes`) -/
def Coll.addLine (c : Coll) (l : Line) : Coll :=
  match l.kind with
  | .macro n =>
    let c := (c.addName n).addAsgs l.attrs
    { c with macros := (n, l.attrs) :: c.macros }
  | .pattern _ => c.addAsgs l.attrs

def Coll.addList (c : Coll) (pl : PList) : Coll := pl.lines.foldl Coll.addLine c

/-- the body the macro `n` expands to (empty if `n` is not a macro): the definition processed last -/
def Coll.macroOf (c : Coll) (n : Bytes) : List Asg := (c.macros.lookup n).getD []

def Coll.macroTotal (c : Coll) : Nat := (c.macros.map fun m => m.2.length).sum

/-! ### Outcome -/

structure Out where
  filled : List (Bytes × St)
  remaining : Nat
  bad : Bool
  deriving Repr

def Out.isFilled (o : Out) (n : Bytes) : Bool := (o.filled.lookup n).isSome

/-- what `Outcome::iter`/`iter_selected` report for `n` -/
def Out.get (o : Out) (n : Bytes) : St := (o.filled.lookup n).getD St.unspecified

/-- search context: the collection the outcome was initialised with and the selection
(`[]` = all attributes) -/
structure Ctx where
  coll : Coll
  sel : List Bytes

/-- `Outcome::initialize{,_with_selection}` + `reset` -/
def Out.init (cx : Ctx) : Out :=
  { filled := [], bad := false,
    remaining := if cx.sel.isEmpty then cx.coll.names.length
                 else (cx.sel.filter fun s => cx.coll.names.contains s).length }

/-- does filling `n` count towards `remaining`? (`reduce_and_check_if_done`) -/
def Ctx.counts (cx : Ctx) (n : Bytes) : Bool :=
  cx.sel.isEmpty || cx.sel.any fun s => s == n && cx.coll.names.contains s

/-- set the slot of `a` and reduce `remaining` -/
def Out.fill (cx : Ctx) (o : Out) (a : Asg) : Out :=
  if cx.counts a.name then
    { filled := (a.name, a.st) :: o.filled, remaining := o.remaining - 1, bad := o.bad || o.remaining == 0 }
  else { o with filled := (a.name, a.st) :: o.filled }

/-- the attributes pushed on `attrs_stack`: those without a match yet -/
def pushable (o : Out) (as : List Asg) : List Asg := as.filter fun a => !o.isFilled a.name

/-- the `while let Some(..) = self.attrs_stack.pop()` loop of `fill_attributes`; the stack is a list
whose head is the top. `none` = fuel exhausted (proved impossible for the fuel `fillAttributes`
supplies); the `Bool` is the function's return value ("all done"). -/
def fillLoop (cx : Ctx) : Nat → List Asg → Out → Option (Out × Bool)
  | 0, _, _ => none
  | _ + 1, [], o => some (o, false)
  | f + 1, a :: stk, o =>
    if o.isFilled a.name then fillLoop cx f stk o
    else
      let o1 := o.fill cx a
      if o1.remaining == 0 then some (o1, true)
      else if a.st = St.set then
        fillLoop cx f ((pushable o1 (cx.coll.macroOf a.name)).reverse ++ stk) o1
      else fillLoop cx f stk o1

def fillFuel (cx : Ctx) (n : Nat) : Nat := n + cx.coll.macroTotal + 1

/-- `Outcome::fill_attributes` -/
def fillAttributes (cx : Ctx) (attrs : List Asg) (o : Out) : Option (Out × Bool) :=
  let stk := (pushable o attrs).reverse
  fillLoop cx (fillFuel cx stk.length) stk o

/-- `has_unspecified_attributes` -/
def hasUnfilled (o : Out) (as : List Asg) : Bool := as.any fun a => !o.isFilled a.name

/-- the `'outer` loop of the per-list `pattern_matching_relative_path`, over the mappings in
reverse file order -/
def listLoop (env : Env) (cx : Ctx) (rel : Bytes) (isDir icase : Bool) : List Line → Out → Option Out
  | [], o => some o
  | l :: rest, o =>
    match l.kind with
    | .macro _ => listLoop env cx rel isDir icase rest o
    | .pattern p =>
      if hasUnfilled o l.attrs && env.pm p rel isDir icase then
        match fillAttributes cx l.attrs o with
        | none => none
        | some (o1, done) => if done then some o1 else listLoop env cx rel isDir icase rest o1
      else listLoop env cx rel isDir icase rest o

/-- `strip_base_handle_recompute_basename_pos` (the path part) -/
def stripBase (base path : Bytes) (icase : Bool) : Option Bytes :=
  if icase then
    if base.length ≤ path.length && eqIgnoreCase (path.take base.length) base then some (path.drop base.length)
    else none
  else if base.isPrefixOf path then some (path.drop base.length) else none

def listMatch (env : Env) (cx : Ctx) (path : Bytes) (isDir icase : Bool) (pl : PList) (o : Out) : Option Out :=
  let rel : Option Bytes := match pl.base with
    | none => some path
    | some b => stripBase b path icase
  match rel with
  | none => some o
  | some rel => listLoop env cx rel isDir icase pl.lines.reverse o

/-- `Search::pattern_matching_relative_path`: `lists` is `self.patterns.iter().rev()` -/
def searchLoop (env : Env) (cx : Ctx) (path : Bytes) (isDir icase : Bool) : List PList → Out → Option Out
  | [], o => some o
  | pl :: rest, o =>
    match listMatch env cx path isDir icase pl o with
    | none => none
    | some o1 => if o1.remaining == 0 then some o1 else searchLoop env cx path isDir icase rest o1

def search (env : Env) (cx : Ctx) (path : Bytes) (isDir icase : Bool) (lists : List PList) (o : Out) : Option Out :=
  searchLoop env cx path isDir icase lists.reverse o

/-- `Attributes::matching_attributes`: `groups.iter().rev().any(..)` — `groups` is given in the
order they are consulted -/
def groupsLoop (env : Env) (cx : Ctx) (path : Bytes) (isDir icase : Bool) : List (List PList) → Out → Option Out
  | [], o => some o
  | g :: rest, o =>
    match search env cx path isDir icase g o with
    | none => none
    | some o1 => if o1.remaining == 0 then some o1 else groupsLoop env cx path isDir icase rest o1

/-! ### the worktree stack -/

/-- the attribute files of a repository, parsed: global files (system, user… in the order given to
`Search::new_globals`), `$GIT_DIR/info/attributes`, and the `.gitattributes` of every directory
(`[]` is the root) -/
structure PTree where
  globals : List PFile
  info : Option PFile
  dirs : Bytes → Option PFile

/-- `[attr]binary -diff -merge -text` -/
def builtin : PFile :=
  [⟨Kind.macro [98, 105, 110, 97, 114, 121],
    [⟨[100, 105, 102, 102], St.unset⟩, ⟨[109, 101, 114, 103, 101], St.unset⟩, ⟨[116, 101, 120, 116], St.unset⟩], 1⟩]

/-- the proper ancestor directories of a `/`-separated relative path, shallowest first
(`"a/b/c"` ↦ `["a", "a/b"]`) — the directories `gix_fs::Stack` pushes -/
def ancestorsAux : Bytes → Bytes → List Bytes
  | _, [] => []
  | acc, b :: rest =>
    if b == 47 then acc.reverse :: ancestorsAux (b :: acc) rest else ancestorsAux (b :: acc) rest

def ancestors (path : Bytes) : List Bytes := ancestorsAux [] path

/-- `Search::new_globals` -/
def globalsGroup (t : PTree) : List PList := ⟨none, builtin⟩ :: t.globals.map fun f => ⟨none, f⟩

/-- the lists `push_directory` added for the root and for every ancestor directory of `path`
(a directory without a file contributes an empty dummy list) -/
def stackGroup (t : PTree) (path : Bytes) : List PList :=
  (match t.dirs [] with | some f => [⟨none, f⟩] | none => [])
  ++ (ancestors path).filterMap fun d => (t.dirs d).map fun f => ⟨some (d ++ [47]), dropMacros f⟩

def infoGroup (t : PTree) : List PList := match t.info with | some f => [⟨none, f⟩] | none => []

/-- the collection after loading everything a fresh stack reads on its way to `path` -/
def collFor (t : PTree) (path : Bytes) : Coll :=
  (globalsGroup t ++ stackGroup t path ++ infoGroup t).foldl Coll.addList Coll.empty

/-- `Stack::at_entry(path).matching_attributes(out)` on a fresh stack with a fresh outcome -/
def resolveOut (env : Env) (t : PTree) (path : Bytes) (isDir icase : Bool) (sel : List Bytes) : Option Out :=
  let cx : Ctx := ⟨collFor t path, sel⟩
  groupsLoop env cx path isDir icase [infoGroup t, stackGroup t path, globalsGroup t] (Out.init cx)

/-- the state reported for attribute `a` (`none` would be fuel exhaustion / never happens) -/
def resolve (env : Env) (t : PTree) (path : Bytes) (isDir icase : Bool) (sel : List Bytes) (a : Bytes) : Option St :=
  (resolveOut env t path isDir icase sel).map fun o => o.get a

end GixModel.C38
