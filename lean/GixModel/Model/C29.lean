import GixModel.Basic.Hex
import GixModel.Extracted.PacketlineConsts
/-
C29 — model of gix-packetline (blocking-io flavour).

Rust functions modelled (all under /repo/gix-packetline/src):
  encode::{u16_to_hex, prefixed_and_suffixed_data_to_write, data/text/error/band_to_write,
           flush/delim/response_end_to_write}                       encode/{mod,blocking_io}.rs
  decode::{hex_prefix, to_data_line, streaming, all_at_once}         decode.rs
  PacketLineRef::{as_slice, check_error, as_text, decode_band}, TextRef::from      line/mod.rs
  StreamingPeekableIter::{read_line_inner, read_line_inner_exhaustive, read_line, peek_line}
                                                                     read/blocking_io.rs
  WithSidebands::{fill_buf, consume, read}                           read/sidebands/blocking_io.rs
  Writer::write                                                      write/blocking_io.rs
The wire constants are NOT transcribed by hand: `consts` is built from `Extracted.pl*`, regenerated
from lib.rs on every run; every function takes the constants as a parameter so that the theorems
are generic in them (side condition `ConstsOk`, decidable).

Every Rust panic site on these paths is an explicit `panic` outcome: `debug_assert!`s in
`hex_prefix`, `split_at_mut` in `read_line_inner`, the `expect("only valid data …")`s, `d[0]` in
`decode_band`, the `buf[pos..cap]` slice in `fill_buf`. (Modelled after the two `fix:` commits
recorded in known-findings.txt: oversized prefixes are rejected before `split_at_mut`, and
`TextRef::from` accepts an empty slice.) The progress handler is modelled by the index of the
call it answers with `Interrupt` (`SB.interruptAt`).
`std::io::Read::read_exact` is modelled over a reader that hands out the stream in arbitrary
non-empty chunks (`List Bytes`); `faster_hex::hex_decode` is modelled as any-case hex (tied by the
correspondence sweep over all 65 536 four-digit prefixes and non-hex bytes).
-/
namespace GixModel.C29
open GixModel

structure Consts where
  u16HexBytes : Nat
  maxDataLen : Nat
  maxLineLen : Nat
  flushLine : Bytes
  delimLine : Bytes
  responseEndLine : Bytes
  errPrefix : Bytes
  chData : Nat
  chProgress : Nat
  chError : Nat
  deriving Repr, DecidableEq

/-- today's constants, as extracted from `lib.rs` -/
def consts : Consts :=
  { u16HexBytes := Extracted.plU16HexBytes
    maxDataLen := Extracted.plMaxDataLen
    maxLineLen := Extracted.plMaxLineLen
    flushLine := Extracted.plFlushLine
    delimLine := Extracted.plDelimiterLine
    responseEndLine := Extracted.plResponseEndLine
    errPrefix := Extracted.plErrPrefix
    chData := Extracted.plChannelData
    chProgress := Extracted.plChannelProgress
    chError := Extracted.plChannelError }

/-! ### hex -/

/-- `faster_hex::hex_encode` digit (lower case) -/
def hexDigitLower (d : Nat) : UInt8 := if d < 10 then UInt8.ofNat (48 + d) else UInt8.ofNat (87 + d)

/-- `encode::u16_to_hex(value)`; the caller's `as u16` cast is the `% 65536` at the call site -/
def u16ToHex (v : Nat) : Bytes :=
  [hexDigitLower (v / 4096 % 16), hexDigitLower (v / 256 % 16), hexDigitLower (v / 16 % 16),
   hexDigitLower (v % 16)]

/-- one nibble of `faster_hex::hex_decode` (accepts both cases) -/
def hexVal8 (b : UInt8) : Option Nat :=
  if 48 ≤ b.toNat ∧ b.toNat ≤ 57 then some (b.toNat - 48)
  else if 97 ≤ b.toNat ∧ b.toNat ≤ 102 then some (b.toNat - 87)
  else if 65 ≤ b.toNat ∧ b.toNat ≤ 70 then some (b.toNat - 55)
  else none

/-- `hex_decode(four_bytes, &mut [0u8; 2])` followed by `u16::from_be_bytes` -/
def hexDecode4 : Bytes → Option Nat
  | [a, b, c, d] =>
    match hexVal8 a, hexVal8 b, hexVal8 c, hexVal8 d with
    | some a, some b, some c, some d => some (a * 4096 + b * 256 + c * 16 + d)
    | _, _, _, _ => none
  | _ => none

/-! ### encode -/

inductive EncErr
  | tooLong (n : Nat)
  | empty
  deriving Repr, DecidableEq

/-- `prefixed_and_suffixed_data_to_write`: the bytes written and the returned count -/
def encode (c : Consts) (pre data suf : Bytes) : Except EncErr (Nat × Bytes) :=
  let n := pre.length + data.length + suf.length
  if n > c.maxDataLen then .error (.tooLong n)
  else if data.isEmpty then .error .empty
  else .ok (n + 4, u16ToHex ((n + 4) % 65536) ++ pre ++ data ++ suf)

def encData (c : Consts) (d : Bytes) := encode c [] d []
def encText (c : Consts) (t : Bytes) := encode c [] t [10]
def encError (c : Consts) (m : Bytes) := encode c c.errPrefix m []
/-- `band_to_write(kind, data)`; `kind as u8` is the channel discriminant -/
def encBand (c : Consts) (kind : Nat) (d : Bytes) := encode c [UInt8.ofNat kind] d []

/-! ### decode -/

inductive Line
  | flush
  | delim
  | responseEnd
  | data (bs : Bytes)
  deriving Repr, DecidableEq

/-- `PacketLineRef::write_to` -/
def encLine (c : Consts) : Line → Except EncErr (Nat × Bytes)
  | .flush => .ok (4, c.flushLine)
  | .delim => .ok (4, c.delimLine)
  | .responseEnd => .ok (4, c.responseEndLine)
  | .data d => encData c d

/-- the bytes `PacketLineRef::write_to` puts on the wire (nothing when the encoder refuses) -/
def wire (c : Consts) (l : Line) : Bytes :=
  match encLine c l with
  | .ok (_, bs) => bs
  | .error _ => []

/-- the lines the encoder accepts: control lines, and data of 1..MAX_DATA_LEN bytes -/
def Line.Valid (c : Consts) : Line → Prop
  | .data d => d ≠ [] ∧ d.length ≤ c.maxDataLen
  | _ => True

inductive DErr
  | hexDecode
  | tooLong (n : Nat)
  | empty
  | invalidLen
  | notEnough (n : Nat)
  deriving Repr, DecidableEq

inductive Out (α : Type)
  | ok (a : α)
  | err (e : DErr)
  | panic
  deriving Repr, DecidableEq

inductive Pfx
  | line (l : Line)
  | wanted (n : Nat)
  deriving Repr, DecidableEq

/-- `decode::hex_prefix` (built with debug assertions, as the harness is) -/
def hexPrefix (c : Consts) (four : Bytes) : Out Pfx :=
  if four.length ≠ 4 then .panic                      -- debug_assert_eq!(four_bytes.len(), 4)
  else if four = c.flushLine then .ok (.line .flush)
  else if four = c.delimLine then .ok (.line .delim)
  else if four = c.responseEndLine then .ok (.line .responseEnd)
  else match hexDecode4 four with
    | none => .err .hexDecode
    | some w =>
      if w = 3 then .err .invalidLen
      else if w = 4 then .err .empty
      else if ¬ (w > c.u16HexBytes) then .panic       -- debug_assert!(wanted > U16_HEX_BYTES); u16 `-` underflow
      else .ok (.wanted (w - c.u16HexBytes))

/-- `decode::to_data_line` -/
def toDataLine (c : Consts) (d : Bytes) : Out Line :=
  if d.length > c.maxLineLen then .err (.tooLong d.length) else .ok (.data d)

inductive Stream
  | complete (l : Line) (consumed : Nat)
  | incomplete (needed : Nat)
  deriving Repr, DecidableEq

/-- `decode::streaming` -/
def streaming (c : Consts) (data : Bytes) : Out Stream :=
  if data.length < c.u16HexBytes then .ok (.incomplete (c.u16HexBytes - data.length))
  else match hexPrefix c (data.take c.u16HexBytes) with
    | .panic => .panic
    | .err e => .err e
    | .ok (.line l) => .ok (.complete l 4)
    | .ok (.wanted s) =>
      let w := s + c.u16HexBytes
      if w > c.maxLineLen then .err (.tooLong w)
      else if data.length < w then .ok (.incomplete (w - data.length))
      else match toDataLine c ((data.take w).drop c.u16HexBytes) with
        | .ok l => .ok (.complete l w)
        | .err e => .err e
        | .panic => .panic

/-- `decode::all_at_once` (= `gix_packetline::decode`) -/
def allAtOnce (c : Consts) (data : Bytes) : Out Line :=
  match streaming c data with
  | .ok (.complete l _) => .ok l
  | .ok (.incomplete n) => .err (.notEnough n)
  | .err e => .err e
  | .panic => .panic

/-! ### line accessors -/

def Line.asSlice : Line → Option Bytes
  | .data d => some d
  | _ => none

/-- `PacketLineRef::check_error` -/
def checkError (c : Consts) (l : Line) : Option Bytes :=
  match l.asSlice with
  | none => none
  | some d =>
    if d.length ≥ c.errPrefix.length ∧ d.take c.errPrefix.length = c.errPrefix
    then some (d.drop c.errPrefix.length) else none

/-- `TextRef::from(d)`: one trailing newline is dropped (`d.last() == Some(&b'\n')`) -/
def textFrom (d : Bytes) : Bytes :=
  if d.getLast? = some 10 then d.dropLast else d

/-- `PacketLineRef::as_text` -/
def asText (l : Line) : Option Bytes := l.asSlice.map textFrom

inductive BandRes
  | nonData
  | invalid (id : Nat)
  | band (kind : Nat) (d : Bytes)
  | panic
  deriving Repr, DecidableEq

/-- `PacketLineRef::decode_band` (the match arms are the literals 1, 2, 3 in the source) -/
def decodeBand (l : Line) : BandRes :=
  match l.asSlice with
  | none => .nonData
  | some [] => .panic                                 -- d[0]
  | some (b :: rest) =>
    if b = 1 then .band 1 rest
    else if b = 2 then .band 2 rest
    else if b = 3 then .band 3 rest
    else .invalid b.toNat

/-! ### the chunked reader and `read_exact` -/

/-- `std::io::Read::read_exact(buf)` with `buf.len() = n` over a reader that returns the stream
in the given chunks (each `read` call returns at most the rest of the current chunk). `none` is
`ErrorKind::UnexpectedEof`. -/
def readExact : List Bytes → Nat → Option Bytes × List Bytes
  | [], n => if n = 0 then (some [], []) else (none, [])
  | ch :: cs, n =>
    if n = 0 then (some [], ch :: cs)
    else if ch.length ≤ n then
      let r := readExact cs (n - ch.length)
      (r.1.map (ch ++ ·), r.2)
    else (some (ch.take n), ch.drop n :: cs)

inductive RLI
  | io
  | line (l : Line)
  | dec (e : DErr)
  | panic
  deriving Repr, DecidableEq

/-- `StreamingPeekableIter::read_line_inner(reader, buf)` with `buf.len() = bufLen`; returns the
outcome, the reader afterwards and the bytes now at the front of `buf` (prefix and data). -/
def readLineInner (c : Consts) (src : List Bytes) (bufLen : Nat) : RLI × List Bytes × Bytes :=
  if bufLen < 4 then (.panic, src, [])                 -- buf.split_at_mut(4)
  else match readExact src 4 with
    | (none, src1) => (.io, src1, [])
    | (some four, src1) =>
      match hexPrefix c four with
      | .panic => (.panic, src1, four)
      | .err e => (.dec e, src1, four)
      | .ok (.line l) => (.line l, src1, four)
      | .ok (.wanted n) =>
        if n + c.u16HexBytes > c.maxLineLen then
          (.dec (.tooLong (n + c.u16HexBytes)), src1, four)
        else if n > bufLen - 4 then (.panic, src1, four) -- data_bytes.split_at_mut(num_data_bytes)
        else match readExact src1 n with
          | (none, src2) => (.io, src2, four)
          | (some d, src2) =>
            match toDataLine c d with
            | .ok l => (.line l, src2, four ++ d)
            | .err e => (.dec e, src2, four ++ d)
            | .panic => (.panic, src2, four ++ d)

/-- what `read_line` / `peek_line` hand to the caller -/
inductive Res
  | none                         -- `None`: iteration stopped
  | io                           -- `Some(Err(UnexpectedEof))`
  | errLine (msg : Bytes)        -- `Some(Err(io::Error(Other, read::Error{message})))`
  | dec (e : DErr)               -- `Some(Ok(Err(e)))`
  | line (l : Line)              -- `Some(Ok(Ok(l)))`
  | panic
  deriving Repr, DecidableEq

/-- A `Vec<u8>` line buffer: `len` is `buf.len()`, `front` its first bytes (the line last read
into it). The bytes behind `front` are stale data or zero fill and are not modelled: the decoder
never looks behind a complete line (`Props.C29.decode_ignores_trailing`). -/
structure Buf where
  front : Bytes
  len : Nat
  deriving Repr, DecidableEq

/-- `Vec::clear` -/
def Buf.clear : Buf := ⟨[], 0⟩

/-- `Vec::resize(n, 0)` -/
def Buf.resize (b : Buf) (n : Nat) : Buf := ⟨b.front.take n, n⟩

/-- `line.as_slice().map_or(U16_HEX_BYTES, |s| s.len() + U16_HEX_BYTES)` -/
def lineLen (c : Consts) (l : Line) : Nat :=
  match l.asSlice with
  | some s => s.length + c.u16HexBytes
  | none => c.u16HexBytes

structure Exh where
  isDone : Bool
  stoppedAt : Option Line
  res : Res
  src : List Bytes
  buf : Buf

/-- `read_line_inner_exhaustive` -/
def readLineInnerExhaustive (c : Consts) (src : List Bytes) (buf : Buf) (delims : List Line)
    (failOnErr bufResize : Bool) : Exh :=
  match readLineInner c src buf.len with
  | (.panic, src1, front) => ⟨false, none, .panic, src1, ⟨front, buf.len⟩⟩
  | (.io, src1, _) => ⟨false, none, .io, src1, Buf.clear⟩
  | (.dec e, src1, _) => ⟨false, none, .dec e, src1, Buf.clear⟩
  | (.line l, src1, front) =>
    if delims.contains l then ⟨true, delims.find? (· == l), .none, src1, Buf.clear⟩
    else match (if failOnErr then checkError c l else none) with
      | some msg => ⟨true, none, .errLine msg, src1, Buf.clear⟩
      | none =>
        let buf1 : Buf := ⟨front, buf.len⟩
        let buf2 := if bufResize then buf1.resize (lineLen c l) else buf1
        match allAtOnce c buf2.front with
        | .ok l2 => ⟨false, none, .line l2, src1, buf2⟩
        | _ => ⟨false, none, .panic, src1, buf2⟩      -- .expect("only valid data here")

structure Reader where
  src : List Bytes
  buf : Buf
  peekBuf : Buf
  isDone : Bool
  stoppedAt : Option Line
  failOnErr : Bool
  delims : List Line

/-- `StreamingPeekableIter::new(read, delimiters, _)` + `fail_on_err_lines(f)` -/
def Reader.new (c : Consts) (src : List Bytes) (delims : List Line) (failOnErr : Bool) : Reader :=
  { src, buf := ⟨[], c.maxLineLen⟩, peekBuf := Buf.clear, isDone := false, stoppedAt := none,
    failOnErr, delims }

/-- `read_line` -/
def readLine (c : Consts) (r : Reader) : Res × Reader :=
  if r.isDone then (.none, r)
  else if r.peekBuf.len ≠ 0 then                       -- !self.peek_buf.is_empty(): swap, clear
    let r1 := { r with buf := r.peekBuf, peekBuf := Buf.clear }
    match allAtOnce c r1.buf.front with
    | .ok l => (.line l, r1)
    | _ => (.panic, r1)                                -- .expect("only valid data in peek buf")
  else
    let buf := if r.buf.len ≠ c.maxLineLen then r.buf.resize c.maxLineLen else r.buf
    let e := readLineInnerExhaustive c r.src buf r.delims r.failOnErr false
    (e.res, { r with src := e.src, buf := e.buf, isDone := e.isDone, stoppedAt := e.stoppedAt })

/-- `peek_line` -/
def peekLine (c : Consts) (r : Reader) : Res × Reader :=
  if r.isDone then (.none, r)
  else if r.peekBuf.len = 0 then
    let e := readLineInnerExhaustive c r.src (r.peekBuf.resize c.maxLineLen) r.delims r.failOnErr true
    (e.res, { r with src := e.src, peekBuf := e.buf, isDone := e.isDone, stoppedAt := e.stoppedAt })
  else match allAtOnce c r.peekBuf.front with
    | .ok l => (.line l, r)
    | _ => (.panic, r)

/-- does a `read_line` result end a "read everything" loop? (`None`, any io error, a panic) -/
def Res.terminal : Res → Bool
  | .none | .io | .errLine _ | .panic => true
  | _ => false

/-- call `read_line` until it returns a terminal result; all results in order -/
def readAll (c : Consts) : Nat → Reader → List Res × Reader
  | 0, r => ([], r)
  | fuel + 1, r =>
    let x := readLine c r
    if x.1.terminal then ([x.1], x.2)
    else
      let xs := readAll c fuel x.2
      (x.1 :: xs.1, xs.2)

def srcLen (src : List Bytes) : Nat := (src.map List.length).sum

/-- enough fuel for `readAll`: every non-terminal call consumes ≥ 4 bytes or the peeked line -/
def readAllFuel (r : Reader) : Nat := srcLen r.src + 2

/-- one call on the reader: `read_line`, `peek_line`, or `read_line` until a terminal result -/
inductive Call
  | read
  | peek
  | all
  deriving Repr, DecidableEq

/-- one call; every result is tagged with whether it came from `peek_line` -/
def callStep (c : Consts) : Call → Reader → List (Bool × Res) × Reader
  | .read, r => ([(false, (readLine c r).1)], (readLine c r).2)
  | .peek, r => ([(true, (peekLine c r).1)], (peekLine c r).2)
  | .all, r => ((readAll c (readAllFuel r) r).1.map fun z => (false, z), (readAll c (readAllFuel r) r).2)

/-- a sequence of calls; a panic ends the sequence (there is nothing after a panic) -/
def runCalls (c : Consts) : List Call → Reader → List (Bool × Res) × Reader
  | [], r => ([], r)
  | k :: ks, r =>
    let x := callStep c k r
    if x.1.any (fun z => z.2 == Res.panic) then x
    else
      let xs := runCalls c ks x.2
      (x.1 ++ xs.1, xs.2)

/-! ### side bands -/

inductive SBErr
  | io
  | errLine (msg : Bytes)
  | dec (e : DErr)
  | nonData              -- band::Error::NonDataLine
  | invalidBand (id : Nat)
  | notDataLine          -- "encountered non-data line in a data-line only context"
  | interrupted          -- the progress handler answered `ProgressAction::Interrupt`
  deriving Repr, DecidableEq

structure SB where
  r : Reader
  handler : Bool                 -- `handle_progress.is_some()`
  pos : Nat
  cap : Nat
  log : List (Bool × Bytes)      -- handler calls `(is_error, text)`, oldest first
  /-- the handler answers `Interrupt` to its call number `k` (counting from 0) and `Continue` to
  every other call; `none`: it always answers `Continue` -/
  interruptAt : Option Nat := none

inductive Fill
  | ok (ofs cap : Nat)
  | err (e : SBErr)
  | panic
  deriving Repr, DecidableEq

/-- the `loop` inside `fill_buf` -/
def fillLoop (c : Consts) (intr : Option Nat) : Nat → Reader → Bool → List (Bool × Bytes) →
    Fill × Reader × List (Bool × Bytes)
  | 0, r, _, log => (.panic, r, log)   -- out of fuel: never reached (`fillFuel`), made loud on purpose
  | fuel + 1, r, handler, log =>
    match readLine c r with
    | (.none, r1) => (.ok 0 0, r1, log)
    | (.io, r1) => (.err .io, r1, log)
    | (.errLine m, r1) => (.err (.errLine m), r1, log)
    | (.dec e, r1) => (.err (.dec e), r1, log)
    | (.panic, r1) => (.panic, r1, log)
    | (.line l, r1) =>
      if handler then
        match decodeBand l with
        | .nonData => (.err .nonData, r1, log)
        | .invalid id => (.err (.invalidBand id), r1, log)
        | .panic => (.panic, r1, log)
        | .band k d =>
          if k = 1 then
            if d.isEmpty then fillLoop c intr fuel r1 handler log
            else (.ok (c.u16HexBytes + 1) d.length, r1, log)
          else if intr = some log.length then
            (.err .interrupted, r1, log ++ [(k == 3, textFrom d)])   -- the handler saw the text, then said Interrupt
          else fillLoop c intr fuel r1 handler (log ++ [(k == 3, textFrom d)])
      else match l.asSlice with
        | some d => (.ok c.u16HexBytes d.length, r1, log)
        | none => (.err .notDataLine, r1, log)

inductive FillBuf
  | ok (bs : Bytes)
  | err (e : SBErr)
  | panic
  deriving Repr, DecidableEq

def fillFuel (r : Reader) : Nat := srcLen r.src + 2

/-- `&self.parent.buf[self.pos..self.cap]`: a slice panic when out of range; reaching behind the
modelled front of the buffer is reported as `panic` too (it never happens) -/
def bufSlice (b : Buf) (pos cap : Nat) : FillBuf :=
  if pos ≤ cap ∧ cap ≤ b.len ∧ cap ≤ b.front.length then .ok ((b.front.take cap).drop pos)
  else .panic

/-- `BufRead::fill_buf` -/
def fillBuf (c : Consts) (s : SB) : FillBuf × SB :=
  if s.pos ≥ s.cap then
    match fillLoop c s.interruptAt (fillFuel s.r) s.r s.handler s.log with
    | (.panic, r1, log) => (.panic, { s with r := r1, log })
    | (.err e, r1, log) => (.err e, { s with r := r1, log })
    | (.ok ofs cap, r1, log) =>
      let s1 := { s with r := r1, log, cap := cap + ofs, pos := ofs }
      (bufSlice r1.buf s1.pos s1.cap, s1)
  else (bufSlice s.r.buf s.pos s.cap, s)

/-- `Read::read(buf)` with `buf.len() = n` -/
def sbRead (c : Consts) (s : SB) (n : Nat) : FillBuf × SB :=
  match fillBuf c s with
  | (.ok rem, s1) =>
    let out := rem.take n
    (.ok out, { s1 with pos := min (s1.pos + out.length) s1.cap })
  | x => x

inductive DrainEnd
  | eof                  -- a `read` with a non-empty buffer returned `Ok(0)`
  | sizes                -- ran out of `read` calls
  | err (e : SBErr)
  | panic
  deriving Repr, DecidableEq

/-- successive `read` calls with the given buffer sizes until one returns 0 bytes or fails -/
def drain (c : Consts) : SB → List Nat → Bytes → Bytes × DrainEnd × SB
  | s, [], acc => (acc, .sizes, s)
  | s, n :: ns, acc =>
    match sbRead c s n with
    | (.panic, s1) => (acc, .panic, s1)
    | (.err e, s1) => (acc, .err e, s1)
    | (.ok out, s1) => if out.isEmpty then (acc, .eof, s1) else drain c s1 ns (acc ++ out)

/-- `BufRead::consume(amt)`: `self.pos = min(self.pos + amt, self.cap)`; `none` is the overflow of
`self.pos + amt` in usize (a panic with overflow checks). The `BufRead` contract asks for
`amt ≤` the length of the slice `fill_buf` returned, which is far below that. -/
def sbConsume (s : SB) (amt : Nat) : Option SB :=
  if s.pos + amt ≥ 18446744073709551616 then none
  else some { s with pos := min (s.pos + amt) s.cap }

/-- `std::str::from_utf8(bytes).is_ok()` (external: core's validator, tied by correspondence) -/
def validUtf8 (bs : Bytes) : Bool := ByteArray.validateUTF8 ⟨bs.toArray⟩

/-- `WithSidebands::peek_data_line()`: the parent's `peek_line`, data lines only; everything that
is not a data line, an error or an io error is `None` -/
def sbPeekDataLine (c : Consts) (s : SB) : Res × SB :=
  match peekLine c s.r with
  | (.line (.data d), r1) => (.line (.data d), { s with r := r1 })
  | (.line _, r1) => (.none, { s with r := r1 })
  | (x, r1) => (x, { s with r := r1 })

/-- `WithSidebands::read_data_line()`: `assert_eq!(self.cap, 0)`, then the parent's `read_line` -/
def sbReadDataLine (c : Consts) (s : SB) : Res × SB :=
  if s.cap ≠ 0 then (.panic, s)
  else ((readLine c s.r).1, { s with r := (readLine c s.r).2 })

inductive StrRes
  | ok (bs : Bytes)      -- the bytes pushed onto the `String`
  | utf8                 -- `io::Error(Other, Utf8Error)`
  | err (e : SBErr)
  | panic
  deriving Repr, DecidableEq

/-- `WithSidebands::read_line_to_string(buf)`: `assert_eq!(self.cap, 0)`, one `fill_buf`, UTF-8
check, `self.cap = 0` (only) on success -/
def sbReadLineToString (c : Consts) (s : SB) : StrRes × SB :=
  if s.cap ≠ 0 then (.panic, s)
  else match fillBuf c s with
    | (.panic, s1) => (.panic, s1)
    | (.err e, s1) => (.err e, s1)
    | (.ok bs, s1) => if validUtf8 bs then (.ok bs, { s1 with cap := 0 }) else (.utf8, s1)

/-- one call on `WithSidebands` -/
inductive SBCall
  | fill                 -- `fill_buf()`
  | consume (amt : Nat)  -- `consume(amt)`
  | read (n : Nat)       -- `read(&mut [0; n])`
  | peekData             -- `peek_data_line()`
  | readData             -- `read_data_line()`
  | readString           -- `read_line_to_string(&mut String::new())`
  deriving Repr, DecidableEq

/-- what a call returned -/
inductive SBObs
  | bytes (bs : Bytes)   -- `Ok(slice)` of `fill_buf` / the bytes `read` copied / the string read
  | consumed
  | line (x : Res)       -- what `peek_data_line` / `read_data_line` returned
  | utf8
  | err (e : SBErr)
  | panic
  deriving Repr, DecidableEq

def sbCall (c : Consts) (s : SB) : SBCall → SBObs × SB
  | .fill =>
    match fillBuf c s with
    | (.ok bs, s1) => (.bytes bs, s1)
    | (.err e, s1) => (.err e, s1)
    | (.panic, s1) => (.panic, s1)
  | .consume amt =>
    match sbConsume s amt with
    | some s1 => (.consumed, s1)
    | none => (.panic, s)
  | .read n =>
    match sbRead c s n with
    | (.ok bs, s1) => (.bytes bs, s1)
    | (.err e, s1) => (.err e, s1)
    | (.panic, s1) => (.panic, s1)
  | .peekData =>
    match sbPeekDataLine c s with
    | (.panic, s1) => (.panic, s1)
    | (x, s1) => (.line x, s1)
  | .readData =>
    match sbReadDataLine c s with
    | (.panic, s1) => (.panic, s1)
    | (x, s1) => (.line x, s1)
  | .readString =>
    match sbReadLineToString c s with
    | (.ok bs, s1) => (.bytes bs, s1)
    | (.utf8, s1) => (.utf8, s1)
    | (.err e, s1) => (.err e, s1)
    | (.panic, s1) => (.panic, s1)

/-- a sequence of calls; a panic ends it -/
def runSB (c : Consts) : List SBCall → SB → List SBObs × SB
  | [], s => ([], s)
  | k :: ks, s =>
    let x := sbCall c s k
    if x.1 = .panic then ([x.1], x.2)
    else
      let xs := runSB c ks x.2
      (x.1 :: xs.1, xs.2)

/-! ### Writer -/

/-- the `while` loop of `Writer::write`; returns the bytes handed to the inner writer and whether
the call succeeded -/
def writerLoop (c : Consts) (binary : Bool) : Nat → Bytes → Bytes → Bytes × Bool
  | 0, _, out => (out, false)                        -- out of fuel: never reached, made loud
  | fuel + 1, buf, out =>
    if buf.isEmpty then (out, true)
    else
      let k := min buf.length c.maxDataLen
      match (if binary then encData c (buf.take k) else encText c (buf.take k)) with
      | .error _ => (out, false)
      | .ok (_, bs) => writerLoop c binary fuel (buf.drop k) (out ++ bs)

/-- `Writer::write(buf)`; a successful call always reports `buf.len()` bytes as written -/
def writerWrite (c : Consts) (binary : Bool) (buf : Bytes) : Bytes × Bool :=
  if buf.isEmpty then ([], false) else writerLoop c binary (buf.length + 1) buf []

/-- `Write::write_all(buf)` on a `Writer`: no call at all for an empty buffer, else one `write` -/
def writerWriteAll (c : Consts) (binary : Bool) (buf : Bytes) : Bytes × Bool :=
  if buf.isEmpty then ([], true) else writerWrite c binary buf

/-! ### driver -/

def fnv64 (bs : Bytes) : UInt64 :=
  bs.foldl (fun h b => (h ^^^ b.toUInt64) * 0x100000001b3) 0xcbf29ce484222325

def hex64 (v : UInt64) : String :=
  String.ofList ((List.range 16).map fun i => hexDigit ((v.toNat / 16 ^ (15 - i)) % 16))

/-- canonical rendering of a byte string: hex up to 64 bytes, else length and FNV-1a -/
def bobs (bs : Bytes) : String :=
  if bs.length ≤ 64 then hexOfBytes bs else s!"{bs.length}:{hex64 (fnv64 bs)}"

def cycleTo (pat : Bytes) (n : Nat) : Bytes :=
  if pat.isEmpty then [] else (List.range n).map fun i => pat.getD (i % pat.length) 0

/-- one `+`-separated part: hex, or `x<count>:<hex pattern>` (pattern repeated to `count` bytes) -/
def bytesPart? (s : String) : Option Bytes :=
  match s.toList with
  | 'x' :: rest =>
    match (String.ofList rest).splitOn ":" with
    | [n, pat] => do
      let n ← n.toNat?
      let pat ← bytesOfHex pat
      if pat.isEmpty then none else some (cycleTo pat n)
    | _ => none
  | _ => bytesOfHex s

/-- one part of a `<stream>` argument: raw bytes, or a line written by the (model) encoder:
`F D R d.<bytes> t.<bytes> e.<bytes> 1.<bytes> 2.<bytes> 3.<bytes>`; a line the encoder refuses
contributes nothing -/
def streamPart? (c : Consts) (s : String) : Option Bytes :=
  let enc (r : Except EncErr (Nat × Bytes)) : Bytes := match r with | .ok (_, bs) => bs | .error _ => []
  match s.toList with
  | ['F'] => some (enc (encLine c .flush))
  | ['D'] => some (enc (encLine c .delim))
  | ['R'] => some (enc (encLine c .responseEnd))
  | k :: '.' :: rest => do
    let d ← bytesPart? (String.ofList rest)
    if k == 'd' then some (enc (encData c d))
    else if k == 't' then some (enc (encText c d))
    else if k == 'e' then some (enc (encError c d))
    else if k == '1' then some (enc (encBand c c.chData d))
    else if k == '2' then some (enc (encBand c c.chProgress d))
    else if k == '3' then some (enc (encBand c c.chError d))
    else none
  | _ => bytesPart? s

def streamArg? (c : Consts) (s : String) : Option Bytes :=
  (s.splitOn "+").foldl (fun acc p => do
    let a ← acc
    let b ← streamPart? c p
    some (a ++ b)) (some [])

def derrObs : DErr → String
  | .hexDecode => "hex"
  | .tooLong n => s!"toolong:{n}"
  | .empty => "empty"
  | .invalidLen => "len3"
  | .notEnough n => s!"need:{n}"

def lineObs : Line → String
  | .flush => "F"
  | .delim => "D"
  | .responseEnd => "R"
  | .data d => s!"d:{bobs d}"

def encObs : Except EncErr (Nat × Bytes) → String
  | .error (.tooLong n) => s!"err:toolong:{n}"
  | .error .empty => "err:empty"
  | .ok (n, bs) => s!"ok {n} {bobs bs}"

def resObs : Res → String
  | .none => "none"
  | .io => "io:eof"
  | .errLine m => s!"io:errline:{bobs m}"
  | .dec e => s!"err:{derrObs e}"
  | .line l => s!"l:{lineObs l}"
  | .panic => "panic"

def sbErrObs : SBErr → String
  | .io => "io:eof"
  | .errLine m => s!"io:errline:{bobs m}"
  | .dec e => s!"dec:{derrObs e}"
  | .nonData => "band:nondata"
  | .invalidBand id => s!"band:invalid:{id}"
  | .notDataLine => "notdataline"
  | .interrupted => "interrupted"

def parseDelims? (s : String) : Option (List Line) :=
  if s == "-" then some [] else
  s.toList.mapM fun ch =>
    if ch == 'F' then some Line.flush else if ch == 'D' then some Line.delim
    else if ch == 'R' then some Line.responseEnd else none

def parseSizes? (s : String) : Option (List Nat) :=
  (s.splitOn ",").mapM fun x => do
    let n ← x.toNat?
    if n == 0 then none else some n

/-- split a stream into chunks of the given sizes, cyclically (sizes are positive) -/
def chunkBy : Nat → List Nat → List Nat → Bytes → List Bytes
  | 0, _, _, _ => []
  | _ + 1, _, _, [] => []
  | fuel + 1, all, [], bs => if all.isEmpty then [bs] else chunkBy fuel all all bs
  | fuel + 1, all, n :: ns, bs => bs.take n :: chunkBy fuel all ns (bs.drop n)

def mkChunks (sizes : List Nat) (bs : Bytes) : List Bytes := chunkBy (2 * bs.length + 2) sizes sizes bs

def stoppedObs : Option Line → String
  | none => "-"
  | some l => lineObs l

def parseCalls? (s : String) : Option (List Call) :=
  s.toList.mapM fun ch =>
    if ch == 'r' then some Call.read else if ch == 'p' then some Call.peek
    else if ch == '*' then some Call.all else none

def cycleSizes (sizes : List Nat) (n : Nat) : List Nat :=
  if sizes.isEmpty then [] else (List.range n).map fun i => sizes.getD (i % sizes.length) 1

def drainEndObs : DrainEnd → String
  | .eof => "eof"
  | .sizes => "sizes"
  | .err e => s!"err:{sbErrObs e}"
  | .panic => "panic"

/-- `0` no handler, `1` a handler that always continues, `i<k>` a handler that interrupts at call `k` -/
def parseHandler? (s : String) : Option (Bool × Option Nat) :=
  if s == "0" then some (false, none)
  else if s == "1" then some (true, none)
  else match s.toList with
    | 'i' :: rest => (String.ofList rest).toNat?.map fun k => (true, some k)
    | _ => none

/-- `f` = fill_buf, `c<amt>` = consume, `r<n>` = read into n bytes, `p` = peek_data_line,
`l` = read_data_line, `s` = read_line_to_string; comma separated -/
def parseSBCalls? (s : String) : Option (List SBCall) :=
  (s.splitOn ",").mapM fun x =>
    match x.toList with
    | ['f'] => some SBCall.fill
    | 'c' :: rest => (String.ofList rest).toNat?.map SBCall.consume
    | 'r' :: rest => (String.ofList rest).toNat?.map SBCall.read
    | ['p'] => some SBCall.peekData
    | ['l'] => some SBCall.readData
    | ['s'] => some SBCall.readString
    | _ => none

def sbObsObs : SBObs → String
  | .bytes bs => s!"b:{bobs bs}"
  | .consumed => "c"
  | .line x => s!"[{resObs x}]"
  | .utf8 => "err:utf8"
  | .err e => s!"err:{sbErrObs e}"
  | .panic => "panic"

def handle? : List String → Option String
  | ["enc", kind, d] => do
    let d ← bytesPart? d
    let c := consts
    match kind with
    | "data" => some (encObs (encData c d))
    | "text" => some (encObs (encText c d))
    | "err" => some (encObs (encError c d))
    | "band1" => some (encObs (encBand c c.chData d))
    | "band2" => some (encObs (encBand c c.chProgress d))
    | "band3" => some (encObs (encBand c c.chError d))
    | _ => none
  | ["ctl", kind] =>
    match kind with
    | "F" => some (encObs (encLine consts .flush))
    | "D" => some (encObs (encLine consts .delim))
    | "R" => some (encObs (encLine consts .responseEnd))
    | _ => none
  | ["hp", four] => do
    let four ← bytesPart? four
    some (match hexPrefix consts four with
      | .panic => "panic"
      | .err e => s!"err:{derrObs e}"
      | .ok (.line l) => s!"line:{lineObs l}"
      | .ok (.wanted n) => s!"want:{n}")
  | ["st", d] => do
    let d ← streamArg? consts d
    some (match streaming consts d with
      | .panic => "panic"
      | .err e => s!"err:{derrObs e}"
      | .ok (.complete l n) => s!"complete {lineObs l} {n}"
      | .ok (.incomplete n) => s!"incomplete {n}")
  | ["ln", what, d] => do
    let d ← bytesPart? d
    let l := Line.data d
    match what with
    | "text" => some (match asText l with
        | none => "notdata" | some t => s!"text:{bobs t}")
    | "cerr" => some (match checkError consts l with
        | none => "none" | some m => s!"some:{bobs m}")
    | "band" => some (match decodeBand l with
        | .nonData => "nondata" | .panic => "panic" | .invalid id => s!"invalid:{id}"
        | .band k d => s!"band{k}:{bobs d}")
    | _ => none
  | ["rd", fail, delims, sizes, script, d] => do
    let failOnErr ← (if fail == "1" then some true else if fail == "0" then some false else none)
    let delims ← parseDelims? delims
    let sizes ← parseSizes? sizes
    let d ← streamArg? consts d
    let r := Reader.new consts (mkChunks sizes d) delims failOnErr
    let calls ← parseCalls? script
    let (xs, r1) := runCalls consts calls r
    let obs := xs.map fun (isPeek, x) => (if isPeek then "p" else "") ++ resObs x
    if xs.any (fun z => z.2 == Res.panic) then some (s!"{"|".intercalate obs} stop=! left=!")
    else some (s!"{"|".intercalate obs} stop={stoppedObs r1.stoppedAt} left={srcLen r1.src}")
  | ["sb", handler, delims, sizes, reads, d] => do
    let (handler, intr) ← parseHandler? handler
    let delims ← parseDelims? delims
    let sizes ← parseSizes? sizes
    let reads ← parseSizes? reads
    let d ← streamArg? consts d
    let r := Reader.new consts (mkChunks sizes d) delims false
    let s : SB := { r, handler, pos := 0, cap := 0, log := [], interruptAt := intr }
    let (out, e, s1) := drain consts s (cycleSizes reads (d.length + 2)) []
    let prog := s1.log.map fun (isErr, t) => s!"{if isErr then "e" else "p"}:{bobs t}"
    let tail := if e == .panic then "stop=! left=!" else s!"stop={stoppedObs s1.r.stoppedAt} left={srcLen s1.r.src}"
    some (s!"data={bobs out} prog=[{",".intercalate prog}] end={drainEndObs e} {tail}")
  | ["sbc", handler, delims, sizes, calls, d] => do
    let (handler, intr) ← parseHandler? handler
    let delims ← parseDelims? delims
    let sizes ← parseSizes? sizes
    let calls ← parseSBCalls? calls
    let d ← streamArg? consts d
    let r := Reader.new consts (mkChunks sizes d) delims false
    let s : SB := { r, handler, pos := 0, cap := 0, log := [], interruptAt := intr }
    let (xs, s1) := runSB consts calls s
    let prog := s1.log.map fun (isErr, t) => s!"{if isErr then "e" else "p"}:{bobs t}"
    some (s!"{"|".intercalate (xs.map sbObsObs)} prog=[{",".intercalate prog}]")
  | ["wr", mode, d] => do
    let binary ← (if mode == "bin" then some true else if mode == "text" then some false else none)
    let d ← bytesPart? d
    let (out, ok) := writerWriteAll consts binary d
    some (if ok then s!"ok {bobs out}" else s!"err {bobs out}")
  | _ => none

def handle (args : List String) : String := (handle? args).getD "bad-op"

end GixModel.C29
