import GixModel.Basic.Civil
import GixModel.Basic.AsciiCase
import GixModel.Model.C01
import GixModel.Extracted.DateFormats
/-
C52 — model of gix-date formatting and parsing.

Rust functions modelled (/repo/gix-date/src):
  time/format.rs  Time::{format, format_inner, to_time}; the format strings are `Extracted.dateFmt*`
  time/write.rs   Time::write_to (= `GixModel.C01.Time.write`, shared with C01) for `Format::Raw`
  parse.rs        parse (the cascade in the order `Extracted.dateParseOrder`), parse_raw,
                  strptime_relaxed, rfc2822_relaxed
The calendar crate `jiff` 0.1.8 is external. It is modelled here — `Civil` for its proleptic Gregorian
calendar, and transcriptions of `fmt::strtime` (format + parse, for the directives the format strings
use: %Y %m %d %-d %H %M %S %z %:z %a %b and literals) and of `fmt::rfc2822::DateTimeParser` — and
tied to the real crate by the correspondence harness (ops `civil`, `fmt`, `parse`).
Not modelled: relative dates ("2 weeks ago": need the current time), the harness does not send them.
-/
namespace GixModel.C52
open GixModel
open GixModel.Civil
export GixModel.C01 (Time)

/-- jiff's `Timestamp` range in seconds: -9999-01-02T01:59:59Z ..= 9999-12-30T22:00:00Z -/
def tsMin : Int := -377705023201
def tsMax : Int := 253402207200
/-- jiff's `Offset` range: ±25:59:59 -/
def offMax : Int := 93599

inductive Outcome (α : Type)
  | ok (a : α)
  | err
  | panic
  deriving Repr, DecidableEq

/-! ### broken-down time -/

structure Broken where
  year : Int
  month : Nat
  day : Nat
  hour : Nat
  minute : Nat
  second : Nat
  weekday : Nat
  offset : Int
  deriving Repr, DecidableEq

/-- `Timestamp::from_second(seconds).to_zoned(fixed offset)` -/
def breakDown (seconds offset : Int) : Broken :=
  let loc := seconds + offset
  let days := loc / 86400
  let sod := (loc % 86400).toNat
  let c := civilFromDays days
  { year := c.1, month := c.2.1, day := c.2.2, hour := sod / 3600, minute := sod % 3600 / 60,
    second := sod % 60, weekday := weekday days, offset }

/-- seconds since the epoch of a civil date-time at an offset (`Offset::to_timestamp`) -/
def toEpoch (year : Int) (month day hour minute second : Nat) (offset : Int) : Int :=
  daysFromCivil year month day * 86400 + (hour * 3600 + minute * 60 + second : Nat) - offset

/-! ### strftime -/

inductive Item
  | lit (b : UInt8)
  | Y | m | d | dNoPad | H | M | S | z | zColon | a | b
  deriving Repr, DecidableEq

/-- the directives the format strings of gix-date use; anything else is not understood (`none`) -/
def parseFormat : Bytes → Option (List Item)
  | [] => some []
  | 37 :: 45 :: 100 :: rest => (parseFormat rest).map (Item.dNoPad :: ·)      -- %-d
  | 37 :: 58 :: 122 :: rest => (parseFormat rest).map (Item.zColon :: ·)      -- %:z
  | 37 :: c :: rest =>
    let it : Option Item :=
      if c == 89 then some .Y else if c == 109 then some .m else if c == 100 then some .d
      else if c == 72 then some .H else if c == 77 then some .M else if c == 83 then some .S
      else if c == 122 then some .z else if c == 97 then some .a else if c == 98 then some .b
      else none
    match it with
    | none => none
    | some i => (parseFormat rest).map (i :: ·)
  | [37] => none
  | c :: rest => (parseFormat rest).map (Item.lit c :: ·)

def pad2 (n : Nat) : Bytes := if n < 10 then 48 :: natDec n else natDec n

/-- four digits, zero padded (years are at most 9999) -/
def pad4 (n : Nat) : Bytes := pad2 (n / 100) ++ pad2 (n % 100)

/-- Sun Mon Tue Wed Thu Fri Sat -/
def weekdayNames : List Bytes :=
  [[83, 117, 110], [77, 111, 110], [84, 117, 101], [87, 101, 100], [84, 104, 117], [70, 114, 105], [83, 97, 116]]

/-- Jan … Dec -/
def monthNames : List Bytes :=
  [[74, 97, 110], [70, 101, 98], [77, 97, 114], [65, 112, 114], [77, 97, 121], [74, 117, 110],
   [74, 117, 108], [65, 117, 103], [83, 101, 112], [79, 99, 116], [78, 111, 118], [68, 101, 99]]

/-- `write_offset`: sign, hh, [:] mm, and [:] ss only if the seconds are not 0 -/
def fmtOffset (off : Int) (colon : Bool) : Bytes :=
  let a := off.natAbs
  let hh := a / 3600
  let mm := a % 3600 / 60
  let ss := a % 60
  [if off < 0 then 45 else 43] ++ pad2 hh ++ (if colon then [58] else []) ++ pad2 mm ++
    (if ss ≠ 0 then (if colon then [58] else []) ++ pad2 ss else [])

def fmtItem (b : Broken) : Item → Bytes
  | .lit c => [c]
  | .Y => (if b.year < 0 then [45] else []) ++ pad4 b.year.natAbs
  | .m => pad2 b.month
  | .d => pad2 b.day
  | .dNoPad => natDec b.day
  | .H => pad2 b.hour
  | .M => pad2 b.minute
  | .S => pad2 b.second
  | .z => fmtOffset b.offset false
  | .zColon => fmtOffset b.offset true
  | .a => weekdayNames.getD b.weekday []
  | .b => monthNames.getD (b.month - 1) []

def strftime (items : List Item) (b : Broken) : Bytes := items.flatMap (fmtItem b)

inductive Format
  | custom (fmt : Bytes)
  | unix
  | raw
  deriving Repr, DecidableEq

/-- `Time::format` -/
def format (f : Format) (t : Time) : Outcome Bytes :=
  match f with
  | .unix => .ok (intDec t.seconds)
  | .raw =>
    match t.write with
    | none => .panic                    -- `to_bstring`: "write to memory cannot fail"
    | some bs => .ok bs
  | .custom fmt =>
    if t.offset < -offMax ∨ t.offset > offMax then .panic           -- expect("valid offset")
    else if t.seconds < tsMin ∨ t.seconds > tsMax then .panic        -- expect("always valid unix time")
    else match parseFormat fmt with
      | none => .panic
      | some items => .ok (strftime items (breakDown t.seconds t.offset))

/-! ### strptime -/

structure Fields where
  year : Option Int := none
  month : Option Nat := none
  day : Option Nat := none
  hour : Option Nat := none
  minute : Option Nat := none
  second : Option Nat := none
  offset : Option Int := none
  deriving Repr, DecidableEq

abbrev isDigitB (b : UInt8) : Bool := isDigit b

/-- `u8::is_ascii_whitespace`: SP, HT, LF, FF, CR -/
def isWs (b : UInt8) : Bool := b == 32 || b == 9 || b == 10 || b == 12 || b == 13

/-- `Extension::parse_number(default_width, PadZero or NoPad, inp)`: up to `zeroPad` leading zeros, then digits
up to `maxDigits` in total; at least one digit -/
def parseNumber (maxDigits : Nat) (noPad : Bool) (inp : Bytes) : Option (Nat × Bytes) :=
  let zeroPad := if noPad then 0 else maxDigits
  let zeros := (inp.take zeroPad).takeWhile (· == 48)
  let rest := inp.drop zeros.length
  let ds := (rest.take (maxDigits - zeros.length)).takeWhile isDigitB
  if zeros.length + ds.length = 0 then none
  else some (ds.foldl (fun acc b => acc * 10 + (b.toNat - 48)) 0, rest.drop ds.length)

/-- two ASCII digits (`parse::i64` of a two byte slice) -/
def twoDigits? (bs : Bytes) : Option Nat :=
  match bs with
  | [a, b] => if isDigitB a && isDigitB b then some ((a.toNat - 48) * 10 + (b.toNat - 48)) else none
  | _ => none

def lower3 (inp : Bytes) : Option (Bytes × Bytes) :=
  match inp with
  | a :: b :: c :: rest => some ([asciiLower a, asciiLower b, asciiLower c], rest)
  | _ => none

def indexOf3 (names : List Bytes) (key : Bytes) : Option Nat :=
  let lowered := names.map (·.map asciiLower)
  let i := lowered.findIdx (· == key)
  if i < names.length then some i else none

/-- `%z` / `%:z` -/
def parseOffset (colon : Bool) (inp : Bytes) : Option (Int × Bytes) :=
  match inp with
  | [] => none
  | s :: rest =>
    if s != 43 && s != 45 then none
    else
      let need := if colon then 5 else 4
      if rest.length < need then none
      else
        let hhmm := rest.take need
        let rest2 := rest.drop need
        if colon && hhmm.getD 2 0 != 58 then none
        else match twoDigits? (hhmm.take 2), twoDigits? (hhmm.drop (if colon then 3 else 2)) with
          | some hh, some mm =>
            if hh > 25 || mm > 59 then none
            else
              -- optional seconds
              let (ssTxt, rest3) : Option Bytes × Bytes :=
                if colon then
                  (if rest2.length ≥ 3 && rest2.headD 0 == 58 && ((rest2.drop 1).take 2).all isDigitB
                   then (some ((rest2.drop 1).take 2), rest2.drop 3) else (none, rest2))
                else
                  (if rest2.length ≥ 2 && (rest2.take 2).all isDigitB then (some (rest2.take 2), rest2.drop 2)
                   else (none, rest2))
              match ssTxt with
              | none =>
                let v : Int := (hh * 3600 + mm * 60 : Nat)
                some ((if s == 45 then -v else v), rest3)
              | some st =>
                match twoDigits? st with
                | none => none
                | some ss =>
                  if ss > 59 then none
                  else if rest3.headD 0 == 46 && !rest3.isEmpty then none      -- fractional seconds
                  else
                    let v : Int := (hh * 3600 + mm * 60 + ss : Nat)
                    some ((if s == 45 then -v else v), rest3)
          | _, _ => none

/-- `parse_optional_sign`: (negative?, rest) -/
def optSign (inp : Bytes) : Bool × Bytes :=
  match inp with
  | 45 :: r => (true, r)
  | 43 :: r => (false, r)
  | r => (false, r)

/-- one step of `Parser::parse` -/
def parseItem (it : Item) (f : Fields) (inp : Bytes) : Option (Fields × Bytes) :=
  match it with
  | .lit c =>
    if isWs c then some (f, inp.dropWhile isWs)
    else match inp with
      | [] => none
      | b :: rest => if b == c then some (f, rest) else none
  | _ =>
    if inp.isEmpty then none       -- "expected non-empty input for directive"
    else match it with
      | .lit _ => none
      | .Y =>
        match parseNumber 4 false (optSign inp).2 with
        | none => none
        | some (n, rest) => some ({ f with year := some (if (optSign inp).1 then -(n : Int) else n) }, rest)
      | .m =>
        match parseNumber 2 false inp with
        | none => none
        | some (n, rest) => if 1 ≤ n && n ≤ 12 then some ({ f with month := some n }, rest) else none
      | .d =>
        match parseNumber 2 false inp with
        | none => none
        | some (n, rest) => if 1 ≤ n && n ≤ 31 then some ({ f with day := some n }, rest) else none
      | .dNoPad =>
        match parseNumber 2 true inp with
        | none => none
        | some (n, rest) => if 1 ≤ n && n ≤ 31 then some ({ f with day := some n }, rest) else none
      | .H =>
        match parseNumber 2 false inp with
        | none => none
        | some (n, rest) => if n ≤ 23 then some ({ f with hour := some n }, rest) else none
      | .M =>
        match parseNumber 2 false inp with
        | none => none
        | some (n, rest) => if n ≤ 59 then some ({ f with minute := some n }, rest) else none
      | .S =>
        match parseNumber 2 false inp with
        | none => none
        | some (n, rest) =>
          let n := if n = 60 then 59 else n
          if n ≤ 59 then some ({ f with second := some n }, rest) else none
      | .z => (parseOffset false inp).map fun (o, rest) => ({ f with offset := some o }, rest)
      | .zColon => (parseOffset true inp).map fun (o, rest) => ({ f with offset := some o }, rest)
      | .a =>
        match lower3 inp with
        | none => none
        | some (k, rest) => (indexOf3 weekdayNames k).map fun _ => (f, rest)     -- the weekday is ignored
      | .b =>
        match lower3 inp with
        | none => none
        | some (k, rest) => (indexOf3 monthNames k).map fun i => ({ f with month := some (i + 1) }, rest)

def parseItems : List Item → Fields → Bytes → Option (Fields × Bytes)
  | [], f, inp => some (f, inp)
  | it :: rest, f, inp =>
    match parseItem it f inp with
    | none => none
    | some (f', inp') => parseItems rest f' inp'

/-- `strtime::parse(fmt, input)`: all of the input must be consumed -/
def strptime (items : List Item) (inp : Bytes) : Option Fields :=
  match parseItems items {} inp with
  | some (f, []) => some f
  | _ => none

def validYear (y : Int) : Bool := -9999 ≤ y && y ≤ 9999

/-- `BrokenDownTime::to_zoned` with the weekday cleared, then `Time::new(timestamp, offset)` -/
def fieldsToTime (f : Fields) : Option Time :=
  match f.year, f.month, f.day, f.offset with
  | some y, some m, some d, some off =>
    if !validYear y || d > daysInMonth y m then none
    else
      -- to_time: smaller units need the bigger ones
      let tod : Option Nat :=
        match f.hour, f.minute, f.second with
        | none, none, none => some 0
        | none, _, _ => none
        | some h, none, none => some (h * 3600)
        | some _, none, some _ => none
        | some h, some mi, none => some (h * 3600 + mi * 60)
        | some h, some mi, some s => some (h * 3600 + mi * 60 + s)
      match tod with
      | none => none
      | some tod =>
        let ts := daysFromCivil y m d * 86400 + (tod : Int) - off
        if ts < tsMin ∨ ts > tsMax then none
        else some { seconds := ts, offset := off, minus := decide (off < 0) }
  | _, _, _, _ => none

/-- `strptime_relaxed(fmt, input)` -/
def parseZoned (fmt : Bytes) (inp : Bytes) : Option Time :=
  match parseFormat fmt with
  | none => none
  | some items => (strptime items inp).bind fieldsToTime

/-- `Date::strptime(SHORT, input)`: `none` = no date; `some none` = a date whose midnight UTC is outside
jiff's timestamp range (`parse` then fails altogether) -/
def parseDate (fmt : Bytes) (inp : Bytes) : Option (Option Time) :=
  match parseFormat fmt with
  | none => none
  | some items =>
    match strptime items inp with
    | none => none
    | some f =>
      match f.year, f.month, f.day with
      | some y, some m, some d =>
        if !validYear y || d > daysInMonth y m then none
        else
          let ts := daysFromCivil y m d * 86400
          if ts < tsMin ∨ ts > tsMax then some none
          else some (some { seconds := ts, offset := 0, minus := false })
      | _, _, _ => none

/-! ### RFC 2822 (jiff `DateTimeParser` with `relaxed_weekday`) -/

/-- space or tab -/
def isWs2822 (b : UInt8) : Bool := b == 32 || b == 9

def skipWs (inp : Bytes) : Bytes := inp.dropWhile isWs2822

/-- at least one -/
def needWs (inp : Bytes) : Option Bytes :=
  match inp with
  | b :: _ => if isWs2822 b then some (skipWs inp) else none
  | [] => none

def isLowerAlpha (b : UInt8) : Bool := 97 ≤ b && b ≤ 122

/-- `parse_offset_obsolete` -/
def obsoleteZone (inp : Bytes) : Option (Int × Bytes) :=
  let word := (inp.take 5).takeWhile (fun b => !isWs2822 b)
  let letters := word.map asciiLower
  let rest := inp.drop word.length
  if letters.isEmpty then none
  else if letters == [117, 116] || letters == [103, 109, 116] || letters == [122] then some (0, rest)
  else if letters == [101, 115, 116] then some (-5 * 3600, rest)
  else if letters == [101, 100, 116] then some (-4 * 3600, rest)
  else if letters == [99, 115, 116] then some (-6 * 3600, rest)
  else if letters == [99, 100, 116] then some (-5 * 3600, rest)
  else if letters == [109, 115, 116] then some (-7 * 3600, rest)
  else if letters == [109, 100, 116] then some (-6 * 3600, rest)
  else if letters == [112, 115, 116] then some (-8 * 3600, rest)
  else if letters == [112, 100, 116] then some (-7 * 3600, rest)
  else if letters.length == 1 && isLowerAlpha (letters.headD 0) && letters != [106] then some (0, rest)
  else if letters.length ≥ 3 && letters.all isLowerAlpha then some (0, rest)
  else none

/-- `skip_comment`: nested parentheses with backslash escapes; `none` = unbalanced -/
def skipComment : Bytes → Nat → Bool → Option Bytes
  | [], _, _ => none
  | b :: rest, depth, esc =>
    if esc then skipComment rest depth false
    else if b == 92 then skipComment rest depth true
    else if b == 41 then (if depth = 1 then some rest else skipComment rest (depth - 1) false)
    else if b == 40 then skipComment rest (depth + 1) false
    else skipComment rest depth false

/-- digits to number -/
def decimal (bs : Bytes) : Nat := bs.foldl (fun acc b => acc * 10 + (b.toNat - 48)) 0

/-- `parse_weekday`: nothing if the text starts with a digit, else `Www,` and white space -/
def rfcWeekday (inp : Bytes) : Option Bytes :=
  match inp with
  | [] => none
  | b0 :: _ =>
    if isDigitB b0 then some inp
    else if inp.length < 4 then none
    else match lower3 inp with
      | none => none
      | some (k, rest) =>
        match indexOf3 weekdayNames k with
        | none => none
        | some _ =>
          match rest with
          | 44 :: r => needWs r
          | _ => none

/-- `parse_day`: one or two digits, then white space -/
def rfcDay (inp : Bytes) : Option (Nat × Bytes) :=
  match inp with
  | [] => none
  | d1 :: r1 =>
    let two : Bool := match r1 with | d2 :: _ => isDigitB d2 | [] => false
    let dayTxt := if two then [d1, r1.headD 0] else [d1]
    let r := if two then r1.drop 1 else r1
    if !dayTxt.all isDigitB then none
    else
      let day := decimal dayTxt
      if day < 1 || day > 31 then none
      else match needWs r with
        | none => none
        | some inp => some (day, inp)

/-- `parse_month`: the index (0 = Jan), then white space -/
def rfcMonth (inp : Bytes) : Option (Nat × Bytes) :=
  match lower3 inp with
  | none => none
  | some (k, rest) =>
    match indexOf3 monthNames k with
    | none => none
    | some mi =>
      match needWs rest with
      | none => none
      | some inp => some (mi, inp)

/-- `parse_year`: two to four digits, then white space -/
def rfcYear (inp : Bytes) : Option (Nat × Bytes) :=
  let yTxt := (inp.take 4).takeWhile isDigitB
  if yTxt.length ≤ 1 then none
  else
    let yv := decimal yTxt
    let year : Nat :=
      if yTxt.length = 2 then (if yv ≤ 49 then yv + 2000 else yv + 1900)
      else if yTxt.length = 3 then yv + 1900
      else yv
    match needWs (inp.drop yTxt.length) with
    | none => none
    | some inp => some (year, inp)

/-- `hh:mm[:ss]`, then white space -/
def rfcTime (inp : Bytes) : Option (Nat × Nat × Nat × Bytes) :=
  match twoDigits? (inp.take 2) with
  | none => none
  | some hh =>
    if hh > 23 then none
    else match inp.drop 2 with
      | 58 :: r =>
        match twoDigits? (r.take 2) with
        | none => none
        | some mm =>
          if mm > 59 then none
          else
            let r := r.drop 2
            let secs : Option (Nat × Bytes) :=
              match r with
              | 58 :: r' =>
                match twoDigits? (r'.take 2) with
                | none => none
                | some ss =>
                  let ss := if ss = 60 then 59 else ss
                  if ss > 59 then none else some (ss, r'.drop 2)
              | _ => some (0, r)
            match secs with
            | none => none
            | some (ss, r) =>
              match needWs r with
              | none => none
              | some inp => some (hh, mm, ss, inp)
      | _ => none

/-- `parse_offset`: `+hhmm` / `-hhmm` or an obsolete zone name -/
def rfcOffset (inp : Bytes) : Option (Int × Bytes) :=
  match inp with
  | [] => none
  | s :: r =>
    if s == 43 || s == 45 then
      if r.length < 4 then none
      else match twoDigits? (r.take 2), twoDigits? ((r.drop 2).take 2) with
        | some oh, some om =>
          if oh > 25 || om > 59 then none
          else
            let v : Int := (oh * 3600 + om * 60 : Nat)
            some ((if s == 45 then -v else v), r.drop 4)
        | _, _ => none
    else obsoleteZone inp

/-- after the zone: white space, one optional comment, white space, end of input -/
def rfcTail (r : Bytes) : Bool :=
  let r := skipWs r
  let tail : Option Bytes :=
    match r with
    | [] => some []
    | 40 :: r' => (skipComment r' 1 false).map skipWs
    | _ => some r
  match tail with
  | some [] => true
  | _ => false

def parseRfc2822 (input : Bytes) : Option Time :=
  if input.isEmpty then none
  else match rfcWeekday (skipWs input) with
    | none => none
    | some inp =>
      match rfcDay inp with
      | none => none
      | some (day, inp) =>
        match rfcMonth inp with
        | none => none
        | some (mi, inp) =>
          match rfcYear inp with
          | none => none
          | some (year, inp) =>
            match rfcTime inp with
            | none => none
            | some (hh, mm, ss, inp) =>
              if year > 9999 || day > daysInMonth year (mi + 1) then none
              else match rfcOffset inp with
                | none => none
                | some (off, r) =>
                  if !rfcTail r then none
                  else
                    let ts := daysFromCivil year (mi + 1) day * 86400 + ((hh * 3600 + mm * 60 + ss : Nat) : Int) - off
                    if ts < tsMin ∨ ts > tsMax then none
                    else some { seconds := ts, offset := off, minus := decide (off < 0) }

/-! ### the rest of `parse` -/

def i64Lo : Int := -9223372036854775808
def i64Hi : Int := 9223372036854775807

/-- `i64::from_str` / `i32::from_str`: optional sign, at least one digit, digits only, in range -/
def parseIntIn (lo hi : Int) (bs : Bytes) : Option Int :=
  let ds := (optSign bs).2
  if ds.isEmpty || !ds.all isDigitB then none
  else
    let n : Nat := ds.foldl (fun acc b => acc * 10 + (b.toNat - 48)) 0
    let v : Int := if (optSign bs).1 then -(n : Int) else (n : Int)
    if v < lo ∨ v > hi then none else some v

/-- `str::split_whitespace` on ASCII input -/
def splitWs (bs : Bytes) : List Bytes := go bs [] []
where
  go : Bytes → Bytes → List Bytes → List Bytes
    | [], cur, acc => (if cur.isEmpty then acc else cur.reverse :: acc).reverse
    | b :: rest, cur, acc =>
      if isWs b || b == 11 then go rest [] (if cur.isEmpty then acc else cur.reverse :: acc)
      else go rest (b :: cur) acc

/-- `parse_raw` -/
def parseRaw (input : Bytes) : Option Time :=
  match splitWs input with
  | [secs, off] =>
    match parseIntIn i64Lo i64Hi secs with
    | none => none
    | some seconds =>
      if off.length ≠ 5 || !off.all (· < 128) then none
      else
        let s := off.headD 0
        if s != 43 && s != 45 then none
        else match parseIntIn (-2147483648) 2147483647 ((off.drop 1).take 2), parseIntIn (-2147483648) 2147483647 (off.drop 3) with
          | some h, some m =>
            let o := h * 3600 + m * 60
            some { seconds, offset := (if s == 45 then -o else o), minus := s == 45 }
          | _, _ => none
  | _ => none

/-- "1979-02-26 18:30:00" -/
def magicInput : Bytes := [49, 57, 55, 57, 45, 48, 50, 45, 50, 54, 32, 49, 56, 58, 51, 48, 58, 48, 48]

def fmtOfCode (c : Nat) : Bytes :=
  if c = 0 then Extracted.dateFmtShort else if c = 2 then Extracted.dateFmtIso8601
  else if c = 3 then Extracted.dateFmtIso8601Strict else if c = 4 then Extracted.dateFmtGitoxide
  else if c = 5 then Extracted.dateFmtDefault else if c = 6 then Extracted.dateFmtRfc2822
  else Extracted.dateFmtGitRfc2822

/-- the formats tried in order; `some none` = stop with an error -/
def cascade (input : Bytes) : List Nat → Option (Option Time)
  | [] => none
  | c :: rest =>
    let r : Option (Option Time) :=
      if c = 0 then parseDate (fmtOfCode 0) input
      else if c = 1 then (parseRfc2822 input).map some
      else (parseZoned (fmtOfCode c) input).map some
    match r with
    | some x => some x
    | none => cascade input rest

/-- `gix_date::parse(input, None)` for inputs that are not relative dates -/
def parse (input : Bytes) : Outcome Time :=
  if input == magicInput then .ok { seconds := 42, offset := 1800, minus := false }
  else match cascade input Extracted.dateParseOrder with
    | some (some t) => .ok t
    | some none => .err
    | none =>
      match parseIntIn i64Lo i64Hi input with
      | some v => .ok { seconds := v, offset := 0, minus := false }
      | none =>
        match parseRaw input with
        | some t => .ok t
        | none => .err

/-! ### driver -/

def formatOfName (s : String) : Option Format :=
  match s with
  | "SHORT" => some (.custom Extracted.dateFmtShort)
  | "RFC2822" => some (.custom Extracted.dateFmtRfc2822)
  | "GIT_RFC2822" => some (.custom Extracted.dateFmtGitRfc2822)
  | "ISO8601" => some (.custom Extracted.dateFmtIso8601)
  | "ISO8601_STRICT" => some (.custom Extracted.dateFmtIso8601Strict)
  | "GITOXIDE" => some (.custom Extracted.dateFmtGitoxide)
  | "DEFAULT" => some (.custom Extracted.dateFmtDefault)
  | "UNIX" => some .unix
  | "RAW" => some .raw
  | _ => none

def timeStr (t : Time) : String := s!"{t.seconds} {t.offset} {if t.minus then "-" else "+"}"

def handle? : List String → Option String
  | ["civil", z] => do
    let z ← z.toInt?
    let c := civilFromDays z
    some s!"{c.1} {c.2.1} {c.2.2} {weekday z}"
  | ["days", y, m, d] => do
    let y ← y.toInt?
    let m ← m.toNat?
    let d ← d.toNat?
    if ValidDate y m d then some s!"{daysFromCivil y m d}" else some "invalid"
  | ["fmt", name, s, o, sg] => do
    let f ← formatOfName name
    let s ← s.toInt?
    let o ← o.toInt?
    match format f { seconds := s, offset := o, minus := sg == "-" } with
    | .ok bs => some s!"ok {hexOfBytes bs}"
    | .err => some "err"
    | .panic => some "panic"
  | ["parse", x] => do
    let bs ← bytesOfHex x
    match parse bs with
    | .ok t => some s!"ok {timeStr t}"
    | .err => some "err"
    | .panic => some "panic"
  | _ => none

def handle (args : List String) : String := (handle? args).getD "bad-op"

end GixModel.C52
