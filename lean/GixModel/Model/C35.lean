import GixModel.Basic.Hex
/-
C35 — model of the credential-helper wire format.

Rust functions modelled:
  gix_credentials::protocol::Context::{write_to, from_bytes}  gix-credentials/src/protocol/context/serde.rs
  serde::{validate, validate_for_writing}                       (same file)
  bstr::ByteSlice::lines (LinesWithTerminator + trim_last_terminator: strips `\n`, then one `\r`)
  <[u8]>::splitn(2, '='), bstr `to_str`/`is_utf8` (UTF-8 validity, modelled in full)
  gix_config_value::Boolean::try_from (only reachable through a `quit=` line)

`protocol`, `host`, `username`, `password` are Rust `String`s (valid UTF-8 by type); `url` and
`path` are `BString`s. `write_to` emits url, path, protocol, host, username, password in this
order, validating each value right before it is written — on a refused value the lines of the
earlier fields have already been written (`WriteRes.err written`). `quit` is never written.
-/
namespace GixModel.C35
open GixModel

inductive Key | url | path | protocol | host | username | password
  deriving Repr, DecidableEq

def Key.bytes : Key → Bytes
  | .url => [117, 114, 108]
  | .path => [112, 97, 116, 104]
  | .protocol => [112, 114, 111, 116, 111, 99, 111, 108]
  | .host => [104, 111, 115, 116]
  | .username => [117, 115, 101, 114, 110, 97, 109, 101]
  | .password => [112, 97, 115, 115, 119, 111, 114, 100]

/-- the field is a Rust `String` -/
def Key.isString : Key → Bool
  | .url | .path => false
  | _ => true

structure Context where
  protocol : Option Bytes := none
  host : Option Bytes := none
  path : Option Bytes := none
  username : Option Bytes := none
  password : Option Bytes := none
  url : Option Bytes := none
  quit : Option Bool := none
  deriving Repr, DecidableEq

/-- `serde::validate(key, value)`: `true` = accepted -/
def validate (key value : Bytes) : Bool :=
  !(key.contains 0 || key.contains 10 || value.contains 0 || value.contains 10)

/-- `serde::validate_for_writing(key, value)` — what `write_to` checks before writing one value:
`validate`, and no carriage return in the value (added by the `fix:` commit for this property:
readers strip a CR in front of the LF, so `password = "abc\r"` was sent but read back as `abc`) -/
def writeAccepts (key value : Bytes) : Bool := validate key value && !value.contains 13

/-- `write_key`: `key=value\n` -/
def line (k : Key) (v : Bytes) : Bytes := k.bytes ++ [61] ++ v ++ [10]

def optField (k : Key) : Option Bytes → List (Key × Bytes)
  | none => []
  | some v => [(k, v)]

/-- the fields that are `Some`, in the order `write_to` visits them -/
def Context.present (c : Context) : List (Key × Bytes) :=
  optField .url c.url ++ optField .path c.path ++ optField .protocol c.protocol ++
  optField .host c.host ++ optField .username c.username ++ optField .password c.password

inductive WriteRes where
  | ok (out : Bytes)
  /-- `Err(..)` returned; `written` is what had already been written to `out` -/
  | err (written : Bytes)
  deriving Repr, DecidableEq

def writeGo : List (Key × Bytes) → Bytes → WriteRes
  | [], out => .ok out
  | (k, v) :: rest, out =>
    if writeAccepts k.bytes v then writeGo rest (out ++ line k v) else .err out

/-- `Context::write_to(&mut Vec)` -/
def Context.write (c : Context) : WriteRes := writeGo c.present []

/-! ### reading -/

/-- `trim_last_terminator` after the `\n` has been cut off: drop one trailing `\r` -/
def trimCr (l : Bytes) : Bytes := if l.getLast? = some 13 then l.dropLast else l

/-- `bstr` `lines()`: `acc` is the current line, reversed. A final piece without `\n` is a line
(untrimmed — `trim_last_terminator` only looks for `\r` in front of a `\n`). -/
def linesGo : Bytes → Bytes → List Bytes
  | [], acc => if acc.isEmpty then [] else [acc.reverse]
  | b :: rest, acc => if b = 10 then trimCr acc.reverse :: linesGo rest [] else linesGo rest (b :: acc)

def lines (bs : Bytes) : List Bytes := linesGo bs []

/-- `splitn(2, |b| *b == b'=')`: `(key, Some value)` at the first `=`, `(line, None)` without one -/
def splitEq : Bytes → Bytes × Option Bytes
  | [] => ([], none)
  | b :: rest =>
    if b = 61 then ([], some rest)
    else match splitEq rest with
      | (k, v) => (b :: k, v)

def isCont (b : UInt8) : Bool := 0x80 ≤ b && b ≤ 0xBF

/-- well-formed UTF-8 (Unicode table 3-7: no overlong forms, no surrogates, ≤ U+10FFFF) -/
def validUtf8 : Bytes → Bool
  | [] => true
  | b0 :: rest =>
    if b0 < 0x80 then validUtf8 rest
    else if 0xC2 ≤ b0 && b0 ≤ 0xDF then
      match rest with
      | b1 :: rest => isCont b1 && validUtf8 rest
      | _ => false
    else if 0xE0 ≤ b0 && b0 ≤ 0xEF then
      match rest with
      | b1 :: b2 :: rest =>
        (if b0 = 0xE0 then 0xA0 ≤ b1 && b1 ≤ 0xBF
         else if b0 = 0xED then 0x80 ≤ b1 && b1 ≤ 0x9F
         else isCont b1) && isCont b2 && validUtf8 rest
      | _ => false
    else if 0xF0 ≤ b0 && b0 ≤ 0xF4 then
      match rest with
      | b1 :: b2 :: b3 :: rest =>
        (if b0 = 0xF0 then 0x90 ≤ b1 && b1 ≤ 0xBF
         else if b0 = 0xF4 then 0x80 ≤ b1 && b1 ≤ 0x8F
         else isCont b1) && isCont b2 && isCont b3 && validUtf8 rest
      | _ => false
    else false

inductive DecErr | utf8 | encoding | syntax
  deriving Repr, DecidableEq

inductive ReadRes where
  | ok (c : Context)
  | err (e : DecErr)
  deriving Repr, DecidableEq

def lowerAscii (c : UInt8) : UInt8 := if 65 ≤ c ∧ c ≤ 90 then c + 32 else c

def eqIgnoreCase (a b : Bytes) : Bool := a.map lowerAscii == b.map lowerAscii

def allDigits (bs : Bytes) : Bool := !bs.isEmpty && bs.all fun b => 48 ≤ b && b ≤ 57

def digitsVal (bs : Bytes) : Nat := bs.foldl (fun acc b => acc * 10 + (b.toNat - 48)) 0

/-- `i64::from_str`: optional sign, at least one digit, in range -/
def parseI64 (bs : Bytes) : Option Int :=
  match bs with
  | 45 :: ds => if allDigits ds && digitsVal ds ≤ 2 ^ 63 then some (-(digitsVal ds : Int)) else none
  | 43 :: ds => if allDigits ds && digitsVal ds < 2 ^ 63 then some (digitsVal ds : Int) else none
  | ds => if allDigits ds && digitsVal ds < 2 ^ 63 then some (digitsVal ds : Int) else none

/-- `Boolean::try_from(value).ok()` -/
def parseBool (v : Bytes) : Option Bool :=
  if eqIgnoreCase v [121, 101, 115] || eqIgnoreCase v [111, 110] || eqIgnoreCase v [116, 114, 117, 101] then some true
  else if eqIgnoreCase v [110, 111] || eqIgnoreCase v [111, 102, 102] || eqIgnoreCase v [102, 97, 108, 115, 101] || v.isEmpty
  then some false
  else if validUtf8 v then (parseI64 v).map (fun i => i != 0) else none

/-- the body of the `for` loop for one non-empty line -/
def applyLine (c : Context) (l : Bytes) : ReadRes :=
  match splitEq l with
  | (_, none) => .err .syntax
  | (key, some value) =>
    if !validUtf8 key then .err .syntax
    else if !validate key value then .err .encoding
    else if key = Key.protocol.bytes then
      if validUtf8 value then .ok { c with protocol := some value } else .err .utf8
    else if key = Key.host.bytes then
      if validUtf8 value then .ok { c with host := some value } else .err .utf8
    else if key = Key.username.bytes then
      if validUtf8 value then .ok { c with username := some value } else .err .utf8
    else if key = Key.password.bytes then
      if validUtf8 value then .ok { c with password := some value } else .err .utf8
    else if key = Key.url.bytes then .ok { c with url := some value }
    else if key = Key.path.bytes then .ok { c with path := some value }
    else if key = [113, 117, 105, 116] then .ok { c with quit := parseBool value }
    else .ok c

/-- `lines().take_while(|l| !l.is_empty())` folded with `?` -/
def applyLines : List Bytes → Context → ReadRes
  | [], c => .ok c
  | l :: ls, c =>
    if l.isEmpty then .ok c
    else match applyLine c l with
      | .ok c' => applyLines ls c'
      | .err e => .err e

/-- `Context::from_bytes` -/
def fromBytes (input : Bytes) : ReadRes := applyLines (lines input) {}

/-! ### driver -/

def optHex? (s : String) : Option (Option Bytes) :=
  if s == "none" then some none else (bytesOfHex s).map some

def showOpt : Option Bytes → String
  | none => "none"
  | some b => hexOfBytes b

def showCtx (c : Context) : String :=
  s!"ok {showOpt c.url} {showOpt c.path} {showOpt c.protocol} {showOpt c.host} {showOpt c.username} {showOpt c.password} " ++
  (match c.quit with | none => "none" | some true => "1" | some false => "0")

def handle? : List String → Option String
  | ["credwrite", url, path, protocol, host, username, password] => do
    let url ← optHex? url
    let path ← optHex? path
    let protocol ← optHex? protocol
    let host ← optHex? host
    let username ← optHex? username
    let password ← optHex? password
    let c : Context := { url, path, protocol, host, username, password }
    match c.write with
    | .ok out => some s!"ok {hexOfBytes out}"
    | .err w => some s!"err {hexOfBytes w}"
  | ["credread", s] => do
    let s ← bytesOfHex s
    match fromBytes s with
    | .ok c => some (showCtx c)
    | .err .utf8 => some "err:utf8"
    | .err .encoding => some "err:encoding"
    | .err .syntax => some "err:syntax"
  | _ => none

def handle (args : List String) : String := (handle? args).getD "bad-op"

end GixModel.C35
