import GixModel.Basic.Tree
/-
C04 — model of the tree editor `gix_object::tree::Editor` and its `Cursor`
(/repo/gix-object/src/tree/editor.rs, as repaired by the three `fix:` commits recorded in
known-findings.txt).

State (`Ed`):
  trees   : the `HashMap<BString, Tree>` of partially edited trees. The real key is the `/`-joined
            path (`path_hash`); the model keys by the list of components, which is the same thing
            for slash-free non-empty components (`joinPath` is injective there — proved in
            `Lemmas/C04a.lean`; names with a slash are outside the property's domain).
            Association list; the iteration order of the hash map is never observed.
  store   : what `find` can see = the trees stored up front plus every tree handed to `out`
  pathBuf : `path_buf`
Parameters: `hash : List Entry → Bytes`, the id `out` returns for a tree (SHA-1 of its serialisation
in reality; opaque here — the theorems state what they need of it).

`editLoop` follows `upsert_or_remove_at_pathbuf` statement by statement: empty-component error,
the double binary search (as file, then as directory; insertion index chosen by
`current_level_must_be_tree`), removal / overwrite / turn-into-tree / insertion of null-id
placeholders, `needs_sorting`, `forget_cached_trees_below`, `UpsertMode::{Normal,AssureTreeOnly}`,
`trees.entry(path).or_insert(find_tree(id) | Tree::default())`.
`writeTree` is the bottom-up recursion the stack machine of `write_at_pathbuf` implements: cached
sub-trees are taken out of `trees` and written children-first, null-id entries are dropped
(`retain(|e| !e.oid.is_null())`, here decided per entry once its sub-tree is written), empty
sub-trees are removed from their parent instead of being written, the root is always written;
`WriteMode::Normal` clears `trees`, `FromCursor` keeps it. (The order of `out` calls among
siblings and the `parents`/`children` stacks are not modelled; the number of `out` calls and every
written tree are, and are compared with the real code on every run.)
Panics (`expect("root is always present")`, out-of-bounds) are the explicit outcome `panic`.
-/
namespace GixModel.C04
open GixModel GixModel.Tree

abbrev Assoc (κ β : Type) := List (κ × β)

def aget [DecidableEq κ] (k : κ) : Assoc κ β → Option β
  | [] => none
  | (k', v) :: r => if k' = k then some v else aget k r

def aset [DecidableEq κ] (k : κ) (v : β) : Assoc κ β → Assoc κ β
  | [] => [(k, v)]
  | (k', v') :: r => if k' = k then (k, v) :: r else (k', v') :: aset k v r

def aerase [DecidableEq κ] (k : κ) : Assoc κ β → Assoc κ β
  | [] => []
  | (k', v') :: r => if k' = k then aerase k r else (k', v') :: aerase k r

/-- a path: the list of its components -/
abbrev Path := List Bytes

def nullId : Bytes := List.replicate 20 0

/-- `ObjectId::empty_tree(Sha1)` = 4b825dc642cb6eb9a060e54bf8d69288fbee4904 -/
def emptyTreeId : Bytes :=
  [0x4b, 0x82, 0x5d, 0xc6, 0x42, 0xcb, 0x6e, 0xb9, 0xa0, 0x60, 0xe5, 0x4b, 0xf8, 0xd6, 0x92, 0x88,
   0xfb, 0xee, 0x49, 0x04]

/-- ids for which `find` is not consulted: the empty tree, and (after the repair recorded in
known-findings.txt) the null id of a placeholder -/
def noFind (id : Bytes) : Bool := id == emptyTreeId || id == nullId

structure Ed where
  trees : Assoc Path (List Entry)
  store : Assoc Bytes (List Entry)
  pathBuf : Path
  deriving Repr

/-- `push_path_component` on the real `/`-joined representation -/
def pushPath (base comp : Bytes) : Bytes :=
  if base.isEmpty then comp else base ++ [47] ++ comp

/-- the real key (`path_hash`) of a component list -/
def joinPath (p : Path) : Bytes := p.foldl pushPath []

inductive UpsertMode | normal | assureTreeOnly
  deriving DecidableEq, Repr

/-- `Option<(EntryKind, ObjectId, UpsertMode)>`; the kind is carried as its mode value -/
structure KI where
  mode : Nat
  id : Bytes
  um : UpsertMode
  deriving Repr

inductive EditRes where
  | ok (ed : Ed)
  | errEmpty (ed : Ed)
  | errFind (ed : Ed)
  | panic
  deriving Repr

/-- the double binary search: as file, else as directory; `Err` index by `current_level_must_be_tree` -/
def searchName (es : List Entry) (name : Bytes) (mustBeTree : Bool) : Search :=
  match binarySearchBy es (fun e => cmpEntryWithName e name false) with
  | .found i => .found i
  | .oob => .oob
  | .insertAt fi =>
    match binarySearchBy es (fun e => cmpEntryWithName e name true) with
    | .found i => .found i
    | .oob => .oob
    | .insertAt di => .insertAt (if mustBeTree then di else fi)

/-- `forget_cached_trees_below(trees, base, name)` -/
def forgetBelow (trees : Assoc Path (List Entry)) (base : Path) (name : Bytes) : Assoc Path (List Entry) :=
  trees.filter (fun kv => !((base ++ [name]).isPrefixOf kv.1))

def setAt (es : List Entry) (i : Nat) (e : Entry) : List Entry := es.set i e

def insertAt (es : List Entry) (i : Nat) (e : Entry) : List Entry := es.take i ++ e :: es.drop i

/-- end of one loop iteration: `push_path_component`, then `trees.entry(path).or_insert(..)` -/
def descend (ed : Ed) (name : Bytes) (treeToLookup : Option Bytes) : EditRes :=
  let pb := ed.pathBuf ++ [name]
  match aget pb ed.trees with
  | some _ => .ok { ed with pathBuf := pb }
  | none =>
    match treeToLookup with
    | some id =>
      if noFind id then .ok { ed with pathBuf := pb, trees := aset pb [] ed.trees }
      else match aget id ed.store with
        | some t => .ok { ed with pathBuf := pb, trees := aset pb t ed.trees }
        | none => .errFind { ed with pathBuf := pb }
    | none => .ok { ed with pathBuf := pb, trees := aset pb [] ed.trees }

/-- what one iteration decides: stop (`break` / `return`), or go one level down -/
inductive Step where
  | stop (r : EditRes)
  | down (ed : Ed) (treeToLookup : Option Bytes)

/-- the body of `while let Some(name) = rela_path.next()` up to (excluding) `push_path_component` -/
def stepAt (ed : Ed) (name : Bytes) (isLast : Bool) (ki : Option KI) : Step :=
  match aget ed.pathBuf ed.trees with
  | none => .stop .panic
  | some cur =>
    let newKindIsTree := match ki with | some k => k.mode == 0o040000 | none => false
    let mustBeTree := !isLast || newKindIsTree
    match searchName cur name mustBeTree with
    | .oob => .stop .panic
    | .found idx =>
      match cur[idx]? with
      | none => .stop .panic
      | some entry =>
        match ki with
        | none =>
          if isLast then
            let trees := aset ed.pathBuf (cur.eraseIdx idx) ed.trees
            let trees := if entry.isTree then forgetBelow trees ed.pathBuf name else trees
            .stop (.ok { ed with trees := trees })
          else if entry.isTree then .down ed (some entry.oid)
          else .stop (.ok ed)
        | some k =>
          if isLast && k.um == .assureTreeOnly && entry.isTree then .down ed (some entry.oid)
          else if isLast then
            let needsSorting := entry.isTree != mustBeTree
            let cur' := setAt cur idx { entry with oid := k.id, mode := k.mode }
            let cur' := if needsSorting then sortEntries cur' else cur'
            let trees := aset ed.pathBuf cur' ed.trees
            let trees := if entry.isTree then forgetBelow trees ed.pathBuf name else trees
            let ed' := { ed with trees := trees }
            if k.um == .normal then .stop (.ok ed') else .down ed' none
          else if entry.isTree then .down ed (some entry.oid)
          else
            let needsSorting := entry.isTree != mustBeTree
            let cur' := setAt cur idx { entry with oid := nullId, mode := 0o040000 }
            let cur' := if needsSorting then sortEntries cur' else cur'
            .down { ed with trees := aset ed.pathBuf cur' ed.trees } none
    | .insertAt i =>
      match ki with
      | none => .stop (.ok ed)
      | some k =>
        let e : Entry := { name := name, mode := if isLast then k.mode else 0o040000,
                           oid := if isLast then k.id else nullId }
        let ed' := { ed with trees := aset ed.pathBuf (insertAt cur i e) ed.trees }
        if isLast && k.um == .normal then .stop (.ok ed') else .down ed' none

/-- `upsert_or_remove_at_pathbuf` (the caller has set `pathBuf`) -/
def editLoop (ki : Option KI) : Ed → List Bytes → EditRes
  | ed, [] => .ok ed
  | ed, name :: rest =>
    if name.isEmpty then .errEmpty ed
    else match stepAt ed name rest.isEmpty ki with
      | .stop r => r
      | .down ed' lookup =>
        match descend ed' name lookup with
        | .ok ed'' => editLoop ki ed'' rest
        | r => r

/-- `Editor::upsert` -/
def upsert (ed : Ed) (path : List Bytes) (mode : Nat) (id : Bytes) : EditRes :=
  editLoop (some ⟨mode, id, .normal⟩) { ed with pathBuf := [] } path

/-- `Editor::remove` -/
def remove (ed : Ed) (path : List Bytes) : EditRes :=
  editLoop none { ed with pathBuf := [] } path

/-- `Editor::cursor_at`; the cursor's prefix is the resulting `pathBuf` -/
def cursorAt (ed : Ed) (path : List Bytes) : EditRes :=
  editLoop (some ⟨0o040000, nullId, .assureTreeOnly⟩) { ed with pathBuf := [] } path

/-- `Cursor::upsert` -/
def cursorUpsert (ed : Ed) (pfx : Path) (path : List Bytes) (mode : Nat) (id : Bytes) : EditRes :=
  editLoop (some ⟨mode, id, .normal⟩) { ed with pathBuf := pfx } path

/-- `Cursor::remove` -/
def cursorRemove (ed : Ed) (pfx : Path) (path : List Bytes) : EditRes :=
  editLoop none { ed with pathBuf := pfx } path

/-- `Editor::set_root` -/
def setRoot (ed : Ed) (root : List Entry) : Ed := { ed with trees := [([], root)] }

/-! ### writing -/

structure WState where
  cache : Assoc Path (List Entry)
  store : Assoc Bytes (List Entry)
  calls : Nat
  deriving Repr

/-- thread a state through a list, collecting one output per element -/
def mapAccum (f : σ → α → σ × β) : σ → List α → σ × List β
  | s, [] => (s, [])
  | s, a :: as =>
    let r1 := f s a
    let r2 := mapAccum f r1.1 as
    (r2.1, r1.2 :: r2.2)

/-- What becomes of one entry `e` of the tree at `path` when that tree is written; `rec` writes a
cached sub-tree. `none`: the entry is dropped (null id, or its sub-tree ended up empty). -/
def wstep (hash : List Entry → Bytes) (rec : WState → Path → List Entry → WState × List Entry)
    (path : Path) (st : WState) (e : Entry) : WState × Option Entry :=
  let keep (e : Entry) : Option Entry := if e.oid == nullId then none else some e
  if e.isTree then
    match aget (path ++ [e.name]) st.cache with
    | some sub =>
      let r := rec { st with cache := aerase (path ++ [e.name]) st.cache } (path ++ [e.name]) sub
      if r.2.isEmpty then (r.1, none)
      else ({ r.1 with store := aset (hash r.2) r.2 r.1.store, calls := r.1.calls + 1 },
            keep { e with oid := hash r.2 })
    | none => (st, keep e)
  else (st, keep e)

/-- Write the cached sub-trees of `tree` (which lives at `path`) children-first and return `tree`
with the written ids filled in, empty children removed and null-id entries dropped. Fuel: every
recursive call takes one entry out of `cache`, so `cache.length` suffices. -/
def writeTree (hash : List Entry → Bytes) : Nat → WState → Path → List Entry → WState × List Entry
  | 0, st, _, tree => (st, tree)
  | fuel + 1, st, path, tree =>
    let r := mapAccum (wstep hash (writeTree hash fuel) path) st tree
    (r.1, r.2.filterMap id)

inductive WriteRes where
  | ok (id : Bytes) (calls : Nat) (ed : Ed)
  | panic
  deriving Repr

/-- `write_at_pathbuf(out, mode)` with `out = store the tree under hash(tree)`; `fromCursor`
selects `WriteMode::FromCursor` -/
def writeAt (hash : List Entry → Bytes) (ed : Ed) (fromCursor : Bool) : WriteRes :=
  match aget ed.pathBuf ed.trees with
  | none => .panic
  | some root =>
    let cache := aerase ed.pathBuf ed.trees
    let r := writeTree hash (cache.length + 1) ⟨cache, ed.store, 0⟩ ed.pathBuf root
    let id := hash r.2
    let store := aset id r.2 r.1.store
    let trees := if fromCursor then aset ed.pathBuf r.2 r.1.cache else [(ed.pathBuf, r.2)]
    .ok id (r.1.calls + 1) { ed with trees := trees, store := store }

/-- `Editor::write` -/
def write (hash : List Entry → Bytes) (ed : Ed) : WriteRes := writeAt hash { ed with pathBuf := [] } false

/-- `Cursor::write` -/
def cursorWrite (hash : List Entry → Bytes) (ed : Ed) (pfx : Path) : WriteRes :=
  writeAt hash { ed with pathBuf := pfx } true

/-! ### `write_at_pathbuf` literally: the loop over the `parents` / `children` stacks

The recursion `writeTree` above is what the theorems are about. `writeLoop` transcribes the real
loop statement by statement (two vectors, indices into `parents`, `children.pop().or_else(||
parents.pop())`, the binary search for the child's entry in its parent, `retain`, `out`). The
driver runs BOTH and reports a mismatch, so every correspondence case checks real code = loop
and loop = recursion. -/

structure LItem where
  parent : Option Nat
  path : Path
  tree : List Entry
  deriving Repr

structure LState where
  parents : List LItem
  children : List LItem
  cache : Assoc Path (List Entry)
  store : Assoc Bytes (List Entry)
  calls : Nat
  deriving Repr

/-- `for entry in &tree.entries { if entry.mode.is_tree() { if let Some(sub) = self.trees.remove(..) {..} } }` -/
def scanChildren (path : Path) (nextIdx : Nat) :
    List Entry → Assoc Path (List Entry) × List LItem → Assoc Path (List Entry) × List LItem
  | [], acc => acc
  | e :: es, acc =>
    if e.isTree then
      match aget (path ++ [e.name]) acc.1 with
      | some sub => scanChildren path nextIdx es
          (aerase (path ++ [e.name]) acc.1, acc.2 ++ [⟨some nextIdx, path ++ [e.name], sub⟩])
      | none => scanChildren path nextIdx es acc
    else scanChildren path nextIdx es acc

inductive LRes where
  | done (id : Bytes) (calls : Nat) (trees : Assoc Path (List Entry)) (store : Assoc Bytes (List Entry))
  | panic
  | fuel
  deriving Repr

def popLast (l : List α) : Option (α × List α) :=
  match l.getLast? with
  | some x => some (x, l.dropLast)
  | none => none

/-- the `while let Some(..) = children.pop().or_else(|| parents.pop())` loop -/
def writeLoop (hash : List Entry → Bytes) (fromCursor : Bool) : Nat → LState → LRes
  | 0, _ => .fuel
  | fuel + 1, st =>
    let popped : Option (LItem × List LItem × List LItem) :=
      match popLast st.children with
      | some (it, cs) => some (it, st.parents, cs)
      | none =>
        match popLast st.parents with
        | some (it, ps) => some (it, ps, st.children)
        | none => none
    match popped with
    | none => .panic   -- unreachable!("we exit as soon as everything is consumed")
    | some (it, parents, children) =>
      let sc := scanChildren it.path parents.length it.tree (st.cache, [])
      if sc.2.isEmpty then
        -- all_entries_unchanged_or_written
        let tree := it.tree.filter (fun e => e.oid != nullId)
        match it.parent with
        | some idx =>
          match parents[idx]? with
          | none => .panic   -- expect("always present, pointing towards zero")
          | some par =>
            let name := it.path.getLast?.getD []
            match binarySearchBy par.tree (fun e => cmpEntryWithName e name true) with
            | .found ei =>
              if tree.isEmpty then
                writeLoop hash fromCursor fuel
                  { st with parents := parents.set idx { par with tree := par.tree.eraseIdx ei },
                            children := children, cache := sc.1 }
              else
                let id := hash tree
                match par.tree[ei]? with
                | none => .panic
                | some pe =>
                  writeLoop hash fromCursor fuel
                    { parents := parents.set idx { par with tree := par.tree.set ei { pe with oid := id } },
                      children := children, cache := sc.1,
                      store := aset id tree st.store, calls := st.calls + 1 }
            | _ => .panic   -- expect("the parent always knows us by name")
        | none =>
          if parents.isEmpty then
            let id := hash tree
            .done id (st.calls + 1)
              (if fromCursor then aset it.path tree sc.1 else [(it.path, tree)])
              (aset id tree st.store)
          else if !tree.isEmpty then
            writeLoop hash fromCursor fuel
              { parents := parents, children := children, cache := sc.1,
                store := aset (hash tree) tree st.store, calls := st.calls + 1 }
          else writeLoop hash fromCursor fuel { st with parents := parents, children := children, cache := sc.1 }
      else
        writeLoop hash fromCursor fuel
          { st with parents := parents ++ [it], children := children ++ sc.2, cache := sc.1 }

/-- `write_at_pathbuf` as the loop -/
def writeAtLoop (hash : List Entry → Bytes) (ed : Ed) (fromCursor : Bool) : LRes :=
  match aget ed.pathBuf ed.trees with
  | none => .panic
  | some root =>
    let cache := aerase ed.pathBuf ed.trees
    writeLoop hash fromCursor (4 * cache.length + 8)
      ⟨[⟨none, ed.pathBuf, root⟩], [], cache, ed.store, 0⟩

/-- same content, whatever the order of insertion -/
def sameAssoc [DecidableEq κ] [BEq β] (a b : Assoc κ β) : Bool :=
  a.all (fun kv => match aget kv.1 b with | some v => v == kv.2 | none => false) &&
  b.all (fun kv => match aget kv.1 a with | some v => v == kv.2 | none => false)

/-- the result of the recursion, unless the literal loop disagrees with it -/
def writeChecked (hash : List Entry → Bytes) (ed : Ed) (fromCursor : Bool) : Option WriteRes :=
  match writeAt hash ed fromCursor, writeAtLoop hash ed fromCursor with
  | .panic, .panic => some .panic
  | .ok id calls ed', .done id2 calls2 trees2 store2 =>
    if id == id2 && calls == calls2 && sameAssoc ed'.trees trees2 && sameAssoc ed'.store store2
    then some (.ok id calls ed') else none
  | _, _ => none

/-! ### driver -/

/-- the driver's stand-in for SHA-1: an injective encoding (never 20 bytes long, never null), with
the well-known id for the empty tree -/
def encHash (es : List Entry) : Bytes :=
  if es.isEmpty then emptyTreeId
  else 255 :: es.flatMap (fun e =>
    natDec e.mode ++ [32] ++ natDec e.name.length ++ [32] ++ e.name ++ natDec e.oid.length ++ [32] ++ e.oid)

/-- octal mode as text -/
def octStr (n : Nat) : String := String.ofList ((natOct n).map (fun b => Char.ofNat b.toNat))

/-- leaves reachable from tree `id` through `store`, in tree order (fuel bounds the depth) -/
def flatten (store : Assoc Bytes (List Entry)) : Nat → Bytes → Bytes → List String
  | 0, _, _ => ["too-deep"]
  | fuel + 1, id, pfx =>
    match aget id store with
    | none => []
    | some es => es.flatMap (fun e =>
        let p := pushPath pfx e.name
        if e.isTree && (aget e.oid store).isSome then flatten store fuel e.oid p
        else
          let p := if e.isTree then p ++ [47] else p
          [s!"{hexOfBytes p}:{octStr e.mode}:{hexOfBytes e.oid}"])

def takeEntries : Nat → List String → Option (List Entry × List String)
  | 0, rest => some ([], rest)
  | n + 1, m :: nm :: oid :: rest => do
    let m ← m.toNat?
    let nm ← bytesOfHex nm
    let oid ← bytesOfHex oid
    let (es, rest) ← takeEntries n rest
    some ({ mode := m, name := nm, oid := oid } :: es, rest)
  | _, _ => none

def takePath : Nat → List String → Option (List Bytes × List String)
  | 0, rest => some ([], rest)
  | n + 1, c :: rest => do
    let c ← bytesOfHex c
    let (cs, rest) ← takePath n rest
    some (c :: cs, rest)
  | _, _ => none

def isKind (m : Nat) : Bool :=
  m == 0o040000 || m == 0o100644 || m == 0o100755 || m == 0o120000 || m == 0o160000

structure Run where
  ed : Ed
  cursor : Option Path
  obs : List String
  dead : Bool

def Run.push (r : Run) (o : String) : Run := { r with obs := r.obs ++ [o] }

def Run.edit (r : Run) (res : EditRes) (keepCursor : Option Path) : Run :=
  match res with
  | .ok ed => { r with ed := ed, cursor := keepCursor, obs := r.obs ++ ["ok"] }
  | .errEmpty ed => { r with ed := ed, cursor := keepCursor, obs := r.obs ++ ["err:empty"] }
  | .errFind ed => { r with ed := ed, cursor := keepCursor, obs := r.obs ++ ["err:find"] }
  | .panic => { r with obs := r.obs ++ ["panic"], dead := true }

def Run.wrote (r : Run) (res : WriteRes) (keepCursor : Option Path) : Run :=
  match res with
  | .panic => { r with obs := r.obs ++ ["panic"], dead := true }
  | .ok id calls ed =>
    let listing := String.intercalate "," (flatten ed.store 65 id [])
    { r with ed := ed, cursor := keepCursor, obs := r.obs ++ [s!"W:{calls}:[{listing}]"] }

def emptyEd : Ed := { trees := [([], [])], store := [], pathBuf := [] }

/-- one token-group of the history; `none` = malformed line. Fuel = number of tokens. -/
def runOps : Nat → Run → List String → Option Run
  | 0, r, toks => if toks.isEmpty then some r else none
  | fuel + 1, r, toks =>
    if r.dead then some r else
    match toks with
    | [] => some r
    | "new" :: rest => runOps fuel { r with ed := emptyEd, cursor := none, obs := r.obs ++ ["ok"] } rest
    | "store" :: id :: n :: rest => do
      let id ← bytesOfHex id
      let n ← n.toNat?
      let (es, rest) ← takeEntries n rest
      runOps fuel { r with ed := { r.ed with store := aset id es r.ed.store }, cursor := none, obs := r.obs ++ ["ok"] } rest
    | "setroot" :: n :: rest => do
      let n ← n.toNat?
      let (es, rest) ← takeEntries n rest
      runOps fuel { r with ed := setRoot r.ed es, cursor := none, obs := r.obs ++ ["ok"] } rest
    | "U" :: m :: id :: k :: rest => do
      let m ← m.toNat?
      let id ← bytesOfHex id
      let k ← k.toNat?
      let (p, rest) ← takePath k rest
      if !isKind m then runOps fuel { r.push "badkind" with cursor := none } rest
      else runOps fuel (r.edit (upsert r.ed p m id) none) rest
    | "R" :: k :: rest => do
      let k ← k.toNat?
      let (p, rest) ← takePath k rest
      runOps fuel (r.edit (remove r.ed p) none) rest
    | "W" :: rest =>
      match writeChecked encHash { r.ed with pathBuf := [] } false with
      | some res => runOps fuel (r.wrote res none) rest
      | none => runOps fuel (r.push "LOOP-REC-MISMATCH") rest
    | "C" :: k :: rest => do
      let k ← k.toNat?
      let (p, rest) ← takePath k rest
      match cursorAt r.ed p with
      | .ok ed => runOps fuel { r with ed := ed, cursor := some ed.pathBuf, obs := r.obs ++ ["ok"] } rest
      | res => runOps fuel (r.edit res none) rest
    | "cU" :: m :: id :: k :: rest => do
      let m ← m.toNat?
      let id ← bytesOfHex id
      let k ← k.toNat?
      let (p, rest) ← takePath k rest
      match r.cursor with
      | none => runOps fuel (r.push "nocursor") rest
      | some pfx =>
        if !isKind m then runOps fuel (r.push "badkind") rest
        else runOps fuel (r.edit (cursorUpsert r.ed pfx p m id) (some pfx)) rest
    | "cR" :: k :: rest => do
      let k ← k.toNat?
      let (p, rest) ← takePath k rest
      match r.cursor with
      | none => runOps fuel (r.push "nocursor") rest
      | some pfx => runOps fuel (r.edit (cursorRemove r.ed pfx p) (some pfx)) rest
    | "cW" :: rest =>
      match r.cursor with
      | none => runOps fuel (r.push "nocursor") rest
      | some pfx =>
        match writeChecked encHash { r.ed with pathBuf := pfx } true with
        | some res => runOps fuel (r.wrote res (some pfx)) rest
        | none => runOps fuel (r.push "LOOP-REC-MISMATCH") rest
    | _ => none

def handle? : List String → Option String
  | "h" :: toks => do
    let r ← runOps (toks.length + 1) ⟨emptyEd, none, [], false⟩ toks
    some (String.intercalate "|" r.obs)
  | _ => none

def handle (args : List String) : String := (handle? args).getD "bad-op"

end GixModel.C04
