import GixModel.Model.C36
import GixModel.Spec.C37
/-
C37 — model of gitoxide's ignore decisions.

Rust functions modelled:
  gix_ignore::parse::{Lines::next, truncate_non_escaped_trailing_spaces}        gix-ignore/src/parse.rs
  bstr `lines()` (split at LF, a CR directly before the LF is dropped)
  gix_glob::parse::pattern                                                      (Model/C36.lean)
  gix_glob::search::pattern::{List::from_bytes (base), strip_base_handle_recompute_basename_pos}
  gix_glob::Pattern::matches_repo_relative_path                                 gix-glob/src/pattern.rs
  gix_ignore::search::{pattern_matching_relative_path, pattern_idx_matching_relative_path,
                       Search::pattern_matching_relative_path, Search::from_git_dir}
  gix_worktree::stack::state::ignore::{Ignore::push_directory (the part deciding whether the
      pushed directory is excluded), matching_exclude_pattern_no_dir, matching_exclude_pattern}

The list/stack structure (`decide`) is generic in the pattern type and in the one-pattern matcher,
like its git counterpart `Spec.C37.gitDecide`; `gixMatchOne` instantiates it with
`Pattern::matches_repo_relative_path` on top of `C36.Pattern.matches`.

A query is modelled on a fresh stack: the directories pushed are the root and every proper
directory prefix of the path (the harness asks the real `Stack` in shuffled order, so agreement
also shows that the answer does not depend on the stack's history).
Only the UTF-8 byte order mark is modelled (unicode-bom knows more).
-/
namespace GixModel.C37
open GixModel GixModel.C36
open GixModel.Spec.C37 (PList Hit)

/-- `truncate_non_escaped_trailing_spaces`: the scan; `last` = `last_space_pos`.
`none` = the early `return buf` behind a trailing backslash. -/
def truncScan : Bytes → Nat → Option Nat → Option (Option Nat)
  | [], _, last => some last
  | c :: r, pos, last =>
    if c == 32 then truncScan r (pos + 1) (if last.isSome then last else some pos)
    else if c == 92 then
      match r with
      | [] => none
      | _ :: r' => truncScan r' (pos + 2) none
    else truncScan r (pos + 1) none

def truncateNonEscapedTrailingSpaces (buf : Bytes) : Bytes :=
  match truncScan buf 0 none with
  | some (some pos) => buf.take pos
  | _ => buf

/-- `gix_ignore::Kind` -/
inductive Kind | expendable | precious
  deriving Repr, DecidableEq

/-- the body of `Lines::next` for one line (without terminator); `none` = `continue` -/
def parseLine (line : Bytes) : Option (Pattern × Kind) :=
  match line with
  | [] => none
  | 35 :: _ => none
  | first :: rest =>
    let (line, kind, canNegate, skip) : Bytes × Kind × Bool × Bool :=
      if first == 36 then (rest, Kind.precious, false, false)
      else
        let second := rest.head?
        if first == 33 && second == some 36 then (line, Kind.expendable, true, true)
        else if first == 92 && second == some 36 then (rest, Kind.expendable, true, false)
        else (line, Kind.expendable, true, false)
    if skip then none
    else
      match parsePattern (truncateNonEscapedTrailingSpaces line) canNegate with
      | none => none
      | some p => some (p, kind)

/-- bstr `lines_with_terminator` + `trim_last_terminator` -/
def bstrLines : Bytes → Bytes → List Bytes
  | [], acc => if acc.isEmpty then [] else [acc.reverse]
  | c :: r, acc =>
    if c == 10 then
      (match acc with
        | 13 :: a => a.reverse
        | _ => acc.reverse) :: bstrLines r []
    else bstrLines r (c :: acc)

/-- `gix_ignore::parse(bytes)`: patterns with their line numbers -/
def parseFile (content : Bytes) : List ((Pattern × Kind) × Nat) :=
  let buf := match content with
    | 239 :: 187 :: 191 :: r => r
    | _ => content
  let rec go : List Bytes → Nat → List ((Pattern × Kind) × Nat)
    | [], _ => []
    | l :: ls, n =>
      match parseLine l with
      | none => go ls (n + 1)
      | some p => (p, n) :: go ls (n + 1)
  go (bstrLines buf []) 1

/-! ### one pattern, one path -/

/-- `strip_base_handle_recompute_basename_pos`: the path relative to the base of the list -/
def stripBase (icase : Bool) (base path : Bytes) : Option Bytes :=
  if base.isEmpty then some path
  else if icase then
    if path.length < base.length then none
    else if eqIgnoreAsciiCase (path.take base.length) base then some (path.drop base.length) else none
  else if base.isPrefixOf path then some (path.drop base.length) else none

/-- `Pattern::matches_repo_relative_path(path, basename_start_pos, is_dir, case, NO_MATCH_SLASH_LITERAL)`;
`basename_start_pos` is recomputed from the path (the debug assertion of the source demands it) -/
def matchesRepoRelativePath (p : Pattern) (path : Bytes) (isDir : Bool) (icase : Bool) : Bool :=
  if !isDir && p.mode.mustBeDir then false
  else
    let flags : Mode := { noMatchSlash := true, ignoreCase := icase }
    if p.mode.noSubDir && !p.mode.absolute then
      p.matches ((path.reverse.takeWhile (· != 47)).reverse) flags
    else p.matches path flags

/-- one pattern of a list with base `base` against a repository-relative path -/
def gixMatchOne (icase : Bool) (p : Pattern × Kind) (base path : Bytes) (isDir : Bool) : Bool :=
  match stripBase icase base path with
  | none => false
  | some rel => matchesRepoRelativePath p.1 rel isDir icase

/-! ### lists, groups, the stack — generic in the pattern type -/

/-- `pattern_matching_relative_path` / `pattern_idx_matching_relative_path`: `patterns.iter().rev().find_map` -/
def listMatch {α : Type} (matchOne : α → Bytes → Bytes → Bool → Bool) (neg : α → Bool)
    (path : Bytes) (isDir : Bool) (pl : PList α) : Option Hit :=
  (pl.patterns.reverse.find? (fun pn => matchOne pn.1 pl.base path isDir)).map
    (fun pn => ⟨pl.source, pn.2, neg pn.1⟩)

/-- `Search::pattern_matching_relative_path`: `self.patterns.iter().rev().find_map` -/
def searchMatch {α : Type} (matchOne : α → Bytes → Bytes → Bool → Bool) (neg : α → Bool)
    (path : Bytes) (isDir : Bool) (lists : List (PList α)) : Option Hit :=
  lists.reverse.findSome? (listMatch matchOne neg path isDir)

/-- `groups.iter().rev().find_map` over `[globals, stack, overrides]` -/
def groupsMatch {α : Type} (matchOne : α → Bytes → Bytes → Bool → Bool) (neg : α → Bool)
    (overrides stack globals : List (PList α)) (path : Bytes) (isDir : Bool) : Option Hit :=
  [globals, stack, overrides].reverse.findSome? (searchMatch matchOne neg path isDir)

/-- `push_directory` for every directory of the path: the `matched_directory_patterns_stack`
(without the entry of the root, which is always `None`) and the final `stack` of lists -/
def pushDirectories {α : Type} (matchOne : α → Bytes → Bytes → Bool → Bool) (neg : α → Bool)
    (overrides globals : List (PList α)) :
    List (Bytes × PList α) → List (PList α) → List (Option Hit) → List (Option Hit) × List (PList α)
  | [], stack, matched => (matched, stack)
  | (d, pl) :: rest, stack, matched =>
    pushDirectories matchOne neg overrides globals rest (stack ++ [pl])
      (matched ++ [groupsMatch matchOne neg overrides stack globals d true])

/-- the `fold` of `matching_exclude_pattern`: the deepest positive directory match, else the deepest negative one -/
def chooseDirMatch : List (Option Hit) → Option Hit
  | [] => none
  | m :: rest =>
    -- `rest` is deeper than `m`
    match chooseDirMatch rest with
    | some best => if !best.negative then some best else (match m with
        | some h => if h.negative then some best else some h
        | none => some best)
    | none => m

/-- `Ignore::matching_exclude_pattern` on a fresh stack for `path` -/
def decide {α : Type} (matchOne : α → Bytes → Bytes → Bool → Bool) (neg : α → Bool)
    (overrides globals : List (PList α)) (rootList : PList α) (dirs : List (Bytes × PList α))
    (path : Bytes) (isDir : Bool) : Option Hit :=
  let (matched, stack) := pushDirectories matchOne neg overrides globals dirs [rootList] []
  match chooseDirMatch matched with
  | some h =>
    if !h.negative then some h
    else (groupsMatch matchOne neg overrides stack globals path isDir).or (some h)
  | none => groupsMatch matchOne neg overrides stack globals path isDir

/-! ### driver -/

/-- the proper directory prefixes of a path, top-down: `a/b/f` ↦ `a`, `a/b` -/
def dirPrefixes (path : Bytes) : List Bytes :=
  let rec go : Bytes → Bytes → List Bytes
    | [], _ => []
    | c :: r, acc => if c == 47 then acc.reverse :: go r (c :: acc) else go r (c :: acc)
  go path []

def lookupFile (files : List (Bytes × Bytes)) (d : Bytes) : Option Bytes :=
  (files.find? (fun f => f.1 == d)).map (·.2)

def sourceOfDir (files : List (Bytes × Bytes)) (d : Bytes) : Nat :=
  2 + (files.findIdx (fun f => f.1 == d))

def takeFiles : Nat → List String → Option (List (Bytes × Bytes) × List String)
  | 0, rest => some ([], rest)
  | n + 1, d :: c :: rest => do
    let d ← bytesOfHex d
    let c ← bytesOfHex c
    let (fs, rest) ← takeFiles n rest
    some ((d, c) :: fs, rest)
  | _, _ => none

def optHex (s : String) : Option (Option Bytes) :=
  if s == "none" then some none else (bytesOfHex s).map some

def hitStr (files : List (Bytes × Bytes)) : Option Hit → String
  | none => "none"
  | some h =>
    let src := if h.source == 0 then "xf" else if h.source == 1 then "info"
      else match files[h.source - 2]? with
        | some f => s!"dir:{hexOfBytes f.1}"
        | none => "?"
    s!"{src} {h.line} {if h.negative then "neg" else "pos"}"

def baseOf (d : Bytes) : Bytes := if d.isEmpty then [] else d ++ [47]

structure Query where
  icase : Bool
  xf : Option Bytes
  info : Option Bytes
  files : List (Bytes × Bytes)
  path : Bytes
  isDir : Bool

def parseQuery : List String → Option Query
  | icase :: xf :: info :: n :: rest => do
    let xf ← optHex xf
    let info ← optHex info
    let n ← n.toNat?
    let (files, rest) ← takeFiles n rest
    match rest with
    | [p, isDir] =>
      let p ← bytesOfHex p
      some { icase := icase == "1", xf, info, files, path := p, isDir := isDir == "1" }
    | _ => none
  | _ => none

def gixAnswer (q : Query) : Option Hit :=
  let mk (src : Nat) (base content : Bytes) : PList (Pattern × Kind) :=
    { patterns := parseFile content, base, source := src }
  let globals := (match q.xf with | some c => [mk 0 [] c] | none => [])
    ++ (match q.info with | some c => [mk 1 [] c] | none => [])
  let listFor (d : Bytes) : PList (Pattern × Kind) :=
    match lookupFile q.files d with
    | some c => mk (sourceOfDir q.files d) (baseOf d) c
    | none => { patterns := [], base := [], source := 0 }
  decide (gixMatchOne q.icase) (fun p => p.1.mode.negative) [] globals (listFor [])
    ((dirPrefixes q.path).map fun d => (d, listFor d)) q.path q.isDir

def gitAnswer (q : Query) : Option Hit :=
  let mk (src : Nat) (base content : Bytes) : PList Spec.C37.Pattern :=
    { patterns := Spec.C37.parseFile content, base, source := src }
  let file := (match q.xf with | some c => [mk 0 [] c] | none => [])
    ++ (match q.info with | some c => [mk 1 [] c] | none => [])
  let listFor (d : Bytes) : PList Spec.C37.Pattern :=
    match lookupFile q.files d with
    | some c => mk (sourceOfDir q.files d) (baseOf d) c
    | none => { patterns := [], base := [], source := 0 }
  Spec.C37.gitDecide (Spec.C37.gitMatchOne Spec.C36.wildmatch q.icase) (·.negative) [] file (listFor [])
    ((dirPrefixes q.path).map fun d => (d, listFor d)) q.path q.isDir

def handle? : List String → Option String
  | "ign" :: rest => do
    let q ← parseQuery rest
    some (hitStr q.files (gixAnswer q))
  | "gitign" :: rest => do
    let q ← parseQuery rest
    some (hitStr q.files (gitAnswer q))
  | ["line", l] => do
    let l ← bytesOfHex l
    match parseLine l with
    | none => some "none"
    | some (p, k) =>
      some s!"{hexOfBytes p.text} {p.mode.bits} {match p.firstWildcardPos with | none => "none" | some n => toString n} {match k with | .precious => "precious" | .expendable => "expendable"}"
  | _ => none

def handle (args : List String) : String := (handle? args).getD "bad-op"

end GixModel.C37
