import GixModel.Model.C48
import GixModel.Model.C18
/-
C48 (round 2) — model of the RESOLUTION layer: `gix::revision::spec::parse::Delegate`
(gix/src/revision/spec/parse/delegate/{mod,navigate,revision}.rs, after the `fix:` commits recorded
in known-findings.txt) over an abstract repository.

The repository is data: an object store (kind, parents, tree, tag target per object), a prefix
lookup returning the candidates (none / unique / ambiguous), references (full name → object, probed
in the order of git's DWIM rules = `GixModel.C18.candidates`), reflogs as lists, the prior
checkouts recorded in HEAD's reflog, tracking branches, tree and index lookups by path, and the
commit-message search as an opaque function.

`Delegate.step` is one delegate call: it returns the new state and whether the call was accepted
(`None` in Rust = refused). The candidate SETS of the Rust code (`HashSet<ObjectId>`, with failing
candidates dropped) are lists without duplicates. `finish` is `done()` + `into_rev_spec()`.
`runCalls` interprets a list of calls (refusal = error); `resolve` runs the tokenizer model of
`Model/C48.lean` with this delegate in the loop (so the prefix → describe → ref fallback of
`revision()` takes place) — it is what the driver uses to predict `Repository::rev_parse`.
-/
namespace GixModel.C48R
open GixModel GixModel.C48

/-! ### the repository -/

/-- a reference: its full name and the object it (finally) points to -/
structure Ref where
  name : Bytes
  target : Nat
  deriving Repr, DecidableEq

structure Repo where
  /-- does an object with this number exist? -/
  has : Nat → Bool
  kind : Nat → OKind
  parents : Nat → List Nat
  treeOf : Nat → Nat
  target : Nat → Nat
  /-- objects whose id starts with the (lower-case) hex prefix -/
  byPrefix : Bytes → List Nat
  /-- full reference name → object -/
  refs : List (Bytes × Nat)
  /-- the branch HEAD points to (`none`: detached or unborn) -/
  headRef : Option Bytes
  /-- reflog of a full reference name: the new ids, most recent first (`none`: no reflog) -/
  reflog : Bytes → Option (List Nat)
  /-- "checkout: moving from X to Y" entries of HEAD's reflog, most recent first: X and the previous id -/
  checkouts : List (Bytes × Nat)
  /-- `branch.<name>` tracking ref (full name), for fetch (`false`) and push (`true`) -/
  tracking : Bytes → Bool → Option Bytes
  /-- entry of a tree by path -/
  treePath : Nat → Bytes → Option Nat
  /-- index entry by path and stage -/
  index : Bytes → Nat → Option Nat
  /-- youngest commit whose message matches, from one commit or (`none`) from all references -/
  search : Option Nat → Bytes → Bool → Option Nat

/-- `repo.refs.find(name)`: the first of git's DWIM candidates that exists -/
def Repo.findRef (R : Repo) (name : Bytes) : Option Ref :=
  (C18.candidates name).findSome? fun full => (R.refs.lookup full).map fun t => ⟨full, t⟩

def Repo.lookupFull (R : Repo) (full : Bytes) : Option Ref := (R.refs.lookup full).map fun t => ⟨full, t⟩

/-! ### object navigation (single object) -/

/-- `Object::peel_tags_to_end` (fuel bounds the tag chain) -/
def peelTags (R : Repo) : Nat → Nat → Option Nat
  | 0, _ => none
  | fuel + 1, x =>
    if !R.has x then none
    else if R.kind x == .tag then peelTags R fuel (R.target x) else some x

/-- `Object::peel_to_kind` -/
def peelTo (R : Repo) (k : OKind) : Nat → Nat → Option Nat
  | 0, _ => none
  | fuel + 1, x =>
    if !R.has x then none
    else if R.kind x == k then some x
    else match R.kind x with
      | .commit => peelTo R k fuel (R.treeOf x)
      | .tag => peelTo R k fuel (R.target x)
      | _ => none

/-- a commit-ish made a commit: tags followed, then it must be a commit -/
def toCommit (R : Repo) (fuel x : Nat) : Option Nat :=
  (peelTags R fuel x).bind fun y => if R.kind y == .commit then some y else none

/-- first-parent walk -/
def ancestor (R : Repo) : Nat → Nat → Option Nat
  | 0, x => some x
  | n + 1, x => (R.parents x).head?.bind (ancestor R n)

/-- what one navigation call does to ONE candidate (`none` = this candidate fails) -/
def navOne (R : Repo) (fuel : Nat) (c : Call) (x : Nat) : Option Nat :=
  match c with
  | .parent n => (toCommit R fuel x).bind fun y => (R.parents y)[n - 1]?
  | .ancestor n => (toCommit R fuel x).bind (ancestor R n)
  | .peelKind k => peelTo R k fuel x
  | .peelValid => if R.has x then some x else none
  | .peelTags => peelTags R fuel x
  | .peelPath p =>
    (peelTo R .tree fuel x).bind fun t => if p.isEmpty then some t else R.treePath t p
  | .find re neg =>
    match peelTags R fuel x with
    | some y => if R.kind y == .commit then R.search (some y) re neg else none
    | none => none
  | _ => none

/-! ### the delegate -/

/-- one side of a (possible) range -/
structure Slot where
  ref : Option Ref := none
  objs : Option (List Nat) := none
  /-- `last_call_was_disambiguate_prefix` -/
  lastPrefix : Bool := false
  deriving Repr, DecidableEq

structure DState where
  s0 : Slot := {}
  s1 : Slot := {}
  /-- `idx` (false = 0) -/
  second : Bool := false
  kind : Option SKind := none
  /-- `!self.err.is_empty()` -/
  hasErr : Bool := false
  /-- an `assert!` of the Rust code would fire -/
  bug : Bool := false
  deriving Repr, DecidableEq

def DState.cur (s : DState) : Slot := if s.second then s.s1 else s.s0
def DState.setCur (s : DState) (x : Slot) : DState := if s.second then { s with s1 := x } else { s with s0 := x }

def insertObj (objs : Option (List Nat)) (x : Nat) : List Nat :=
  match objs with
  | none => [x]
  | some l => if l.contains x then l else l ++ [x]

/-- `follow_refs_to_objects_if_needed` on one slot -/
def Slot.follow (x : Slot) : Slot :=
  match x.ref, x.objs with
  | some r, none => { x with objs := some [r.target] }
  | _, _ => x

def DState.follow (s : DState) : DState := { s with s0 := s.s0.follow, s1 := s.s1.follow }

/-- `handle_errors_and_replacements`: all candidates fail → refused; else the failing ones are dropped -/
def mapSet (op : Nat → Option Nat) (objs : List Nat) : Option (List Nat) :=
  let rs := objs.filterMap op
  if rs.isEmpty then none else some rs.eraseDups

def kindImpliesCommittish (k : Option SKind) : Bool :=
  match k with
  | none => false
  | some .includeReachable => false
  | some _ => true

/-- `disambiguate_objects_by_fallback_hint(Committish)` on the current slot: candidates that do
not peel to a commit are dropped unless none does -/
def DState.hintCommittish (R : Repo) (fuel : Nat) (s : DState) : DState :=
  let c := s.cur
  if c.lastPrefix then
    let c := { c with lastPrefix := false }
    match c.objs with
    | none => s.setCur c
    | some objs =>
      let good := objs.filter fun x => (peelTo R .commit fuel x).isSome
      if good.length == objs.length then s.setCur c
      else if good.isEmpty then { (s.setCur c) with hasErr := true }
      else { (s.setCur { c with objs := some good }) with hasErr := true }
  else s

def isNav : Call → Bool
  | .parent _ | .ancestor _ | .peelKind _ | .peelValid | .peelTags | .peelPath _ => true
  | _ => false

/-- `unset_disambiguate_call` -/
def unset (s : DState) : DState := s.setCur { s.cur with lastPrefix := false }

/-- `traverse` / `peel_until` / `find` with a revision: apply the navigation to every candidate -/
def navStep (R : Repo) (fuel : Nat) (s : DState) (c : Call) : DState × Bool :=
  let s := (unset s).follow
  match s.cur.objs with
  | none => (s, false)
  | some objs =>
    match mapSet (navOne R fuel c) objs with
    | some objs' => (s.setCur { s.cur with objs := some objs' }, true)
    | none => ({ s with hasErr := true }, false)

/-- `repo.head().try_into_referent()` -/
def headReferent (R : Repo) : Option Ref := R.headRef.bind R.lookupFull

/-- one delegate call: new state and whether it was accepted -/
def step (R : Repo) (fuel : Nat) (s : DState) (c : Call) : DState × Bool :=
  let cur := s.cur
  match c with
  | .findRef name =>
    let s := unset s
    if s.hasErr && s.cur.ref.isSome then (s, false)
    else match R.findRef name with
      | some r =>
        if s.cur.ref.isSome then ({ s with bug := true }, false)
        else (s.setCur { s.cur with ref := some r }, true)
      | none => ({ s with hasErr := true }, false)
  | .prefix h _ =>
    let cands := R.byPrefix h
    let s := s.setCur { cur with lastPrefix := true }
    if cands.isEmpty then ({ s with hasErr := true }, false)
    else if s.cur.objs.isSome then ({ s with bug := true }, false)
    else if h.length == 40 then (s.setCur { s.cur with objs := some cands }, true)
    else match R.findRef h with
      | some r =>
        if s.cur.ref.isSome then ({ s with bug := true }, false)
        else (s.setCur { s.cur with ref := some r }, true)
      | none => (s.setCur { s.cur with objs := some cands }, true)
  | .reflogDate _ => ({ (unset s) with hasErr := true }, false)
  | .reflogEntry n =>
    let s := unset s
    let r? : Option Ref := match s.cur.ref with
      | some r => some r
      | none => headReferent R
    match r? with
    | none => ({ s with hasErr := true }, false)
    | some r =>
      let s := if s.cur.ref.isNone then s.setCur { s.cur with ref := some r } else s
      match R.reflog r.name with
      | none => ({ s with hasErr := true }, false)
      | some log =>
        match log[n]? with
        | some oid => (s.setCur { s.cur with objs := some (insertObj s.cur.objs oid) }, true)
        | none => ({ s with hasErr := true }, false)
  | .nthCheckedOut n =>
    let s := unset s
    match R.checkouts[n - 1]? with
    | none => ({ s with hasErr := true }, false)
    | some (name, prev) =>
      match R.findRef name with
      | some r =>
        let id := (peelTags R fuel r.target).getD prev
        (s.setCur { s.cur with ref := some r, objs := some (insertObj s.cur.objs id) }, true)
      | none => (s.setCur { s.cur with objs := some (insertObj s.cur.objs prev) }, true)
  | .sibling push =>
    let s := unset s
    let base? : Option Ref := match s.cur.ref with
      | some r => if r.name == HEAD then (match headReferent R with | some b => some b | none => some r) else some r
      | none => headReferent R
    match base? with
    | none => ({ s with hasErr := true }, false)
    | some b =>
      let s := if s.cur.ref.isNone then s.setCur { s.cur with ref := some b } else s
      match (R.tracking b.name push).bind R.lookupFull with
      | some t => (s.setCur { s.cur with ref := some t }, true)
      | none => ({ s with hasErr := true }, false)
  | .find re neg =>
    let s' := (unset s).follow
    match s'.cur.objs with
    | some _ => navStep R fuel s c
    | none =>
      (match R.search none re neg with
        | some x => (s'.setCur { s'.cur with objs := some [x] }, true)
        | none => ({ s' with hasErr := true }, false))
  | .index path stage =>
    let s := unset s
    match R.index path stage with
    | some x => (s.setCur { s.cur with objs := some (insertObj s.cur.objs x) }, true)
    | none => ({ s with hasErr := true }, false)
  | .kind k =>
    let s := { s with kind := some k }
    let s := if kindImpliesCommittish s.kind then s.hintCommittish R fuel else s
    let s := if k == .rangeBetween || k == .reachableToMergeBase then { s with second := true } else s
    (s, true)
  | .done =>
    let s := s.follow
    let s := if kindImpliesCommittish s.kind then s.hintCommittish R fuel else s
    (s, true)
  | c => navStep R fuel s c   -- traverse / peel_until

/-- `gix_revision::Spec` -/
inductive RSpec
  | include_ (a : Nat)
  | exclude (a : Nat)
  | range (from_ to : Nat)
  | merge (theirs ours : Nat)
  | includeParents (a : Nat)
  | excludeParents (a : Nat)
  deriving Repr, DecidableEq

inductive Outcome
  | ok (s : RSpec)
  | err
  | panic
  deriving Repr, DecidableEq

/-- one slot of `into_rev_spec`: exactly one candidate, or none at all -/
def slotId (x : Slot) : Except Unit (Option Nat) :=
  match x.objs with
  | none => .ok none
  | some [a] => .ok (some a)
  | some _ => .error ()

/-- `into_rev_spec` + `kind_to_spec` -/
def finish (s : DState) : Outcome :=
  if s.bug then .panic
  else match slotId s.s0, slotId s.s1 with
    | .ok a, .ok b =>
      (match s.kind.getD .includeReachable, a, b with
        | .includeReachable, some a, _ => .ok (.include_ a)
        | .excludeReachable, some a, _ => .ok (.exclude a)
        | .rangeBetween, some a, some b => .ok (.range a b)
        | .reachableToMergeBase, some a, some b => .ok (.merge a b)
        | .includeParents, some a, _ => .ok (.includeParents a)
        | .excludeParents, some a, _ => .ok (.excludeParents a)
        | _, _, _ => .err)
    | _, _ => .err

/-- interpret a list of calls; a refused call is an error -/
def runCalls (R : Repo) (fuel : Nat) : DState → List Call → Option DState
  | s, [] => some s
  | s, c :: cs =>
    let r := step R fuel s c
    if r.2 then runCalls R fuel r.1 cs else none

/-- `Spec::from_bstr` on the calls a spec means -/
def resolveCalls (R : Repo) (fuel : Nat) (calls : List Call) : Outcome :=
  match runCalls R fuel {} calls with
  | some s => finish s
  | none => .err

/-! ### the tokenizer with this delegate in the loop -/

/-- replay the calls made so far (accepted or not) -/
def replay (R : Repo) (fuel : Nat) (calls : List Call) : DState :=
  calls.foldl (fun s c => (step R fuel s c).1) {}

def policyOf (answers : List Bool) : Delegate := fun i _ => answers.getD i true

/-- the delegate's answers to the first `n` calls of parsing `input` -/
def answers (R : Repo) (fuel : Nat) (input : Bytes) : Nat → List Bool
  | 0 => []
  | n + 1 =>
    let prev := answers R fuel input n
    let res := tokenize (policyOf prev) (fun _ => true) input
    match res.calls[n]? with
    | none => prev
    | some c => prev ++ [(step R fuel (replay R fuel (res.calls.take n)) c).2]

/-- `Repository::rev_parse(input)` as the models predict it -/
def resolve (R : Repo) (fuel : Nat) (input : Bytes) : Outcome :=
  let n := 4 * input.length + 8
  let res := tokenize (policyOf (answers R fuel input n)) (fun _ => true) input
  let s := replay R fuel res.calls
  if s.bug then .panic
  else match res.out with
    | .ok => finish s
    | .panic _ => .panic
    | _ => .err

end GixModel.C48R

namespace GixModel.C48R
open GixModel GixModel.C48

/-! ### driver: a repository given by exported facts -/

structure Obj where
  hexid : Bytes
  kind : OKind
  parents : List Nat
  tree : Nat
  target : Nat
  deriving Repr

structure Facts where
  objs : Array Obj := #[]
  refs : List (Bytes × Nat) := []
  headRef : Option Bytes := none
  reflogs : List (Bytes × List Nat) := []
  checkouts : List (Bytes × Nat) := []
  tracking : List (Bytes × Bool × Bytes) := []
  treePaths : List (Nat × Bytes × Nat) := []
  index : List (Bytes × Nat × Nat) := []

def Facts.toRepo (f : Facts) : Repo where
  has := fun i => i < f.objs.size
  kind := fun i => (f.objs[i]?.map (·.kind)).getD .blob
  parents := fun i => (f.objs[i]?.map (·.parents)).getD []
  treeOf := fun i => (f.objs[i]?.map (·.tree)).getD 0
  target := fun i => (f.objs[i]?.map (·.target)).getD 0
  byPrefix := fun h =>
    (List.range f.objs.size).filter fun i => (f.objs[i]?.map fun o => o.hexid.take h.length == h).getD false
  refs := f.refs
  headRef := f.headRef
  reflog := fun n => f.reflogs.lookup n
  checkouts := f.checkouts
  tracking := fun n push => (f.tracking.find? fun t => t.1 == n && t.2.1 == push).map (·.2.2)
  treePath := fun t p => (f.treePaths.find? fun x => x.1 == t && x.2.1 == p).map (·.2.2)
  index := fun p st => (f.index.find? fun x => x.1 == p && x.2.1 == st).map (·.2.2)
  search := fun _ _ _ => none

def csvNats (s : String) : Option (List Nat) :=
  if s == "-" then some [] else (s.splitOn ",").mapM String.toNat?

def optNat (s : String) : Option Nat := if s == "-" then some 0 else s.toNat?

def kindOfTok : String → Option OKind
  | "c" => some .commit | "t" => some .tree | "b" => some .blob | "T" => some .tag | _ => none

def parseFacts : Nat → List String → Facts → Option Facts
  | _, [], f => some f
  | 0, _, _ => none
  | fuel + 1, "o" :: hx :: k :: ps :: tr :: tg :: rest, f => do
    let o : Obj := ⟨hx.toUTF8.toList, ← kindOfTok k, ← csvNats ps, ← optNat tr, ← optNat tg⟩
    parseFacts fuel rest { f with objs := f.objs.push o }
  | fuel + 1, "r" :: n :: i :: rest, f => do
    parseFacts fuel rest { f with refs := f.refs ++ [(← bytesOfHex n, ← i.toNat?)] }
  | fuel + 1, "h" :: n :: rest, f => do
    parseFacts fuel rest { f with headRef := some (← bytesOfHex n) }
  | fuel + 1, "l" :: n :: ids :: rest, f => do
    parseFacts fuel rest { f with reflogs := f.reflogs ++ [(← bytesOfHex n, ← csvNats ids)] }
  | fuel + 1, "c" :: n :: i :: rest, f => do
    parseFacts fuel rest { f with checkouts := f.checkouts ++ [(← bytesOfHex n, ← i.toNat?)] }
  | fuel + 1, "u" :: n :: p :: t :: rest, f => do
    parseFacts fuel rest { f with tracking := f.tracking ++ [(← bytesOfHex n, p == "1", ← bytesOfHex t)] }
  | fuel + 1, "p" :: t :: p :: i :: rest, f => do
    parseFacts fuel rest { f with treePaths := f.treePaths ++ [(← t.toNat?, ← bytesOfHex p, ← i.toNat?)] }
  | fuel + 1, "i" :: p :: st :: i :: rest, f => do
    parseFacts fuel rest { f with index := f.index ++ [(← bytesOfHex p, ← st.toNat?, ← i.toNat?)] }
  | _, _, _ => none

def Outcome.str (f : Facts) : Outcome → String
  | .err => "err"
  | .panic => "panic"
  | .ok s =>
    let h (i : Nat) : String := (f.objs[i]?.map fun o => String.ofList (o.hexid.map fun b => Char.ofNat b.toNat)).getD s!"?{i}"
    match s with
    | .include_ a => s!"ok include {h a}"
    | .exclude a => s!"ok exclude {h a}"
    | .range a b => s!"ok range {h a} {h b}"
    | .merge a b => s!"ok merge {h a} {h b}"
    | .includeParents a => s!"ok incparents {h a}"
    | .excludeParents a => s!"ok excparents {h a}"

def handleRes : List String → Option String
  | spec :: rest => do
    let spec ← bytesOfHex spec
    let f ← parseFacts (rest.length + 1) rest {}
    some ((resolve f.toRepo (f.objs.size + 2) spec).str f)
  | _ => none

def handle (args : List String) : String :=
  match args with
  | "res" :: rest => (handleRes rest).getD "bad-op"
  | _ => C48.handle args

end GixModel.C48R
