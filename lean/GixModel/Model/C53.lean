import GixModel.Spec.C53
/-
C53 — model of gix-mailmap (as of the `fix:` commit recorded in known-findings.txt).

Rust functions modelled (all in /repo/gix-mailmap/src):
  parse.rs            Lines::next, parse_line, parse_name_and_email
  snapshot/util.rs    EncodedString::cmp_ref, From<&BStr> (UTF-8 or not)
  snapshot/entry.rs   EmailEntry::merge, From<Entry> for EmailEntry
  snapshot/mod.rs     Snapshot::{from_bytes, new, merge, entries, try_resolve_ref, try_resolve, resolve}
  snapshot/signature.rs ResolvedSignature::try_new
External, modelled and tied by correspondence:
  bstr `lines()` (split at LF, one CR before the LF dropped), bstr `trim()` with the `unicode`
  feature (Unicode White_Space, longest prefix / suffix), `str::from_utf8` (validity only),
  `<[T]>::binary_search_by` of the installed std (1.95: branch-free loop, transcribed below and
  pinned by the harness op `bsearch`), `chars().map(to_ascii_lowercase).cmp(..)` written as the
  comparison of the ASCII-lower-cased UTF-8 bytes (UTF-8 preserves code point order).
-/
namespace GixModel.C53
open GixModel
open GixModel.Spec.C53 (Entry)

/-! ### bstr -/

/-- `bstr::ByteSlice::lines`: pieces between LFs; a CR right before the LF is dropped; a last
piece without LF is a line (its CR stays); the empty input has no lines. -/
def bstrLines (bs : Bytes) : List Bytes := go bs []
where
  stripCr (accRev : Bytes) : Bytes :=
    match accRev with
    | 13 :: r => r.reverse
    | r => r.reverse
  go : Bytes → Bytes → List Bytes
    | [], acc => if acc.isEmpty then [] else [acc.reverse]
    | b :: rest, acc => if b == 10 then stripCr acc :: go rest [] else go rest (b :: acc)

/-- the `White_Space` characters git's `isspace` knows too: SP, HT, LF, CR -/
def gitSpaces : List Bytes := [[32], [9], [10], [13]]

/-- the other `White_Space` characters, UTF-8 encoded: U+000B, 000C, 0085, 00A0, 1680,
2000..200A, 2028, 2029, 202F, 205F, 3000 -/
def exoticWs : List Bytes :=
  [[0x0B], [0x0C], [0xC2, 0x85], [0xC2, 0xA0], [0xE1, 0x9A, 0x80],
   [0xE2, 0x80, 0x80], [0xE2, 0x80, 0x81], [0xE2, 0x80, 0x82], [0xE2, 0x80, 0x83], [0xE2, 0x80, 0x84],
   [0xE2, 0x80, 0x85], [0xE2, 0x80, 0x86], [0xE2, 0x80, 0x87], [0xE2, 0x80, 0x88], [0xE2, 0x80, 0x89],
   [0xE2, 0x80, 0x8A], [0xE2, 0x80, 0xA8], [0xE2, 0x80, 0xA9], [0xE2, 0x80, 0xAF], [0xE2, 0x81, 0x9F],
   [0xE3, 0x80, 0x80]]

def wsPatterns : List Bytes := gitSpaces ++ exoticWs

/-- length of the `White_Space` character at the head (no encoding is a prefix of another), 0 if none -/
def wsLenFwd (s : Bytes) : Nat :=
  match wsPatterns.find? (fun p => p.isPrefixOf s) with
  | some p => p.length
  | none => 0

/-- the same reading backwards: `s` is the reversed string -/
def wsLenRev (s : Bytes) : Nat :=
  match wsPatterns.find? (fun p => p.reverse.isPrefixOf s) with
  | some p => p.length
  | none => 0

/-- `trim_start`: drop the longest prefix of `White_Space` characters -/
def trimStartFuel : Nat → Bytes → Bytes
  | 0, s => s
  | fuel + 1, s =>
    let n := wsLenFwd s
    if n == 0 then s else trimStartFuel fuel (s.drop n)

def trimStart (bs : Bytes) : Bytes := trimStartFuel bs.length bs

/-- the same on the reversed string (`trim_end` runs the reverse automaton from the end) -/
def trimRevFuel : Nat → Bytes → Bytes
  | 0, s => s
  | fuel + 1, s =>
    let n := wsLenRev s
    if n == 0 then s else trimRevFuel fuel (s.drop n)

def trimEnd (bs : Bytes) : Bytes := (trimRevFuel bs.length bs.reverse).reverse

def trim (bs : Bytes) : Bytes := trimEnd (trimStart bs)

/-! ### `str::from_utf8(..).is_ok()` -/

def isCont (b : UInt8) : Bool := 0x80 ≤ b && b ≤ 0xBF

/-- length of the well-formed UTF-8 sequence at the head (RFC 3629 table: no overlong forms, no
surrogates, at most U+10FFFF); 0 if there is none -/
def utf8Len : Bytes → Nat
  | [] => 0
  | b0 :: rest =>
    if b0 < 0x80 then 1
    else if 0xC2 ≤ b0 && b0 ≤ 0xDF then
      match rest with
      | b1 :: _ => if isCont b1 then 2 else 0
      | _ => 0
    else if 0xE0 ≤ b0 && b0 ≤ 0xEF then
      match rest with
      | b1 :: b2 :: _ =>
        if (if b0 == 0xE0 then 0xA0 ≤ b1 && b1 ≤ 0xBF
            else if b0 == 0xED then 0x80 ≤ b1 && b1 ≤ 0x9F
            else isCont b1) && isCont b2 then 3 else 0
      | _ => 0
    else if 0xF0 ≤ b0 && b0 ≤ 0xF4 then
      match rest with
      | b1 :: b2 :: b3 :: _ =>
        if (if b0 == 0xF0 then 0x90 ≤ b1 && b1 ≤ 0xBF
            else if b0 == 0xF4 then 0x80 ≤ b1 && b1 ≤ 0x8F
            else isCont b1) && isCont b2 && isCont b3 then 4 else 0
      | _ => 0
    else 0

def isUtf8Fuel : Nat → Bytes → Bool
  | _, [] => true
  | 0, _ :: _ => false
  | fuel + 1, b :: rest =>
    let n := utf8Len (b :: rest)
    if n == 0 then false else isUtf8Fuel fuel ((b :: rest).drop n)

/-- `str::from_utf8(bs).is_ok()` (every step consumes at least one byte) -/
def isUtf8 (bs : Bytes) : Bool := isUtf8Fuel bs.length bs

/-! ### parse.rs -/

def findByte (c : UInt8) : Bytes → Option Nat
  | [] => none
  | b :: rest => if b == c then some 0 else (findByte c rest).map (· + 1)

/-- `parse_name_and_email`: `none` = `Err(Malformed)` -/
def parseNameAndEmail (line : Bytes) : Option (Option Bytes × Option Bytes × Bytes) :=
  match findByte 60 line with
  | none => some (none, none, line)
  | some start =>
    let email := line.drop (start + 1)
    match findByte 62 email with
    | none => none                                   -- "Missing closing bracket"
    | some closing =>
      let em := trim (email.take closing)
      if em.isEmpty then none                        -- "Email must not be empty"
      else
        let name := trim (line.take start)
        some (if name.isEmpty then none else some name, some em, line.drop (start + closing + 2))

/-- the `match (name1, email1, name2, email2)` of `parse_line`; `none` = `Err(Malformed)` -/
def mkEntry (name1 email1 name2 email2 : Option Bytes) : Option Entry :=
  match name1, email1, name2, email2 with
  | some pn, some ce, none, none => some { newName := some pn, newEmail := none, oldName := none, oldEmail := ce }
  | none, some pe, none, some ce => some { newName := none, newEmail := some pe, oldName := none, oldEmail := ce }
  | some pn, some pe, none, some ce => some { newName := some pn, newEmail := some pe, oldName := none, oldEmail := ce }
  | some pn, some pe, some cn, some ce => some { newName := some pn, newEmail := some pe, oldName := some cn, oldEmail := ce }
  | none, some pe, some cn, some ce => some { newName := none, newEmail := some pe, oldName := some cn, oldEmail := ce }
  | _, _, _, _ => none

/-- `parse_line`: `none` = `Err` (either kind) -/
def parseLine (line : Bytes) : Option Entry :=
  match parseNameAndEmail line with
  | none => none
  | some (name1, email1, rest) =>
    match parseNameAndEmail rest with
    | none => none
    | some (name2, email2, rest2) =>
      if !(trim rest2).isEmpty then none              -- UnconsumedInput
      else mkEntry name1 email1 name2 email2

inductive LineRes
  | skipped                 -- comment or blank: the iterator does not yield an item
  | err
  | entry (e : Entry)
  deriving Repr, DecidableEq

/-- one round of `Lines::next` for one `bstr` line -/
def lineResult (line : Bytes) : LineRes :=
  match line with
  | [] => .skipped
  | b :: _ =>
    if b == 35 then .skipped
    else
      let t := trim line
      if t.isEmpty then .skipped
      else match parseLine t with
        | none => .err
        | some e => .entry e

/-- `parse(buf).collect()` -/
def parseFile (file : Bytes) : List LineRes :=
  (bstrLines file).map lineResult |>.filter (· != .skipped)

/-- `parse_ignore_errors(buf)` -/
def fileEntries (file : Bytes) : List Entry :=
  (bstrLines file).filterMap fun l => match lineResult l with | .entry e => some e | _ => none

/-! ### snapshot -/

def lexCmp : Bytes → Bytes → Ordering
  | [], [] => .eq
  | [], _ :: _ => .lt
  | _ :: _, [] => .gt
  | a :: as, b :: bs => if a < b then .lt else if b < a then .gt else lexCmp as bs

def foldB (bs : Bytes) : Bytes := bs.map asciiLower

/-- `EncodedString::cmp_ref(stored, probe)`; both sides are `Utf8` exactly if they are valid UTF-8 -/
def cmpRef (stored probe : Bytes) : Ordering :=
  if isUtf8 stored && isUtf8 probe then lexCmp (foldB stored) (foldB probe) else lexCmp stored probe

inductive BsRes
  | found (i : Nat)
  | insertAt (i : Nat)
  deriving Repr, DecidableEq

/-- the loop of `binary_search_by` (std 1.95): `while size > 1 { half = size/2; mid = base+half;
base = if f(mid) == Greater { base } else { mid }; size -= half }` -/
def bsLoop {α : Type} (f : α → Ordering) (xs : List α) : Nat → Nat → Nat → Nat
  | 0, base, _ => base
  | fuel + 1, base, size =>
    if size ≤ 1 then base
    else
      let half := size / 2
      let mid := base + half
      match xs[mid]? with
      | none => base
      | some x => bsLoop f xs fuel (if f x == .gt then base else mid) (size - half)

def bsearch {α : Type} (f : α → Ordering) (xs : List α) : BsRes :=
  if xs.isEmpty then .insertAt 0
  else
    let base := bsLoop f xs xs.length 0 xs.length
    match xs[base]? with
    | none => .insertAt 0
    | some x =>
      match f x with
      | .eq => .found base
      | .lt => .insertAt (base + 1)
      | .gt => .insertAt base

def insertAt {α : Type} (xs : List α) (i : Nat) (a : α) : List α := xs.take i ++ a :: xs.drop i

def modifyAt {α : Type} (xs : List α) (i : Nat) (g : α → α) : List α :=
  match xs, i with
  | [], _ => []
  | x :: rest, 0 => g x :: rest
  | x :: rest, i + 1 => x :: modifyAt rest i g

structure NameEntry where
  newName : Option Bytes
  newEmail : Option Bytes
  oldName : Bytes
  deriving Repr, DecidableEq

structure EmailEntry where
  newName : Option Bytes
  newEmail : Option Bytes
  oldEmail : Bytes
  names : List NameEntry
  deriving Repr, DecidableEq

abbrev Snapshot := List EmailEntry

/-- `EmailEntry::merge` -/
def EmailEntry.merge (ee : EmailEntry) (e : Entry) : EmailEntry :=
  match e.oldName with
  | none =>
    { ee with newEmail := (match e.newEmail with | some m => some m | none => ee.newEmail),
              newName := (match e.newName with | some n => some n | none => ee.newName) }
  | some on =>
    match bsearch (fun (x : NameEntry) => cmpRef x.oldName on) ee.names with
    | .found pos =>
      { ee with names := modifyAt ee.names pos fun ne => { ne with newName := e.newName, newEmail := e.newEmail } }
    | .insertAt pos =>
      { ee with names := insertAt ee.names pos { newName := e.newName, newEmail := e.newEmail, oldName := on } }

/-- `From<Entry> for EmailEntry` -/
def EmailEntry.ofEntry (e : Entry) : EmailEntry :=
  match e.oldName with
  | some on =>
    { newName := none, newEmail := none, oldEmail := e.oldEmail,
      names := [{ newName := e.newName, newEmail := e.newEmail, oldName := on }] }
  | none => { newName := e.newName, newEmail := e.newEmail, oldEmail := e.oldEmail, names := [] }

/-- one iteration of `Snapshot::merge`; `none` = the `assert!` fired (panic) -/
def mergeOne (s : Snapshot) (e : Entry) : Option Snapshot :=
  if e.newName.isNone && e.newEmail.isNone then none
  else match bsearch (fun (x : EmailEntry) => cmpRef x.oldEmail e.oldEmail) s with
    | .found pos => some (modifyAt s pos (fun ee => ee.merge e))
    | .insertAt pos => some (insertAt s pos (EmailEntry.ofEntry e))

/-- `Snapshot::new(entries)`; `none` = panic -/
def snapshot (es : List Entry) : Option Snapshot :=
  es.foldl (fun acc e => match acc with | none => none | some s => mergeOne s e) (some [])

/-- `ResolvedSignature::try_new`: (new email, new name), `none` if nothing is mapped -/
def tryNew (newEmail : Option Bytes) (matched current : Bytes) (newName : Option Bytes) :
    Option (Option Bytes × Option Bytes) :=
  let ne := match newEmail with
    | some m => some m
    | none => if matched != current then some matched else none
  match ne, newName with
  | none, none => none
  | ne, nn => some (ne, nn)

/-- `Snapshot::try_resolve_ref` -/
def tryResolve (s : Snapshot) (name email : Bytes) : Option (Option Bytes × Option Bytes) :=
  match bsearch (fun (x : EmailEntry) => cmpRef x.oldEmail email) s with
  | .insertAt _ => none
  | .found pos =>
    match s[pos]? with
    | none => none
    | some entry =>
      match bsearch (fun (x : NameEntry) => cmpRef x.oldName name) entry.names with
      | .found p =>
        match entry.names[p]? with
        | none => none
        | some ne => tryNew ne.newEmail entry.oldEmail email ne.newName
      | .insertAt _ => tryNew entry.newEmail entry.oldEmail email entry.newName

/-- `Snapshot::resolve`: the (name, email) of the returned signature -/
def resolve (s : Snapshot) (name email : Bytes) : Bytes × Bytes :=
  match tryResolve s name email with
  | none => (name, email)
  | some (ne, nn) => (nn.getD name, ne.getD email)

/-- `Snapshot::entries()` -/
def snapshotEntries (s : Snapshot) : List Entry :=
  s.flatMap fun ee =>
    (if ee.newEmail.isSome || ee.newName.isSome then
      [({ newName := ee.newName, newEmail := ee.newEmail, oldName := none, oldEmail := ee.oldEmail } : Entry)]
     else []) ++
    ee.names.map fun ne => { newName := ne.newName, newEmail := ne.newEmail, oldName := some ne.oldName, oldEmail := ee.oldEmail }

/-- `Snapshot::from_bytes(file).resolve(name, email)`; `none` = panic -/
def resolveFile (file name email : Bytes) : Option (Bytes × Bytes) :=
  (snapshot (fileEntries file)).map fun s => resolve s name email

/-! ### driver -/

def optHex : Option Bytes → String
  | none => "~"
  | some b => hexOfBytes b

def entryStr (e : Entry) : String :=
  s!"{optHex e.newName}:{optHex e.newEmail}:{optHex e.oldName}:{hexOfBytes e.oldEmail}"

def lineResStr : LineRes → String
  | .skipped => "skip"
  | .err => "err"
  | .entry e => entryStr e

def pairStr (p : Bytes × Bytes) : String := s!"{hexOfBytes p.1} {hexOfBytes p.2}"

def joinWith (sep : String) : List String → String
  | [] => "-"
  | x :: xs => xs.foldl (fun acc s => acc ++ sep ++ s) x

def ordOfChar? : Char → Option Ordering
  | 'L' => some .lt | 'E' => some .eq | 'G' => some .gt | _ => none

def bsStr : BsRes → String
  | .found i => s!"ok:{i}"
  | .insertAt i => s!"err:{i}"

/-- identities come as `name email name email …` -/
def pairsOf : List String → Option (List (Bytes × Bytes))
  | [] => some []
  | n :: e :: rest => do
    let n ← bytesOfHex n
    let e ← bytesOfHex e
    let r ← pairsOf rest
    some ((n, e) :: r)
  | _ => none

def handle? : List String → Option String
  | ["trim", x] => do
    let b ← bytesOfHex x
    some s!"{hexOfBytes (trim b)} {hexOfBytes (trimStart b)} {hexOfBytes (trimEnd b)}"
  | ["utf8", x] => do
    let b ← bytesOfHex x
    some (if isUtf8 b then "1" else "0")
  | ["cmp", a, b] => do
    let a ← bytesOfHex a
    let b ← bytesOfHex b
    some (match cmpRef a b with | .lt => "L" | .eq => "E" | .gt => "G")
  | ["bsearch", tbl] => do
    -- the comparator is given by its value per element: f(xs[i]) = tbl[i]
    let os ← (if tbl == "-" then some [] else tbl.toList.mapM ordOfChar?)
    some (bsStr (bsearch (fun (o : Ordering) => o) os))
  | ["parse", file] => do
    let f ← bytesOfHex file
    some (joinWith "|" ((parseFile f).map lineResStr))
  | ["entries", file] => do
    let f ← bytesOfHex file
    match snapshot (fileEntries f) with
    | none => some "panic"
    | some s => some (joinWith "|" ((snapshotEntries s).map entryStr))
  | "resolve" :: file :: ids => do
    let f ← bytesOfHex file
    let ids ← pairsOf ids
    match snapshot (fileEntries f) with
    | none => some "panic"
    | some s => some (joinWith "|" (ids.map fun (n, e) => pairStr (resolve s n e)))
  | "git" :: file :: ids => do
    -- the git side: what `git check-mailmap` prints according to Spec.C53
    let f ← bytesOfHex file
    let ids ← pairsOf ids
    let m := Spec.C53.readMailmap f
    some (joinWith "|" (ids.map fun (n, e) => pairStr (Spec.C53.mapUser m n e)))
  | _ => none

def handle (args : List String) : String := (handle? args).getD "bad-op"

end GixModel.C53
