import GixModel.Model.C24Core
import GixModel.Spec.C24
import GixModel.Spec.C24Ext
/-
C24 — driver glue for the index-decoder model (`Model/C24Core.lean`) and the git-side spec
(`Spec/C24.lean`): canonical rendering of a decoded index and the line protocol.
  dec <hex>      decode with thread limits 1,2,3,4,8,16 (must equal what gitoxide observed)
  spec <hex>     decode, re-encode with the transcription of git's writer, compare with git's bytes
  specext <hex>  the same for the UNTR and link payloads
  varint <hex>   `leb64_from_read`
  sha1 <hex>     the SHA-1 the driver instantiates the model with
-/
namespace GixModel.C24
open GixModel

/-! ### driver -/

def natHex (n : Nat) : String := String.ofList (Nat.toDigits 16 n)

def showStat (s : Stat) : String :=
  s!"{s.ctimeS}:{s.ctimeN},{s.mtimeS}:{s.mtimeN},{s.dev},{s.ino},{s.uid},{s.gid},{s.size}"

def showEntry (e : Entry) : String :=
  s!"[{natHex e.flags} {natHex e.mode} {hexOfBytes e.id} {showStat e.stat} {hexOfBytes e.path}]"

mutual
  def showTreeAux : Tree → String
    | .mk n id num cs =>
      let numS := match num with | some k => toString k | none => "-1"
      "(" ++ hexOfBytes n ++ "," ++ hexOfBytes id ++ "," ++ numS ++ ",[" ++ showTrees cs ++ "])"
  def showTrees : List Tree → String
    | [] => ""
    | t :: ts => showTreeAux t ++ showTrees ts
end

/-- set bits below `showLimit` (and the first one beyond), then how the iteration ended -/
def showBits (e : Ewah) : String :=
  let (bs, fin) := e.bits showLimit
  "{" ++ ",".intercalate (bs.map toString) ++ "}" ++
    (match fin with | .done => "" | .fail => "!" | .over => ">") ++ s!"/{e.numBits}"

def showReuc (p : ReucPath) : String :=
  "(" ++ hexOfBytes p.name ++ String.join (p.stages.map fun
    | none => ",-"
    | some (m, h) => s!",{natHex m}:{hexOfBytes h}") ++ ")"

def showOidStat : Option OidStat → String
  | none => "-"
  | some o => s!"{hexOfBytes o.id}@{showStat o.stat}"

def showUDir (u : UDir) : String :=
  let st := match u.stat with | none => "-" | some s => showStat s
  let oid := match u.excludeOid with | none => "-" | some h => hexOfBytes h
  s!"({hexOfBytes u.name};{",".intercalate (u.untracked.map hexOfBytes)};{",".intercalate (u.subDirs.map toString)};{st};{oid};{if u.checkOnly then 1 else 0})"

def showUntr (u : Untracked) : String :=
  s!"{hexOfBytes u.identifier} {showOidStat u.infoExclude} {showOidStat u.excludesFile} {hexOfBytes u.excludePerDir} {u.dirFlags} {String.join (u.dirs.map showUDir)}"

def showExts (x : Exts) : String :=
  let tree := match x.tree with | none => "-" | some t => showTreeAux t
  let reuc := match x.reuc with | none => "-" | some ps => "[" ++ String.join (ps.map showReuc) ++ "]"
  let link := match x.link with
    | none => "-"
    | some l => hexOfBytes l.checksum ++ (match l.bitmaps with
      | none => ""
      | some (d, r) => ":" ++ showBits d ++ ":" ++ showBits r)
  let untr := match x.untracked with | none => "-" | some u => "<" ++ showUntr u ++ ">"
  let fsmn := match x.fsmonitor with
    | none => "-"
    | some f => s!"{f.version}:{hexOfBytes f.token}:{showBits f.dirty}"
  s!"eoie={if x.endOfIndex then 1 else 0} ieot={if x.offsetTable then 1 else 0} tree={tree} reuc={reuc} link={link} untr={untr} fsmn={fsmn}"

def showOutcome : Outcome → String
  | .errHeader => "err:header"
  | .errEntry => "err:entry"
  | .errExtension => "err:extension"
  | .errTrailer => "err:trailer"
  | .panic => "panic"
  | .ok v es sp x ck =>
    let ckS := match ck with | none => "none" | some c => hexOfBytes c
    s!"ok v={v} sparse={if sp then 1 else 0} n={es.length} {String.join (es.map showEntry)} {showExts x} ck={ckS}"

def threadLimits : List Nat := [1, 2, 3, 4, 8, 16]

/-- the observation of one index file: decoded with every thread limit; one listing when they all
agree, otherwise each of them -/
def showAll (outs : List (Nat × String)) : String :=
  match outs with
  | [] => "none"
  | (_, first) :: rest =>
    if rest.all (fun p => p.2 == first) then "all " ++ first
    else "DIFFER " ++ " | ".intercalate (outs.map fun (t, s) => s!"t{t}: {s}")

def handle? : List String → Option String
  | ["dec", hex] => do
    let data ← bytesOfHex hex
    some (showAll (threadLimits.map fun t => (t, showOutcome (fromBytes Sha1C24.sha1 t data))))
  | ["spec", hex] => do
    let data ← bytesOfHex hex
    some (Spec.C24.specCheck Sha1C24.sha1 data)
  | ["specext", hex] => do
    let data ← bytesOfHex hex
    some (Spec.C24.extSpecCheck data)
  | ["varint", hex] => do
    let data ← bytesOfHex hex
    match varInt data with
    | none => some "none"
    | some (v, rest) => some s!"{v} {hexOfBytes rest}"
  | ["sha1", hex] => do
    let data ← bytesOfHex hex
    some (hexOfBytes (Sha1C24.sha1 data))
  | _ => none

def handle (args : List String) : String := (handle? args).getD "bad-op"

end GixModel.C24
