import GixModel.Basic.Hex
import GixModel.Spec.C36
/-
C36 — model of gitoxide's wildcard matcher.

Rust functions modelled (all in /repo/gix-glob):
  wildmatch::function::match_recursive / wildmatch        src/wildmatch.rs
  parse::pattern, parse::first_wildcard_pos               src/parse.rs
  Pattern::matches                                        src/pattern.rs

`match_recursive` is transcribed statement by statement. Its two iterators are explicit state:
`p = pattern.iter().map(possibly_lowercase).enumerate().peekable()` and
`t = text.iter().map(possibly_lowercase).enumerate()` are `Iter`s (the enumerate count and the
bytes not yet consumed; the closure `possibly_lowercase` is applied when an item is taken).
Reads through indices (`pattern[idx]`, `pattern[idx + 1..]`, `text[t_idx..]`, the class-name
slice) are reads of the ORIGINAL, un-lowered slices, as in the source; an out-of-range index or
slice is the explicit outcome `Res.panic`.

The recursion depth cut-off is explicit: `d` is `RECURSION_LIMIT - depth`; entering with `d = 0`
is `RecursionLimitReached`. Loops that are `while let`/`loop` in Rust run on fuel in Lean
(`fuel` per iteration of the outer `while let` and of the bracket `loop`; the loop behind a star
runs on the text length); running out of fuel is the separate outcome `Res.fuelOut`, which the
initial fuel `pattern.length + 1` makes unreachable.
-/
namespace GixModel.C36
open GixModel

inductive Res
  | matched | noMatch | abortAll | abortToStarStar | recursionLimit | panic | fuelOut
  deriving Repr, DecidableEq

/-- `wildmatch::Mode` -/
structure Mode where
  /-- `NO_MATCH_SLASH_LITERAL` -/
  noMatchSlash : Bool
  /-- `IGNORE_CASE` -/
  ignoreCase : Bool
  deriving Repr, DecidableEq

def STAR : UInt8 := 42
def BACKSLASH : UInt8 := 92
def SLASH : UInt8 := 47
def BRACKET_OPEN : UInt8 := 91
def BRACKET_CLOSE : UInt8 := 93
def COLON : UInt8 := 58
def NEGATE_CLASS : UInt8 := 33
def RECURSION_LIMIT : Nat := 64

/-! `u8::is_ascii_*` / `to_ascii_*` of the Rust standard library -/
def isAsciiUppercase (c : UInt8) : Bool := 65 ≤ c && c ≤ 90
def isAsciiLowercase (c : UInt8) : Bool := 97 ≤ c && c ≤ 122
def isAsciiDigit (c : UInt8) : Bool := 48 ≤ c && c ≤ 57
def isAsciiAlphabetic (c : UInt8) : Bool := isAsciiUppercase c || isAsciiLowercase c
def isAsciiAlphanumeric (c : UInt8) : Bool := isAsciiAlphabetic c || isAsciiDigit c
def isAsciiControl (c : UInt8) : Bool := c ≤ 31 || c == 127
def isAsciiGraphic (c : UInt8) : Bool := 33 ≤ c && c ≤ 126
def isAsciiPunctuation (c : UInt8) : Bool :=
  (33 ≤ c && c ≤ 47) || (58 ≤ c && c ≤ 64) || (91 ≤ c && c ≤ 96) || (123 ≤ c && c ≤ 126)
def isAsciiHexdigit (c : UInt8) : Bool :=
  isAsciiDigit c || (65 ≤ c && c ≤ 70) || (97 ≤ c && c ≤ 102)
def isAsciiWhitespace (c : UInt8) : Bool := c == 32 || c == 9 || c == 10 || c == 12 || c == 13
def toAsciiLowercase (c : UInt8) : UInt8 := if isAsciiUppercase c then c + 32 else c
def toAsciiUppercase (c : UInt8) : UInt8 := if isAsciiLowercase c then c - 32 else c

/-- the closure `possibly_lowercase` -/
def lc (m : Mode) (c : UInt8) : UInt8 := if m.ignoreCase then toAsciiLowercase c else c

/-- `parse::GLOB_CHARACTERS = br"*?[\"` -/
def isGlobCharacter (c : UInt8) : Bool := c == 42 || c == 63 || c == 91 || c == 92

/-- `slice.iter().map(possibly_lowercase).enumerate()`: the count and the unconsumed bytes -/
structure Iter where
  idx : Nat
  rest : Bytes
  deriving Repr, DecidableEq

def Iter.ofSlice (s : Bytes) : Iter := ⟨0, s⟩

/-- `next()` -/
def Iter.next (m : Mode) (it : Iter) : Option ((Nat × UInt8) × Iter) :=
  match it.rest with
  | [] => none
  | c :: r => some ((it.idx, lc m c), ⟨it.idx + 1, r⟩)

/-- `peek().map(|t| t.1)` of the peekable -/
def Iter.peekCh (m : Mode) (it : Iter) : Option UInt8 :=
  match it.rest with
  | [] => none
  | c :: _ => some (lc m c)

def skipStarsAux (m : Mode) : Nat → Bytes → Iter
  | i, [] => ⟨i, []⟩
  | i, c :: r => if lc m c == STAR then skipStarsAux m (i + 1) r else ⟨i, c :: r⟩

/-- `while p.next_if(|(_, c)| *c == STAR).is_some() {}` -/
def Iter.skipStars (m : Mode) (it : Iter) : Iter := skipStarsAux m it.idx it.rest

/-- `for _ in t.by_ref().take(n) {}` / `nth(n - 1)`: consume up to `n` items -/
def Iter.advance (it : Iter) (n : Nat) : Iter :=
  ⟨it.idx + min n it.rest.length, it.rest.drop n⟩

def skipToCloseAux (m : Mode) : Nat → Bytes → Iter
  | i, [] => ⟨i, []⟩
  | i, c :: r => if lc m c != BRACKET_CLOSE then skipToCloseAux m (i + 1) r else ⟨i, c :: r⟩

/-- `while p.peek().map_or(false, |t| t.1 != BRACKET_CLOSE) { p.next(); }` -/
def Iter.skipToClose (m : Mode) (it : Iter) : Iter := skipToCloseAux m it.idx it.rest

/-- `text[t_idx..].find_byte(SLASH)` -/
def findSlash : Bytes → Option Nat
  | [] => none
  | c :: r => if c == SLASH then some 0 else (findSlash r).map (· + 1)

/-- the class dispatch `match class { b"alnum" => …, _ => return AbortAll }`; `none` = AbortAll -/
def classTest (m : Mode) (cls : Bytes) (tch : UInt8) : Option Bool :=
  if cls == [97, 108, 110, 117, 109] then some (isAsciiAlphanumeric tch)
  else if cls == [97, 108, 112, 104, 97] then some (isAsciiAlphabetic tch)
  else if cls == [98, 108, 97, 110, 107] then some (tch == 32 || tch == 9)
  else if cls == [99, 110, 116, 114, 108] then some (isAsciiControl tch)
  else if cls == [100, 105, 103, 105, 116] then some (isAsciiDigit tch)
  else if cls == [103, 114, 97, 112, 104] then some (isAsciiGraphic tch)
  else if cls == [108, 111, 119, 101, 114] then some (isAsciiLowercase tch)
  else if cls == [112, 114, 105, 110, 116] then some (32 ≤ tch && tch ≤ 126)
  else if cls == [112, 117, 110, 99, 116] then some (isAsciiPunctuation tch)
  else if cls == [115, 112, 97, 99, 101] then some (tch == 32 || tch == 9 || tch == 10 || tch == 13)
  else if cls == [117, 112, 112, 101, 114] then
    some (isAsciiUppercase tch || (m.ignoreCase && isAsciiLowercase tch))
  else if cls == [120, 100, 105, 103, 105, 116] then some (isAsciiHexdigit tch)
  else none

inductive BrRes
  | abort
  | panic
  | fuel
  /-- the `loop` was left through `break`: `matched` and the iterator `p` behind the `]` -/
  | done (matched : Bool) (p : Iter)
  deriving Repr, DecidableEq

/-- one pass through the body of the bracket `loop { … }` for `next = Some((p_idx, p_ch))`.
`none`-like outcomes are `abort`/`panic`; otherwise the new `(p, prev_p_ch, matched)`. -/
inductive StepRes
  | abort | panic
  | ok (p : Iter) (prev : UInt8) (matched : Bool)

def bracketStep (m : Mode) (pattern : Bytes) (tch : UInt8) (pIdx : Nat) (pch : UInt8)
    (p : Iter) (prev : UInt8) (matched : Bool) : StepRes :=
  if pch == BACKSLASH then
    match p.next m with
    | some ((_, c), p) => .ok p c (matched || c == tch)
    | none => .abort
  else if pch == 45 && prev != 0 && (p.peekCh m).isSome && p.peekCh m != some BRACKET_CLOSE then
    match p.next m with
    | none => .panic   -- expect("peeked")
    | some ((_, c), p) =>
      let hi? : Option (UInt8 × Iter) :=
        if c == BACKSLASH then
          match p.next m with
          | some ((_, c), p) => some (c, p)
          | none => none
        else some (c, p)
      match hi? with
      | none => .abort
      | some (hi, p) =>
        let hit :=
          if tch ≤ hi && tch ≥ prev then true
          else if m.ignoreCase && isAsciiLowercase tch then
            let up := toAsciiUppercase tch
            (up ≤ toAsciiUppercase hi && up ≥ toAsciiUppercase prev)
              || (up ≤ toAsciiUppercase prev && up ≥ toAsciiUppercase hi)
          else false
        .ok p 0 (matched || hit)
  else if pch == BRACKET_OPEN && p.peekCh m == some COLON then
    -- p.next(); while p.peek() … != ']' { p.next(); }
    let p := (p.advance 1).skipToClose m
    match p.next m with
    | none => .abort
    | some ((closing, _), p) =>
      -- closing_bracket_idx.saturating_sub(p_idx) < 3 || pattern[closing_bracket_idx - 1] != COLON
      if closing - pIdx < 3 then
        .ok ((Iter.ofSlice pattern).advance (pIdx + 1)) prev (matched || tch == BRACKET_OPEN)
      else match pattern[closing - 1]? with
        | none => .panic
        | some c =>
          if c != COLON then
            .ok ((Iter.ofSlice pattern).advance (pIdx + 1)) prev (matched || tch == BRACKET_OPEN)
          else
            -- &pattern[p_idx + 2..closing_bracket_idx - 1]
            if pIdx + 2 ≤ closing - 1 && closing - 1 ≤ pattern.length then
              match classTest m ((pattern.drop (pIdx + 2)).take (closing - 1 - (pIdx + 2))) tch with
              | none => .abort
              | some b => .ok p 0 (matched || b)
            else .panic
  else .ok p pch (matched || pch == tch)

/-- the bracket `loop { let Some((p_idx, p_ch)) = next else { return AbortAll }; …; next = p.next();
if let Some((_, ']')) = next { break } }` -/
def bracketLoop (m : Mode) (pattern : Bytes) (tch : UInt8) :
    Nat → Option (Nat × UInt8) → Iter → UInt8 → Bool → BrRes
  | n, next, p, prev, matched =>
    match next with
    | none => .abort
    | some (pIdx, pch) =>
      match n with
      | 0 => .fuel
      | n + 1 =>
        match bracketStep m pattern tch pIdx pch p prev matched with
        | .abort => .abort
        | .panic => .panic
        | .ok p prev matched =>
          match p.next m with
          | none => bracketLoop m pattern tch n none p prev matched
          | some ((i, c), p') =>
            if c == BRACKET_CLOSE then .done matched p'
            else bracketLoop m pattern tch n (some (i, c)) p' prev matched

/-- the `BRACKET_OPEN` arm up to (not including) the final `if matched == negated …` -/
def bracket (m : Mode) (pattern : Bytes) (tch : UInt8) (fuel : Nat) (p : Iter) : BrRes :=
  match p.next m with
  | none => .abort
  | some ((pIdx, pch), p) =>
    let pch := if pch == 94 then NEGATE_CLASS else pch
    let negated := pch == NEGATE_CLASS
    let (next, p) : Option (Nat × UInt8) × Iter :=
      if negated then
        match p.next m with
        | none => (none, p)
        | some (x, p') => (some x, p')
      else (some (pIdx, pch), p)
    match bracketLoop m pattern tch fuel next p 0 false with
    | .done matched p => .done (matched != negated) p
    | r => r

/-- the inner `loop` of the star arm that advances to the next literal:
`loop { if (!match_slash && t_ch == SLASH) || t_ch == p_ch { break } match t.next() { Some(..) => …, None => break } }` -/
def scanLit (m : Mode) (matchSlash : Bool) (pch : UInt8) :
    Nat → UInt8 → Nat → Bytes → Nat × UInt8 × Iter
  | tIdx, tch, i, [] => (tIdx, tch, ⟨i, []⟩)
  | tIdx, tch, i, c :: r =>
    if (!matchSlash && tch == SLASH) || tch == pch then (tIdx, tch, ⟨i, c :: r⟩)
    else scanLit m matchSlash pch i (lc m c) (i + 1) r

/-- `return loop { … }` at the end of the star arm. `rec tIdx` is
`match_recursive(pattern[p_idx..], text[t_idx..], mode, depth + 1)`. -/
def starLoop (m : Mode) (rec : Nat → Res) (pch : UInt8) (matchSlash : Bool) :
    Nat → Nat → UInt8 → Iter → Res
  | 0, _, _, _ => .fuelOut
  | n + 1, tIdx, tch, t =>
    let scanned : Option (Nat × UInt8 × Iter) :=
      if !isGlobCharacter pch then
        let (tIdx, tch, t) := scanLit m matchSlash pch tIdx tch t.idx t.rest
        if tch != pch then none else some (tIdx, tch, t)
      else some (tIdx, tch, t)
    match scanned with
    | none => .noMatch
    | some (tIdx, tch, t) =>
      let res := rec tIdx
      if res != .noMatch && (!matchSlash || res != .abortToStarStar) then res
      else if res == .noMatch && !matchSlash && tch == SLASH then .abortToStarStar
      else match t.next m with
        | none => .abortAll
        | some ((i, c), t) => starLoop m rec pch matchSlash n i c t

/-- `&s[from..]` with the bounds check -/
def sliceFrom (s : Bytes) (i : Nat) : Option Bytes := if i ≤ s.length then some (s.drop i) else none

/-- `match_recursive` from behind its depth check: the `while let Some(..) = p.next()` loop, one
iteration per unit of fuel. `d` = recursion levels still allowed below this one. -/
def go (m : Mode) : Nat → Nat → Bytes → Bytes → Iter → Iter → Res
  | 0, _, _, _, _, _ => .fuelOut
  | fuel + 1, d, pattern, text, p, t =>
    /- `match_recursive(pat, txt, mode, depth + 1)` -/
    let rec' (pat? txt? : Option Bytes) : Res :=
      match pat?, txt? with
      | some pat, some txt =>
        if d == 0 then .recursionLimit else go m fuel (d - 1) pat txt (Iter.ofSlice pat) (Iter.ofSlice txt)
      | _, _ => .panic
    match p.next m with
    | none => if (t.next m).isSome then .noMatch else .matched
    | some ((pIdx, pch), p) =>
      let tn := t.next m
      if tn.isNone && pch != STAR then .abortAll
      else
        let (tIdx, tch, t) : Nat × UInt8 × Iter :=
          match tn with
          | some ((i, c), t') => (i, c, t')
          | none => (text.length, 0, t)
        if pch == BACKSLASH then
          match p.next m with
          | some ((_, c), p) => if c != tch then .noMatch else go m fuel d pattern text p t
          | none => .noMatch
        else if pch == 63 then
          if m.noMatchSlash && tch == SLASH then .noMatch else go m fuel d pattern text p t
        else if pch == STAR then
          let trailing (matchSlash : Bool) : Res :=
            match sliceFrom text tIdx with
            | none => .panic
            | some s => if !matchSlash && s.contains SLASH then .noMatch else .matched
          match p.next m with
          | none => trailing (!m.noMatchSlash)
          | some ((nextIdx, nextCh), p) =>
            -- (next, match_slash, p) or an early result
            let decided : Except Res (Option (Nat × UInt8) × Bool × Iter) :=
              if nextCh == STAR then
                let leadingSlashIdx : Option Nat := if pIdx == 0 then none else some (pIdx - 1)
                let p := p.skipStars m
                let (next, p) : Option (Nat × UInt8) × Iter :=
                  match p.next m with
                  | none => (none, p)
                  | some (x, p') => (some x, p')
                if !m.noMatchSlash then .ok (next, true, p)
                else
                  let lead? : Option Bool :=
                    match leadingSlashIdx with
                    | none => some true
                    | some idx => (pattern[idx]?).map (· == SLASH)
                  match lead? with
                  | none => .error .panic
                  | some lead =>
                    let follows := match next with
                      | none => true
                      | some (_, c) => c == SLASH || (c == BACKSLASH && p.peekCh m == some SLASH)
                    if lead && follows then
                      let r := match next with
                        | none => Res.noMatch
                        | some (idx, _) => rec' (sliceFrom pattern (idx + 1)) (sliceFrom text tIdx)
                      if r == .matched then .error .matched else .ok (next, true, p)
                    else .ok (next, false, p)
              else .ok (some (nextIdx, nextCh), !m.noMatchSlash, p)
            match decided with
            | .error r => r
            | .ok (none, matchSlash, _) => trailing matchSlash
            | .ok (some (pIdx, pch), matchSlash, p) =>
              if !matchSlash && pch == SLASH then
                match sliceFrom text tIdx with
                | none => .panic
                | some s =>
                  match findSlash s with
                  | some dist => go m fuel d pattern text p (t.advance dist)
                  | none => .noMatch
              else
                starLoop m (fun tIdx => rec' (sliceFrom pattern pIdx) (sliceFrom text tIdx))
                  pch matchSlash (t.rest.length + 1) tIdx tch t
        else if pch == BRACKET_OPEN then
          match bracket m pattern tch fuel p with
          | .abort => .abortAll
          | .panic => .panic
          | .fuel => .fuelOut
          | .done ok p =>
            if !ok || (m.noMatchSlash && tch == SLASH) then .noMatch
            else go m fuel d pattern text p t
        else
          if pch != tch then .noMatch else go m fuel d pattern text p t

/-- `match_recursive(pattern, text, mode, depth)` with `d = RECURSION_LIMIT - depth` -/
def matchRecursive (m : Mode) (d : Nat) (pattern text : Bytes) : Res :=
  match d with
  | 0 => .recursionLimit
  | d + 1 => go m (pattern.length + 1) d pattern text (Iter.ofSlice pattern) (Iter.ofSlice text)

/-- `gix_glob::wildmatch(pattern, value, mode)` -/
def wildmatch (m : Mode) (pattern value : Bytes) : Bool :=
  matchRecursive m RECURSION_LIMIT pattern value == .matched

/-! ### `parse::pattern` and `Pattern::matches` -/

/-- `pattern::Mode` bits -/
structure PMode where
  noSubDir : Bool     -- 1
  endsWith : Bool     -- 2
  mustBeDir : Bool    -- 4
  negative : Bool     -- 8
  absolute : Bool     -- 16
  deriving Repr, DecidableEq

def PMode.bits (p : PMode) : Nat :=
  (if p.noSubDir then 1 else 0) + (if p.endsWith then 2 else 0) + (if p.mustBeDir then 4 else 0)
    + (if p.negative then 8 else 0) + (if p.absolute then 16 else 0)

structure Pattern where
  text : Bytes
  mode : PMode
  firstWildcardPos : Option Nat
  deriving Repr, DecidableEq

/-- `pat.find_byteset(GLOB_CHARACTERS)` -/
def firstWildcardPos : Bytes → Option Nat
  | [] => none
  | c :: r => if isGlobCharacter c then some 0 else (firstWildcardPos r).map (· + 1)

/-- the leading `!` / `\\!` / `\\#` handling of `parse::pattern` (only if `may_alter`) -/
def stripNegation (pat : Bytes) (mayAlter : Bool) : Bool × Bytes :=
  if mayAlter then
    match pat with
    | 33 :: r => (true, r)
    | 92 :: 33 :: r => (false, 33 :: r)
    | 92 :: 35 :: r => (false, 35 :: r)
    | _ => (false, pat)
  else (false, pat)

/-- a leading `/` makes the pattern `ABSOLUTE` -/
def stripAbsolute (pat : Bytes) : Bool × Bytes :=
  match pat with
  | 47 :: r => (true, r)
  | _ => (false, pat)

/-- a trailing `/` makes the pattern `MUST_BE_DIR` -/
def stripMustBeDir (pat : Bytes) : Bool × Bytes :=
  if pat.getLast? == some 47 then (true, pat.dropLast) else (false, pat)

/-- the flags and the wildcard position computed from the final pattern text -/
def mkPattern (negative absolute mustBeDir : Bool) (pat : Bytes) : Pattern :=
  { text := pat,
    mode := { noSubDir := !pat.contains 47,
              endsWith := (match pat with
                | 42 :: r => (firstWildcardPos r).isNone
                | _ => false),
              mustBeDir, negative, absolute },
    firstWildcardPos := firstWildcardPos pat }

/-- `parse::pattern(pat, may_alter)` -/
def parsePattern (pat : Bytes) (mayAlter : Bool) : Option Pattern :=
  if pat.isEmpty then none else
  let n := stripNegation pat mayAlter
  if n.2.all isAsciiWhitespace then none else
  let a := stripAbsolute n.2
  let d := stripMustBeDir a.2
  some (mkPattern n.1 a.1 d.1 d.2)

/-- `a.eq_ignore_ascii_case(b)` -/
def eqIgnoreAsciiCase (a b : Bytes) : Bool :=
  a.length == b.length && (a.map toAsciiLowercase == b.map toAsciiLowercase)

/-- `Pattern::matches(value, mode)` -/
def Pattern.matches (self : Pattern) (value : Bytes) (m : Mode) : Bool :=
  match self.firstWildcardPos with
  | some pos =>
    if self.mode.endsWith && (!m.noMatchSlash || !value.contains 47) then
      let text := self.text.drop (pos + 1)
      if m.ignoreCase then
        if value.length < text.length then false
        else eqIgnoreAsciiCase text (value.drop (value.length - text.length))
      else text.isSuffixOf value
    else
      let prefixOk :=
        if m.ignoreCase then
          if value.length < pos then false
          else eqIgnoreAsciiCase (value.take pos) (self.text.take pos)
        else (self.text.take pos).isPrefixOf value
      if !prefixOk then false else wildmatch m self.text value
  | none =>
    if m.ignoreCase then eqIgnoreAsciiCase self.text value else self.text == value

/-! ### driver -/

def modeOfNat (n : Nat) : Mode := { noMatchSlash := n % 2 == 1, ignoreCase := (n / 2) % 2 == 1 }
def flagsOfNat (n : Nat) : Spec.C36.Flags := { pathname := n % 2 == 1, casefold := (n / 2) % 2 == 1 }

def b01 (b : Bool) : String := if b then "1" else "0"

def handle? : List String → Option String
  | ["wm", m, p, t] => do
    let m ← m.toNat?
    let p ← bytesOfHex p
    let t ← bytesOfHex t
    let r := matchRecursive (modeOfNat m) RECURSION_LIMIT p t
    some (match r with
      | .panic => "panic"
      | .fuelOut => "fuel-out"
      | r => b01 (r == .matched))
  | ["spec", m, p, t] => do
    let m ← m.toNat?
    let p ← bytesOfHex p
    let t ← bytesOfHex t
    some (match Spec.C36.dowild (flagsOfNat m) (p.length + 1) none p t with
      | .matched => "match" | .noMatch => "nomatch" | .abortAll => "abortall"
      | .abortToStarStar => "aborttostarstar" | .fuelOut => "fuel-out")
  | ["git", m, p, t] => do
    let m ← m.toNat?
    let p ← bytesOfHex p
    let t ← bytesOfHex t
    some (b01 (Spec.C36.wildmatch (flagsOfNat m) p t))
  | ["pm", m, p, t] => do
    let m ← m.toNat?
    let p ← bytesOfHex p
    let t ← bytesOfHex t
    match parsePattern p false with
    | none => some "none"
    | some pat => some (b01 (pat.matches t (modeOfNat m)))
  | ["parse", alter, p] => do
    let p ← bytesOfHex p
    let alter ← alter.toNat?
    match parsePattern p (alter == 1) with
    | none => some "none"
    | some pat =>
      some s!"{hexOfBytes pat.text} {pat.mode.bits} {match pat.firstWildcardPos with | none => "none" | some n => toString n}"
  | _ => none

def handle (args : List String) : String := (handle? args).getD "bad-op"

end GixModel.C36
