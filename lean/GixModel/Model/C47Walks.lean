import GixModel.Basic.CommitDag
/-
C47 — models of the commit walks of gix-traverse:

  `Simple` (gix-traverse/src/commit/simple.rs): `filtered()` (seen-set, predicate, tips),
      `sorting()` (BreadthFirst / ByCommitTime newest|oldest / ByCommitTimeCutoff), `parents()`
      (All / First with `queue_to_vecdeque`), `next_by_topology`, `next_by_commit_date`.
  `Topo` (gix-traverse/src/commit/topo/{init,iter}.rs, with the `fix:` commits in /repo:
      repeated tips, hidden tips, tie order of the two queues): `Builder::build`, the explore walk,
      the in-degree walk, `expand_topo_walk`, `pop_commit`, the date / topo queues.

Abstractions: the commit graph is `CG.Dag` (every parent exists); `gix_revwalk::PriorityQueue`
is ANY `CG.PQ` in the theorems — the driver uses `heapPQ`, a transcription of
`std::collections::BinaryHeap` (`push` = sift_up, `pop` = swap-remove + sift_down_to_bottom +
sift_up) so that ties between equal commit times come out as in the real code; hash maps / sets
are total maps wrapped in structures; every loop runs on fuel (`Res.fuel` when exhausted — never
with the prescribed amounts), the walk's `Err(Missing…Unexpected)` is `Res.panic`.
-/
namespace GixModel.C47
open GixModel GixModel.CG

/-! ### `std::collections::BinaryHeap` as the driver's queue -/

/-- `sift_up(start, pos)` with the element taken out of the hole -/
def siftUp {K : Type} (le : K → K → Bool) (start : Nat) (elem : K × Nat) :
    Nat → Array (K × Nat) → Nat → Array (K × Nat)
  | 0, a, pos => a.setIfInBounds pos elem
  | fuel + 1, a, pos =>
    if pos > start then
      let parent := (pos - 1) / 2
      match a[parent]? with
      | none => a.setIfInBounds pos elem
      | some pe =>
        if le elem.1 pe.1 then a.setIfInBounds pos elem
        else siftUp le start elem fuel (a.setIfInBounds pos pe) parent
    else a.setIfInBounds pos elem

/-- `sift_down_to_bottom(0)`: move the hole down along the greater children (the right one on a
tie), then sift the element up again -/
def siftDownToBottom {K : Type} (le : K → K → Bool) (elem : K × Nat) :
    Nat → Array (K × Nat) → Nat → Array (K × Nat)
  | 0, a, pos => siftUp le 0 elem a.size a pos
  | fuel + 1, a, pos =>
    let endd := a.size
    let child := 2 * pos + 1
    if child + 2 ≤ endd then
      match a[child]?, a[child + 1]? with
      | some l, some r =>
        let c := if le l.1 r.1 then child + 1 else child
        let ce := if le l.1 r.1 then r else l
        siftDownToBottom le elem fuel (a.setIfInBounds pos ce) c
      | _, _ => siftUp le 0 elem a.size a pos
    else if child + 1 = endd then
      match a[child]? with
      | some l => siftUp le 0 elem a.size (a.setIfInBounds pos l) child
      | none => siftUp le 0 elem a.size a pos
    else siftUp le 0 elem a.size a pos

def heapPush {K : Type} (le : K → K → Bool) (k : K) (v : Nat) (a : Array (K × Nat)) : Array (K × Nat) :=
  let old := a.size
  siftUp le 0 (k, v) (old + 1) (a.push (k, v)) old

def heapPop {K : Type} (le : K → K → Bool) (a : Array (K × Nat)) : Option ((K × Nat) × Array (K × Nat)) :=
  match a.back? with
  | none => none
  | some last =>
    let a' := a.pop
    match a'[0]? with
    | none => some (last, a')
    | some top => some (top, siftDownToBottom le last a'.size a' 0)

def heapPQ {K : Type} (le : K → K → Bool) : PQ K where
  Q := Array (K × Nat)
  empty := #[]
  insert := fun k v s => heapPush le k v s
  pop := fun s => heapPop le s
  items := fun s => s.toList

/-- `peek()`: the entry `pop()` would return -/
def peekKey {K : Type} (q : PQ K) (s : q.Q) : Option K := (q.pop s).map (·.1.1)

/-! ### sets and maps -/

structure NatSet where
  mem : Nat → Bool

def NatSet.empty : NatSet := ⟨fun _ => false⟩
def NatSet.insert (s : NatSet) (x : Nat) : NatSet := ⟨fun y => if y = x then true else s.mem y⟩

/-! ### `Simple` -/

inductive Sorting where
  | breadthFirst
  | byTime (oldestFirst : Bool)
  | cutoff (oldestFirst : Bool) (seconds : Int)
  deriving Repr, DecidableEq

structure SimpleCfg where
  pred : Nat → Bool
  sorting : Sorting
  firstParent : Bool

/-- `to_queue_key`: `Ok(t)` for newest-first, `Err(Reverse(t))` for oldest-first; all keys of one
walk are of the same kind, so the order is that of `t` resp. `-t` -/
def timeKey (oldest : Bool) (t : Int) : Int := if oldest then -t else t

def Sorting.oldest : Sorting → Bool
  | .breadthFirst => false
  | .byTime o => o
  | .cutoff o _ => o

def Sorting.cutoffTime : Sorting → Option Int
  | .cutoff _ s => some s
  | _ => none

structure SState (Q : Type) where
  next : List Nat
  queue : Q
  seen : NatSet
  out : List Nat

/-- `filtered()`: every tip is marked seen; the accepted new ones are queued -/
def simpleTips (pred : Nat → Bool) : List Nat → NatSet → List Nat → NatSet × List Nat
  | [], seen, next => (seen, next)
  | t :: ts, seen, next =>
    if seen.mem t then simpleTips pred ts seen next
    else if pred t then simpleTips pred ts (seen.insert t) (next ++ [t])
    else simpleTips pred ts (seen.insert t) next

/-- `sorting()` for the time-based modes: drain `next` into the queue (tips older than the cut-off
are dropped) -/
def drainToQueue (g : Dag) (q : PQ Int) (oldest : Bool) (cut : Option Int) : List Nat → q.Q → q.Q
  | [], qu => qu
  | c :: cs, qu =>
    match cut with
    | some s =>
      if g.time c ≥ s then drainToQueue g q oldest cut cs (q.insert (timeKey oldest (g.time c)) c qu)
      else drainToQueue g q oldest cut cs qu
    | none => drainToQueue g q oldest cut cs (q.insert (timeKey oldest (g.time c)) c qu)

def simpleInit (g : Dag) (q : PQ Int) (cfg : SimpleCfg) (tips : List Nat) : SState q.Q :=
  let r := simpleTips cfg.pred tips NatSet.empty []
  -- `.sorting(…)`
  let s1 : SState q.Q :=
    match cfg.sorting with
    | .breadthFirst => { next := r.2, queue := q.empty, seen := r.1, out := [] }
    | .byTime o => { next := [], queue := drainToQueue g q o none r.2 q.empty, seen := r.1, out := [] }
    | .cutoff o s => { next := [], queue := drainToQueue g q o (some s) r.2 q.empty, seen := r.1, out := [] }
  -- `.parents(…)`: `queue_to_vecdeque` for `Parents::First`
  if cfg.firstParent then
    { s1 with next := s1.next ++ (q.items s1.queue).map (·.2), queue := q.empty }
  else s1

/-- the parents a step looks at -/
def stepParents (g : Dag) (firstParent : Bool) (c : Nat) : List Nat :=
  if firstParent then (g.parents c).take 1 else g.parents c

/-- `next_by_topology`: the loop over the parents -/
def pushParentsBfs (pred : Nat → Bool) : List Nat → NatSet → List Nat → NatSet × List Nat
  | [], seen, next => (seen, next)
  | p :: ps, seen, next =>
    if seen.mem p then pushParentsBfs pred ps seen next
    else if pred p then pushParentsBfs pred ps (seen.insert p) (next ++ [p])
    else pushParentsBfs pred ps (seen.insert p) next

/-- `next_by_commit_date`: the loop over the parents -/
def pushParentsDate (g : Dag) (q : PQ Int) (pred : Nat → Bool) (oldest : Bool) (cut : Option Int) :
    List Nat → NatSet → q.Q → NatSet × q.Q
  | [], seen, qu => (seen, qu)
  | p :: ps, seen, qu =>
    if seen.mem p then pushParentsDate g q pred oldest cut ps seen qu
    else if pred p then
      match cut with
      | some s =>
        if g.time p < s then pushParentsDate g q pred oldest cut ps (seen.insert p) qu
        else pushParentsDate g q pred oldest cut ps (seen.insert p) (q.insert (timeKey oldest (g.time p)) p qu)
      | none => pushParentsDate g q pred oldest cut ps (seen.insert p) (q.insert (timeKey oldest (g.time p)) p qu)
    else pushParentsDate g q pred oldest cut ps (seen.insert p) qu

/-- does `next()` dispatch to `next_by_topology`? -/
def SimpleCfg.byTopology (cfg : SimpleCfg) : Bool :=
  cfg.firstParent || cfg.sorting == .breadthFirst

def simpleLoop (g : Dag) (q : PQ Int) (cfg : SimpleCfg) : Nat → SState q.Q → Res (List Nat)
  | 0, _ => .fuel
  | fuel + 1, s =>
    if cfg.byTopology then
      match s.next with
      | [] => .ok s.out
      | c :: rest =>
        let r := pushParentsBfs cfg.pred (stepParents g cfg.firstParent c) s.seen rest
        simpleLoop g q cfg fuel { s with next := r.2, seen := r.1, out := s.out ++ [c] }
    else
      match q.pop s.queue with
      | none => .ok s.out
      | some ((_, c), qu) =>
        let r := pushParentsDate g q cfg.pred cfg.sorting.oldest cfg.sorting.cutoffTime (g.parents c) s.seen qu
        simpleLoop g q cfg fuel { s with queue := r.2, seen := r.1, out := s.out ++ [c] }

/-- the whole iteration; `n` bounds the number of commits (fuel only) -/
def simpleWalk (g : Dag) (q : PQ Int) (cfg : SimpleCfg) (n : Nat) (tips : List Nat) : Res (List Nat) :=
  simpleLoop g q cfg (2 * n + tips.length + 1) (simpleInit g q cfg tips)

/-! ### `Topo` -/

structure WalkFlags where
  seen : Bool := false
  explored : Bool := false
  inDegree : Bool := false
  uninteresting : Bool := false
  bottom : Bool := false
  added : Bool := false
  deriving Repr, DecidableEq

def WalkFlags.or (a b : WalkFlags) : WalkFlags :=
  { seen := a.seen || b.seen, explored := a.explored || b.explored, inDegree := a.inDegree || b.inDegree,
    uninteresting := a.uninteresting || b.uninteresting, bottom := a.bottom || b.bottom,
    added := a.added || b.added }

def tipFlags : WalkFlags := { seen := true, explored := true, inDegree := true }
def endFlags : WalkFlags := { seen := true, explored := true, inDegree := true, uninteresting := true, bottom := true }
def flagU : WalkFlags := { uninteresting := true }
def flagUSeen : WalkFlags := { uninteresting := true, seen := true }
def flagSeen : WalkFlags := { seen := true }

/-- `IdMap<WalkFlags>` -/
structure StateMap where
  get : Nat → Option WalkFlags

def StateMap.empty : StateMap := ⟨fun _ => none⟩
def StateMap.set (m : StateMap) (i : Nat) (f : WalkFlags) : StateMap := ⟨fun j => if j = i then some f else m.get j⟩
/-- `entry(id).and_modify(|s| *s |= pass).or_insert(ins)` -/
def StateMap.orInsert (m : StateMap) (i : Nat) (pass ins : WalkFlags) : StateMap :=
  match m.get i with
  | some f => m.set i (f.or pass)
  | none => m.set i ins

/-- `IdMap<i32>` -/
structure DegMap where
  get : Nat → Option Int

def DegMap.empty : DegMap := ⟨fun _ => none⟩
def DegMap.set (m : DegMap) (i : Nat) (d : Int) : DegMap := ⟨fun j => if j = i then some d else m.get j⟩

/-- `(generation, commit_time)`, compared lexicographically -/
abbrev GenTime := Nat × Int

def GenTime.le (a b : GenTime) : Bool := decide (a.1 < b.1) || (a.1 == b.1 && decide (a.2 ≤ b.2))

def genTime (g : Dag) (x : Nat) : GenTime := (g.gen x, g.time x)

/-- key of the date-ordered queue: commit time, then insertion order (earlier first) -/
abbrev DateKey := Int × Nat

def DateKey.le (a b : DateKey) : Bool := decide (a.1 < b.1) || (a.1 == b.1 && decide (b.2 ≤ a.2))

inductive TopoSorting where
  | dateOrder
  | topoOrder
  deriving Repr, DecidableEq

structure TState (QG QD : Type) where
  indeg : DegMap
  states : StateMap
  explore : QG
  indegQ : QG
  /-- `Queue::Date`: the heap and the insertion counter -/
  dateQ : QD
  dateCtr : Nat
  /-- `Queue::Topo`: the stack, head = `last()` -/
  stack : List (Int × Nat)
  minGen : Nat

structure TopoCfg where
  sorting : TopoSorting
  firstParent : Bool

/-- everything a topo walk is parameterised by -/
structure TopoEnv where
  g : Dag
  qg : PQ GenTime
  qd : PQ DateKey
  cfg : TopoCfg

abbrev TS (E : TopoEnv) := TState E.qg.Q E.qd.Q

/-- `collect_parents(id)` (only the first parent for `Parents::First`) -/
def walkParents (E : TopoEnv) (c : Nat) : List Nat :=
  if E.cfg.firstParent then (E.g.parents c).take 1 else E.g.parents c

/-- `for id in ids { states.entry(id).and_modify(|s| *s |= pass).or_insert(ins) }` -/
def orInsertAll (pass ins : WalkFlags) : List Nat → StateMap → StateMap
  | [], m => m
  | x :: xs, m => orInsertAll pass ins xs (m.orInsert x pass ins)

/-- the uninteresting branch of `process_parents`: all grandparents become uninteresting
(`for (id, _) in parents { for (id, _) in collect_all_parents(id) { … } }`) -/
def markGrandAll (g : Dag) (ps : List Nat) (m : StateMap) : StateMap :=
  orInsertAll flagU flagUSeen (ps.flatMap g.parents) m

/-- `for (id, _) in parents { states.entry(*id).and_modify(|s| *s |= pass).or_insert(insert) }` -/
def passToParents (pass ins : WalkFlags) (ps : List Nat) (m : StateMap) : StateMap :=
  orInsertAll pass ins ps m

/-- `process_parents(id, parents)`; `none` = `MissingStateUnexpected` -/
def processParents (g : Dag) (c : Nat) (parents : List Nat) (m : StateMap) : Option StateMap :=
  match m.get c with
  | none => none
  | some st =>
    if st.added then some m
    else
      let m1 := m.set c { st with added := true }
      if st.uninteresting then
        some (passToParents flagU flagU parents (markGrandAll g parents m1))
      else some (passToParents {} flagSeen parents m1)

/-- the loop of `explore_walk_step` over the parents: queue the ones not yet `Explored` -/
def exploreParents (E : TopoEnv) : List Nat → StateMap → E.qg.Q → Option (StateMap × E.qg.Q)
  | [], m, qu => some (m, qu)
  | p :: ps, m, qu =>
    match m.get p with
    | none => none
    | some st =>
      if st.explored then exploreParents E ps m qu
      else exploreParents E ps (m.set p { st with explored := true }) (E.qg.insert (genTime E.g p) p qu)

/-- `explore_to_depth(cutoff)` -/
def exploreToDepth (E : TopoEnv) (cutoff : Nat) : Nat → TS E → Res (TS E)
  | 0, _ => .fuel
  | fuel + 1, s =>
    match E.qg.pop s.explore with
    | none => .ok s
    | some ((k, c), qu) =>
      if k.1 ≥ cutoff then
        let parents := walkParents E c
        match processParents E.g c parents s.states with
        | none => .panic
        | some m1 =>
          match exploreParents E parents m1 qu with
          | none => .panic
          | some (m2, qu2) => exploreToDepth E cutoff fuel { s with states := m2, explore := qu2 }
      else .ok s

/-- `indegrees.entry(id).and_modify(|e| *e += 1).or_insert(2)` -/
def bump (d : Option Int) : Int :=
  match d with
  | some e => e + 1
  | none => 2

/-- the loop of `indegree_walk_step` over the parents -/
def indegreeParents (E : TopoEnv) : List Nat → DegMap → StateMap → E.qg.Q → Option (DegMap × StateMap × E.qg.Q)
  | [], d, m, qu => some (d, m, qu)
  | p :: ps, d, m, qu =>
    let d1 := d.set p (bump (d.get p))
    match m.get p with
    | none => none
    | some st =>
      if st.inDegree then indegreeParents E ps d1 m qu
      else indegreeParents E ps d1 (m.set p { st with inDegree := true }) (E.qg.insert (genTime E.g p) p qu)

/-- `compute_indegrees_to_depth(cutoff)`; `n` = fuel for each nested explore walk -/
def computeIndegrees (E : TopoEnv) (n : Nat) (cutoff : Nat) : Nat → TS E → Res (TS E)
  | 0, _ => .fuel
  | fuel + 1, s =>
    match E.qg.pop s.indegQ with
    | none => .ok s
    | some ((k, c), qu) =>
      if k.1 ≥ cutoff then
        match exploreToDepth E k.1 n { s with indegQ := qu } with
        | .ok s1 =>
          match indegreeParents E (walkParents E c) s1.indeg s1.states s1.indegQ with
          | none => .panic
          | some (d, m, qu2) => computeIndegrees E n cutoff fuel { s1 with indeg := d, states := m, indegQ := qu2 }
        | .panic => .panic
        | .fuel => .fuel
      else .ok s

/-- `topo_queue.push(time, info)` -/
def tqPush (E : TopoEnv) (s : TS E) (time : Int) (c : Nat) : TS E :=
  match E.cfg.sorting with
  | .dateOrder => { s with dateQ := E.qd.insert (time, s.dateCtr) c s.dateQ, dateCtr := s.dateCtr + 1 }
  | .topoOrder => { s with stack := (time, c) :: s.stack }

/-- `topo_queue.pop()` -/
def tqPop (E : TopoEnv) (s : TS E) : Option (Nat × TS E) :=
  match E.cfg.sorting with
  | .dateOrder =>
    match E.qd.pop s.dateQ with
    | none => none
    | some ((_, c), qu) => some (c, { s with dateQ := qu })
  | .topoOrder =>
    match s.stack with
    | [] => none
    | (_, c) :: rest => some (c, { s with stack := rest })

/-- the loop of `expand_topo_walk` over the parents -/
def expandParents (E : TopoEnv) (n : Nat) : List Nat → TS E → Res (TS E)
  | [], s => .ok s
  | p :: ps, s =>
    match s.states.get p with
    | none => .panic
    | some pst =>
      if pst.uninteresting then expandParents E n ps s
      else
        let r : Res (TS E) :=
          if E.g.gen p < s.minGen then
            computeIndegrees E n (E.g.gen p) n { s with minGen := E.g.gen p }
          else .ok s
        match r with
        | .ok s1 =>
          match s1.indeg.get p with
          | none => .panic
          | some i =>
            let s2 : TS E := { s1 with indeg := s1.indeg.set p (i - 1) }
            if i - 1 = 1 then expandParents E n ps (tqPush E s2 (E.g.time p) p)
            else expandParents E n ps s2
        | .panic => .panic
        | .fuel => .fuel

/-- `pop_commit()` + the iterator's loop -/
def topoLoop (E : TopoEnv) (n : Nat) : Nat → TS E → List Nat → Res (List Nat)
  | 0, _, _ => .fuel
  | fuel + 1, s, out =>
    match tqPop E s with
    | none => .ok out
    | some (c, s1) =>
      match s1.indeg.get c with
      | none => .panic
      | some _ =>
        let s2 : TS E := { s1 with indeg := s1.indeg.set c 0 }
        let parents := walkParents E c
        match processParents E.g c parents s2.states with
        | none => .panic
        | some m =>
          match expandParents E n parents { s2 with states := m } with
          | .ok s3 => topoLoop E n fuel s3 (out ++ [c])
          | .panic => .panic
          | .fuel => .fuel

/-- the first loop of `build()`: register tips and ends -/
def registerAll (E : TopoEnv) : List (Nat × WalkFlags) → TS E → TS E
  | [], s => s
  | (c, fl) :: rest, s =>
    match s.states.get c with
    | some st => registerAll E rest { s with states := s.states.set c (st.or fl) }
    | none =>
      let gt := genTime E.g c
      registerAll E rest
        { s with states := s.states.set c fl, indeg := s.indeg.set c 1,
                 minGen := if gt.1 < s.minGen then gt.1 else s.minGen,
                 explore := E.qg.insert gt c s.explore, indegQ := E.qg.insert gt c s.indegQ }

/-- "parents of the ends must also be marked uninteresting" -/
def markEndParents (g : Dag) (ends : List Nat) (m : StateMap) : StateMap :=
  orInsertAll flagU flagUSeen (ends.flatMap g.parents) m

/-- the last loop of `build()`: queue the tips nothing else points at -/
def queueTips (E : TopoEnv) : List Nat → NatSet → TS E → Option (TS E)
  | [], _, s => some s
  | t :: ts, queued, s =>
    match s.indeg.get t with
    | none => none
    | some i =>
      if i ≠ 1 then queueTips E ts queued s
      else
        let hidden := match s.states.get t with
          | some st => st.uninteresting
          | none => false
        if hidden || queued.mem t then queueTips E ts queued s
        else queueTips E ts (queued.insert t) (tqPush E s (E.g.time t) t)

/-- stable insertion sort ascending by time (`sort_by(|a, b| a.0.cmp(&b.0))`) -/
def insertByTime (e : Int × Nat) : List (Int × Nat) → List (Int × Nat)
  | [] => [e]
  | x :: xs => if x.1 ≤ e.1 then x :: insertByTime e xs else e :: x :: xs

def sortByTime (l : List (Int × Nat)) : List (Int × Nat) :=
  l.foldl (fun acc e => insertByTime e acc) []

/-- `GENERATION_NUMBER_INFINITY` -/
def genInfinity : Nat := 4294967295

def topoBuild (E : TopoEnv) (n : Nat) (tips ends : List Nat) : Res (TS E) :=
  let s0 : TS E :=
    { indeg := DegMap.empty, states := StateMap.empty, explore := E.qg.empty, indegQ := E.qg.empty,
      dateQ := E.qd.empty, dateCtr := 0, stack := [], minGen := genInfinity }
  let s1 := registerAll E (tips.map (fun t => (t, tipFlags)) ++ ends.map (fun e => (e, endFlags))) s0
  let s2 : TS E := { s1 with states := markEndParents E.g ends s1.states }
  match computeIndegrees E n s2.minGen n s2 with
  | .ok s3 =>
    match queueTips E tips NatSet.empty s3 with
    | none => .panic
    | some s4 =>
      -- `initial_sort()`: the stack's vector (bottom first) is reversed, then stably sorted by
      -- time; our list has the top first
      .ok { s4 with stack := (sortByTime s4.stack).reverse }
  | .panic => .panic
  | .fuel => .fuel

/-- the whole iteration; `n` bounds the number of commits (fuel only: every queue hands out each
commit at most once, so `n + 1` iterations suffice for every loop) -/
def topoWalk (E : TopoEnv) (n : Nat) (tips ends : List Nat) : Res (List Nat) :=
  match topoBuild E (n + 1) tips ends with
  | .ok s => topoLoop E (n + 1) (n + 1) s []
  | .panic => .panic
  | .fuel => .fuel

end GixModel.C47
