import GixModel.Model.C09
/-
C14 — model of reading commit-graph files (single file or split chain).

Rust functions modelled:
  gix_chunk::file::Index::from_bytes (table of contents)        gix-chunk/src/file/decode.rs   → `tocParse`
  gix_commitgraph::File::new (header, chunk validation)         gix-commitgraph/src/file/init.rs → `File.new`
  File::{id_at, commit_data_bytes, commit_at, lookup, num_commits}   file/access.rs            → `File.*`
  file::Commit::new, ParentEdge::from_raw, ExtraEdge::from_raw,
  the `Parents` iterator                                        file/commit.rs                 → `Commit.new`, `Commit.parents`
  Graph::{new, lookup_by_id, lookup_by_pos, commit_at, commit_by_id, id_at, num_commits}
                                                                access.rs, init.rs             → `Graph.*`
The id lookup inside one file (`File::lookup_inner`) is, line by line, the bisection of the pack
index (`index::access::lookup`); the model shares `C09.lookupWith`.

A `File` here holds the *chunks* (byte strings) the Rust struct addresses through offsets into the
memory map; `File.new` validates exactly what the Rust code validates, so every in-chunk index the
accessors compute is the same index relative to the chunk start.
`Option` is the panic monad (`none` = the Rust code panics: `assert!`, slice index, `unwrap`).
Modelled at repo commits 8c14c8568 (fan-out must be monotonic) and 197ad4b8b (`chunks_exact`).
-/
namespace GixModel.C14
open GixModel
open GixModel.C09 (be32 readU32 readU64 slice lookupWith readFan)

def NO_PARENT : Nat := 0x70000000
def EXTENDED_EDGES_MASK : Nat := 0x80000000
def LOW31 : Nat := 0x7fffffff
def MAX_COMMITS : Nat := 0x6fffffff   -- (1 << 30) + (1 << 29) + (1 << 28) - 1

/-! ### commits and their parents -/

inductive ParentEdge where
  | none
  | pos (p : Nat)
  | extra (i : Nat)
  deriving Repr, DecidableEq

/-- `ParentEdge::from_raw` -/
def ParentEdge.fromRaw (raw : Nat) : ParentEdge :=
  if raw = NO_PARENT then .none
  else if raw &&& EXTENDED_EDGES_MASK ≠ 0 then .extra (raw &&& LOW31)
  else .pos raw

/-- `file::Commit` (the decoded fields) -/
structure Commit where
  tree : Bytes
  parent1 : ParentEdge
  parent2 : ParentEdge
  generation : Nat
  time : Nat
  deriving Repr, DecidableEq

/-- `Commit::new` on the `hash_len + 16` bytes of a CDAT record (`hash_len = 20`) -/
def Commit.new (bytes : Bytes) : Option Commit :=
  match slice bytes 0 20, (slice bytes 20 4).bind readU32, (slice bytes 24 4).bind readU32,
        (slice bytes 28 4).bind readU32, (slice bytes 28 8).bind readU64 with
  | some tree, some p1, some p2, some g, some t =>
    some { tree := tree, parent1 := ParentEdge.fromRaw p1, parent2 := ParentEdge.fromRaw p2,
           generation := g / 4, time := t &&& 0x3ffffffff }
  | _, _, _, _, _ => none

inductive PErr where
  | secondParentWithoutFirstParent
  | firstParentIsExtraEdgeIndex
  | missingExtraEdgesList
  | extraEdgesListOverflow
  deriving Repr, DecidableEq

/-- `ParentIteratorState::Extra(chunks)` with `chunks = tail.chunks_exact(4)`: walk the 4-byte
chunks of the tail of the EDGE list until the entry with the last-edge bit; running out of complete
chunks (an incomplete tail is ignored by `chunks_exact`) is `ExtraEdgesListOverflow`.
Fuel = number of chunks + 1. -/
def extraLoop : Nat → Bytes → Option (List Nat × Option PErr)
  | 0, _ => none
  | f + 1, tail =>
    if tail.length < 4 then some ([], some .extraEdgesListOverflow)
    else
      match readU32 (tail.take 4) with
      | none => none
      | some raw =>
        if raw &&& EXTENDED_EDGES_MASK ≠ 0 then some ([raw &&& LOW31], none)
        else (extraLoop f (tail.drop 4)).map fun r => (raw :: r.1, r.2)

/-- Everything the `Parents` iterator yields: the `Ok` positions in order and the `Err` it ends
with, if any (it is fused after an error). -/
def Commit.parents (c : Commit) (edges : Option Bytes) : Option (List Nat × Option PErr) :=
  match c.parent1 with
  | .none =>
    match c.parent2 with
    | .none => some ([], none)
    | _ => some ([], some .secondParentWithoutFirstParent)
  | .extra _ => some ([], some .firstParentIsExtraEdgeIndex)
  | .pos p1 =>
    match c.parent2 with
    | .none => some ([p1], none)
    | .pos p2 => some ([p1, p2], none)
    | .extra idx =>
      match edges with
      | none => some ([p1], some .missingExtraEdgesList)
      | some l =>
        if idx * 4 ≤ l.length then
          (extraLoop (l.length + 1) (l.drop (idx * 4))).map fun r => (p1 :: r.1, r.2)
        else some ([p1], some .extraEdgesListOverflow)

/-! ### one file -/

structure File where
  baseGraphCount : Nat
  baseGraphs : Option Bytes
  cdat : Bytes
  edges : Option Bytes
  fan : List Nat
  oidl : Bytes
  deriving Repr

/-- `num_commits() = fan[255]` -/
def File.numCommits (f : File) : Option Nat := f.fan[255]?

/-- `id_at` (with its `assert!`) -/
def File.idAt (f : File) (pos : Nat) : Option Bytes := do
  let n ← f.numCommits
  if pos < n then slice f.oidl (pos * 20) 20 else none

/-- `commit_data_bytes` (with its `assert!`) -/
def File.commitDataBytes (f : File) (pos : Nat) : Option Bytes := do
  let n ← f.numCommits
  if pos < n then slice f.cdat (pos * 36) 36 else none

def File.commitAt (f : File) (pos : Nat) : Option Commit := do
  let b ← f.commitDataBytes pos
  Commit.new b

/-- `File::lookup` -/
def File.lookup (f : File) (id : Bytes) : Option (Option Nat) := lookupWith f.fan f.idAt id

/-! ### the chunk file and `File::new` -/

inductive ChunkErr where
  | empty | tocTooSmall | earlySentinel | duplicate | outOfBounds | nonIncremental | missingSentinel
  deriving Repr, DecidableEq

structure Chunk where
  kind : Bytes
  start : Nat
  stop : Nat
  deriving Repr

/-- the `for _ in 0..num_chunks` loop of `Index::from_bytes`; `toc` = `toc_entry` -/
def tocLoop (dataLen : Nat) : Nat → Bytes → List Chunk → Option (Except ChunkErr (List Chunk × Bytes))
  | 0, toc, acc => some (.ok (acc, toc))
  | k + 1, toc, acc => do
    let kind ← slice toc 0 4
    if kind = [0, 0, 0, 0] then some (.error .earlySentinel)
    else if acc.any (fun c => c.kind = kind) then some (.error .duplicate)
    else
      let offset ← (slice toc 4 8).bind readU64
      if offset > dataLen then some (.error .outOfBounds)
      else
        let next ← (slice toc 16 8).bind readU64
        if next > dataLen then some (.error .outOfBounds)
        else if next < offset then some (.error .nonIncremental)
        else tocLoop dataLen k (toc.drop 12) (acc ++ [{ kind := kind, start := offset, stop := next }])

/-- `gix_chunk::file::Index::from_bytes(data, toc_offset, num_chunks)` -/
def tocParse (data : Bytes) (tocOffset numChunks : Nat) : Option (Except ChunkErr (List Chunk)) :=
  if numChunks = 0 then some (.error .empty)
  else if tocOffset > data.length then none
  else
    let toc := data.drop tocOffset
    if toc.length < (numChunks + 1) * 12 then some (.error .tocTooSmall)
    else
      match tocLoop data.length numChunks toc [] with
      | none => none
      | some (.error e) => some (.error e)
      | some (.ok (chunks, rest)) =>
        match slice rest 0 4 with
        | none => none
        | some s => if s = [0, 0, 0, 0] then some (.ok chunks) else some (.error .missingSentinel)

inductive OpenErr where
  | corrupt | version | hash | chunk (e : ChunkErr) | missing | size | baseMismatch | trailer | count
  deriving Repr, DecidableEq

def findChunk (chunks : List Chunk) (kind : Bytes) : Option Chunk := chunks.find? (fun c => c.kind = kind)

def BASE : Bytes := [66, 65, 83, 69]
def CDAT : Bytes := [67, 68, 65, 84]
def EDGE : Bytes := [69, 68, 71, 69]
def OIDF : Bytes := [79, 73, 68, 70]
def OIDL : Bytes := [79, 73, 68, 76]

/-- `&data[range]` for a validated chunk range -/
def chunkBytes (data : Bytes) (c : Chunk) : Option Bytes :=
  if c.start ≤ c.stop ∧ c.stop ≤ data.length then some ((data.drop c.start).take (c.stop - c.start)) else none

/-- `fan.windows(2).any(|w| w[0] > w[1])` negated -/
def fanMonotone : List Nat → Bool
  | a :: b :: rest => decide (a ≤ b) && fanMonotone (b :: rest)
  | _ => true

/-- the optional BASE chunk: size a multiple of the hash length and as many hashes as the header says -/
def baseCheck (chunks : List Chunk) (bc : Nat) : Except OpenErr (Option Chunk) :=
  match findChunk chunks BASE with
  | none => .ok none
  | some c =>
    if (c.stop - c.start) % 20 ≠ 0 then .error .size
    else if (c.stop - c.start) / 20 ≠ bc then .error .baseMismatch
    else .ok (some c)

/-- a mandatory chunk whose size must be a multiple of `unit` (CDAT: 36, OIDL: 20) -/
def needChunk (chunks : List Chunk) (kind : Bytes) (unit : Nat) : Except OpenErr Chunk :=
  match findChunk chunks kind with
  | none => .error .missing
  | some c => if (c.stop - c.start) % unit ≠ 0 then .error .size else .ok c

/-- the mandatory OIDF chunk of exactly 256 * 4 bytes -/
def needFan (chunks : List Chunk) : Except OpenErr Chunk :=
  match findChunk chunks OIDF with
  | none => .error .missing
  | some c => if c.stop - c.start ≠ 1024 then .error .size else .ok c

/-- fan-out table, its monotonicity, the two commit counts, the chunk contents -/
def File.finish (data : Bytes) (bc : Nat) (chunks : List Chunk) (base : Option Chunk) (cd fo ol : Chunk) :
    Option (Except OpenErr File) :=
  match readFan 256 (data.drop fo.start) with
  | none => none
  | some fan =>
    if !fanMonotone fan then some (.error .corrupt)
    else
      match fan[255]? with
      | none => none
      | some n =>
        if (ol.stop - ol.start) / 20 ≠ n then some (.error .count)
        else if (cd.stop - cd.start) / 36 ≠ n then some (.error .count)
        else
          match chunkBytes data cd, chunkBytes data ol with
          | some cdb, some olb =>
            some (.ok { baseGraphCount := bc, baseGraphs := base.bind (chunkBytes data), cdat := cdb,
                        edges := (findChunk chunks EDGE).bind (chunkBytes data), fan := fan, oidl := olb })
          | _, _ => none

/-- trailer length and presence of the BASE chunk when the header announces base graphs -/
def File.assemble (data : Bytes) (bc : Nat) (chunks : List Chunk) (base : Option Chunk) (cd fo ol : Chunk) :
    Option (Except OpenErr File) :=
  match chunks.getLast? with
  | none => none
  | some lastc =>
    if lastc.stop > data.length then none
    else if data.length - lastc.stop ≠ 20 then some (.error .trailer)
    else if bc > 0 ∧ base.isNone then some (.error .missing)
    else File.finish data bc chunks base cd fo ol

/-- the chunk validations of `File::new`, in its order: BASE, CDAT, OIDF, OIDL, then the rest -/
def File.fromChunks (data : Bytes) (bc : Nat) (chunks : List Chunk) : Option (Except OpenErr File) :=
  match baseCheck chunks bc with
  | .error e => some (.error e)
  | .ok base =>
    match needChunk chunks CDAT 36 with
    | .error e => some (.error e)
    | .ok cd =>
      match needFan chunks with
      | .error e => some (.error e)
      | .ok fo =>
        match needChunk chunks OIDL 20 with
        | .error e => some (.error e)
        | .ok ol => File.assemble data bc chunks base cd fo ol

/-- `File::new`; outer `none` = panic -/
def File.new (data : Bytes) : Option (Except OpenErr File) :=
  if data.length < 8 + 4 * 12 + 1024 + 20 then some (.error .corrupt)
  else if data.take 4 ≠ [67, 71, 80, 72] then some (.error .corrupt)
  else
    match data[4]?, data[5]?, data[6]?, data[7]? with
    | some ver, some hk, some cc, some bc =>
      if ver.toNat ≠ 1 then some (.error .version)
      else if hk.toNat ≠ 1 then some (.error .hash)
      else
        match tocParse data 8 cc.toNat with
        | none => none
        | some (.error e) => some (.error (.chunk e))
        | some (.ok chunks) => File.fromChunks data bc.toNat chunks
    | _, _, _, _ => none

/-! ### the graph (chain of files, base first) -/

/-- `Graph::lookup_by_pos`: (file index, position in that file); `none` = the `panic!` -/
def lookupByPos : List File → Nat → Nat → Option (Nat × Nat)
  | [], _, _ => none
  | f :: rest, idx, remaining => do
    let n ← f.numCommits
    if remaining < n then some (idx, remaining) else lookupByPos rest (idx + 1) (remaining - n)

/-- `Graph::lookup_by_id`: (file index, position in the file, graph position) -/
def lookupById : List File → Nat → Nat → Bytes → Option (Option (Nat × Nat × Nat))
  | [], _, _, _ => some none
  | f :: rest, idx, start, id => do
    match ← f.lookup id with
    | some lex => some (some (idx, lex, start + lex))
    | none =>
      let n ← f.numCommits
      lookupById rest (idx + 1) (start + n) id

structure Graph where
  files : List File
  deriving Repr

inductive GraphErr where
  | tooManyCommits
  deriving Repr, DecidableEq

/-- `Graph::new` (one hash kind only) -/
def Graph.new (files : List File) : Option (Except GraphErr Graph) := do
  let ns ← files.mapM File.numCommits
  if ns.sum > MAX_COMMITS then some (.error .tooManyCommits) else some (.ok { files := files })

def Graph.numCommits (g : Graph) : Option Nat := (g.files.mapM File.numCommits).map List.sum

/-- what the harness observes of a commit: tree, generation, time, parent positions, final error -/
structure Seen where
  tree : Bytes
  generation : Nat
  time : Nat
  parents : List Nat
  err : Option PErr
  deriving Repr, DecidableEq

def File.seen (f : File) (pos : Nat) : Option Seen := do
  let c ← f.commitAt pos
  let (ps, e) ← c.parents f.edges
  some { tree := c.tree, generation := c.generation, time := c.time, parents := ps, err := e }

/-- `Graph::commit_at(pos)` + what is read from the commit -/
def Graph.commitAt (g : Graph) (pos : Nat) : Option Seen := do
  let (k, p) ← lookupByPos g.files 0 pos
  let f ← g.files[k]?
  f.seen p

/-- `Graph::commit_by_id(id)`: graph position + the commit -/
def Graph.commitById (g : Graph) (id : Bytes) : Option (Option (Nat × Seen)) := do
  match ← lookupById g.files 0 0 id with
  | none => some none
  | some (k, lex, gp) =>
    let f ← g.files[k]?
    let s ← f.seen lex
    some (some (gp, s))

/-- `Graph::id_at(pos)` -/
def Graph.idAt (g : Graph) (pos : Nat) : Option Bytes := do
  let (k, p) ← lookupByPos g.files 0 pos
  let f ← g.files[k]?
  f.idAt p

/-! ### driver -/

def showErr : PErr → String
  | .secondParentWithoutFirstParent => "second-without-first"
  | .firstParentIsExtraEdgeIndex => "first-is-extra"
  | .missingExtraEdgesList => "missing-extra-list"
  | .extraEdgesListOverflow => "extra-overflow"

def showSeen (s : Seen) : String :=
  let ps := ",".intercalate (s.parents.map toString)
  let e := match s.err with | none => "" | some e => "!" ++ showErr e
  s!"tree={hexOfBytes s.tree},gen={s.generation},time={s.time},parents=[{ps}]{e}"

def showChunkErr : ChunkErr → String
  | .empty => "empty" | .tocTooSmall => "toc-too-small" | .earlySentinel => "early-sentinel"
  | .duplicate => "duplicate" | .outOfBounds => "out-of-bounds" | .nonIncremental => "non-incremental"
  | .missingSentinel => "missing-sentinel"

def showOpenErr : OpenErr → String
  | .corrupt => "err:corrupt" | .version => "err:version" | .hash => "err:hash"
  | .chunk e => "err:chunk:" ++ showChunkErr e | .missing => "err:missing-chunk" | .size => "err:chunk-size"
  | .baseMismatch => "err:base-mismatch" | .trailer => "err:trailer" | .count => "err:count-mismatch"

def answer (g : Graph) (q : String) : Option String :=
  match q.toList with
  | ['N'] => some (match g.numCommits with | some n => toString n | none => "panic")
  | 'I' :: rest => do
    let id ← bytesOfHex (String.ofList rest)
    match g.commitById id with
    | none => some "panic"
    | some none => some "-"
    | some (some (gp, s)) => some s!"pos={gp},{showSeen s}"
  | 'A' :: rest => do
    let p ← (String.ofList rest).toNat?
    match g.commitAt p, g.idAt p with
    | some s, some id => some s!"id={hexOfBytes id},{showSeen s}"
    | _, _ => some "panic"
  | _ => none

/-- open every file in chain order; the first failure is the observation -/
def openAll : List Bytes → Option (Except String (List File))
  | [] => some (.ok [])
  | d :: rest =>
    match File.new d with
    | none => none
    | some (.error e) => some (.error (showOpenErr e))
    | some (.ok f) =>
      match openAll rest with
      | none => none
      | some (.error e) => some (.error e)
      | some (.ok fs) => some (.ok (f :: fs))

def handle? : List String → Option String
  | "graph" :: n :: rest => do
    let n ← n.toNat?
    if rest.length < n + 1 then none
    let files ← (rest.take n).mapM bytesOfHex
    match rest.drop n with
    | "|" :: qs =>
      match openAll files with
      | none => some "panic"
      | some (.error e) => some e
      | some (.ok fs) =>
        match Graph.new fs with
        | none => some "panic"
        | some (.error .tooManyCommits) => some "err:too-many-commits"
        | some (.ok g) => do
          let as ← qs.mapM (answer g)
          some (" ".intercalate as)
    | _ => none
  | _ => none

def handle (args : List String) : String := (handle? args).getD "bad-op"

end GixModel.C14
