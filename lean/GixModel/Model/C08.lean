import GixModel.Model.C56
/-
C08 — objects read from packs, with delta caches.

Rust code modelled (all in /repo/gix-pack):
  data::File::{decode_entry, resolve_deltas}                 src/data/file/decode/entry.rs
  data::delta::{decode_header_size, apply}                   src/data/delta.rs
  cache::Never, cache::lru::StaticLinkedList<SIZE> (incl. the mem_used / last_evicted accounting and
  `set_vec_to_slice`), cache::lru::MemoryCappedHashmap, cache::object::MemoryCappedHashmap
                                                             src/cache/{mod.rs,lru.rs,object.rs}
`StaticLinkedList::put` is the code after the /repo fixes (saturating `mem_free`, `SIZE == 0` guard);
`putBefore` keeps the earlier arithmetic to state what was wrong with it.

A pack is abstracted to its entry graph: `entry off` is what `File::entry(off)` + inflating the entry
yields (a full object, or the delta instructions with the base's pack offset / id); zlib and the
mmap slice are outside the model. The cache key is the entry's pack offset (the code uses the data
offset, `pack offset + header length`, which is in bijection with it).

`resolve_deltas`' single output vector `[source buffer][target buffer][delta instructions]` is
modelled as two buffers of the common size `biggest_result_size` that are swapped after every delta
and whose bytes beyond the current result are stale; the instruction area is the list of the
deltas' instruction bytes. This two-buffer model (`decodeEntry`) is kept; `decodeEntryVec` further down models the byte layout of the one
`Vec` itself (`resize`s, the "rescue" copy of the instructions, the base inflated into the front, the split into the
two buffers and the instruction area) and is what the driver runs; `Props.C08.resolve_exact_vec` is about it.

External: `uluru::LRUCache` is modelled as a bounded move-to-front list, `clru::CLruCache` with a
weight scale as a weight-bounded move-to-front list, `Vec`'s amortised growth as `vecGrow`.
-/
namespace GixModel.C08
open GixModel

inductive Kind | commit | tree | blob | tag
  deriving Repr, DecidableEq

/-- what a cache stores under a key: `(kind, compressed_size)` and the object bytes -/
structure Val where
  kind : Kind
  data : Bytes
  packed : Nat
  deriving Repr, DecidableEq

/-! ## `data::delta` -/

/-- `decode_header_size(d)` → `(size, consumed)`: 7 bits per byte, least significant first -/
def decodeHeaderSize (d : Bytes) : Nat × Nat :=
  go d 0 0 0
where
  go : Bytes → Nat → Nat → Nat → Nat × Nat
    | [], _, size, consumed => (size, consumed)
    | cmd :: rest, shift, size, consumed =>
      let size := size ||| ((cmd.toNat &&& 0x7f) <<< shift)
      if cmd &&& 0x80 = 0 then (size, consumed + 1) else go rest (shift + 7) size (consumed + 1)

def readByteIf (flag : Bool) (data : Bytes) : Option (Nat × Bytes) :=
  if flag then
    match data with
    | [] => none              -- `data[i]` past the end
    | b :: rest => some (b.toNat, rest)
  else some (0, data)

/-- `delta::apply(base, target, data)` with `target.len() = room`: `acc` holds what has been written
(newest piece first). `io::Write for &mut [u8]` copies only what still fits, so surplus output is
dropped silently; `none` is a panic (bad index, command 0, or the final `assert_eq!(target.len(), 0)`). -/
def applyGo : Nat → Bytes → Nat → Bytes → List Bytes → Option Bytes
  | 0, _, _, _, _ => none
  | fuel + 1, base, room, data, acc =>
    match data with
    | [] => if room = 0 then some acc.reverse.flatten else none
    | cmd :: rest =>
      if cmd &&& 0x80 ≠ 0 then
        match readByteIf (cmd &&& 0x01 ≠ 0) rest with
        | none => none
        | some (o0, r) =>
        match readByteIf (cmd &&& 0x02 ≠ 0) r with
        | none => none
        | some (o1, r) =>
        match readByteIf (cmd &&& 0x04 ≠ 0) r with
        | none => none
        | some (o2, r) =>
        match readByteIf (cmd &&& 0x08 ≠ 0) r with
        | none => none
        | some (o3, r) =>
        match readByteIf (cmd &&& 0x10 ≠ 0) r with
        | none => none
        | some (s0, r) =>
        match readByteIf (cmd &&& 0x20 ≠ 0) r with
        | none => none
        | some (s1, r) =>
        match readByteIf (cmd &&& 0x40 ≠ 0) r with
        | none => none
        | some (s2, r) =>
          let ofs := o0 + o1 * 256 + o2 * 65536 + o3 * 16777216
          let size0 := s0 + s1 * 256 + s2 * 65536
          let size := if size0 = 0 then 0x10000 else size0
          if ofs + size > base.length then none            -- `&base[ofs..ofs + size]`
          else
            applyGo fuel base (room - (((base.drop ofs).take size).take room).length) r
              (((base.drop ofs).take size).take room :: acc)
      else if cmd = 0 then none                             -- "unsupported command code: 0"
      else
        let n := cmd.toNat
        if n > rest.length then none                        -- `&data[i..i + size]`
        else
          applyGo fuel base (room - ((rest.take n).take room).length) (rest.drop n) ((rest.take n).take room :: acc)

def applyDelta (base : Bytes) (resultSize : Nat) (data : Bytes) : Option Bytes :=
  applyGo (data.length + 1) base resultSize data []

/-- the two size headers of a delta and its instruction bytes -/
structure DeltaInfo where
  baseSize : Nat
  resultSize : Nat
  instr : Bytes
  /-- number of bytes the two size headers take: `instr` is the delta data without them -/
  hdrLen : Nat := 0
  deriving Repr

def deltaInfo (delta : Bytes) : DeltaInfo :=
  let a := decodeHeaderSize delta
  let b := decodeHeaderSize (delta.drop a.2)
  { baseSize := a.1, resultSize := b.1, instr := delta.drop (a.2 + b.2), hdrLen := a.2 + b.2 }

/-! ## the pack -/

inductive Entry
  | base (kind : Kind) (data : Bytes) (packed : Nat)
  /-- `OfsDelta`: `baseOff` is `pack_offset - base_distance` -/
  | ofs (baseOff : Nat) (delta : Bytes) (packed : Nat)
  | ref (baseId : Bytes) (delta : Bytes) (packed : Nat)
  deriving Repr

structure Pack where
  /-- `File::entry(offset)` plus the inflated entry data; `none`: no (decodable) entry there -/
  entry : Nat → Option Entry
  /-- the `resolve` callback for ref-deltas: `ResolvedBase::InPack` at that offset, or unresolved -/
  resolve : Bytes → Option Nat
  /-- … or `ResolvedBase::OutOfPack` (thin packs): the callback wrote the base object, found outside the pack,
  into `out` (asked only when `resolve` has no answer) -/
  external : Bytes → Option (Kind × Bytes) := fun _ => none

/-! ## caches -/

/-- `cache::DecodeEntry` for one pack: `get` may reorder the cache, `put` may panic (`none`) -/
structure CacheModel where
  σ : Type
  get : σ → Nat → Option Val × σ
  put : σ → Nat → Val → Option σ

/-- `cache::Never` -/
def Never : CacheModel := { σ := Unit, get := fun s _ => (none, s), put := fun s _ _ => some s }

/-- `Vec<u8>` capacity after `clear(); try_reserve(n)` on a vector of capacity `cap`
(`RawVec::grow_amortized`: at least double, at least 8 for bytes) -/
def vecGrow (cap n : Nat) : Nat := if n ≤ cap then cap else max (max (2 * cap) n) 8

structure SEntry where
  key : Nat
  val : Val
  /-- capacity of the `Vec` holding `val.data` -/
  cap : Nat
  deriving Repr, DecidableEq

/-- `StaticLinkedList<SIZE>`: `entries` most recently used first (the `uluru::LRUCache`),
`lastEvicted = (len, capacity)` of the vector kept for reuse -/
structure StaticLRU where
  size : Nat
  entries : List SEntry
  lastEvicted : Nat × Nat
  memUsed : Nat
  memLimit : Nat
  deriving Repr, DecidableEq

/-- `StaticLinkedList::new(mem_limit)`: 0 means no limit (`usize::MAX`) -/
def StaticLRU.new (size memLimit : Nat) : StaticLRU :=
  { size := size, entries := [], lastEvicted := (0, 0), memUsed := 0,
    memLimit := if memLimit = 0 then 2 ^ 64 - 1 else memLimit }

/-- checked `a - b` on `usize` (`none` = "attempt to subtract with overflow") -/
def csub (a b : Nat) : Option Nat := if b ≤ a then some (a - b) else none

/-- the tail of `put` after `mem_free` is known -/
def StaticLRU.putWith (s : StaticLRU) (memFree : Nat) (key : Nat) (v : Val) : Option StaticLRU :=
  -- "If we could hold it but are at limit, all we can do is make space."
  let s1 : Option StaticLRU :=
    if v.data.length > memFree then
      let freeListCap := s.lastEvicted.1                     -- `self.last_evicted.len()`
      if v.data.length > memFree + freeListCap then
        some { s with lastEvicted := (0, 0), entries := [], memUsed := 0 }
      else (csub s.memUsed freeListCap).map fun m => { s with lastEvicted := (0, 0), memUsed := m }
    else some s
  match s1 with
  | none => none
  | some s1 =>
    -- `let mut v = take(&mut self.last_evicted); self.mem_used -= v.capacity();`
    match csub s1.memUsed s1.lastEvicted.2 with
    | none => none
    | some m =>
      let cap := vecGrow s1.lastEvicted.2 v.data.length      -- `set_vec_to_slice(&mut v, data)`
      let e : SEntry := { key := key, val := v, cap := cap }
      let m := m + cap
      -- `self.inner.insert(..)`: a full list gives up its last entry, whose vector is kept
      if s1.entries.length ≥ s1.size then
        match s1.entries.getLast? with
        | none => none                                       -- `LRUCache<_, 0>`: index out of bounds
        | some old =>
          some { s1 with entries := e :: s1.entries.dropLast, lastEvicted := (old.val.data.length, old.cap), memUsed := m }
      else some { s1 with entries := e :: s1.entries, lastEvicted := (0, 0), memUsed := m }

/-- `StaticLinkedList::put` (after the fixes) -/
def StaticLRU.put (s : StaticLRU) (key : Nat) (v : Val) : Option StaticLRU :=
  if s.size = 0 then some s
  else if v.data.length > s.memLimit then some s
  else s.putWith (s.memLimit - s.memUsed) key v              -- `saturating_sub`

/-- `StaticLinkedList::put` as it was: `mem_limit - mem_used` unchecked, no `SIZE == 0` guard -/
def StaticLRU.putBefore (s : StaticLRU) (key : Nat) (v : Val) : Option StaticLRU :=
  if v.data.length > s.memLimit then some s
  else match csub s.memLimit s.memUsed with
    | none => none
    | some memFree => s.putWith memFree key v

/-- move the first entry with `key` to the front -/
def touch (key : Nat) : List SEntry → Option (SEntry × List SEntry)
  | [] => none
  | e :: rest =>
    if e.key = key then some (e, rest)
    else match touch key rest with
      | none => none
      | some (hit, rest') => some (hit, e :: rest')

/-- `StaticLinkedList::get`: `uluru`'s `lookup` stops at the first match and touches it -/
def StaticLRU.get (s : StaticLRU) (key : Nat) : Option Val × StaticLRU :=
  match touch key s.entries with
  | none => (none, s)
  | some (hit, rest) => (some hit.val, { s with entries := hit :: rest })

def staticCache (size memLimit : Nat) : CacheModel × StaticLRU :=
  ({ σ := StaticLRU, get := StaticLRU.get, put := StaticLRU.put }, StaticLRU.new size memLimit)

structure MEntry where
  key : Nat
  val : Val
  deriving Repr, DecidableEq

/-- `clru::CLruCache` with a weight scale: `entries` most recently used first, `extra` is the
per-entry constant of the scale (0 for the pack cache, `size_of::<Entry>() + 20` for the object cache),
the weight of an entry is `data.len() + extra` -/
structure MemCapped where
  cap : Nat
  extra : Nat
  entries : List MEntry
  deriving Repr, DecidableEq

def MemCapped.weight (m : MemCapped) (es : List MEntry) : Nat := (es.map fun e => e.val.data.length + m.extra).sum

/-- `while storage.len() + self.weight + weight >= capacity { pop_back }` -/
def MemCapped.evict (m : MemCapped) (w : Nat) : Nat → List MEntry → List MEntry
  | 0, es => es
  | fuel + 1, es =>
    if es.length + m.weight es + w ≥ m.cap then
      match es with
      | [] => []
      | _ :: _ => m.evict w fuel es.dropLast
    else es

/-- `MemoryCappedHashmap::put`: `put_with_weight` rejects (`Err`) an entry at least as heavy as the
capacity and leaves the cache — an older entry under the same key included — untouched -/
def MemCapped.put (m : MemCapped) (key : Nat) (v : Val) : Option MemCapped :=
  let w := v.data.length + m.extra
  if w ≥ m.cap then some m
  else
    let es := m.entries.filter (fun e => e.key ≠ key)        -- an occupied slot is replaced
    let es := m.evict w (es.length + 1) es
    some { m with entries := { key := key, val := v } :: es }

def touchM (key : Nat) : List MEntry → Option (MEntry × List MEntry)
  | [] => none
  | e :: rest =>
    if e.key = key then some (e, rest)
    else match touchM key rest with
      | none => none
      | some (hit, rest') => some (hit, e :: rest')

def MemCapped.get (m : MemCapped) (key : Nat) : Option Val × MemCapped :=
  match touchM key m.entries with
  | none => (none, m)
  | some (hit, rest) => (some hit.val, { m with entries := hit :: rest })

def memCache (cap extra : Nat) : CacheModel × MemCapped :=
  ({ σ := MemCapped, get := MemCapped.get, put := MemCapped.put }, { cap := cap, extra := extra, entries := [] })

/-! ## `decode_entry` / `resolve_deltas` -/

inductive Outcome (α : Type) where
  | ok (a : α)
  /-- a Rust `Err` (`DeltaBaseUnresolved`, entry decode error) -/
  | err
  | panic
  | outOfFuel
  deriving Repr

/-- one element of `chain`: the entry's offset, its two size headers and instructions, its compressed size -/
structure ChainItem where
  off : Nat
  info : DeltaInfo
  packed : Nat
  /-- the complete inflated delta data of the entry (size headers + instructions) -/
  raw : Bytes := []
  deriving Repr

/-- where the walk along the bases stopped -/
inductive WalkEnd
  | base (kind : Kind) (data : Bytes)
  | hit (v : Val)
  /-- `ResolvedBase::OutOfPack { kind, end }`: the base object is in `out[..end]` -/
  | external (kind : Kind) (data : Bytes)
  deriving Repr

/-- the `while cursor.header.is_delta()` loop: `chain` newest first (reversed here: `acc` holds the
items pushed so far, newest LAST is how the code's vector looks; we keep newest first in `acc.reverse`).
Fuel: one unit per entry visited. -/
def walk (P : Pack) (M : CacheModel) : Nat → M.σ → Nat → List ChainItem → Outcome (List ChainItem × WalkEnd × M.σ)
  | 0, _, _, _ => .outOfFuel
  | fuel + 1, c, cursor, acc =>
    match P.entry cursor with
    | none => .err
    | some (.base kind data _) => .ok (acc, .base kind data, c)
    | some (.ofs baseOff delta packed) =>
      match M.get c cursor with
      | (some v, c') => .ok (acc, .hit v, c')
      | (none, c') => walk P M fuel c' baseOff ({ off := cursor, info := deltaInfo delta, packed := packed, raw := delta } :: acc)
    | some (.ref baseId delta packed) =>
      match M.get c cursor with
      | (some v, c') => .ok (acc, .hit v, c')
      | (none, c') =>
        match P.resolve baseId with
        | some baseOff => walk P M fuel c' baseOff ({ off := cursor, info := deltaInfo delta, packed := packed, raw := delta } :: acc)
        | none =>
          match P.external baseId with
          | some (k, d) => .ok ({ off := cursor, info := deltaInfo delta, packed := packed, raw := delta } :: acc, .external k d, c')
          | none => .err                                     -- `Error::DeltaBaseUnresolved`

/-- a buffer of `n` bytes whose front is `bs` (cut if longer) and whose rest is stale (here: zeros) -/
def fitTo (n : Nat) (bs : Bytes) : Bytes := (bs ++ List.replicate (n - bs.length) 0).take n

/-- overwrite the front of `buf` with `front` -/
def overwrite (buf front : Bytes) : Bytes := front ++ buf.drop front.length

/-- "From oldest to most recent, apply all deltas, swapping the buffer back and forth": `items` oldest
first; `a` / `b` are the first / second physical buffer of `out`, `srcIsA` says which of them
`source_buf` currently refers to (the code swaps the two references after every delta).
Returns the buffers, the final orientation and `last_result_size`. -/
def applyChain : List ChainItem → Bytes → Bytes → Bool → Nat → Option (Bytes × Bytes × Bool × Nat)
  | [], a, b, srcIsA, last => some (a, b, srcIsA, last)
  | d :: rest, a, b, srcIsA, _ =>
    let src := if srcIsA then a else b
    let tgt := if srcIsA then b else a
    if d.info.baseSize > src.length then none               -- `&source_buf[..base_size]`
    else if d.info.resultSize > tgt.length then none        -- `&mut target_buf[..result_size]`
    else match applyDelta (src.take d.info.baseSize) d.info.resultSize d.info.instr with
      | none => none
      | some result =>
        let tgt' := overwrite tgt result
        if srcIsA then applyChain rest a tgt' false d.info.resultSize
        else applyChain rest tgt' b true d.info.resultSize

structure Decoded where
  kind : Kind
  data : Bytes
  numDeltas : Nat
  compressedSize : Nat
  deriving Repr, DecidableEq

def WalkEnd.kind : WalkEnd → Kind
  | .base k _ => k
  | .hit v => v.kind
  | .external k _ => k

def WalkEnd.data : WalkEnd → Bytes
  | .base _ d => d
  | .hit v => v.data
  | .external _ d => d

/-- the end of `resolve_deltas`: after the last swap `source_buf` holds the result; "uneven chains leave
the target buffer after the source buffer": `if chain_len % 2 == 1 { target_buf[..n].copy_from_slice(&source_buf[..n]) }`,
then `out.truncate(n)` keeps the front of the FIRST physical buffer -/
def assemble (chainLen : Nat) (a b : Bytes) (srcIsA : Bool) (last : Nat) : Bytes :=
  let src := if srcIsA then a else b
  let tgt := if srcIsA then b else a
  let tgt := if chainLen % 2 = 1 then overwrite tgt (src.take last) else tgt
  let firstBuf := if srcIsA then src else tgt
  firstBuf.take last

/-- `biggest_result_size`: the largest base or result size any delta of the chain announces -/
def biggestSize (acc : List ChainItem) : Nat := (acc.map fun d => max d.info.baseSize d.info.resultSize).foldl max 0

/-- `resolve_deltas` after the walk, for a non-empty chain `acc` (oldest first) whose newest item is `first`:
size the two buffers, put the base into the first, apply, assemble, `cache.put` -/
def finishChain (M : CacheModel) (c : M.σ) (off : Nat) (acc : List ChainItem) (first : ChainItem)
    (kind : Kind) (baseData : Bytes) : Outcome (Decoded × M.σ) :=
  match applyChain acc (fitTo (biggestSize acc) baseData) (fitTo (biggestSize acc) []) true 0 with
  | none => .panic
  | some (a, b, srcIsA, last) =>
    match M.put c off { kind := kind, data := assemble acc.length a b srcIsA last, packed := first.packed } with
    | none => .panic
    | some c' =>
      .ok ({ kind := kind, data := assemble acc.length a b srcIsA last, numDeltas := acc.length,
             compressedSize := first.packed }, c')

/-- `File::resolve_deltas` -/
def resolveDeltas (P : Pack) (M : CacheModel) (fuel : Nat) (c : M.σ) (off : Nat) : Outcome (Decoded × M.σ) :=
  match walk P M fuel c off [] with
  | .err => .err
  | .panic => .panic
  | .outOfFuel => .outOfFuel
  | .ok (acc, stop, c') =>
    -- `acc` is oldest first (the walk prepends while moving towards the base)
    match acc.getLast? with
    | none =>
      -- "This can happen if the cache held the first entry itself"
      match stop with
      | .hit v => .ok ({ kind := v.kind, data := v.data, numDeltas := 0, compressedSize := v.packed }, c')
      | .base _ _ => .panic                                 -- unreachable: `decode_entry` handles full entries itself
      | .external _ _ => .panic                             -- unreachable: the delta was pushed before resolving
    | some first => finishChain M c' off acc first stop.kind stop.data

/-- `File::decode_entry(entry at off, out, .., resolve, delta_cache)` → the object and the statistics of
`Outcome`, plus the cache afterwards -/
def decodeEntry (P : Pack) (M : CacheModel) (fuel : Nat) (c : M.σ) (off : Nat) : Outcome (Decoded × M.σ) :=
  match P.entry off with
  | none => .err
  | some (.base kind data packed) =>
    .ok ({ kind := kind, data := data, numDeltas := 0, compressedSize := packed }, c)
  | some (.ofs _ _ _) => resolveDeltas P M fuel c off
  | some (.ref _ _ _) => resolveDeltas P M fuel c off

/-! ## `resolve_deltas` over its single output vector

The same algorithm with the byte layout of the ONE `out: Vec<u8>` the code works in:
`[first buffer: biggest][second buffer: biggest][delta instructions: total]`. -/

/-- `total_delta_data_size`: the inflated sizes of all deltas of the chain -/
def totalRaw (acc : List ChainItem) : Nat := (acc.map fun d => d.raw.length).sum

/-- the deltas' data, oldest first, as they are inflated one after the other into the instruction area -/
def instrArea (acc : List ChainItem) : Bytes := (acc.map fun d => d.raw).flatten

/-- `buf[pos .. pos + bs.len()] = bs` -/
def writeAt (buf : Bytes) (pos : Nat) (bs : Bytes) : Bytes := buf.take pos ++ bs ++ buf.drop (pos + bs.length)

/-- the layout part: from what `out` holds after the walk (the cached / out-of-pack base of length
`baseBuf`, or anything at all when the base is a pack entry still to be inflated) to the vector right
before the apply loop. `none` is a panic (`&buffers[delta_range]` when the base is longer than both
buffers together). -/
def layout (acc : List ChainItem) (baseBuf : Option Nat) (baseEntry : Bytes) (out : Bytes) : Option Bytes :=
  let total := totalRaw acc
  let deltaStart := baseBuf.getD 0
  -- `out.resize(delta_range.end, 0)`, then every delta (oldest first) is inflated into `out[delta_range]`
  let out1 := fitTo (deltaStart + total) out
  let out2 := out1.take deltaStart ++ instrArea acc
  -- `out.resize(first_buffer_size + second_buffer_size + total_delta_data_size, 0)`
  let biggest := biggestSize acc
  let out3 := fitTo (2 * biggest + total) out2
  -- "Now 'rescue' the deltas": move them behind the two buffers
  let out4 : Option Bytes :=
    if deltaStart < 2 * biggest then some (writeAt out3 (2 * biggest) ((out3.drop deltaStart).take total))
    else if deltaStart > 2 * biggest then none                        -- `&buffers[delta_range]` out of range
    else some out3
  match out4 with
  | none => none
  | some out4 =>
    -- "If we don't have a out-of-pack object already, fill the base-buffer by decompressing the full object"
    match baseBuf with
    | some _ => some out4
    | none => some (writeAt out4 0 (baseEntry.take out4.length))

/-- the chain items with their instruction bytes as they are found in the instruction area of `out`
(`delta.data = relative_start + header_bytes .. relative_start + decompressed_size`) -/
def relabel : List ChainItem → Bytes → List ChainItem
  | [], _ => []
  | d :: rest, area =>
    { d with info := { d.info with instr := (area.take d.raw.length).drop d.info.hdrLen } } :: relabel rest (area.drop d.raw.length)

/-- `resolve_deltas` after the walk over the single vector: layout, split into the two buffers and the
instruction area, apply loop, copy-back, `truncate`, `cache.put`. Returns the new content of `out`, too. -/
def finishChainVec (M : CacheModel) (c : M.σ) (off : Nat) (acc : List ChainItem) (first : ChainItem)
    (kind : Kind) (baseBuf : Option Nat) (baseEntry : Bytes) (out : Bytes) : Outcome (Decoded × M.σ × Bytes) :=
  match layout acc baseBuf baseEntry out with
  | none => .panic
  | some out5 =>
    let biggest := biggestSize acc
    -- `out.split_at_mut(second_buffer_end)`, `buffers.split_at_mut(first_buffer_end)`
    match applyChain (relabel acc (out5.drop (2 * biggest))) (out5.take biggest) ((out5.drop biggest).take biggest) true 0 with
    | none => .panic
    | some (a, b, srcIsA, last) =>
      let result := assemble acc.length a b srcIsA last
      match M.put c off { kind := kind, data := result, packed := first.packed } with
      | none => .panic
      | some c' =>
        .ok ({ kind := kind, data := result, numDeltas := acc.length, compressedSize := first.packed }, c', result)

/-- `File::resolve_deltas` over the single vector; a cache hit replaces the content of `out` -/
def resolveDeltasVec (P : Pack) (M : CacheModel) (fuel : Nat) (c : M.σ) (off : Nat) (out : Bytes) :
    Outcome (Decoded × M.σ × Bytes) :=
  match walk P M fuel c off [] with
  | .err => .err
  | .panic => .panic
  | .outOfFuel => .outOfFuel
  | .ok (acc, stop, c') =>
    match acc.getLast? with
    | none =>
      match stop with
      | .hit v => .ok ({ kind := v.kind, data := v.data, numDeltas := 0, compressedSize := v.packed }, c', v.data)
      | .base _ _ => .panic
      | .external _ _ => .panic
    | some first =>
      match stop with
      | .hit v => finishChainVec M c' off acc first v.kind (some v.data.length) [] v.data
      | .base k d => finishChainVec M c' off acc first k none d out
      | .external k d => finishChainVec M c' off acc first k (some d.length) [] d

/-- `File::decode_entry` with the caller's `out` vector threaded through -/
def decodeEntryVec (P : Pack) (M : CacheModel) (fuel : Nat) (c : M.σ) (off : Nat) (out : Bytes) :
    Outcome (Decoded × M.σ × Bytes) :=
  match P.entry off with
  | none => .err
  | some (.base kind data packed) =>
    .ok ({ kind := kind, data := data, numDeltas := 0, compressedSize := packed }, c, data)
  | some (.ofs _ _ _) => resolveDeltasVec P M fuel c off out
  | some (.ref _ _ _) => resolveDeltasVec P M fuel c off out

/-! ## driver -/

def kindStr : Kind → String
  | .commit => "commit" | .tree => "tree" | .blob => "blob" | .tag => "tag"

def parseKind? : String → Option Kind
  | "commit" => some .commit | "tree" => some .tree | "blob" => some .blob | "tag" => some .tag
  | _ => none

def lookupNat (k : Nat) : List (Nat × α) → Option α
  | [] => none
  | (k', v) :: rest => if k = k' then some v else lookupNat k rest

def lookupBytes (k : Bytes) : List (Bytes × α) → Option α
  | [] => none
  | (k', v) :: rest => if k = k' then some v else lookupBytes k rest

/-- `<off> b:<kind> <datahex> - <packed>` | `<off> o <baseOff> <deltahex> <packed>` | `<off> r <idhex> <deltahex> <packed>` -/
def parseEntries : Nat → List String → Option (List (Nat × Entry) × List String)
  | 0, rest => some ([], rest)
  | n + 1, off :: ty :: a :: b :: packed :: rest => do
    let off ← off.toNat?
    let packed ← packed.toNat?
    let e ← (match ty.splitOn ":" with
      | ["b", k] => do
        let k ← parseKind? k
        let d ← C56.hexToBytes a
        some (Entry.base k d packed)
      | ["o"] => do
        let bo ← a.toNat?
        let d ← C56.hexToBytes b
        some (Entry.ofs bo d packed)
      | ["r"] => do
        let id ← C56.hexToBytes a
        let d ← C56.hexToBytes b
        some (Entry.ref id d packed)
      | _ => none)
    let (es, rest) ← parseEntries n rest
    some ((off, e) :: es, rest)
  | _, _ => none

/-- `<idhex> <off>` (in the pack) or `<idhex> x:<kind>:<datahex>` (a base outside the pack) -/
def parseIds : Nat → List String → Option (List (Bytes × (Nat ⊕ (Kind × Bytes))) × List String)
  | 0, rest => some ([], rest)
  | n + 1, id :: off :: rest => do
    let id ← C56.hexToBytes id
    let target ← (match off.splitOn ":" with
      | ["x", k, d] => do
        let k ← parseKind? k
        let d ← C56.hexToBytes d
        some (Sum.inr (k, d))
      | [o] => (o.toNat?).map Sum.inl
      | _ => none)
    let (ids, rest) ← parseIds n rest
    some ((id, target) :: ids, rest)
  | _, _ => none

inductive AnyCache
  | never
  | static (s : StaticLRU)
  | mem (m : MemCapped)

def parseCache? (s : String) : Option AnyCache :=
  match s.splitOn ":" with
  | ["never"] => some .never
  | ["static", size, lim] => do
    let size ← size.toNat?
    let lim ← lim.toNat?
    some (.static (StaticLRU.new size lim))
  | ["mem", cap, extra] => do
    let cap ← cap.toNat?
    let extra ← extra.toNat?
    if cap = 0 then none else some (.mem { cap := cap, extra := extra, entries := [] })
  | _ => none

def decodedStr (d : Decoded) : String :=
  s!"{kindStr d.kind}:{d.data.length}:{C56.sha1Hex d.data}:{d.numDeltas}:{d.compressedSize}"

def runRequests (P : Pack) (M : CacheModel) (fuel : Nat) : M.σ → Bytes → List Nat → List String → List String
  | _, _, [], acc => acc.reverse
  | c, out, off :: rest, acc =>
    match decodeEntryVec P M fuel c off out with
    | .ok (d, c', out') => runRequests P M fuel c' out' rest (decodedStr d :: acc)
    | .err => runRequests P M fuel c out rest ("err" :: acc)
    | .panic => ("panic" :: acc).reverse
    | .outOfFuel => ("out-of-fuel" :: acc).reverse

/-- a cache key on the wire: `<pack id>.<offset>` (the real key is the pair), or a bare offset (pack 7).
The model's key is the injective encoding `pack * 2^64 + offset`. -/
def parseKey? (s : String) : Option Nat :=
  match s.splitOn "." with
  | [pack, off] => do
    let pack ← pack.toNat?
    let off ← off.toNat?
    if off < 2 ^ 64 then some (pack * 2 ^ 64 + off) else none
  | [off] => do
    let off ← off.toNat?
    if off < 2 ^ 64 then some (7 * 2 ^ 64 + off) else none
  | _ => none

/-- `p/<key>/<data>/<kind>/<packed>` or `g/<key>` -/
def runCacheOps (M : CacheModel) : M.σ → List String → List String → Option (List String)
  | _, [], acc => some acc.reverse
  | c, op :: rest, acc =>
    match op.splitOn "/" with
    | ["p", key, data, kind, packed] => do
      let key ← parseKey? key
      let data ← C56.parseData? data
      let kind ← parseKind? kind
      let packed ← packed.toNat?
      match M.put c key { kind := kind, data := data, packed := packed } with
      | none => some (("panic" :: acc).reverse)
      | some c' => runCacheOps M c' rest acc
    | ["g", key] => do
      let key ← parseKey? key
      match M.get c key with
      | (none, c') => runCacheOps M c' rest ("miss" :: acc)
      | (some v, c') => runCacheOps M c' rest (s!"{kindStr v.kind}:{v.data.length}:{C56.sha1Hex v.data}:{v.packed}" :: acc)
    | _ => none

def joinObs (xs : List String) : String := if xs.isEmpty then "-" else ",".intercalate xs

def handle? : List String → Option String
  | "decode" :: cache :: nEntries :: rest => do
    let cache ← parseCache? cache
    let n ← nEntries.toNat?
    let (entries, rest) ← parseEntries n rest
    match rest with
    | nIds :: rest =>
      let nIds ← nIds.toNat?
      let (ids, rest) ← parseIds nIds rest
      match rest with
      | [reqs] =>
        let reqs ← C56.parseNats? reqs
        let P : Pack := { entry := fun off => lookupNat off entries,
                          resolve := fun id => match lookupBytes id ids with | some (Sum.inl o) => some o | _ => none,
                          external := fun id => match lookupBytes id ids with | some (Sum.inr kd) => some kd | _ => none }
        let fuel := entries.length + 1
        some (joinObs (match cache with
          | .never => runRequests P Never fuel () [] reqs []
          | .static s => runRequests P { σ := StaticLRU, get := StaticLRU.get, put := StaticLRU.put } fuel s [] reqs []
          | .mem m => runRequests P { σ := MemCapped, get := MemCapped.get, put := MemCapped.put } fuel m [] reqs []))
      | _ => none
    | _ => none
  | "cache" :: cache :: ops => do
    let cache ← parseCache? cache
    let r ← (match cache with
      | .never => runCacheOps Never () ops []
      | .static s => runCacheOps { σ := StaticLRU, get := StaticLRU.get, put := StaticLRU.put } s ops []
      | .mem m => runCacheOps { σ := MemCapped, get := MemCapped.get, put := MemCapped.put } m ops [])
    some (joinObs r)
  | ["cachebefore", size, lim, ops] => do
    -- the static cache with the arithmetic before the fix (documentation of the defect)
    let size ← size.toNat?
    let lim ← lim.toNat?
    let r ← runCacheOps { σ := StaticLRU, get := StaticLRU.get, put := StaticLRU.putBefore } (StaticLRU.new size lim)
      (ops.splitOn ";") []
    some (joinObs r)
  | ["apply", base, delta] => do
    let base ← C56.parseData? base
    let delta ← C56.parseData? delta
    let i := deltaInfo delta
    some (match applyDelta (base.take i.baseSize) i.resultSize i.instr with
      | none => s!"panic base={i.baseSize} result={i.resultSize}"
      | some out => s!"base={i.baseSize} result={i.resultSize} out={C56.sha1Hex out}")
  | _ => none

def handle (args : List String) : String := (handle? args).getD "bad-op"

end GixModel.C08
