import GixModel.Basic.Dec
/-
C48 — model of the revision-spec tokenizer `gix_revision::spec::parse` (gix-revision/src/spec/parse/
function.rs): the function that reads a rev-spec and drives a `Delegate` with one call per token.

What is modelled (function by function, same control flow as the Rust code):
  parse, revision, navigate, parens, try_parse / try_parse_usize / try_parse_isize,
  parse_regex_prefix, try_range, long_describe_prefix, short_describe_prefix, try_set_prefix,
  gix_hash::Prefix::from_hex (acceptance + lower-casing only), SiblingBranch::parse and the
  `InterceptRev` wrapper (last_ref / last_prefix / done bookkeeping).

The delegate is a PARAMETER: `D : Nat → Call → Bool` answers the `i`-th call (`false` = the
delegate returned `None`, which makes the parser stop with `Error::Delegate` — except inside the
name-resolution chain, which falls back from prefix to describe-prefix to ref). `gix_date::parse`
is a parameter too (`dateOk`). Every Rust `expect`/index site that could panic is an explicit
`Out.panic` branch, and the loop fuel running out is `Out.fuel`; `Props.C48.tokenize_total` shows
neither is reachable.

Resolution of the calls against a repository (`gix::revision::spec::parse::Delegate`) is NOT
modelled here apart from the navigation arithmetic in `Spec/C48.lean`.
-/
namespace GixModel.C48
open GixModel

/-! ### delegate calls -/

inductive OKind | commit | tag | tree | blob
  deriving Repr, DecidableEq

/-- `gix_revision::spec::Kind` -/
inductive SKind
  | includeReachable | excludeReachable | rangeBetween | reachableToMergeBase
  | includeParents | excludeParents
  deriving Repr, DecidableEq

/-- `Option<delegate::PrefixHint>` -/
inductive Hint
  | none
  | mustBeCommit
  | anchor (refName : Bytes) (generation : Nat)
  deriving Repr, DecidableEq

inductive Call
  | findRef (name : Bytes)
  | prefix (hex : Bytes) (hint : Hint)
  | reflogEntry (n : Nat)
  | reflogDate (nav : Bytes)
  | nthCheckedOut (n : Nat)
  | sibling (push : Bool)
  | parent (n : Nat)
  | ancestor (n : Nat)
  | peelKind (k : OKind)
  | peelValid
  | peelTags
  | peelPath (p : Bytes)
  | find (re : Bytes) (neg : Bool)
  | index (path : Bytes) (stage : Nat)
  | kind (k : SKind)
  | done
  deriving Repr, DecidableEq

/-- `spec::parse::Error` -/
inductive Err
  | missingTildeAnchor
  | missingColonSuffix
  | emptyTopLevelRegex
  | unspecifiedRegexModifier (re : Bytes)
  | invalidObject (input : Bytes)
  | time (input : Bytes)
  | siblingNeedsBranch (name : Bytes)
  | reflogNeedsRefName (name : Bytes)
  | refnameNeedsPositive (nav : Bytes)
  | signedNumber (input : Bytes)
  | invalidNumber (input : Bytes)
  | negativeZero (input : Bytes)
  | unclosedBrace (input : Bytes)
  | kindSetTwice (prev now : SKind)
  | atNeedsCurly (input : Bytes)
  | unconsumed (input : Bytes)
  | delegate
  deriving Repr, DecidableEq

inductive PanicSite
  | hexadecimalOnly      -- `to_str().expect("hexadecimal only")` in try_set_prefix
  | tryParseIndex0       -- `input[0]` in try_parse
  | nonNegative          -- `.try_into().expect("non-negative")` in `^-n`
  | positiveNumber       -- `.try_into().expect("positive number")` in `^n`
  | nextOnEmpty          -- `i[0]` in `next`
  deriving Repr, DecidableEq

inductive Out
  | ok
  | err (e : Err)
  | panic (site : PanicSite)
  | fuel
  deriving Repr, DecidableEq

/-- what a run produced: the delegate calls made (in order) and how the parser returned -/
structure Res where
  calls : List Call
  out : Out
  deriving Repr, DecidableEq

/-- state of the `InterceptRev` wrapper plus the recorded calls (most recent first) -/
structure St where
  calls : List Call := []
  lastRef : Option Bytes := none
  lastPrefix : Option (Bytes × Hint) := none
  done : Bool := false
  deriving Repr, DecidableEq

abbrev Delegate := Nat → Call → Bool

def St.finish (s : St) (o : Out) : Res := ⟨s.calls.reverse, o⟩

/-- record a call; `InterceptRev` remembers the last ref / prefix BEFORE asking the inner delegate -/
def St.push (s : St) (c : Call) : St :=
  { s with
    calls := c :: s.calls
    lastRef := match c with | .findRef n => some n | _ => s.lastRef
    lastPrefix := match c with | .prefix h hint => some (h, hint) | _ => s.lastPrefix }

/-- `delegate.<call>(..).ok_or(Error::Delegate)?` followed by `k` -/
def callK (D : Delegate) (s : St) (c : Call) (k : St → Res) : Res :=
  if D s.calls.length c then k (s.push c) else (s.push c).finish (.err .delegate)

/-- `delegate.done()` (cannot fail) -/
def St.markDone (s : St) : St := { s with calls := Call.done :: s.calls, done := true }

/-! ### byte classes -/

def isHexDigit (b : UInt8) : Bool :=
  (48 ≤ b && b ≤ 57) || (97 ≤ b && b ≤ 102) || (65 ≤ b && b ≤ 70)

def lower (b : UInt8) : UInt8 := if 65 ≤ b && b ≤ 70 then b + 32 else b

/-- `b"~^:."` -/
def isSep (b : UInt8) : Bool := b == 126 || b == 94 || b == 58 || b == 46

def HEAD : Bytes := [72, 69, 65, 68]

/-! ### numbers (Rust `FromStr for usize / isize`, 64-bit) -/

def decVal (bs : Bytes) : Nat := bs.foldl (fun acc b => acc * 10 + (b.toNat - 48)) 0

def allDigits (bs : Bytes) : Bool := !bs.isEmpty && bs.all isDigit

def stripPlus (bs : Bytes) : Bytes :=
  match bs with
  | 43 :: r => r
  | _ => bs

/-- `usize::from_str`: optional `+`, at least one digit, `< 2^64` -/
def parseUsize (bs : Bytes) : Option Nat :=
  if allDigits (stripPlus bs) && decVal (stripPlus bs) < 2 ^ 64 then some (decVal (stripPlus bs)) else none

/-- `isize::from_str`: optional sign, at least one digit, in `[-2^63, 2^63)` -/
def parseIsize (bs : Bytes) : Option Int :=
  match bs with
  | 45 :: ds => if allDigits ds && decVal ds ≤ 2 ^ 63 then some (-(decVal ds : Int)) else none
  | 43 :: ds => if allDigits ds && decVal ds < 2 ^ 63 then some (decVal ds : Int) else none
  | ds => if allDigits ds && decVal ds < 2 ^ 63 then some (decVal ds : Int) else none

inductive TryNum (α : Type)
  | none
  | some (v : α)
  | err (e : Err)
  | panic (p : PanicSite)

/-- `try_parse::<isize>` -/
def tryParseI (input : Bytes) : TryNum Int :=
  match parseIsize input with
  | .none => .none
  | .some n =>
    if n == 0 then
      match input with
      | [] => .panic .tryParseIndex0
      | b :: _ => if b == 45 then .err (.negativeZero input) else .some n
    else .some n

/-- `try_parse::<usize>` -/
def tryParseU (input : Bytes) : TryNum Nat :=
  match parseUsize input with
  | .none => .none
  | .some n =>
    if n == 0 then
      match input with
      | [] => .panic .tryParseIndex0
      | b :: _ => if b == 45 then .err (.negativeZero input) else .some n
    else .some n

/-- `try_parse_usize`: `(number, digits consumed)` -/
def tryParseUsize (input : Bytes) : TryNum (Nat × Nat) :=
  if input.head? == some 45 || input.head? == some 43 then .err (.signedNumber input)
  else
    let ds := input.takeWhile isDigit
    if ds.isEmpty then .none
    else match tryParseU ds with
      | .none => .err (.invalidNumber ds)
      | .some n => .some (n, ds.length)
      | .err e => .err e
      | .panic p => .panic p

/-- `try_parse_isize`: `(number, negative, consumed)` -/
def tryParseIsize (input : Bytes) : TryNum (Int × Bool × Nat) :=
  if input.head? == some 43 then .err (.signedNumber input)
  else
    let negative := input.head? == some 45
    let ds := input.takeWhile (fun b => isDigit b || b == 45)
    if ds.isEmpty then .none
    else if ds.length == 1 && negative then .some (-1, true, 1)
    else match tryParseI ds with
      | .none => .err (.invalidNumber ds)
      | .some n => .some (n, negative, ds.length)
      | .err e => .err e
      | .panic p => .panic p

/-! ### `parens` — `{…}` with backslash escapes -/

/-- after the opening brace: `depth` open braces, `ign` = the previous byte was an active
backslash (it is dropped before a brace or a backslash, kept before anything else) -/
def parensGo : Nat → Bool → Bytes → Bytes → Option (Bytes × Bytes)
  | _, _, _, [] => none
  | d, ign, acc, b :: rest =>
    if b == 123 then
      if ign then parensGo d false (b :: acc) rest else parensGo (d + 1) false (b :: acc) rest
    else if b == 125 then
      if ign then parensGo d false (b :: acc) rest
      else if d ≤ 1 then some (acc.reverse, rest)
      else parensGo (d - 1) false (b :: acc) rest
    else if b == 92 then
      if ign then parensGo d false (b :: acc) rest else parensGo d true acc rest
    else parensGo d false (if ign then b :: 92 :: acc else b :: acc) rest

inductive Parens
  | notBrace
  | unclosed
  | found (inner rest : Bytes)
  deriving Repr, DecidableEq

def parens (input : Bytes) : Parens :=
  match input with
  | 123 :: rest =>
    match parensGo 1 false [] rest with
    | none => .unclosed
    | some (i, r) => .found i r
  | _ => .notBrace

/-! ### names: scanning for the first separator, prefixes, describe output -/

def hexStep (hex : Option Nat) (b : UInt8) : Option Nat :=
  match hex with
  | some n => if isHexDigit b then some (n + 1) else none
  | none => none

/-- is the `@` (followed by `rest`) a separator? `atStart` = it is the first byte of the cursor -/
def atIsSep (atStart : Bool) (rest : Bytes) : Bool :=
  if atStart && rest.isEmpty then true
  else if !atStart && rest.take 2 == [46, 46] then false
  else match rest with
    | n :: _ => n == 123 || isSep n
    | [] => false

/-- The separator search of `revision()`. `atStart` = we are at the first byte of the current
`cursor` (the cursor restarts after a lone `.`). Returns the name, the input from the separator
on (empty if there is none) and `consecutive_hex_chars`. -/
def scan : Bool → Option Nat → Bytes → Bytes → Bytes × Bytes × Option Nat
  | _, hex, acc, [] => (acc.reverse, [], hex)
  | atStart, hex, acc, b :: rest =>
    if b == 64 then
      if atIsSep atStart rest then (acc.reverse, b :: rest, hex) else scan false hex (b :: acc) rest
    else if isSep b then
      if b != 46 || rest.head? == some 46 then (acc.reverse, b :: rest, hex)
      else scan true hex (b :: acc) rest
    else scan false (hexStep hex b) (b :: acc) rest

/-- `gix_hash::Prefix::from_hex(..).ok()` rendered as lower-case hex -/
def prefixFromHex (h : Bytes) : Option Bytes :=
  if 4 ≤ h.length && h.length ≤ 40 && h.all isHexDigit then some (h.map lower) else none

def splitOn (sep : UInt8) : Bytes → List Bytes
  | [] => [[]]
  | b :: rest =>
    if b == sep then [] :: splitOn sep rest
    else match splitOn sep rest with
      | [] => [[b]]
      | t :: ts => (b :: t) :: ts

def joinWith (sep : UInt8) : List Bytes → Bytes
  | [] => []
  | [t] => t
  | t :: ts => t ++ sep :: joinWith sep ts

def isGHex (t : Bytes) : Option Bytes :=
  match t with
  | 103 :: rest => if rest.all isHexDigit then some rest else none
  | _ => none

/-- first `g<hex>` token from the right and the tokens to its left (nearest first) -/
def findG : List Bytes → Option (Bytes × List Bytes)
  | [] => none
  | t :: ts => match isGHex t with
    | some c => some (c, ts)
    | none => findG ts

/-- `long_describe_prefix` -/
def longDescribe (name : Bytes) : Option (Bytes × Hint) :=
  match findG (splitOn 45 name).reverse with
  | none => none
  | some (cand, left) =>
    if left.any (fun t => !t.isEmpty) then
      let hint :=
        match left with
        | gen :: tok :: more =>
          match parseUsize gen with
          | some g => Hint.anchor (joinWith 45 (more.reverse ++ [tok])) g
          | none => Hint.mustBeCommit
        | _ => Hint.mustBeCommit
      some (cand, hint)
    else none

/-- `short_describe_prefix` -/
def shortDescribe (name : Bytes) : Option Bytes :=
  match splitOn 45 name with
  | [p, _] => if p.all isHexDigit then some p else none
  | _ => none

inductive Try | yes | no | panic

/-- `try_set_prefix` -/
def trySetPrefix (D : Delegate) (s : St) (hexName : Bytes) (hint : Hint) : St × Try :=
  if hexName.all (fun b => b < 128) then
    match prefixFromHex hexName with
    | none => (s, .no)
    | some p => (s.push (.prefix p hint), if D s.calls.length (.prefix p hint) then .yes else .no)
  else (s, .panic)

/-- `SiblingBranch::parse`: `some true` = push, `some false` = upstream -/
def siblingParse (nav : Bytes) : Option Bool :=
  let l := nav.map (fun b => if 65 ≤ b && b ≤ 90 then b + 32 else b)
  if l == [117] || l == [117, 112, 115, 116, 114, 101, 97, 109] then some false
  else if l == [112, 117, 115, 104] then some true
  else none

/-- `parse_regex_prefix` -/
def parseRegexPrefix (re : Bytes) : Except Err (Bytes × Bool) :=
  match re with
  | 33 :: 33 :: r => .ok (33 :: r, false)
  | 33 :: 45 :: r => .ok (r, true)
  | 33 :: _ => .error (.unspecifiedRegexModifier re)
  | _ => .ok (re, false)

/-- `try_range` -/
def tryRange (input : Bytes) : Option (Bytes × SKind) :=
  match input with
  | 46 :: 46 :: 46 :: r => some (r, .reachableToMergeBase)
  | 46 :: 46 :: r => some (r, .rangeBetween)
  | _ => none

/-! ### `navigate` -/

def peelTarget (inner : Bytes) : Option Call :=
  if inner == [99, 111, 109, 109, 105, 116] then some (.peelKind .commit)
  else if inner == [116, 97, 103] then some (.peelKind .tag)
  else if inner == [116, 114, 101, 101] then some (.peelKind .tree)
  else if inner == [98, 108, 111, 98] then some (.peelKind .blob)
  else if inner == [111, 98, 106, 101, 99, 116] then some .peelValid
  else if inner == [] then some .peelTags
  else none

/-- the loop of `navigate()`; `k` receives the unconsumed rest. One unit of fuel per iteration. -/
def navigate (D : Delegate) : Nat → St → Bytes → (St → Bytes → Res) → Res
  | 0, s, _, _ => s.finish .fuel
  | _ + 1, s, [], k => k s []
  | fuel + 1, s, b :: past, k =>
    if b == 126 then
      match tryParseUsize past with
      | .err e => s.finish (.err e)
      | .panic p => s.finish (.panic p)
      | .none => callK D s (.ancestor 1) fun s => navigate D fuel s past k
      | .some (n, consumed) =>
        if n != 0 then callK D s (.ancestor n) fun s => navigate D fuel s (past.drop consumed) k
        else navigate D fuel s (past.drop consumed) k
    else if b == 94 then
      match tryParseIsize past with
      | .err e => s.finish (.err e)
      | .panic p => s.finish (.panic p)
      | .some (n, negative, consumed) =>
        if negative then
          -- `number.checked_mul(-1)` fails for isize::MIN only
          if n == -(2 ^ 63 : Int) then s.finish (.err (.invalidNumber past))
          else if 0 < n then s.finish (.panic .nonNegative)
          else
            callK D s (.parent n.natAbs) fun s =>
            callK D s (.kind .rangeBetween) fun s =>
              match s.lastPrefix with
              | some (p, hint) =>
                callK D { s with lastPrefix := none } (.prefix p hint) fun s =>
                  k s.markDone (past.drop consumed)
              | none =>
                match s.lastRef with
                | some name =>
                  callK D { s with lastRef := none } (.findRef name) fun s =>
                    k s.markDone (past.drop consumed)
                | none => s.finish (.err (.unconsumed past))
        else if n == 0 then
          callK D s (.peelKind .commit) fun s => navigate D fuel s (past.drop consumed) k
        else if n < 0 then s.finish (.panic .positiveNumber)
        else callK D s (.parent n.natAbs) fun s => navigate D fuel s (past.drop consumed) k
      | .none =>
        match parens past with
        | .unclosed => s.finish (.err (.unclosedBrace past))
        | .found inner rest =>
          match inner with
          | 47 :: re =>
            match parseRegexPrefix re with
            | .error e => s.finish (.err e)
            | .ok (re, neg) =>
              if !re.isEmpty then callK D s (.find re neg) fun s => navigate D fuel s rest k
              else navigate D fuel s rest k
          | _ =>
            match peelTarget inner with
            | some c => callK D s c fun s => navigate D fuel s rest k
            | none => s.finish (.err (.invalidObject inner))
        | .notBrace =>
          match past with
          | 33 :: rest => callK D s (.kind .excludeParents) fun s => k s.markDone rest
          | 64 :: rest => callK D s (.kind .includeParents) fun s => k s.markDone rest
          | _ => callK D s (.parent 1) fun s => navigate D fuel s past k
    else if b == 58 then
      callK D s (.peelPath past) fun s => k s []
    else k s (b :: past)

/-! ### `revision` -/

/-- the part of `revision()` after the anchor has been set: `@{…}` handling, then `navigate` -/
def afterName (D : Delegate) (dateOk : Bytes → Bool) (s : St) (name : Bytes) (hasRef : Bool)
    (sepPosZero : Bool) (rest : Bytes) (k : St → Bytes → Res) : Res :=
  match rest with
  | 64 :: pastSep =>
    match parens pastSep with
    | .unclosed => s.finish (.err (.unclosedBrace pastSep))
    | .notBrace => s.finish (.err (.atNeedsCurly rest))
    | .found nav rest2 =>
      let nav' := navigate D (rest2.length + 1)
      match tryParseI nav with
      | .err e => s.finish (.err e)
      | .panic p => s.finish (.panic p)
      | .some n =>
        if n < 0 then
          if name.isEmpty then callK D s (.nthCheckedOut n.natAbs) fun s => nav' s rest2 k
          else s.finish (.err (.refnameNeedsPositive nav))
        else if hasRef then callK D s (.reflogEntry n.natAbs) fun s => nav' s rest2 k
        else s.finish (.err (.reflogNeedsRefName name))
      | .none =>
        match siblingParse nav with
        | some push =>
          if hasRef then callK D s (.sibling push) fun s => nav' s rest2 k
          else s.finish (.err (.siblingNeedsBranch name))
        | none =>
          if hasRef then
            if dateOk nav then callK D s (.reflogDate nav) fun s => nav' s rest2 k
            else s.finish (.err (.time nav))
          else s.finish (.err (.reflogNeedsRefName name))
  | _ =>
    if sepPosZero && rest.head? == some 126 then s.finish (.err .missingTildeAnchor)
    else navigate D (rest.length + 1) s rest k

/-- `long_describe_prefix(name)` or else `short_describe_prefix(name)` -/
def describeCand (name : Bytes) : Option (Bytes × Hint) :=
  match longDescribe name with
  | some ch => some ch
  | none => (shortDescribe name).map (fun c => (c, Hint.none))

inductive NameRes
  | panic
  | refused                 -- `find_ref` returned `None`: `Error::Delegate`
  | ok (hasRef : Bool)      -- `has_ref_or_implied_name`
  deriving Repr, DecidableEq

/-- last link of the anchor resolution chain: `find_ref(name)` unless the name is empty -/
def refStep (D : Delegate) (s : St) (name : Bytes) : St × NameRes :=
  if name.isEmpty then (s, .ok true)
  else if D s.calls.length (.findRef name) then (s.push (.findRef name), .ok true)
  else (s.push (.findRef name), .refused)

/-- middle link: the object prefix inside `git describe` output, if the name looks like it -/
def describeStep (D : Delegate) (s : St) (name : Bytes) : St × NameRes :=
  match describeCand name with
  | none => refStep D s name
  | some (c, h) =>
    match trySetPrefix D s c h with
    | (s', .panic) => (s', .panic)
    | (s', .yes) => (s', .ok name.isEmpty)
    | (s', .no) => refStep D s' name

/-- the anchor resolution chain of `revision()`: object prefix (if the name looks like one),
else the prefix of `git describe` output, else (unless the name is empty) a reference -/
def nameChain (D : Delegate) (s : St) (name : Bytes) (hex : Option Nat) : St × NameRes :=
  if hex.getD 0 ≥ 4 then
    match trySetPrefix D s name .none with
    | (s', .panic) => (s', .panic)
    | (s', .yes) => (s', .ok name.isEmpty)
    | (s', .no) => describeStep D s' name
  else describeStep D s name

/-- `revision()` after the leading-`:` forms: `sc` is the result of the separator search -/
def revisionMain (D : Delegate) (dateOk : Bytes → Bool) (s : St) (sc : Bytes × Bytes × Option Nat)
    (k : St → Bytes → Res) : Res :=
  match sc with
  | (name, rest, hex) =>
    if name.isEmpty && rest.head? == some 64 && rest.tail.head? != some 123 then
      -- a lone `@` (followed by a separator or the end) is HEAD
      callK D s (.findRef HEAD) fun s =>
        match rest.tail with
        | [] => k s []
        | rest' => afterName D dateOk s name true false rest' k
    else
      match nameChain D s name hex with
      | (s', .panic) => s'.finish (.panic .hexadecimalOnly)
      | (s', .refused) => s'.finish (.err .delegate)
      | (s', .ok hasRef) => afterName D dateOk s' name hasRef (name.isEmpty && !rest.isEmpty) rest k

def revision (D : Delegate) (dateOk : Bytes → Bool) (s : St) (input : Bytes)
    (k : St → Bytes → Res) : Res :=
  match input with
  | [58] => s.finish (.err .missingColonSuffix)
  | [58, 47] => s.finish (.err .emptyTopLevelRegex)
  | 58 :: 47 :: regex =>
    match parseRegexPrefix regex with
    | .error e => s.finish (.err e)
    | .ok (re, neg) =>
      if re.isEmpty then s.finish (.err (.unconsumed input))
      else callK D s (.find re neg) fun s => k s []
  | 58 :: 48 :: 58 :: path => callK D s (.index path 0) fun s => k s []
  | 58 :: 49 :: 58 :: path => callK D s (.index path 1) fun s => k s []
  | 58 :: 50 :: 58 :: path => callK D s (.index path 2) fun s => k s []
  | 58 :: 51 :: 58 :: path => callK D s (.index path 3) fun s => k s []
  | 58 :: path => callK D s (.index path 0) fun s => k s []
  | _ => revisionMain D dateOk s (scan true (some 0) [] input) k

/-! ### `parse` -/

def finishParse (s : St) (input : Bytes) : Res :=
  if input.isEmpty then s.markDone.finish .ok else s.finish (.err (.unconsumed input))

/-- the second half of a range: `delegate.kind(kind)`, the right-hand revision (HEAD if empty) -/
def parseSecond (D : Delegate) (dateOk : Bytes → Bool) (kind : SKind) (rest2 : Bytes) (s : St) : Res :=
  callK D s (.kind kind) fun s =>
    revision D dateOk s rest2 fun s rest3 =>
      if rest3 != rest2 then finishParse s rest3
      else callK D s (.findRef HEAD) fun s => finishParse s rest3

/-- what `parse` does with the rest after the first revision -/
def parseAfterFirst (D : Delegate) (dateOk : Bytes → Bool) (input : Bytes) (prevKind : Option SKind)
    (s : St) (rest : Bytes) : Res :=
  if s.done then
    if rest.isEmpty then s.finish .ok else s.finish (.err (.unconsumed rest))
  else
    match tryRange rest with
    | some (rest2, kind) =>
      match prevKind with
      | some pk => s.finish (.err (.kindSetTwice pk kind))
      | none =>
        if rest != input then parseSecond D dateOk kind rest2 s
        else callK D s (.findRef HEAD) (parseSecond D dateOk kind rest2)
    | none => finishParse s rest

def parseStart (D : Delegate) (dateOk : Bytes → Bool) (s : St) (input : Bytes) (prevKind : Option SKind) : Res :=
  revision D dateOk s input (parseAfterFirst D dateOk input prevKind)

/-- `gix_revision::spec::parse(input, delegate)`; the `Res` lists the delegate calls made. -/
def tokenize (D : Delegate) (dateOk : Bytes → Bool) (input : Bytes) : Res :=
  match input with
  | 94 :: rest =>
    callK D {} (.kind .excludeReachable) fun s => parseStart D dateOk s rest (some .excludeReachable)
  | _ => parseStart D dateOk {} input none

/-- the delegate that accepts everything -/
def allYes : Delegate := fun _ _ => true

/-! ### driver -/

def OKind.str : OKind → String
  | .commit => "commit" | .tag => "tag" | .tree => "tree" | .blob => "blob"

def SKind.str : SKind → String
  | .includeReachable => "include" | .excludeReachable => "exclude" | .rangeBetween => "range"
  | .reachableToMergeBase => "merge" | .includeParents => "incparents" | .excludeParents => "excparents"

def Hint.str : Hint → String
  | .none => "none"
  | .mustBeCommit => "commit"
  | .anchor r g => s!"anchor:{hexOfBytes r}:{g}"

def Call.str : Call → String
  | .findRef n => s!"ref:{hexOfBytes n}"
  | .prefix h hint => s!"prefix:{hexOfBytes h}:{hint.str}"
  | .reflogEntry n => s!"reflog:{n}"
  | .reflogDate _ => "reflogdate"
  | .nthCheckedOut n => s!"nth:{n}"
  | .sibling p => if p then "sibling:push" else "sibling:upstream"
  | .parent n => s!"parent:{n}"
  | .ancestor n => s!"ancestor:{n}"
  | .peelKind k => s!"peel:{k.str}"
  | .peelValid => "peel:object"
  | .peelTags => "peel:tags"
  | .peelPath p => s!"path:{hexOfBytes p}"
  | .find re neg => s!"find:{hexOfBytes re}:{if neg then 1 else 0}"
  | .index p st => s!"index:{hexOfBytes p}:{st}"
  | .kind k => s!"kind:{k.str}"
  | .done => "done"

def Err.str : Err → String
  | .missingTildeAnchor => "MissingTildeAnchor"
  | .missingColonSuffix => "MissingColonSuffix"
  | .emptyTopLevelRegex => "EmptyTopLevelRegex"
  | .unspecifiedRegexModifier r => s!"UnspecifiedRegexModifier:{hexOfBytes r}"
  | .invalidObject i => s!"InvalidObject:{hexOfBytes i}"
  | .time i => s!"Time:{hexOfBytes i}"
  | .siblingNeedsBranch n => s!"SiblingBranchNeedsBranchName:{hexOfBytes n}"
  | .reflogNeedsRefName n => s!"ReflogLookupNeedsRefName:{hexOfBytes n}"
  | .refnameNeedsPositive n => s!"RefnameNeedsPositiveReflogEntries:{hexOfBytes n}"
  | .signedNumber i => s!"SignedNumber:{hexOfBytes i}"
  | .invalidNumber i => s!"InvalidNumber:{hexOfBytes i}"
  | .negativeZero i => s!"NegativeZero:{hexOfBytes i}"
  | .unclosedBrace i => s!"UnclosedBracePair:{hexOfBytes i}"
  | .kindSetTwice p n => s!"KindSetTwice:{p.str}:{n.str}"
  | .atNeedsCurly i => s!"AtNeedsCurlyBrackets:{hexOfBytes i}"
  | .unconsumed i => s!"UnconsumedInput:{hexOfBytes i}"
  | .delegate => "Delegate"

def Out.str : Out → String
  | .ok => "ok"
  | .err e => s!"err:{e.str}"
  | .panic _ => "panic"
  | .fuel => "model-out-of-fuel"

def Res.str (r : Res) : String :=
  String.intercalate "," (r.calls.map Call.str) ++ " " ++ r.out.str

/-- delegate policy of the harness' recording delegate: `failPrefix`/`failRef` refuse every
prefix / ref call, `failAt` refuses the call with that index -/
def policy (failPrefix failRef : Bool) (failAt : Option Nat) : Delegate := fun i c =>
  (match c with
   | .prefix _ _ => !failPrefix
   | .findRef _ => !failRef
   | _ => true) && failAt != some i

def parseDates : List String → Option (List (Bytes × Bool))
  | [] => some []
  | h :: v :: rest => do
    let h ← bytesOfHex h
    let tl ← parseDates rest
    some ((h, v == "1") :: tl)
  | _ => none

def handle? : List String → Option String
  | "tok" :: inp :: fp :: fr :: fa :: dates => do
    let inp ← bytesOfHex inp
    let fa ← if fa == "-" then some none else fa.toNat?.map some
    let table ← parseDates dates
    let dateOk (nav : Bytes) : Bool := (table.lookup nav).getD false
    some (tokenize (policy (fp == "1") (fr == "1") fa) dateOk inp).str
  | _ => none

def handle (args : List String) : String := (handle? args).getD "bad-op"

end GixModel.C48
