import GixModel.Model.C25Core
import GixModel.Basic.Sha1C24
/-
C25 — driver glue for the index-writer model (`Model/C25Core.lean`).
  write <opts> <sparse> <tree> <n> <entry>*n    `File::write_to` on the described state
      opts   three digits: tree_cache, end_of_index_entry, skip_hash
      tree   `-` or, recursively, `T <namehex> <idhex> <num_entries|-1> <nchildren> <child>…`
      entry  ctimeS ctimeN mtimeS mtimeN dev ino uid gid size mode(hex) idhex flags(hex) pathhex
    answer: `v=<version> <hex of the file>`
-/
namespace GixModel.C25
open GixModel GixModel.C24

def hexNat? (s : String) : Option Nat :=
  if s.isEmpty then none
  else s.toList.foldl (fun acc c => match acc, hexVal c with
    | some a, some d => some (a * 16 + d)
    | _, _ => none) (some 0)

mutual
  def parseTree : Nat → List String → Option (Tree × List String)
    | 0, _ => none
    | fuel + 1, "T" :: name :: id :: num :: nc :: rest => do
      let name ← bytesOfHex name
      let id ← bytesOfHex id
      let num ← (if num == "-1" then some none else num.toNat?.map some)
      let nc ← nc.toNat?
      let (cs, rest) ← parseTrees fuel nc rest
      some (.mk name id num cs, rest)
    | _ + 1, _ => none
  def parseTrees : Nat → Nat → List String → Option (List Tree × List String)
    | 0, _, _ => none
    | _ + 1, 0, rest => some ([], rest)
    | fuel + 1, n + 1, rest => do
      let (t, rest) ← parseTree fuel rest
      let (ts, rest) ← parseTrees fuel n rest
      some (t :: ts, rest)
end

def parseEntries : Nat → List String → Option (List Entry × List String)
  | 0, rest => some ([], rest)
  | n + 1, a :: b :: c :: d :: dev :: ino :: uid :: gid :: size :: mode :: id :: flags :: path :: rest => do
    let st : Stat := { ctimeS := ← a.toNat?, ctimeN := ← b.toNat?, mtimeS := ← c.toNat?, mtimeN := ← d.toNat?,
                       dev := ← dev.toNat?, ino := ← ino.toNat?, uid := ← uid.toNat?, gid := ← gid.toNat?,
                       size := ← size.toNat? }
    let e : Entry := { stat := st, mode := ← hexNat? mode, id := ← bytesOfHex id, flags := ← hexNat? flags,
                       path := ← bytesOfHex path }
    let (es, rest) ← parseEntries n rest
    some (e :: es, rest)
  | _ + 1, _ => none

def handle? : List String → Option String
  | "write" :: opts :: sparse :: rest => do
    let o : Options ← match opts.toList with
      | [a, b, c] => some { treeCache := a == '1', endOfIndexEntry := b == '1', skipHash := c == '1' }
      | _ => none
    let (tree, rest) ← match rest with
      | "-" :: rest => some (none, rest)
      | _ => (parseTree (rest.length + 1) rest).map fun (t, r) => (some t, r)
    match rest with
    | n :: rest =>
      let n ← n.toNat?
      let (es, rest) ← parseEntries n rest
      if !rest.isEmpty then none
      else
        let (v, bytes) := writeFile Sha1C24.sha1 { entries := es, tree, isSparse := sparse == "1" } o
        some s!"v={v} {hexOfBytes bytes}"
    | [] => none
  | _ => none

def handle (args : List String) : String := (handle? args).getD "bad-op"

end GixModel.C25
