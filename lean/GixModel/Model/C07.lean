import GixModel.Basic.Hex
import GixModel.Extracted.PackTypeIds
/-
C07 — model of the pack entry header codec and the delta interpreter.

Rust functions modelled:
  gix_pack::data::entry::Header::{write_to, size, as_type_id}, leb64_encode   gix-pack/src/data/entry/header.rs
  gix_pack::data::Entry::{from_bytes, from_read}, parse_header_info,
      streaming_parse_header_info                                             gix-pack/src/data/entry/decode.rs
  gix_features::decode::{leb64, leb64_from_read}   (after fix 2c8e960d4: an 11th byte is InvalidData)   gix-features/src/decode.rs
  gix_pack::data::delta::{decode_header_size, apply}                          gix-pack/src/data/delta.rs
  (+ the way `File::resolve_deltas` calls them for a chain of one delta)

Machine integers: all values are `Nat`; where the Rust code computes in u64/u8 the model carries
the width: `x << s` loses the bits above 2^64 (`% u64`), a shift amount ≥ 64 and an overflowing
`+` are PANICS (the harness is built with debug assertions and overflow checks, as `cargo test`
is), array indexing out of bounds is a panic. Bit operations are written arithmetically where the
operands are bit-disjoint by construction (`a | b` with `a` a multiple of 16 and `b < 16`, …);
the object type ids are extracted from the source on every run.
-/
namespace GixModel.C07
open GixModel

structure TypeIds where
  commit : Nat
  tree : Nat
  blob : Nat
  tag : Nat
  ofsDelta : Nat
  refDelta : Nat
  deriving Repr, DecidableEq

/-- today's type ids, as extracted from `entry/mod.rs` -/
def typeIds : TypeIds :=
  { commit := Extracted.packTypeCommit, tree := Extracted.packTypeTree, blob := Extracted.packTypeBlob,
    tag := Extracted.packTypeTag, ofsDelta := Extracted.packTypeOfsDelta,
    refDelta := Extracted.packTypeRefDelta }

/-- 2^64 -/
def u64 : Nat := 18446744073709551616

inductive Header
  | commit
  | tree
  | blob
  | tag
  | refDelta (id : Bytes)
  | ofsDelta (dist : Nat)
  deriving Repr, DecidableEq

/-- `Header::as_type_id` -/
def Header.typeId (t : TypeIds) : Header → Nat
  | .commit => t.commit
  | .tree => t.tree
  | .blob => t.blob
  | .tag => t.tag
  | .ofsDelta _ => t.ofsDelta
  | .refDelta _ => t.refDelta

/-! ### encoding -/

/-- `c | 0b1000_0000` on a u8 -/
def setHigh (c : Nat) : Nat := if c ≥ 128 then c else c + 128

/-- the `while size != 0 { out.write(c | 0x80); c = size & 0x7f; size >>= 7 }; out.write(c)` part of
`write_to`; `c` is the pending byte, `size` what is left after the first `>>= 4` -/
def sizeLoop : Nat → Nat → Nat → Bytes
  | 0, c, _ => [UInt8.ofNat c]
  | fuel + 1, c, size =>
    if size ≠ 0 then UInt8.ofNat (setHigh c) :: sizeLoop fuel (size % 128) (size / 128)
    else [UInt8.ofNat c]

/-- the same loop, counting `written += 1` -/
def sizeLoopWritten : Nat → Nat → Nat
  | 0, _ => 0
  | fuel + 1, size => if size ≠ 0 then 1 + sizeLoopWritten fuel (size / 128) else 0

/-- `leb64_encode`: `n` is the current value, `acc` the bytes already placed at the end of the
10-byte buffer; `fuel` the remaining slots. `none` is the `debug_assert_eq!(n, 0)` firing. -/
def lebGo : Nat → Nat → Bytes → Option Bytes
  | 0, n, acc => if n = 0 then some acc else none
  | fuel + 1, n, acc =>
    if n / 128 = 0 then some acc
    else lebGo fuel (n / 128 - 1) (UInt8.ofNat (128 + (n / 128 - 1) % 128) :: acc)

def leb64Encode (n : Nat) : Option Bytes := lebGo 9 n [UInt8.ofNat (n % 128)]

/-- `Header::write_to(size, out)`: the returned count and the bytes written; `none` = panic.
Sizes are u64, so ten bytes (fuel 10) always suffice for the size part. -/
def writeTo (t : TypeIds) (h : Header) (size : Nat) : Option (Nat × Bytes) :=
  let c := (h.typeId t * 16) % 256 + size % 16
  let sizeBytes := sizeLoop 10 c (size / 16)
  let written := 1 + sizeLoopWritten 10 (size / 16)
  match h with
  | .refDelta id => some (written + id.length, sizeBytes ++ id)
  | .ofsDelta dist =>
    match leb64Encode dist with
    | some b => some (written + b.length, sizeBytes ++ b)
    | none => none
  | _ => some (written, sizeBytes)

/-- `Header::size(decompressed_size)` = the count `write_to` returns on `io::sink()` -/
def headerSize (t : TypeIds) (h : Header) (size : Nat) : Option Nat := (writeTo t h size).map (·.1)

/-! ### decoding from memory -/

inductive Mem (α : Type)
  | ok (a : α)
  | panic
  deriving Repr, DecidableEq

/-- the `while c & 0x80 != 0` loop of `parse_header_info`: `c` the last byte read, `i` the bytes
consumed, `s` the next shift; returns `(size, i)` -/
def parseLoop : Nat → Nat → Nat → Nat → Nat → Bytes → Mem (Nat × Nat)
  | 0, _, _, _, _, _ => .panic
  | fuel + 1, c, i, size, s, rest =>
    if c ≥ 128 then
      match rest with
      | [] => .panic                                    -- data[i]
      | b :: rest' =>
        if s ≥ 64 then .panic                           -- shift amount overflow
        else
          let add := (b.toNat % 128 * 2 ^ s) % u64
          if size + add ≥ u64 then .panic               -- `size +=` overflow
          else parseLoop fuel b.toNat (i + 1) (size + add) (s + 7) rest'
    else .ok (size, i)

/-- `parse_header_info(data)` → `(type_id, size, consumed)` -/
def parseHeaderInfo (d : Bytes) : Mem (Nat × Nat × Nat) :=
  match d with
  | [] => .panic
  | c :: rest =>
    match parseLoop (d.length + 1) c.toNat 1 (c.toNat % 16) 4 rest with
    | .ok (size, i) => .ok (c.toNat / 16 % 8, size, i)
    | .panic => .panic

/-- the `while c & 0x80 != 0` loop of `leb64`: returns `(value, i)` -/
def lebLoop : Nat → Nat → Nat → Nat → Bytes → Mem (Nat × Nat)
  | 0, _, _, _, _ => .panic
  | fuel + 1, c, i, value, rest =>
    if c ≥ 128 then
      match rest with
      | [] => .panic                                    -- d[i]
      | b :: rest' =>
        if i + 1 > 10 then .panic                       -- debug_assert!(i <= 10)
        else if value + 1 ≥ u64 then .panic             -- `value += 1`
        else
          let shifted := ((value + 1) * 128) % u64       -- `value << 7`
          if shifted + b.toNat % 128 ≥ u64 then .panic
          else lebLoop fuel b.toNat (i + 1) (shifted + b.toNat % 128) rest'
    else .ok (value, i)

/-- `gix_features::decode::leb64(d)` → `(value, consumed)` -/
def leb64 (d : Bytes) : Mem (Nat × Nat) :=
  match d with
  | [] => .panic
  | c :: rest => lebLoop (d.length + 1) c.toNat 1 (c.toNat % 128) rest

inductive Dec
  | ok (h : Header) (size : Nat) (consumed : Nat)
  | errType (id : Nat)
  | panic
  deriving Repr, DecidableEq

/-- `Entry::from_bytes(d, pack_offset, hash_len)`; `consumed` is `data_offset - pack_offset` -/
def fromBytes (t : TypeIds) (hashLen : Nat) (d : Bytes) : Dec :=
  match parseHeaderInfo d with
  | .panic => .panic
  | .ok (ty, size, consumed) =>
    if ty = t.ofsDelta then
      match leb64 (d.drop consumed) with
      | .panic => .panic
      | .ok (dist, n) => .ok (.ofsDelta dist) size (consumed + n)
    else if ty = t.refDelta then
      if (d.drop consumed).length < hashLen then .panic   -- &d[consumed..][..hash_len]
      else if hashLen ≠ 20 then .panic                    -- ObjectId::from_bytes_or_panic (SHA-1 only)
      else .ok (.refDelta ((d.drop consumed).take hashLen)) size (consumed + hashLen)
    else if ty = t.blob then .ok .blob size consumed
    else if ty = t.tree then .ok .tree size consumed
    else if ty = t.commit then .ok .commit size consumed
    else if ty = t.tag then .ok .tag size consumed
    else .errType ty

/-! ### decoding from a stream (`read_exact` of one byte at a time) -/

inductive Rd (α : Type)
  | ok (a : α) (rest : Bytes)
  | io                   -- `ErrorKind::UnexpectedEof`
  | invalid              -- `ErrorKind::InvalidData`: varint longer than 10 bytes
  | panic
  deriving Repr, DecidableEq

def parseLoopRd : Nat → Nat → Nat → Nat → Nat → Bytes → Rd (Nat × Nat)
  | 0, _, _, _, _, _ => .panic
  | fuel + 1, c, i, size, s, rest =>
    if c ≥ 128 then
      match rest with
      | [] => .io
      | b :: rest' =>
        if s ≥ 64 then .panic
        else
          let add := (b.toNat % 128 * 2 ^ s) % u64
          if size + add ≥ u64 then .panic
          else parseLoopRd fuel b.toNat (i + 1) (size + add) (s + 7) rest'
    else .ok (size, i) rest

/-- `streaming_parse_header_info(read)` -/
def parseHeaderInfoRd (d : Bytes) : Rd (Nat × Nat × Nat) :=
  match d with
  | [] => .io
  | c :: rest =>
    match parseLoopRd (d.length + 1) c.toNat 1 (c.toNat % 16) 4 rest with
    | .ok (size, i) r => .ok (c.toNat / 16 % 8, size, i) r
    | .io => .io
    | .invalid => .invalid
    | .panic => .panic

def lebLoopRd : Nat → Nat → Nat → Nat → Bytes → Rd (Nat × Nat)
  | 0, _, _, _, _ => .panic
  | fuel + 1, c, i, value, rest =>
    if c ≥ 128 then
      match rest with
      | [] => .io
      | b :: rest' =>
        if i + 1 > 10 then .invalid                       -- `if i > 10 { return Err(InvalidData) }`
        else if value + 1 ≥ u64 then .panic
        else
          let shifted := ((value + 1) * 128) % u64
          if shifted + b.toNat % 128 ≥ u64 then .panic
          else lebLoopRd fuel b.toNat (i + 1) (shifted + b.toNat % 128) rest'
    else .ok (value, i) rest

/-- `gix_features::decode::leb64_from_read(r)` -/
def leb64Rd (d : Bytes) : Rd (Nat × Nat) :=
  match d with
  | [] => .io
  | c :: rest => lebLoopRd (d.length + 1) c.toNat 1 (c.toNat % 128) rest

inductive DecRd
  | ok (h : Header) (size : Nat) (consumed : Nat) (rest : Bytes)
  | errType (id : Nat)
  | io
  | invalid
  | panic
  deriving Repr, DecidableEq

/-- `Entry::from_read(r, pack_offset, hash_len)`; `rest` is what the reader has left -/
def fromRead (t : TypeIds) (hashLen : Nat) (d : Bytes) : DecRd :=
  match parseHeaderInfoRd d with
  | .panic => .panic
  | .io => .io
  | .invalid => .invalid
  | .ok (ty, size, consumed) r =>
    if ty = t.ofsDelta then
      match leb64Rd r with
      | .panic => .panic
      | .io => .io
      | .invalid => .invalid
      | .ok (dist, n) r2 => .ok (.ofsDelta dist) size (consumed + n) r2
    else if ty = t.refDelta then
      if hashLen > 20 then .panic                         -- &mut buf[..hash_len], buf = [0u8; 20]
      else if r.length < hashLen then .io
      else if hashLen ≠ 20 then .panic
      else .ok (.refDelta (r.take hashLen)) size (consumed + hashLen) (r.drop hashLen)
    else if ty = t.blob then .ok .blob size consumed r
    else if ty = t.tree then .ok .tree size consumed r
    else if ty = t.commit then .ok .commit size consumed r
    else if ty = t.tag then .ok .tag size consumed r
    else .errType ty

/-! ### deltas -/

/-- `delta::decode_header_size(d)` → `(size, consumed)`; `i` is the shift, `consumed` the count -/
def dhsLoop : Bytes → Nat → Nat → Nat → Mem (Nat × Nat)
  | [], _, size, consumed => .ok (size, consumed)
  | cmd :: rest, i, size, consumed =>
    if i ≥ 64 then .panic                                 -- shift amount overflow
    else
      let size' := size + (cmd.toNat % 128 * 2 ^ i) % u64 -- `|=` of bit-disjoint values
      if cmd.toNat < 128 then .ok (size', consumed + 1)
      else dhsLoop rest (i + 7) size' (consumed + 1)

def decodeHeaderSize (d : Bytes) : Mem (Nat × Nat) := dhsLoop d 0 0 0

/-- `if cmd & (1 << k) != 0 { x = data[i]; i += 1 }`; `none` = index panic -/
def optByte (flag : Bool) (data : Bytes) : Option (Nat × Bytes) :=
  if flag then
    match data with
    | b :: r => some (b.toNat, r)
    | [] => none
  else some (0, data)

def bit (cmd k : Nat) : Bool := cmd / 2 ^ k % 2 == 1

/-- the offset and size fields of a copy command → `(ofs, size, rest)` -/
def copyArgs (c : Nat) (data : Bytes) : Option (Nat × Nat × Bytes) := do
  let (o0, d) ← optByte (bit c 0) data
  let (o1, d) ← optByte (bit c 1) d
  let (o2, d) ← optByte (bit c 2) d
  let (o3, d) ← optByte (bit c 3) d
  let (s0, d) ← optByte (bit c 4) d
  let (s1, d) ← optByte (bit c 5) d
  let (s2, d) ← optByte (bit c 6) d
  let size := s0 + s1 * 256 + s2 * 65536
  some (o0 + o1 * 256 + o2 * 65536 + o3 * 16777216, if size = 0 then 65536 else size, d)

/-- `delta::apply(base, target, data)` with `target.len() = cap`: `out` is what has been written
to `target` so far (`Write::write` on a slice copies at most what still fits); `none` = panic
(index / slice out of range, command 0, or the final `assert_eq!(target.len(), 0)`). -/
def applyGo (base : Bytes) (cap : Nat) : Nat → Bytes → Bytes → Option Bytes
  | 0, _, _ => none
  | _ + 1, [], out => if out.length = cap then some out else none
  | fuel + 1, cmd :: data, out =>
    let c := cmd.toNat
    if c ≥ 128 then
      match copyArgs c data with
      | none => none
      | some (ofs, size, d) =>
        if ofs + size > base.length then none             -- &base[ofs..ofs + size]
        else applyGo base cap fuel d (out ++ ((base.drop ofs).take size).take (cap - out.length))
    else if c = 0 then none                               -- panic!("unsupported command code: 0")
    else if c > data.length then none                     -- &data[i..i + size]
    else applyGo base cap fuel (data.drop c) (out ++ (data.take c).take (cap - out.length))

def apply (base : Bytes) (cap : Nat) (data : Bytes) : Option Bytes :=
  applyGo base cap (data.length + 1) data []

inductive DeltaRes
  | ok (target : Bytes)
  | panic
  | outside              -- declared base size ≠ size of the base: buffers are sized by the declared value,
                         -- the real code then reads stale bytes or cannot inflate the base (git rejects such deltas)
  deriving Repr, DecidableEq

/-- what `File::resolve_deltas` does with one delta on top of a full base object: two header
sizes, then `apply(&base[..base_size], &mut target[..result_size], rest)`. (Until /repo commit
a28439df2 the buffer juggling in `resolve_deltas` sliced out of range when both declared sizes were
0; found by this property's harness, see known-findings.txt.) -/
def applyDelta (base delta : Bytes) : DeltaRes :=
  match decodeHeaderSize delta with
  | .panic => .panic
  | .ok (baseSize, o1) =>
    match decodeHeaderSize (delta.drop o1) with
    | .panic => .panic
    | .ok (resultSize, o2) =>
      if baseSize ≠ base.length then .outside
      else match apply (base.take baseSize) resultSize (delta.drop (o1 + o2)) with
        | some t => .ok t
        | none => .panic

/-- `File::resolve_deltas` with one ref-delta whose base was handed in by the `resolve` callback
(`ResolvedBase::OutOfPack`, as for thin packs): the base already lies at the front of the output
vector, the instructions are inflated behind it and moved behind the two work buffers; then
`apply(&out[..base_size], …)`. A declared base size SMALLER than the base reads a prefix of it
(as lenient as the in-pack path); a larger one would read leftovers of the instructions
(`outside`). Until the /repo fix recorded in known-findings.txt a base larger than twice both
declared sizes always panicked in the 'rescue' copy (`&buffers[delta_range]` out of range). -/
def applyDeltaThin (base delta : Bytes) : DeltaRes :=
  match decodeHeaderSize delta with
  | .panic => .panic
  | .ok (baseSize, o1) =>
    match decodeHeaderSize (delta.drop o1) with
    | .panic => .panic
    | .ok (resultSize, o2) =>
      if baseSize > base.length then .outside
      else match apply (base.take baseSize) resultSize (delta.drop (o1 + o2)) with
        | some t => .ok t
        | none => .panic

/-! ### driver -/

def fnv64 (bs : Bytes) : UInt64 :=
  bs.foldl (fun h b => (h ^^^ b.toUInt64) * 0x100000001b3) 0xcbf29ce484222325

def hex64 (v : UInt64) : String :=
  String.ofList ((List.range 16).map fun i => hexDigit ((v.toNat / 16 ^ (15 - i)) % 16))

/-- canonical rendering of a byte string: hex up to 64 bytes, else length and FNV-1a -/
def bobs (bs : Bytes) : String :=
  if bs.length ≤ 64 then hexOfBytes bs else s!"{bs.length}:{hex64 (fnv64 bs)}"

def cycleTo (pat : Bytes) (n : Nat) : Bytes :=
  if pat.isEmpty then [] else (List.range n).map fun i => pat.getD (i % pat.length) 0

/-- hex, or `x<count>:<hex pattern>` (pattern repeated to `count` bytes); parts joined by `+` -/
def bytesPart? (s : String) : Option Bytes :=
  match s.toList with
  | 'x' :: rest =>
    match (String.ofList rest).splitOn ":" with
    | [n, pat] => do
      let n ← n.toNat?
      let pat ← bytesOfHex pat
      if pat.isEmpty then none else some (cycleTo pat n)
    | _ => none
  | _ => bytesOfHex s

def bytesArg? (s : String) : Option Bytes :=
  (s.splitOn "+").foldl (fun acc p => do
    let a ← acc
    let b ← bytesPart? p
    some (a ++ b)) (some [])

def headerObs : Header → String
  | .commit => "commit"
  | .tree => "tree"
  | .blob => "blob"
  | .tag => "tag"
  | .ofsDelta d => s!"ofs:{d}"
  | .refDelta id => s!"ref:{hexOfBytes id}"

def parseHeader? (kind base : String) : Option Header :=
  match kind with
  | "commit" => some .commit
  | "tree" => some .tree
  | "blob" => some .blob
  | "tag" => some .tag
  | "ofs" => base.toNat?.map .ofsDelta
  | "ref" => (bytesOfHex base).map .refDelta
  | _ => none

def applyOp (base delta : String) : Option String := do
  let base ← bytesArg? base
  let delta ← bytesArg? delta
  some (match applyDelta base delta with
    | .ok t => s!"ok {bobs t}"
    | .panic => "panic"
    | .outside => "outside")

def applyxOp (base delta : String) : Option String := do
  let base ← bytesArg? base
  let delta ← bytesArg? delta
  some (match applyDeltaThin base delta with
    | .ok t => s!"ok {bobs t}"
    | .panic => "panic"
    | .outside => "outside")

def handle? : List String → Option String
  | ["hdr", kind, size, base] => do
    let h ← parseHeader? kind base
    let size ← size.toNat?
    some (match writeTo typeIds h size, headerSize typeIds h size with
      | some (w, bs), some sz => s!"w={w} size={sz} {hexOfBytes bs}"
      | _, _ => "panic")
  | ["hdrdec", d] => do
    let d ← bytesArg? d
    let mem := match fromBytes typeIds 20 d with
      | .ok h size consumed => s!"ok:{headerObs h}:{size}:{consumed}"
      | .errType id => s!"err:type:{id}"
      | .panic => "panic"
    let rd := match fromRead typeIds 20 d with
      | .ok h size consumed rest => s!"ok:{headerObs h}:{size}:{consumed}:left={rest.length}"
      | .errType id => s!"err:type:{id}"
      | .io => "io"
      | .invalid => "err:toolong"
      | .panic => "panic"
    some s!"mem={mem} stream={rd}"
  | ["lebdec", d] => do
    let d ← bytesArg? d
    let mem := match leb64 d with
      | .ok (v, i) => s!"ok:{v}:{i}"
      | .panic => "panic"
    let rd := match leb64Rd d with
      | .ok (v, i) rest => s!"ok:{v}:{i}:left={rest.length}"
      | .io => "io"
      | .invalid => "err:toolong"
      | .panic => "panic"
    some s!"mem={mem} stream={rd}"
  | ["applyx", base, delta] => applyxOp base delta
  | ["applyx", base, delta, _expect] => applyxOp base delta
  | ["apply", base, delta] => applyOp base delta
  | ["apply", base, delta, _expect] => applyOp base delta
  | _ => none

def handle (args : List String) : String := (handle? args).getD "bad-op"

end GixModel.C07
