import GixModel.Basic.Hex
/-
C06 — the outcome type and the slicing primitives shared by C06's own models (Model/C06.lean,
Model/C06b.lean). Each `none` of a slicing primitive is a Rust panic.
-/
namespace GixModel.C06
open GixModel

inductive Res (α : Type) where
  | ok (a : α)
  | err
  | panic
  | hang
  deriving Repr, DecidableEq

/-! ### slicing primitives (each `none` is a Rust panic) -/

/-- `&a[i..]` -/
def sliceFrom (a : Bytes) (i : Nat) : Option Bytes :=
  if i ≤ a.length then some (a.drop i) else none

/-- `&a[..j]` -/
def sliceTo (a : Bytes) (j : Nat) : Option Bytes :=
  if j ≤ a.length then some (a.take j) else none

/-- `&a[i..j]` -/
def slice (a : Bytes) (i j : Nat) : Option Bytes :=
  if i ≤ j ∧ j ≤ a.length then some ((a.take j).drop i) else none

/-- `a.split_at(i)` -/
def splitAt (a : Bytes) (i : Nat) : Option (Bytes × Bytes) :=
  if i ≤ a.length then some (a.take i, a.drop i) else none

/-- `bstr::ByteSlice::find_byte` -/
def findByte (c : UInt8) : Bytes → Option Nat
  | [] => none
  | b :: bs => if b = c then some 0 else (findByte c bs).map (· + 1)

end GixModel.C06
