import GixModel.Basic.Hex
/-
C05 — model of object ids, their hexadecimal forms and `Prefix`.

Rust functions modelled (all in /repo/gix-hash/src):
  oid::{to_hex, to_hex_with_len, hex_to_buf, write_hex_to} + HexDisplay::fmt      oid.rs
  ObjectId::from_hex                                                              object_id.rs
  Prefix::{new, from_hex, cmp_oid, hex_len} + Display for Prefix                  prefix.rs
  faster_hex::{hex_encode (lower case), hex_decode (either case)}                 (crate, modelled)

Ids are `Bytes`; the Rust types guarantee 20 bytes (`Kind::Sha1` is the only kind), the theorems
carry `id.length = 20` as a hypothesis and the driver refuses other lengths.
Every Rust slice/index operation that could panic is an explicit `panic` outcome here, so
"never panics" is a theorem (Props.C05), not an artefact of the model.
-/
namespace GixModel.C05
open GixModel

inductive Outcome (ε α : Type) where
  | ok (a : α)
  | err (e : ε)
  | panic
  deriving Repr, DecidableEq

/-- lower-case hex digit of a nibble (`faster_hex` encode table) -/
def hexDigit (n : Nat) : UInt8 := if n < 10 then UInt8.ofNat (48 + n) else UInt8.ofNat (87 + n)

/-- `faster_hex::hex_encode` / `oid::hex_to_buf`: two lower-case digits per byte -/
def hex (id : Bytes) : Bytes := id.flatMap fun b => [hexDigit (b.toNat / 16), hexDigit (b.toNat % 16)]

/-- `faster_hex`'s `UNHEX` table: value of a hex digit of either case -/
def unhexDigit (c : UInt8) : Option Nat :=
  if 48 ≤ c ∧ c ≤ 57 then some (c.toNat - 48)
  else if 97 ≤ c ∧ c ≤ 102 then some (c.toNat - 87)
  else if 65 ≤ c ∧ c ≤ 70 then some (c.toNat - 55)
  else none

inductive DecodeErr | invalidLength | invalidChar
  deriving Repr, DecidableEq

/-- pairs of digits to bytes; `none` when a byte is not a hex digit (or a digit is left over) -/
def unhexPairs : Bytes → Option Bytes
  | [] => some []
  | [_] => none
  | a :: b :: rest =>
    match unhexDigit a, unhexDigit b, unhexPairs rest with
    | some x, some y, some r => some (UInt8.ofNat (x * 16 + y) :: r)
    | _, _, _ => none

/-- `faster_hex::hex_decode(src, dst)` with `dst.len() == src.len() / 2` (all call sites): odd
length is `InvalidLength` (checked first), then every byte must be a hex digit. -/
def hexDecode (src : Bytes) : Except DecodeErr Bytes :=
  if src.length % 2 = 1 then .error .invalidLength
  else match unhexPairs src with
    | none => .error .invalidChar
    | some out => .ok out

/-! ### ObjectId -/

inductive IdErr | invalidLength | invalid
  deriving Repr, DecidableEq

/-- `ObjectId::from_hex` -/
def idFromHex (buf : Bytes) : Outcome IdErr Bytes :=
  if buf.length = 40 then
    match hexDecode buf with
    | .ok out => .ok out
    | .error .invalidChar => .err .invalid
    | .error .invalidLength => .panic     -- `unreachable!("BUG: This is already checked")`
  else .err .invalidLength

/-- `oid::to_hex()` rendered, also what `write_hex_to` writes -/
def toHex (id : Bytes) : Bytes := hex id

/-- `oid::to_hex_with_len(len)` rendered: `&hex[..len.min(max_len)]` -/
def toHexWithLen (id : Bytes) (len : Nat) : Bytes := (hex id).take (min len (2 * id.length))

/-! ### Prefix -/

structure Prefix where
  bytes : Bytes
  hexLen : Nat
  deriving Repr, DecidableEq

inductive NewErr | tooLong | tooShort
  deriving Repr, DecidableEq

/-- `Prefix::new(id, hex_len)` -/
def Prefix.new (id : Bytes) (n : Nat) : Outcome NewErr Prefix :=
  if n > 40 then .err .tooLong
  else if n < 4 then .err .tooShort
  else
    let copyLen := (n + 1) / 2
    -- `b[..copy_len].copy_from_slice(&id.as_bytes()[..copy_len])` on a 20-byte null id
    if copyLen > 20 ∨ copyLen > id.length then .panic
    else
      let b := id.take copyLen ++ List.replicate (20 - copyLen) 0
      if n % 2 = 1 then
        -- `b[hex_len / 2] &= 0xf0`
        if n / 2 < b.length then .ok ⟨b.modify (n / 2) (fun x => x &&& 0xf0), n⟩ else .panic
      else .ok ⟨b, n⟩

/-- `<[u8] as Ord>::cmp`: lexicographic -/
def cmpBytes : Bytes → Bytes → Ordering
  | [], [] => .eq
  | [], _ :: _ => .lt
  | _ :: _, [] => .gt
  | a :: as, b :: bs => if a < b then .lt else if b < a then .gt else cmpBytes as bs

def cmpU8 (a b : UInt8) : Ordering := if a < b then .lt else if b < a then .gt else .eq

/-- `Prefix::cmp_oid(candidate)`; `none` = a slice/index panic. Note that `Ordering::then` takes
its argument by value, so the half-byte indexing is evaluated in every case. -/
def Prefix.cmpOid (p : Prefix) (c : Bytes) : Option Ordering :=
  let common := p.hexLen / 2
  if common > p.bytes.length ∨ common > c.length then none
  else
    let first := cmpBytes (p.bytes.take common) (c.take common)
    if p.hexLen % 2 = 1 then
      match p.bytes[common]?, c[common]? with
      | some x, some y => some (first.then (cmpU8 x (y &&& 0xf0)))
      | _, _ => none
    else some first

inductive FromHexErr | tooLong | tooShort | invalid
  deriving Repr, DecidableEq

/-- `Prefix::from_hex(value)` on the bytes of `value` -/
def Prefix.fromHex (s : Bytes) : Outcome FromHexErr Prefix :=
  let n := s.length
  if n > 40 then .err .tooLong
  else if n < 4 then .err .tooShort
  else
    -- odd: copied into a 40-byte buffer and padded with one `'0'` (index `n ≤ 39`, in range)
    let src := if n % 2 = 0 then s else s ++ [48]
    match hexDecode src with
    | .error .invalidLength => .panic       -- `panic!("This is already checked")`
    | .error .invalidChar => .err .invalid
    | .ok out =>
      -- `dst[..copy_len].copy_from_slice(&src)` on a 20-byte null id
      if out.length > 20 then .panic
      else .ok ⟨out ++ List.replicate (20 - out.length) 0, n⟩

/-- `impl Display for Prefix`: `self.bytes.to_hex_with_len(self.hex_len)` -/
def Prefix.display (p : Prefix) : Bytes := toHexWithLen p.bytes p.hexLen

/-! ### driver -/

def asciiString (bs : Bytes) : String := String.ofList (bs.map fun b => Char.ofNat b.toNat)

def showPrefix : Prefix → String
  | p => s!"ok {hexOfBytes p.bytes} {p.hexLen} {asciiString p.display}"

def showOrd : Ordering → String
  | .lt => "lt" | .eq => "eq" | .gt => "gt"

def id20? (s : String) : Option Bytes :=
  match bytesOfHex s with
  | some b => if b.length = 20 then some b else none
  | none => none

def handle? : List String → Option String
  | ["tohex", id, len] => do
    let id ← id20? id
    let len ← len.toNat?
    some s!"{asciiString (toHex id)} {asciiString (toHexWithLen id len)}"
  | ["idfromhex", s] => do
    let s ← bytesOfHex s
    match idFromHex s with
    | .ok id => some s!"ok {hexOfBytes id}"
    | .err .invalidLength => some "err:len"
    | .err .invalid => some "err:invalid"
    | .panic => some "panic"
  | ["pnew", id, n] => do
    let id ← id20? id
    let n ← n.toNat?
    match Prefix.new id n with
    | .ok p => some (showPrefix p)
    | .err .tooLong => some "err:long"
    | .err .tooShort => some "err:short"
    | .panic => some "panic"
  | ["pfromhex", s] => do
    let s ← bytesOfHex s
    match Prefix.fromHex s with
    | .ok p => some (showPrefix p)
    | .err .tooLong => some "err:long"
    | .err .tooShort => some "err:short"
    | .err .invalid => some "err:invalid"
    | .panic => some "panic"
  | ["pcmpnew", id, n, c] => do
    let id ← id20? id
    let n ← n.toNat?
    let c ← id20? c
    match Prefix.new id n with
    | .ok p => match p.cmpOid c with
      | some o => some (showOrd o)
      | none => some "panic"
    | .err _ => some "err"
    | .panic => some "panic"
  | ["pcmphex", s, c] => do
    let s ← bytesOfHex s
    let c ← id20? c
    match Prefix.fromHex s with
    | .ok p => match p.cmpOid c with
      | some o => some (showOrd o)
      | none => some "panic"
    | .err _ => some "err"
    | .panic => some "panic"
  | _ => none

def handle (args : List String) : String := (handle? args).getD "bad-op"

end GixModel.C05
