/-
C31 — the negotiators of gix-negotiate (`consecutive.rs`, `skipping.rs`, `noop.rs`) over an abstract
commit graph.

* commits are natural numbers; `Odb.parents`, `Odb.time` (commit time, the queue key) and
  `Odb.present` (is the commit in the local object database — a shallow boundary or a missing
  object has `present = false`) are plain data;
* `gix_revwalk::Graph<Commit<Metadata>>` is the finite map `St.graph` (absent = never inserted):
  `get_or_insert_commit(id, f)` is `touch`: nothing happens for a commit that is not present;
* both priority queues (`revs` and the local queue of `mark_common`) are lists; WHICH element
  `pop` hands out is decided by a `Picker` — the theorems hold for every picker, i.e. for every
  heap order and every tie-breaking; the executable driver uses the max-time picker
  (`BinaryHeap` = max-heap on the commit time; the harness generates distinct times);
* `non_common_revs: usize` is an `Int` here (the counter only decides when `next_have` gives up;
  the safety theorems do not depend on it; an underflow would show as a correspondence failure);
* `expect()`/`assert!` sites are `panic` outcomes; loops run on fuel (`fuel` outcome when it runs
  out; the theorems cover every amount of fuel).
-/
namespace GixModel.C31.Neg

structure Odb where
  parents : Nat → List Nat
  time : Nat → Int
  present : Nat → Bool

structure Flags where
  common : Bool := false
  seen : Bool := false
  popped : Bool := false
  commonRef : Bool := false
  advertised : Bool := false
  deriving Repr, DecidableEq

def Flags.or (a b : Flags) : Flags :=
  { common := a.common || b.common, seen := a.seen || b.seen, popped := a.popped || b.popped,
    commonRef := a.commonRef || b.commonRef, advertised := a.advertised || b.advertised }

def Flags.intersects (a b : Flags) : Bool :=
  (a.common && b.common) || (a.seen && b.seen) || (a.popped && b.popped) || (a.commonRef && b.commonRef)
    || (a.advertised && b.advertised)

/-- `gix_negotiate::Metadata` -/
structure Meta where
  flags : Flags := {}
  originalTtl : Nat := 0
  ttl : Nat := 0
  deriving Repr, DecidableEq

/-- which element of a non-empty queue `pop` returns (index, taken modulo the length) -/
structure Picker where
  pick : List (Int × Nat × Nat) → Nat

structure St where
  graph : Nat → Option Meta
  /-- `revs`: (commit time, id, unused) -/
  revs : List (Int × Nat × Nat)
  nonCommon : Int

inductive Res (α : Type) where
  | ok (a : α)
  | panic
  | fuel
  deriving Repr

def setMeta (st : St) (id : Nat) (m : Meta) : St :=
  { st with graph := fun x => if x = id then some m else st.graph x }

/-- `graph.get_or_insert_commit(id, update)`: `none` if the commit is neither in the graph nor in
the object database; otherwise the data before and after `update`, and the new state -/
def touch (o : Odb) (st : St) (id : Nat) (update : Meta → Meta) : Option (Meta × Meta × St) :=
  match st.graph id with
  | some m => some (m, update m, setMeta st id (update m))
  | none =>
    if o.present id then
      let m : Meta := {}
      some (m, update m, setMeta st id (update m))
    else none

def popWith (pk : Picker) (q : List (Int × Nat × Nat)) : Option ((Int × Nat × Nat) × List (Int × Nat × Nat)) :=
  match q with
  | [] => none
  | x :: xs =>
    let i := pk.pick (x :: xs) % (x :: xs).length
    match (x :: xs)[i]? with
    | some e => some (e, (x :: xs).eraseIdx i)
    | none => none

/-- max-heap on the key; the first of equal keys wins -/
def maxIdx : List (Int × Nat × Nat) → Nat
  | [] => 0
  | [_] => 0
  | x :: y :: rest =>
    let j := maxIdx (y :: rest)
    match (y :: rest)[j]? with
    | some e => if x.1 ≥ e.1 then 0 else j + 1
    | none => 0

def maxPicker : Picker := ⟨maxIdx⟩

def flagOf (st : St) (id : Nat) (f : Flags → Bool) : Option Bool := (st.graph id).map fun m => f m.flags

/-! ### consecutive.rs -/

namespace Consecutive

def fSeen : Flags := { seen := true }
def fCommonSeen : Flags := { common := true, seen := true }
def fCommonRefSeen : Flags := { commonRef := true, seen := true }

/-- `add_to_queue(id, mark)` -/
def addToQueue (o : Odb) (st : St) (id : Nat) (mark : Flags) : St :=
  match touch o st id (fun m => { m with flags := m.flags.or mark }) with
  | none => st
  | some (old, new, st') =>
    if old.flags.intersects mark then st'
    else
      { st' with revs := (o.time id, id, 0) :: st'.revs,
                 nonCommon := if new.flags.common then st'.nonCommon else st'.nonCommon + 1 }

inductive MarkMode where
  | ancestorsOnly | thisCommitAndAncestors
  deriving DecidableEq

inductive Ancestors where
  | directUnseen | allUnseen
  deriving DecidableEq

/-- the parents loop inside `mark_common`: each parent gets COMMON; those that did not have it yet
are queued with `generation + 1` -/
def markParents (o : Odb) (gen : Nat) : St → List (Int × Nat × Nat) → List Nat → St × List (Int × Nat × Nat)
  | st, q, [] => (st, q)
  | st, q, p :: ps =>
    match touch o st p (fun m => { m with flags := { m.flags with common := true } }) with
    | none => markParents o gen st q ps
    | some (prev, _, st') =>
      if prev.flags.common then markParents o gen st' q ps
      else
        let st'' := if prev.flags.seen && !prev.flags.popped then { st' with nonCommon := st'.nonCommon - 1 } else st'
        markParents o gen st'' ((o.time p, p, gen + 1) :: q) ps

/-- the `while let Some((id, generation)) = queue.pop_value()` loop of `mark_common` -/
def markLoop (o : Odb) (pk : Picker) (anc : Ancestors) : Nat → St → List (Int × Nat × Nat) → Res St
  | 0, _, _ => .fuel
  | fuel + 1, st, q =>
    match popWith pk q with
    | none => .ok st
    | some ((_, id, gen), q') =>
      if (flagOf st id (·.seen)).getD false = false then
        markLoop o pk anc fuel (addToQueue o st id fSeen) q'
      else if anc = .allUnseen || gen < 2 then
        match touch o st id (fun m => m) with
        | none => markLoop o pk anc fuel st q'
        | some (_, _, st') =>
          let (st'', q'') := markParents o gen st' q' (o.parents id)
          markLoop o pk anc fuel st'' q''
      else markLoop o pk anc fuel st q'

/-- `mark_common(id, mode, ancestors)` -/
def markCommon (o : Odb) (pk : Picker) (fuel : Nat) (st : St) (id : Nat) (mode : MarkMode) (anc : Ancestors) :
    Res St :=
  match touch o st id (fun m => m) with
  | none => .ok st
  | some (old, _, st') =>
    if old.flags.common then .ok st'
    else
      let st'' :=
        if mode = .thisCommitAndAncestors then
          let s1 := setMeta st' id { old with flags := { old.flags with common := true } }
          if old.flags.seen && !old.flags.popped then { s1 with nonCommon := s1.nonCommon - 1 } else s1
        else st'
      markLoop o pk anc fuel st'' [(o.time id, id, 0)]

def knownCommon (o : Odb) (pk : Picker) (fuel : Nat) (st : St) (id : Nat) : Res St :=
  if (flagOf st id (·.seen)).getD false = false then
    markCommon o pk fuel (addToQueue o st id fCommonRefSeen) id .ancestorsOnly .directUnseen
  else .ok st

def addTip (o : Odb) (st : St) (id : Nat) : St := addToQueue o st id fSeen

/-- the `for parent_id in commit.parents` loop of `next_have` -/
def haveParents (o : Odb) (pk : Picker) (fuel : Nat) (mark : Flags) : St → List Nat → Res St
  | st, [] => .ok st
  | st, p :: ps =>
    let st1 := if (flagOf st p (·.seen)).getD false = false then addToQueue o st p mark else st
    if mark.common then
      match markCommon o pk fuel st1 p .ancestorsOnly .allUnseen with
      | .ok st2 => haveParents o pk fuel mark st2 ps
      | .panic => .panic
      | .fuel => .fuel
    else haveParents o pk fuel mark st1 ps

/-- `next_have` -/
def nextHave (o : Odb) (pk : Picker) : Nat → St → Res (Option Nat × St)
  | 0, _ => .fuel
  | fuel + 1, st =>
    match popWith pk st.revs with
    | none => .ok (none, st)
    | some ((_, id, _), revs') =>
      let st := { st with revs := revs' }
      if st.nonCommon = 0 then .ok (none, st)
      else
        match st.graph id with
        | none => .panic   -- expect("it was added to the graph by now")
        | some m =>
          let flags := { m.flags with popped := true }
          let st := setMeta st id { m with flags := flags }
          let st := if !flags.common then { st with nonCommon := st.nonCommon - 1 } else st
          let (res, mark) : Option Nat × Flags :=
            if flags.common then (none, fCommonSeen)
            else if flags.commonRef then (some id, fCommonSeen)
            else (some id, fSeen)
          match haveParents o pk fuel mark st (o.parents id) with
          | .panic => .panic
          | .fuel => .fuel
          | .ok st' =>
            match res with
            | some h => .ok (some h, st')
            | none => nextHave o pk fuel st'

/-- `in_common_with_remote` -/
def inCommonWithRemote (o : Odb) (pk : Picker) (fuel : Nat) (st : St) (id : Nat) : Res (Bool × St) :=
  let known := (flagOf st id (·.common)).getD false
  match markCommon o pk fuel st id .thisCommitAndAncestors .directUnseen with
  | .ok st' => .ok (known, st')
  | .panic => .panic
  | .fuel => .fuel

end Consecutive

/-! ### skipping.rs -/

namespace Skipping

def fNone : Flags := {}
def fAdvertised : Flags := { advertised := true }

/-- `add_to_queue(id, mark)`: flags |= mark | SEEN -/
def addToQueue (o : Odb) (st : St) (id : Nat) (mark : Flags) : St :=
  match touch o st id (fun m => { m with flags := (m.flags.or mark).or { seen := true } }) with
  | none => st
  | some (_, _, st') =>
    { st' with revs := (o.time id, id, 0) :: st'.revs,
               nonCommon := if mark.common then st'.nonCommon else st'.nonCommon + 1 }

/-- the parents loop inside `mark_common`: parents that are in the graph get COMMON; those that
were seen and not yet common are queued -/
def markParents (o : Odb) : St → List (Int × Nat × Nat) → List Nat → St × List (Int × Nat × Nat)
  | st, q, [] => (st, q)
  | st, q, p :: ps =>
    match st.graph p with
    | none => markParents o st q ps     -- `if !graph.contains(&parent_id) { continue }`
    | some m =>
      let wasUnseenOrCommon := !m.flags.seen || m.flags.common
      let st' := setMeta st p { m with flags := { m.flags with common := true } }
      if wasUnseenOrCommon then markParents o st' q ps
      else markParents o st' ((o.time p, p, 0) :: q) ps

def markLoop (o : Odb) (pk : Picker) : Nat → St → List (Int × Nat × Nat) → Res St
  | 0, _, _ => .fuel
  | fuel + 1, st, q =>
    match popWith pk q with
    | none => .ok st
    | some ((_, id, _), q') =>
      match touch o st id (fun m => m) with
      | none => markLoop o pk fuel st q'
      | some (old, _, st') =>
        let st' := if !old.flags.popped then { st' with nonCommon := st'.nonCommon - 1 } else st'
        let (st'', q'') := markParents o st' q' (o.parents id)
        markLoop o pk fuel st'' q''

/-- `mark_common(id)` -/
def markCommon (o : Odb) (pk : Picker) (fuel : Nat) (st : St) (id : Nat) : Res St :=
  match touch o st id (fun m => { m with flags := { m.flags with common := true } }) with
  | none => .ok st
  | some (old, _, st') =>
    if old.flags.common then .ok st'
    else markLoop o pk fuel st' [(o.time id, id, 0)]

/-- `push_parent(entry, parent_id)` -/
def pushParent (o : Odb) (pk : Picker) (fuel : Nat) (entry : Meta) (st : St) (p : Nat) : Res (Bool × St) :=
  let seenParent : Option Meta := (st.graph p).filter fun m => m.flags.seen
  match seenParent with
  | some m =>
    if m.flags.popped then .ok (false, st)
    else pushRest st
  | none => pushRest (addToQueue o st p fNone)
where
  pushRest (st : St) : Res (Bool × St) :=
    if entry.flags.common || entry.flags.advertised then
      match markCommon o pk fuel st p with
      | .ok st' => .ok (true, st')
      | .panic => .panic
      | .fuel => .fuel
    else
      let newOriginalTtl := if entry.ttl > 0 then entry.originalTtl else entry.originalTtl * 3 / 2 + 1
      let newTtl := if entry.ttl > 0 then entry.ttl - 1 else newOriginalTtl
      match st.graph p with
      | none => .ok (false, st)   -- the parent is not available (beyond the shallow boundary): as if there was none
      | some pm =>
        if pm.originalTtl < newOriginalTtl then
          .ok (true, setMeta st p { pm with originalTtl := newOriginalTtl, ttl := newTtl })
        else .ok (true, st)

def pushParents (o : Odb) (pk : Picker) (fuel : Nat) (entry : Meta) : St → Bool → List Nat → Res (Bool × St)
  | st, acc, [] => .ok (acc, st)
  | st, acc, p :: ps =>
    match pushParent o pk fuel entry st p with
    | .ok (r, st') => pushParents o pk fuel entry st' (acc || r) ps
    | .panic => .panic
    | .fuel => .fuel

def knownCommon (o : Odb) (st : St) (id : Nat) : St :=
  if (flagOf st id (·.seen)).getD false then st else addToQueue o st id fAdvertised

def addTip (o : Odb) (st : St) (id : Nat) : St :=
  if (flagOf st id (·.seen)).getD false then st else addToQueue o st id fNone

def nextHave (o : Odb) (pk : Picker) : Nat → St → Res (Option Nat × St)
  | 0, _ => .fuel
  | fuel + 1, st =>
    match popWith pk st.revs with
    | none => .ok (none, st)
    | some ((_, id, _), revs') =>
      let st := { st with revs := revs' }
      if st.nonCommon = 0 then .ok (none, st)
      else
        match st.graph id with
        | none => .panic   -- expect("it was added to the graph by now")
        | some m =>
          let data : Meta := { m with flags := { m.flags with popped := true } }
          let st := setMeta st id data
          let st := if !data.flags.common then { st with nonCommon := st.nonCommon - 1 } else st
          let toSend0 : Option Nat := if !data.flags.common && data.ttl = 0 then some id else none
          match pushParents o pk fuel data st false (o.parents id) with
          | .panic => .panic
          | .fuel => .fuel
          | .ok (pushed, st') =>
            let toSend := if !data.flags.common && !pushed then some id else toSend0
            match toSend with
            | some h => .ok (some h, st')
            | none => nextHave o pk fuel st'

def inCommonWithRemote (o : Odb) (pk : Picker) (fuel : Nat) (st : St) (id : Nat) : Res (Bool × St) :=
  let wasSeen := (flagOf st id (·.seen)).getD false
  let known := (flagOf st id (·.common)).getD false
  if !wasSeen then .panic   -- assert!(was_seen, "Cannot receive ACK for commit we didn't send a HAVE for")
  else
    match markCommon o pk fuel st id with
    | .ok st' => .ok (known, st')
    | .panic => .panic
    | .fuel => .fuel

end Skipping

/-! ### all three behind one interface, and whole conversations -/

inductive Algo where
  | noop | consecutive | skipping
  deriving Repr, DecidableEq

/-- what the fetch loop does with a negotiator; `ack` is an acknowledgement the SERVER sent — any
id at all -/
inductive Op where
  | knownCommon (id : Nat)
  | addTip (id : Nat)
  | nextHave
  | ack (id : Nat)
  deriving Repr, DecidableEq

/-- what an operation answers: a have (or "exhausted"), or whether the ack was known before -/
inductive Answer where
  | unit
  | have (h : Option Nat)
  | known (b : Bool)
  deriving Repr, DecidableEq

def step (a : Algo) (o : Odb) (pk : Picker) (fuel : Nat) (st : St) : Op → Res (Answer × St)
  | .knownCommon id =>
    match a with
    | .noop => .ok (.unit, st)
    | .consecutive =>
      match Consecutive.knownCommon o pk fuel st id with
      | .ok st' => .ok (.unit, st')
      | .panic => .panic
      | .fuel => .fuel
    | .skipping => .ok (.unit, Skipping.knownCommon o st id)
  | .addTip id =>
    match a with
    | .noop => .ok (.unit, st)
    | .consecutive => .ok (.unit, Consecutive.addTip o st id)
    | .skipping => .ok (.unit, Skipping.addTip o st id)
  | .nextHave =>
    match a with
    | .noop => .ok (.have none, st)
    | .consecutive =>
      match Consecutive.nextHave o pk fuel st with
      | .ok (h, st') => .ok (.have h, st')
      | .panic => .panic
      | .fuel => .fuel
    | .skipping =>
      match Skipping.nextHave o pk fuel st with
      | .ok (h, st') => .ok (.have h, st')
      | .panic => .panic
      | .fuel => .fuel
  | .ack id =>
    match a with
    | .noop => .ok (.known false, st)
    | .consecutive =>
      match Consecutive.inCommonWithRemote o pk fuel st id with
      | .ok (b, st') => .ok (.known b, st')
      | .panic => .panic
      | .fuel => .fuel
    | .skipping =>
      match Skipping.inCommonWithRemote o pk fuel st id with
      | .ok (b, st') => .ok (.known b, st')
      | .panic => .panic
      | .fuel => .fuel

def run (a : Algo) (o : Odb) (pk : Picker) (fuel : Nat) : St → List Op → Res (List Answer × St)
  | st, [] => .ok ([], st)
  | st, op :: ops =>
    match step a o pk fuel st op with
    | .ok (ans, st') =>
      match run a o pk fuel st' ops with
      | .ok (rest, st'') => .ok (ans :: rest, st'')
      | .panic => .panic
      | .fuel => .fuel
    | .panic => .panic
    | .fuel => .fuel

def St.empty : St := { graph := fun _ => none, revs := [], nonCommon := 0 }

/-! ### driver: `neg <algo> <n> <parents;…> <times,…> <present bits> <script>` -/

def parseNatList (s : String) : Option (List Nat) :=
  if s = "-" then some [] else (s.splitOn ",").mapM String.toNat?

def parseIntList (s : String) : Option (List Int) :=
  if s = "-" then some [] else (s.splitOn ",").mapM String.toInt?

def parseOp (s : String) : Option Op :=
  match s.toList with
  | 'K' :: r => (String.ofList r).toNat?.map Op.knownCommon
  | 'T' :: r => (String.ofList r).toNat?.map Op.addTip
  | 'A' :: r => (String.ofList r).toNat?.map Op.ack
  | ['H'] => some .nextHave
  | _ => none

def Answer.str : Answer → String
  | .unit => "."
  | .have none => "h-"
  | .have (some h) => s!"h{h}"
  | .known b => if b then "k1" else "k0"

def joinSp : List String → String
  | [] => ""
  | [x] => x
  | x :: xs => x ++ " " ++ joinSp xs

def handleNeg : List String → Option String
  | algo :: ps :: ts :: pres :: script =>
    let algo? : Option Algo :=
      match algo with
      | "noop" => some .noop | "consecutive" => some .consecutive | "skipping" => some .skipping | _ => none
    match algo?, (ps.splitOn ";").mapM parseNatList, parseIntList ts, script.mapM parseOp with
    | some a, some parents, some times, some ops =>
      if pres.length ≠ parents.length || times.length ≠ parents.length then none
      else
        let presL := pres.toList
        let o : Odb :=
          { parents := fun i => parents.getD i [],
            time := fun i => times.getD i 0,
            present := fun i => presL.getD i '0' == '1' }
        match run a o maxPicker 100000 St.empty ops with
        | .ok (answers, _) => some (joinSp (answers.map Answer.str))
        | .panic => some "panic"
        | .fuel => some "fuel"
    | _, _, _, _ => none
  | _ => none

end GixModel.C31.Neg
