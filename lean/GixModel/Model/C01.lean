import GixModel.Basic.Dec
import GixModel.Extracted.TimeSize
/-
C01 — model of the object *writers* and their declared sizes.

Rust functions modelled (all in /repo):
  gix_date::Time::{write_to, size}                      gix-date/src/time/write.rs
  gix_actor::SignatureRef::{write_to, size}             gix-actor/src/signature/mod.rs
  gix_object::encode::{loose_header, header_field, header_field_multi_line, trusted_header_*}
  <Commit|Tag|Tree as WriteTo>::{write_to, size}        gix-object/src/{commit,tag,tree}/write.rs
  EntryMode::as_bytes                                   gix-object/src/tree/mod.rs
`write` returns `none` where the Rust code returns `Err` (it never panics on these paths).
The digit ladder of `Time::size()` is NOT transcribed by hand: it is `Extracted.timeSizeArms`,
regenerated from the source on every run.
-/
namespace GixModel.C01
open GixModel

structure Time where
  seconds : Int      -- i64
  offset  : Int      -- i32, seconds east of UTC
  minus   : Bool     -- `Sign::Minus`
  deriving Repr, DecidableEq

/-- two-digit zero padded rendering used for hours and minutes -/
def twoDigits (n : Nat) : Bytes := if n < 10 then 48 :: natDec n else natDec n

def Time.write (t : Time) : Option Bytes :=
  let off := t.offset.natAbs
  let hours := off / 3600
  let minutes := (off - hours * 3600) / 60
  if hours > 99 then none
  else some (intDec t.seconds ++ [32] ++ [if t.minus then 45 else 43] ++ twoDigits hours ++ twoDigits minutes)

/-- first arm `(t, w)` with `s ≥ t`, else the fall-through -/
def ladder (arms : List (Int × Nat)) (els : Nat) (s : Int) : Nat :=
  match arms with
  | [] => els
  | (t, w) :: rest => if s ≥ t then w else ladder rest els s

def Time.sizeWith (arms : List (Int × Nat)) (els extra : Nat) (t : Time) : Nat :=
  ladder arms els t.seconds + extra

def Time.size (t : Time) : Nat :=
  Time.sizeWith Extracted.timeSizeArms Extracted.timeSizeElse Extracted.timeSizeExtra t

structure Signature where
  name  : Bytes
  email : Bytes
  time  : Time
  deriving Repr, DecidableEq

def illegalToken (bs : Bytes) : Bool := bs.any fun b => b == 60 || b == 62 || b == 10

def Signature.write (s : Signature) : Option Bytes :=
  if illegalToken s.name then none
  else if illegalToken s.email then none
  else match s.time.write with
    | none => none
    | some t => some (s.name ++ [32, 60] ++ s.email ++ [62, 32] ++ t)

def Signature.size (s : Signature) : Nat :=
  s.name.length + 2 + s.email.length + 2 + s.time.size

/-- `kind.as_bytes()` -/
inductive Kind | tree | blob | commit | tag
  deriving Repr, DecidableEq

def Kind.bytes : Kind → Bytes
  | .tree => [116, 114, 101, 101]
  | .blob => [98, 108, 111, 98]
  | .commit => [99, 111, 109, 109, 105, 116]
  | .tag => [116, 97, 103]

def looseHeader (k : Kind) (size : Nat) : Bytes := k.bytes ++ [32] ++ natDec size ++ [0]

/-- lower-case hex of an id as ASCII bytes (`write_hex_to`) -/
def hexBytes (id : Bytes) : Bytes :=
  id.flatMap fun b =>
    let d (n : Nat) : UInt8 := if n < 10 then UInt8.ofNat (48 + n) else UInt8.ofNat (87 + n)
    [d (b.toNat / 16), d (b.toNat % 16)]

/-- `bstr::lines_with_terminator`: split after each `\n`; a trailing piece without `\n` is a line;
the empty string has no lines. -/
def linesWithTerminator (bs : Bytes) : List Bytes :=
  go bs []
where
  go : Bytes → Bytes → List Bytes
    | [], acc => if acc.isEmpty then [] else [acc.reverse]
    | b :: rest, acc => if b == 10 then (b :: acc).reverse :: go rest [] else go rest (b :: acc)

def endsWithNl (bs : Bytes) : Bool := bs.getLast? == some 10

/-- `encode::header_field_multi_line` -/
def headerFieldMultiLine (name value : Bytes) : Option Bytes :=
  match linesWithTerminator value with
  | [] => none
  | first :: rest =>
    some (name ++ [32] ++ first ++ rest.flatMap (fun l => 32 :: l) ++ (if endsWithNl value then [] else [10]))

/-- `encode::header_field` -/
def headerField (name value : Bytes) : Option Bytes :=
  if value.isEmpty then none
  else if value.contains 10 then none
  else some (name ++ [32] ++ value ++ [10])

structure Commit where
  tree : Bytes
  parents : List Bytes
  author : Signature
  committer : Signature
  encoding : Option Bytes
  extra : List (Bytes × Bytes)
  message : Bytes
  deriving Repr, DecidableEq

def optAppend : Option Bytes → Option Bytes → Option Bytes
  | some a, some b => some (a ++ b)
  | _, _ => none

def concatOpts : List (Option Bytes) → Option Bytes
  | [] => some []
  | x :: xs => optAppend x (concatOpts xs)

def parentLines (ps : List Bytes) : Bytes :=
  ps.flatMap fun p => [112, 97, 114, 101, 110, 116, 32] ++ hexBytes p ++ [10]

def extraLines (xs : List (Bytes × Bytes)) : Option Bytes :=
  concatOpts (xs.map fun nv => headerFieldMultiLine nv.1 nv.2)

def encodingLine : Option Bytes → Option Bytes
  | none => some []
  | some e => headerField ([101, 110, 99, 111, 100, 105, 110, 103]) e

def Commit.write (c : Commit) : Option Bytes :=
  concatOpts
    [ some ([116, 114, 101, 101, 32] ++ hexBytes c.tree ++ [10]),
      some (parentLines c.parents),
      (c.author.write).map (fun s => [97, 117, 116, 104, 111, 114, 32] ++ s ++ [10]),
      (c.committer.write).map (fun s => [99, 111, 109, 109, 105, 116, 116, 101, 114, 32] ++ s ++ [10]),
      encodingLine c.encoding,
      extraLines c.extra,
      some ([10] ++ c.message) ]

def extraSize (nv : Bytes × Bytes) : Nat :=
  nv.1.length + ((linesWithTerminator nv.2).map (fun l => l.length + 1)).sum
    + (if endsWithNl nv.2 then 0 else 1)

def encodingSize : Option Bytes → Nat
  | none => 0
  | some e => 8 + 1 + e.length + 1

def Commit.size (c : Commit) : Nat :=
  4 + 1 + 2 * c.tree.length + 1
  + c.parents.length * (6 + 1 + 2 * c.tree.length + 1)
  + 6 + 1 + c.author.size + 1
  + 9 + 1 + c.committer.size + 1
  + encodingSize c.encoding
  + (c.extra.map extraSize).sum
  + 1 + c.message.length

structure Tag where
  target : Bytes
  targetKind : Kind
  name : Bytes
  /-- result of `gix_validate::tag::name(name)` — modelled in C15, a parameter here -/
  nameValid : Bool
  tagger : Option Signature
  message : Bytes
  pgp : Option Bytes
  deriving Repr, DecidableEq

def tagNameLine (t : Tag) : Option Bytes :=
  if !t.nameValid then none
  else if t.name.head? == some 45 then none
  else headerField [116, 97, 103] t.name

def taggerLine : Option Signature → Option Bytes
  | none => some []
  | some s => (s.write).map (fun b => [116, 97, 103, 103, 101, 114, 32] ++ b ++ [10])

def pgpPart : Option Bytes → Bytes
  | none => []
  | some m => [10] ++ m

def Tag.write (t : Tag) : Option Bytes :=
  concatOpts
    [ some ([111, 98, 106, 101, 99, 116, 32] ++ hexBytes t.target ++ [10]),
      some ([116, 121, 112, 101, 32] ++ t.targetKind.bytes ++ [10]),
      tagNameLine t,
      taggerLine t.tagger,
      some ([10] ++ t.message),
      some (pgpPart t.pgp) ]

def taggerSize : Option Signature → Nat
  | none => 0
  | some s => 6 + 1 + s.size + 1

def pgpSize : Option Bytes → Nat
  | none => 0
  | some m => 1 + m.length

def Tag.size (t : Tag) : Nat :=
  6 + 1 + 2 * t.target.length + 1
  + 4 + 1 + t.targetKind.bytes.length + 1
  + 3 + 1 + t.name.length + 1
  + taggerSize t.tagger
  + 1 + t.message.length
  + pgpSize t.pgp

structure Entry where
  mode : Nat          -- u16
  name : Bytes
  oid  : Bytes
  deriving Repr, DecidableEq

/-- `EntryMode::as_bytes`: octal without leading zeros, `0` for zero -/
def modeBytes (m : Nat) : Bytes := natOct m

def Entry.write (e : Entry) : Option Bytes :=
  if e.name.contains 0 then none
  else some (modeBytes e.mode ++ [32] ++ e.name ++ [0] ++ e.oid)

def treeWrite (es : List Entry) : Option Bytes := concatOpts (es.map Entry.write)

def treeSize (es : List Entry) : Nat :=
  (es.map fun e => (modeBytes e.mode).length + 1 + e.name.length + 1 + e.oid.length).sum

/-! ### driver -/

def obs (size : Nat) (w : Option Bytes) : String :=
  match w with
  | none => s!"size={size} err"
  | some bs => s!"size={size} len={bs.length} ok {hexOfBytes bs}"

def parseTime? : List String → Option (Time × List String)
  | s :: o :: sg :: rest => do
    let s ← s.toInt?
    let o ← o.toInt?
    some ({ seconds := s, offset := o, minus := sg == "-" }, rest)
  | _ => none

def parseSig? : List String → Option (Signature × List String)
  | n :: e :: rest => do
    let n ← bytesOfHex n
    let e ← bytesOfHex e
    let (t, rest) ← parseTime? rest
    some ({ name := n, email := e, time := t }, rest)
  | _ => none

def takeHexes : Nat → List String → Option (List Bytes × List String)
  | 0, rest => some ([], rest)
  | n + 1, x :: rest => do
    let b ← bytesOfHex x
    let (bs, rest) ← takeHexes n rest
    some (b :: bs, rest)
  | _, _ => none

def takePairs : Nat → List String → Option (List (Bytes × Bytes) × List String)
  | 0, rest => some ([], rest)
  | n + 1, x :: y :: rest => do
    let a ← bytesOfHex x
    let b ← bytesOfHex y
    let (ps, rest) ← takePairs n rest
    some ((a, b) :: ps, rest)
  | _, _ => none

def optHex? (s : String) : Option (Option Bytes) :=
  if s == "none" then some none else (bytesOfHex s).map some

def parseKind? : String → Option Kind
  | "tree" => some .tree | "blob" => some .blob | "commit" => some .commit | "tag" => some .tag
  | _ => none

def takeEntries : Nat → List String → Option (List Entry × List String)
  | 0, rest => some ([], rest)
  | n + 1, m :: nm :: oid :: rest => do
    let m ← m.toNat?
    let nm ← bytesOfHex nm
    let oid ← bytesOfHex oid
    let (es, rest) ← takeEntries n rest
    some ({ mode := m, name := nm, oid := oid } :: es, rest)
  | _, _ => none

def handle? : List String → Option String
  | "time" :: rest => do
    let (t, _) ← parseTime? rest
    some (obs t.size t.write)
  | "sig" :: rest => do
    let (s, _) ← parseSig? rest
    some (obs s.size s.write)
  | "loose" :: k :: n :: _ => do
    let k ← parseKind? k
    let n ← n.toNat?
    some (hexOfBytes (looseHeader k n))
  | "commit" :: tree :: np :: rest => do
    let tree ← bytesOfHex tree
    let np ← np.toNat?
    let (parents, rest) ← takeHexes np rest
    let (author, rest) ← parseSig? rest
    let (committer, rest) ← parseSig? rest
    match rest with
    | enc :: nx :: rest =>
      let enc ← optHex? enc
      let nx ← nx.toNat?
      let (extra, rest) ← takePairs nx rest
      match rest with
      | [msg] =>
        let msg ← bytesOfHex msg
        let c : Commit := { tree, parents, author, committer, encoding := enc, extra, message := msg }
        some (obs c.size c.write)
      | _ => none
    | _ => none
  | "tag" :: target :: kind :: name :: valid :: hasTagger :: rest => do
    let target ← bytesOfHex target
    let kind ← parseKind? kind
    let name ← bytesOfHex name
    let (tagger, rest) ← (if hasTagger == "1" then (parseSig? rest).map (fun (s, r) => (some s, r))
                           else some (none, rest))
    match rest with
    | [msg, pgp] =>
      let msg ← bytesOfHex msg
      let pgp ← optHex? pgp
      let t : Tag := { target, targetKind := kind, name, nameValid := valid == "1", tagger,
                       message := msg, pgp }
      some (obs t.size t.write)
    | _ => none
  | "tree" :: n :: rest => do
    let n ← n.toNat?
    let (es, _) ← takeEntries n rest
    some (obs (treeSize es) (treeWrite es))
  | _ => none

def handle (args : List String) : String := (handle? args).getD "bad-op"

end GixModel.C01
