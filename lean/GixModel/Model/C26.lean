import GixModel.Basic.Hex
/-
C26 — model of the gix-config event parser and of the serializers.

Rust functions modelled (all in /repo/gix-config/src):
  parse::nom::{from_bytes, comment, section, section_header, sub_section, key_value_pair,
               config_name, config_value, value_impl, take_spaces1, take_newlines1}   parse/nom/mod.rs
  unicode_bom::Bom::{from(&[u8]), len}                         (external crate, transcribed: `bomLen`)
  parse::Event::write_to, section::Header::write_to, escape_subsection, Comment::write_to
  parse::Events::from_bytes (front matter / sections grouping)                         parse/events.rs
  File::from_parse_events_no_includes, File::write_to, file::Section::write_to,
  write::{ends_with_newline, extract_newline}, File::detect_newline_style              file/*.rs

The winnow grammar is re-expressed as plain recursive descent. The parser is written once, at the
*raw* level: `parseRaw` yields events whose quoted section headers still carry the raw text found
between the quotes; the events the real parser dispatches are `parseEvents = map toReal ∘ parseRaw`
(the sub-section text with its backslash escapes folded, exactly what `sub_section` accumulates).
Errors are `none` (the real code returns `Err`; its line/node bookkeeping is not part of the
property). The parser has no panicking path that is reachable (the one `expect` guards winnow's
"parser succeeded without consuming" assertion; every alternative consumes ≥ 1 byte).
-/
namespace GixModel.C26
open GixModel

/-! ### events -/

structure Header where
  name : Bytes
  sep  : Option Bytes
  sub  : Option Bytes
  deriving Repr, DecidableEq

inductive Event
  | comment (tag : UInt8) (text : Bytes)
  | header (h : Header)
  | name (n : Bytes)
  | value (v : Bytes)
  | newline (v : Bytes)
  | notDone (v : Bytes)
  | done (v : Bytes)
  | ws (v : Bytes)
  | sep
  deriving Repr, DecidableEq

/-! ### byte classes -/

def isAlpha (c : UInt8) : Bool := (65 ≤ c && c ≤ 90) || (97 ≤ c && c ≤ 122)
def isDig (c : UInt8) : Bool := 48 ≤ c && c ≤ 57
def isAlnum (c : UInt8) : Bool := isAlpha c || isDig c
/-- `winnow::stream::AsChar::is_space` for `u8` -/
def isSpace (c : UInt8) : Bool := c == 32 || c == 9
/-- `u8::is_ascii_whitespace` -/
def isAsciiWs (c : UInt8) : Bool := c == 32 || c == 9 || c == 10 || c == 12 || c == 13
def isSectionChar (c : UInt8) : Bool := isAlnum c || c == 45 || c == 46
def isNameChar (c : UInt8) : Bool := isAlnum c || c == 45

/-! ### serialization (`write_to`) -/

/-- `escape_subsection` -/
def escapeSub (s : Bytes) : Bytes :=
  s.flatMap fun b =>
    if b == 92 then [92, 92] else if b == 34 then [92, 34] else if b == 0 then [92, 0] else [b]

/-- `Header::write_to`, parametrised by what is done to the text between the quotes -/
def Header.writeWith (esc : Bytes → Bytes) (h : Header) : Bytes :=
  [91] ++ h.name ++
    (match h.sep, h.sub with
     | some sep, some sub =>
       sep ++ (if sep == [46] then sub else [34] ++ esc sub ++ [34])
     | _, _ => []) ++ [93]

def Header.write (h : Header) : Bytes := h.writeWith escapeSub

def Event.writeWith (esc : Bytes → Bytes) : Event → Bytes
  | .comment tag text => tag :: text
  | .header h => h.writeWith esc
  | .name n => n
  | .value v => v
  | .newline v => v
  | .notDone v => v ++ [92]
  | .done v => v
  | .ws v => v
  | .sep => [61]

/-- `Event::write_to` -/
def Event.write (e : Event) : Bytes := e.writeWith escapeSub
/-- the text an event was parsed from (quoted sub-sections written verbatim) -/
def Event.writeRaw (e : Event) : Bytes := e.writeWith id

def render (evs : List Event) : Bytes := evs.flatMap Event.write
def renderRaw (evs : List Event) : Bytes := evs.flatMap Event.writeRaw

/-! ### the parser -/

/-- `unicode_bom::Bom::from(slice).len()` -/
def bomLen : Bytes → Nat
  | 0 :: 0 :: 254 :: 255 :: _ => 4
  | 14 :: 254 :: 255 :: _ => 3
  | 43 :: 47 :: 118 :: d :: _ => if d == 56 || d == 57 || d == 43 || d == 47 then 4 else 0
  | 132 :: 49 :: 149 :: 51 :: _ => 4
  | 221 :: 115 :: 102 :: 115 :: _ => 4
  | 239 :: 187 :: 191 :: _ => 3
  | 247 :: 100 :: 76 :: _ => 3
  | 251 :: 238 :: 40 :: _ => 3
  | 254 :: 255 :: _ => 2
  | 255 :: 254 :: 0 :: 0 :: _ => 4
  | 255 :: 254 :: _ => 2
  | _ => 0

/-- longest prefix satisfying `p`, and the rest (`take_while(0.., p)`) -/
def spanP (p : UInt8 → Bool) (l : Bytes) : Bytes × Bytes := (l.takeWhile p, l.dropWhile p)

/-- `take_spaces1` -/
def takeSpaces1 (i : Bytes) : Option (Bytes × Bytes) :=
  let p := spanP isSpace i
  if p.1.isEmpty then none else some p

/-- at most `n` repetitions of `"\r\n" | "\n"` -/
def takeNewlines : Nat → Bytes → Bytes × Bytes
  | 0, i => ([], i)
  | n + 1, 13 :: 10 :: r => (13 :: 10 :: (takeNewlines n r).1, (takeNewlines n r).2)
  | n + 1, 10 :: r => (10 :: (takeNewlines n r).1, (takeNewlines n r).2)
  | _ + 1, i => ([], i)

/-- `take_newlines1` = `repeat(1..1024, alt(("\r\n", "\n")))`: between 1 and 1023 newlines -/
def takeNewlines1 (i : Bytes) : Option (Bytes × Bytes) :=
  let p := takeNewlines 1023 i
  if p.1.isEmpty then none else some p

/-- `comment` -/
def comment (i : Bytes) : Option (Event × Bytes) :=
  match i with
  | c :: r => if c == 59 || c == 35 then
      let p := spanP (fun b => b != 10) r
      some (.comment c p.1, p.2) else none
  | [] => none

def optSpaces (i : Bytes) : List Event × Bytes :=
  match takeSpaces1 i with
  | some (w, r) => ([.ws w], r)
  | none => ([], i)

def optNewlines (i : Bytes) : List Event × Bytes :=
  match takeNewlines1 i with
  | some (n, r) => ([.newline n], r)
  | none => ([], i)

def optComment (i : Bytes) : List Event × Bytes :=
  match comment i with
  | some (c, r) => ([c], r)
  | none => ([], i)

/-- split at the last `.` (`memchr::memrchr(b'.', name)` and the three slices taken around it) -/
def splitLastDot : Bytes → Option (Bytes × Bytes)
  | [] => none
  | c :: r =>
    match splitLastDot r with
    | some (a, b) => some (c :: a, b)
    | none => if c == 46 then some ([], r) else none

/-- the text `sub_section` consumes: unescaped bytes (not `"`, `\`, LF, NUL) and `\x` pairs with
`x ≠ LF`. Returns (consumed raw text, rest). -/
def subSectionRaw : Bytes → Bytes × Bytes
  | [] => ([], [])
  | [c] => if c == 34 || c == 92 || c == 10 || c == 0 then ([], [c]) else ([c], [])
  | c :: d :: r =>
    if c == 92 then
      if d == 10 then ([], c :: d :: r)
      else (c :: d :: (subSectionRaw r).1, (subSectionRaw r).2)
    else if c == 34 || c == 10 || c == 0 then ([], c :: d :: r)
    else (c :: (subSectionRaw (d :: r)).1, (subSectionRaw (d :: r)).2)

/-- what `sub_section` accumulates from the raw text: every `\x` becomes `x` -/
def unescSub : Bytes → Bytes
  | [] => []
  | [c] => [c]
  | c :: d :: r => if c == 92 then d :: unescSub r else c :: unescSub (d :: r)

/-- `section_header`, raw level (the quoted sub-section is kept as written) -/
def sectionHeaderRaw (i : Bytes) : Option (Header × Bytes) :=
  match i with
  | 91 :: r =>
    let p := spanP isSectionChar r
    if p.1.isEmpty then none else
    match p.2 with
    | 93 :: r2 =>
      (match splitLastDot p.1 with
       | some (a, b) => if a.isEmpty then none else some ({ name := a, sep := some [46], sub := some b }, r2)
       | none => some ({ name := p.1, sep := none, sub := none }, r2))
    | r1 =>
      match takeSpaces1 r1 with
      | none => none
      | some (w, r2) =>
        match r2 with
        | 34 :: r3 =>
          let q := subSectionRaw r3
          (match q.2 with
           | 34 :: 93 :: r5 => some ({ name := p.1, sep := some w, sub := some q.1 }, r5)
           | _ => none)
        | _ => none
  | _ => none

def Header.toReal (h : Header) : Header :=
  match h.sep with
  | some s => if s == [46] then h else { h with sub := h.sub.map unescSub }
  | none => h

def Event.toReal : Event → Event
  | .header h => .header h.toReal
  | e => e

/-- strip trailing `is_ascii_whitespace` bytes -/
def trimEnd (v : Bytes) : Bytes := (v.reverse.dropWhile isAsciiWs).reverse

/-- what `value_impl` does after its scanning loop ended with the current line fragment `acc`
and `rest` unconsumed (`eof`: the loop ended because the input ended) -/
def valueFinish (acc rest : Bytes) (inQ part eof : Bool) (em : List Event) : Option (List Event × Bytes) :=
  if inQ then none
  else if eof && acc.isEmpty then some (em ++ [if part then .done [] else .value []], rest)
  else
    let t := trimEnd acc
    some (em ++ [if part then .done t else .value t], acc.drop t.length ++ rest)

def isEscapable (d : UInt8) : Bool := d == 110 || d == 116 || d == 92 || d == 98 || d == 34

/-- the scanning loop of `value_impl`: `acc` is the text since `value_start_checkpoint`, `inQ` is
`is_in_quotes`, `part` is `partial_value_found`, `em` the events dispatched so far -/
def valueScan : Bytes → Bytes → Bool → Bool → List Event → Option (List Event × Bytes)
  | [], acc, inQ, part, em => valueFinish acc [] inQ part true em
  | [c], acc, inQ, part, em =>
    if c == 10 then valueFinish acc [c] inQ part false em
    else if (c == 59 || c == 35) && !inQ then valueFinish acc [c] inQ part false em
    else if c == 92 then none
    else valueFinish (acc ++ [c]) [] (if c == 34 then !inQ else inQ) part true em
  | c :: d :: r, acc, inQ, part, em =>
    if c == 10 then valueFinish acc (c :: d :: r) inQ part false em
    else if (c == 59 || c == 35) && !inQ then valueFinish acc (c :: d :: r) inQ part false em
    else if c == 92 then
      if d == 10 then valueScan r [] inQ true (em ++ [.notDone acc, .newline [10]])
      else if d == 13 then
        (match r with
         | 10 :: r3 => valueScan r3 [] inQ true (em ++ [.notDone acc, .newline [13, 10]])
         | _ => none)
      else if isEscapable d then valueScan r (acc ++ [c, d]) inQ part em
      else none
    else valueScan (d :: r) (acc ++ [c]) (if c == 34 then !inQ else inQ) part em

/-- `config_value` -/
def configValue (i : Bytes) : Option (List Event × Bytes) :=
  match i with
  | 61 :: r =>
    let w := optSpaces r
    valueScan w.2 [] false false (.sep :: w.1)
  | _ => some ([.value []], i)

/-- `config_name` -/
def configName (i : Bytes) : Option (Bytes × Bytes) :=
  match i with
  | c :: r => if isAlpha c then let p := spanP isNameChar r; some (c :: p.1, p.2) else none
  | [] => none

/-- `key_value_pair` -/
def keyValuePair (i : Bytes) : Option (List Event × Bytes) :=
  match configName i with
  | none => some ([], i)
  | some (n, r) =>
    let w := optSpaces r
    match configValue w.2 with
    | none => none
    | some (evs, r2) => some (.name n :: w.1 ++ evs, r2)

/-- one iteration of the loop in `section` -/
def bodyIter (i : Bytes) : Option (List Event × Bytes) :=
  let a := optSpaces i
  let b := optNewlines a.2
  match keyValuePair b.2 with
  | none => none
  | some (kv, r) =>
    let c := optComment r
    some (a.1 ++ b.1 ++ kv ++ c.1, c.2)

/-- the loop in `section`: iterate until an iteration consumes nothing. `fuel > i.length` always
suffices (`Lemmas.C26.bodyLoop_fuel`). -/
def bodyLoop : Nat → Bytes → Option (List Event × Bytes)
  | 0, i => some ([], i)
  | f + 1, i =>
    match bodyIter i with
    | none => none
    | some (evs, r) =>
      if r.length == i.length then some (evs, r)
      else match bodyLoop f r with
        | none => none
        | some (more, r') => some (evs ++ more, r')

/-- `section` -/
def sectionRaw (i : Bytes) : Option (List Event × Bytes) :=
  match sectionHeaderRaw i with
  | none => none
  | some (h, r) =>
    match bodyLoop (r.length + 1) r with
    | none => none
    | some (evs, r') => some (.header h :: evs, r')

/-- `repeat(1.., section)` followed by the "input must be empty" check -/
def sectionsRaw : Nat → Bytes → Option (List Event)
  | 0, i => if i.isEmpty then some [] else none
  | f + 1, i =>
    if i.isEmpty then some [] else
    match sectionRaw i with
    | none => none
    | some (evs, r) => (sectionsRaw f r).map (evs ++ ·)

/-- one alternative of the front-matter loop -/
def frontStep (i : Bytes) : Option (Event × Bytes) :=
  match comment i with
  | some x => some x
  | none =>
    match takeSpaces1 i with
    | some (w, r) => some (.ws w, r)
    | none =>
      match takeNewlines1 i with
      | some (n, r) => some (.newline n, r)
      | none => none

def frontLoop : Nat → Bytes → List Event × Bytes
  | 0, i => ([], i)
  | f + 1, i =>
    match frontStep i with
    | none => ([], i)
    | some (e, r) => (e :: (frontLoop f r).1, (frontLoop f r).2)

/-- `parse::from_bytes`, raw level -/
def parseRaw (bs : Bytes) : Option (List Event) :=
  let i0 := bs.drop (bomLen bs)
  let fm := frontLoop i0.length i0
  if fm.2.isEmpty then some fm.1
  else (sectionsRaw fm.2.length fm.2).map (fm.1 ++ ·)

/-- `parse::from_bytes`: the events handed to `dispatch`, in order -/
def parseEvents (bs : Bytes) : Option (List Event) :=
  (parseRaw bs).map (·.map Event.toReal)

/-! ### `File` (as built by `from_bytes_no_includes`) and its serializer -/

structure Section where
  header : Header
  body : List Event
  deriving Repr, DecidableEq

structure File where
  front : List Event
  sections : List Section
  deriving Repr, DecidableEq

/-- split an event list at its header events (`parse::events::from_bytes` closure) -/
def groupSections : List Event → List Event × List Section
  | [] => ([], [])
  | .header h :: rest =>
    let p := groupSections rest
    ([], { header := h, body := p.1 } :: p.2)
  | e :: rest =>
    let p := groupSections rest
    (e :: p.1, p.2)

def fileOfEvents (evs : List Event) : File :=
  let p := groupSections evs
  { front := p.1, sections := p.2 }

/-- `File::from_bytes_no_includes` (no event filter) -/
def fileFromBytes (bs : Bytes) : Option File := (parseEvents bs).map fileOfEvents

/-- `Event::to_bstr_lossy` -/
def Event.lossy : Event → Bytes
  | .comment _ text => text
  | .header h => h.name
  | .name n => n
  | .value v => v
  | .newline v => v
  | .notDone v => v
  | .done v => v
  | .ws v => v
  | .sep => [61]

def isInfix (pat : Bytes) : Bytes → Bool
  | [] => pat.isEmpty
  | c :: r => pat.isPrefixOf (c :: r) || isInfix pat r

/-- `extract_newline` -/
def extractNewline : Event → Option Bytes
  | .newline v => some (if v.contains 13 then [13, 10] else [10])
  | _ => none

def isComment : Event → Bool
  | .comment _ _ => true
  | _ => false

def evIsNewline : Event → Bool
  | .newline _ => true
  | _ => false

def evIsWs : Event → Bool
  | .ws _ => true
  | _ => false

/-- `ends_with_newline` -/
def endsWithNewline (evs : List Event) (nl : Bytes) (dflt : Bool) : Bool :=
  if evs.isEmpty then dflt
  else ((evs.reverse.takeWhile fun e => !isComment e && e.lossy.all isAsciiWs).any fun e => isInfix nl e.lossy)

/-- `File::detect_newline_style` (Unix: the platform newline is LF) -/
def detectNewline (f : File) : Bytes :=
  match f.front.findSome? extractNewline with
  | some nl => nl
  | none =>
    match f.sections.findSome? (fun s => s.body.findSome? extractNewline) with
    | some nl => nl
    | none => [10]

/-- the event loop of `file::Section::write_to`: `saw` = `saw_newline_after_value`,
`inKv` = `in_key_value_pair` -/
def writeBody (nl : Bytes) : List Event → Bool → Bool → Bytes
  | [], _, _ => []
  | e :: rest, saw, inKv =>
    match e with
    | .name _ => (if saw then [] else nl) ++ e.write ++ writeBody nl rest false true
    | .newline _ => e.write ++ writeBody nl rest (if inKv then saw else true) inKv
    | .value _ => e.write ++ writeBody nl rest saw false
    | .done _ => e.write ++ writeBody nl rest saw false
    | .notDone _ =>
      e.write ++ (match rest with | .newline _ :: _ => [] | _ => nl) ++ writeBody nl rest saw inKv
    | _ => e.write ++ writeBody nl rest saw inKv

def isName : Event → Bool
  | .name _ => true
  | _ => false

/-- `file::Section::write_to` -/
def Section.write (s : Section) : Bytes :=
  s.header.write ++
    (if s.body.isEmpty then [] else
      let nl := (s.body.findSome? extractNewline).getD [10]
      (if ((s.body.takeWhile fun e => !isName e).any fun e => isInfix nl e.lossy) then [] else nl)
        ++ writeBody nl s.body true false)

/-- the section loop of `File::write_to_filter` (filter = everything, no post-matter) -/
def writeSections (nl : Bytes) : List Section → Bool → Bytes
  | [], prevNl => if prevNl then [] else nl
  | s :: rest, prevNl =>
    (if prevNl then [] else nl) ++ s.write ++ writeSections nl rest (endsWithNewline s.body nl false)

/-- `File::write_to` / `to_bstring` -/
def File.write (f : File) : Bytes :=
  let nl := detectNewline f
  render f.front
    ++ (if !endsWithNewline f.front nl true && !f.sections.isEmpty then nl else [])
    ++ writeSections nl f.sections true

/-! ### what a file *says*: the (section, sub-section, key, raw value) sequence -/

structure Entry where
  sect : Bytes
  sub : Option Bytes
  key : Bytes
  /-- concatenated raw value text (`Value`, or `ValueNotDone`* `ValueDone`) -/
  value : Bytes
  deriving Repr, DecidableEq

/-- key/value pairs of a body: every `name` event with the value events up to the next
`value`/`done` -/
def bodyEntries (h : Header) : List Event → Option Bytes → Bytes → List Entry
  | [], _, _ => []
  | e :: rest, cur, acc =>
    match e, cur with
    | .name n, _ => bodyEntries h rest (some n) []
    | .value v, some k => { sect := h.name, sub := h.sub, key := k, value := acc ++ v } :: bodyEntries h rest none []
    | .done v, some k => { sect := h.name, sub := h.sub, key := k, value := acc ++ v } :: bodyEntries h rest none []
    | .notDone v, some _ => bodyEntries h rest cur (acc ++ v)
    | _, _ => bodyEntries h rest cur acc

def File.entries (f : File) : List Entry :=
  f.sections.flatMap fun s => bodyEntries s.header s.body none []

def File.headers (f : File) : List (Bytes × Option Bytes) :=
  f.sections.map fun s => (s.header.name, s.header.sub)

/-! ### driver -/

def optHex : Option Bytes → String
  | none => "~"
  | some b => hexOfBytes b

def Event.dump : Event → String
  | .comment tag text => s!"C{tag.toNat}:{hexOfBytes text}"
  | .header h => s!"H:{hexOfBytes h.name}:{optHex h.sep}:{optHex h.sub}"
  | .name n => s!"K:{hexOfBytes n}"
  | .value v => s!"V:{hexOfBytes v}"
  | .newline v => s!"N:{hexOfBytes v}"
  | .notDone v => s!"P:{hexOfBytes v}"
  | .done v => s!"D:{hexOfBytes v}"
  | .ws v => s!"W:{hexOfBytes v}"
  | .sep => "="

def dumpEvents (evs : List Event) : String := ",".intercalate (evs.map Event.dump)

def handle? : List String → Option String
  | ["cfgparse", x] => do
    let bs ← bytesOfHex x
    match parseEvents bs with
    | none => some "err"
    | some evs => some s!"ok {evs.length} {dumpEvents evs}"
  | ["cfgrt", x] => do
    let bs ← bytesOfHex x
    match parseEvents bs with
    | none => some "err"
    | some evs => some s!"ok {hexOfBytes (render evs)}"
  | ["cfgfile", x] => do
    let bs ← bytesOfHex x
    match fileFromBytes bs with
    | none => some "err"
    | some f => some s!"ok {hexOfBytes f.write}"
  | _ => none

def handle (args : List String) : String := (handle? args).getD "bad-op"

end GixModel.C26
