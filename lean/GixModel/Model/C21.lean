import GixModel.Basic.Dec
/-
C21 — model of the reflog line codec and of the forward / reverse reflog iterators.

Rust functions modelled (all in /repo, gix-ref unless noted):
  log::iter::reverse, <Reverse as Iterator>::next     src/store/file/log/iter.rs  (`reverse`, `next`, `collect`)
  log::iter::forward, <Forward as Iterator>::next     src/store/file/log/iter.rs  (`splitLines`, `forward`)
  log::LineRef::from_bytes (decode::one, message)     src/store/file/log/line.rs  (`parseLine`)
  log::Line::write_to                                 src/store/file/log/line.rs  (`writeLine`)
  file::Store::reflog_create_or_append (line format)  src/store/file/loose/reflog.rs (`appendLine`)
  parse::hex_hash                                     src/parse.rs                (`hexHash`)
  gix_actor::signature::decode::{decode, identity}    gix-actor/src/signature/decode.rs (`signature`, `identity`)
  gix_actor::SignatureRef::write_to, gix_date::Time::write_to                      (`writeSig`, `Time.write`)
  gix_utils::btoi::to_signed                          gix-utils/src/btoi.rs       (`toSigned`)

The file behind the reverse iterator is an immutable byte list; `seek` always succeeds (it does
on a `Cursor` and on a regular file), `read_exact` fails iff the requested range is not inside
the file. The sliding-window buffer is a byte list of fixed length `B` whose initial content is
arbitrary. Slice-out-of-range / arithmetic-underflow / `unreachable!` sites are explicit `panic`
items, so that their absence is a theorem. The recursion `self.next()` is modelled with fuel;
`Props.C21` shows that 4 levels always suffice.
-/
namespace GixModel.C21
open GixModel

/-! ### byte helpers (`find_byte`, `rfind_byte`) -/

def findByte (c : UInt8) : Bytes → Option Nat
  | [] => none
  | b :: rest => if b = c then some 0 else
    match findByte c rest with
    | some i => some (i + 1)
    | none => none

def rfindByte (c : UInt8) : Bytes → Option Nat
  | [] => none
  | b :: rest =>
    match rfindByte c rest with
    | some i => some (i + 1)
    | none => if b = c then some 0 else none

/-! ### the reverse iterator -/

inductive Item where
  /-- a slice handed to `LineRef::from_bytes`, with the value of `self.count` used for its error -/
  | raw (line : Bytes) (count : Nat)
  /-- `buffer too small for line size` -/
  | ioSmall
  /-- `seek` / `read_exact` failed -/
  | ioRead
  /-- a slice index out of range, an arithmetic underflow or `unreachable!` -/
  | panic
  /-- the model's fuel for `self.next()` recursion ran out (never happens: `Props.C21.next_total`) -/
  | fuel
  deriving Repr, DecidableEq

structure Rev where
  buf : Bytes
  count : Nat
  /-- `read_and_pos` (the reader itself is the immutable `file`) -/
  readPos : Option Nat
  lastNl : Option Nat
  deriving Repr, DecidableEq

/-- `log.seek(Start(pos)); log.read_exact(&mut buf[..n])` -/
def readExact (file : Bytes) (pos n : Nat) : Option Bytes :=
  if pos + n ≤ file.length then some ((file.drop pos).take n) else none

/-- `reverse(log, buf)`: `none` = the `Zero sized buffers are not allowed` error -/
def reverse (file buf : Bytes) : Option Rev :=
  if buf.isEmpty then none
  else some { buf := buf, count := 0, readPos := some file.length, lastNl := none }

/-- both `take()`n and not put back -/
def Rev.cleared (s : Rev) : Rev := { s with readPos := none, lastNl := none }

/-- `Reverse::next`; `(none, _)` is the iterator's `None`. -/
def next (file : Bytes) : Nat → Rev → Option Item × Rev
  | 0, s => (some .fuel, s)
  | fuel + 1, s =>
    match s.lastNl, s.readPos with
    | none, some pos =>
      -- initial state: load the first block
      let npos := pos - s.buf.length
      let n := pos - npos
      if n = 0 then (none, s.cleared)
      else if s.buf.length < n then (some .panic, s.cleared)
      else
        match readExact file npos n with
        | none => (some .ioRead, s.cleared)
        | some data =>
          let e := if data.getLast? = some 10 then n - 1 else n
          next file fuel { s with buf := data ++ s.buf.drop n, lastNl := some e, readPos := some npos }
    | some e, some rp =>
      if s.buf.length < e then (some .panic, s.cleared)
      else
        let w := s.buf.take e
        match rfindByte 10 w with
        | some start =>
          (some (.raw (w.drop (start + 1)) s.count),
           { s with readPos := some rp, lastNl := some start, count := s.count + 1 })
        | none =>
          if rp = 0 then (some (.raw w s.count), s.cleared)
          else
            let npos := rp - (s.buf.length - e)
            if npos = rp then
              -- the buffer is full: the line is complete iff a newline precedes it in the file
              match readExact file (rp - 1) 1 with
              | some [b] =>
                if b = 10 then
                  (some (.raw w s.count),
                   { s with readPos := some (rp - 1), lastNl := some 0, count := s.count + 1 })
                else (some .ioSmall, s.cleared)
              | _ => (some .ioRead, s.cleared)
            else
              let n := rp - npos
              if s.buf.length < n + e then (some .panic, s.cleared)   -- `copy_within(0..end, n)`
              else
                match readExact file npos n with
                | none => (some .ioRead, s.cleared)
                | some data =>
                  let moved := s.buf.take n ++ w ++ s.buf.drop (n + e)
                  next file fuel
                    { s with buf := data ++ moved.drop n, readPos := some npos, lastNl := some (n + e) }
    | none, none => (none, s)
    | some _, none => (some .panic, s)

/-- levels of `self.next()` recursion granted by the driver; 4 are always enough -/
def nextFuel : Nat := 4

/-- `Iterator::collect`: call `next` until it answers `None` (`k` bounds the number of items) -/
def collect (file : Bytes) : Nat → Rev → List Item
  | 0, _ => [.fuel]
  | k + 1, s =>
    match next file nextFuel s with
    | (none, _) => []
    | (some it, s') => it :: collect file k s'

/-- everything the reverse iterator yields for `file` with the window `buf` -/
def revAll (file buf : Bytes) : Option (List Item) :=
  match reverse file buf with
  | none => none
  | some s => some (collect file (file.length + 2) s)

/-! ### the forward iterator -/

/-- `bstr::lines_with_terminator` followed by stripping the one trailing `\n`: split after every
`\n`; a last piece without `\n` is a line; the empty input has no lines. -/
def splitLines : Bytes → List Bytes
  | [] => []
  | b :: rest =>
    if b = 10 then [] :: splitLines rest
    else
      match splitLines rest with
      | [] => [[b]]
      | l :: ls => (b :: l) :: ls

/-- number the lines like `enumerate()` -/
def enumFrom (n : Nat) : List Bytes → List (Bytes × Nat)
  | [] => []
  | l :: ls => (l, n) :: enumFrom (n + 1) ls

/-- the slices `Forward::next` hands to `LineRef::from_bytes`, with their line numbers -/
def forward (file : Bytes) : List (Bytes × Nat) := enumFrom 0 (splitLines file)

/-! ### `LineRef::from_bytes` -/

structure Time where
  seconds : Int
  offset : Int
  minus : Bool
  deriving Repr, DecidableEq

/-- `LineRef`: the ids are the 40 hex characters as they stand in the file -/
structure Line where
  old : Bytes
  new : Bytes
  name : Bytes
  email : Bytes
  time : Time
  msg : Bytes
  deriving Repr, DecidableEq

def isHexLc (b : UInt8) : Bool := (48 ≤ b && b ≤ 57) || (97 ≤ b && b ≤ 102)

/-- `u8::is_ascii_whitespace` -/
def isWs (b : UInt8) : Bool := b == 32 || b == 9 || b == 10 || b == 12 || b == 13

/-- winnow `take_while(m..=n, p)` -/
def takeWhileMN (m n : Nat) (p : UInt8 → Bool) (i : Bytes) : Option (Bytes × Bytes) :=
  let pre := (i.takeWhile p).take n
  if pre.length < m then none else some (pre, i.drop pre.length)

/-- a one-byte literal -/
def lit (c : UInt8) : Bytes → Option Bytes
  | [] => none
  | b :: r => if b = c then some r else none

/-- `parse::hex_hash` (only SHA-1 is compiled in: exactly 40 lower-case hex digits are taken) -/
def hexHash (i : Bytes) : Option (Bytes × Bytes) := takeWhileMN 40 40 isHexLc i

def i64Min : Int := -9223372036854775808
def i64Max : Int := 9223372036854775807
def i32Min : Int := -2147483648
def i32Max : Int := 2147483647

/-- `btoi::to_signed::<I>` for an integer type with range `lo..=hi`: optional sign, at least one
digit, digits only, checked arithmetic (an intermediate overflow implies a final one). -/
def toSigned (lo hi : Int) (bs : Bytes) : Option Int :=
  match bs with
  | [] => none
  | b :: r =>
    if b = 43 then
      match parseNatDec? r with
      | some v => if (v : Int) ≤ hi then some v else none
      | none => none
    else if b = 45 then
      match parseNatDec? r with
      | some v => if lo ≤ -(v : Int) then some (-(v : Int)) else none
      | none => none
    else
      match parseNatDec? bs with
      | some v => if (v : Int) ≤ hi then some v else none
      | none => none

/-- the `(<seconds> " ", sign, HH, MM, trailing digits)` tuple inside `signature::decode` -/
def parseTime (r : Bytes) : Option (Time × Bytes) :=
  match findByte 32 r with
  | none => none
  | some k =>
    match toSigned i64Min i64Max (r.take k) with
    | none => none
    | some secs =>
      let r1 := r.drop (k + 1)
      let sign : Option (Bool × Bytes) :=
        match r1 with
        | [] => none
        | b :: _ =>
          if b = 45 then some (true, r1.dropWhile (· == 45))
          else if b = 43 then some (false, r1.dropWhile (· == 43))
          else none
      match sign with
      | none => none
      | some (minus, r2) =>
        match takeWhileMN 2 2 isDigit r2 with
        | none => none
        | some (hh, r3) =>
          match toSigned i32Min i32Max hh with
          | none => none
          | some h =>
            match takeWhileMN 1 2 isDigit r3 with
            | none => none
            | some (mm, r4) =>
              match toSigned i32Min i32Max mm with
              | none => none
              | some m =>
                let trailing := r4.takeWhile isDigit
                let off : Int :=
                  if trailing.isEmpty then (h * 3600 + m * 60) * (if minus then -1 else 1) else 0
                some ({ seconds := secs, offset := off, minus := minus }, r4.drop trailing.length)

/-- `gix_actor::signature::decode::identity`: `(name, email, rest)` -/
def identity (i : Bytes) : Option (Bytes × Bytes × Bytes) :=
  let eol := match findByte 10 i with
    | some k => k
    | none => i.length
  match rfindByte 62 (i.take eol) with
  | none => none
  | some rd =>
    let nae := i.take rd
    let skipR := (nae.reverse.takeWhile (fun b => isWs b || b == 62)).length
    match findByte 60 nae with
    | none => none
    | some ld =>
      let skipL := ((i.drop ld).takeWhile (fun b => isWs b || b == 60)).length
      let name0 := i.take ld
      let name := if name0.getLast? = some 32 then name0.dropLast else name0
      if ld + skipL ≤ rd - skipR then
        some (name, (i.take (rd - skipR)).drop (ld + skipL), i.drop (rd + 1))
      else none

/-- `gix_actor::signature::decode`: `(name, email, time, rest)` -/
def signature (i : Bytes) : Option (Bytes × Bytes × Time × Bytes) :=
  match identity i with
  | none => none
  | some (name, email, r) =>
    let r := match r with
      | [] => r
      | b :: r' => if b = 32 then r' else r
    match parseTime r with
    | some (t, r') => some (name, email, t, r')
    | none => some (name, email, { seconds := 0, offset := 0, minus := false }, r)

/-- length of the part of the input the signature parser may see: up to the first tab after the
first `>` of the first line, else everything -/
def beforeMessageLen (bytes : Bytes) : Nat :=
  let line := match findByte 10 bytes with
    | some k => bytes.take k
    | none => bytes
  match findByte 62 line with
  | none => bytes.length
  | some gt =>
    match findByte 9 (line.drop gt) with
    | none => bytes.length
    | some t => gt + t

/-- `LineRef::from_bytes` (`decode::one`); `none` = `Err` -/
def parseLine (bytes : Bytes) : Option Line :=
  let sep := beforeMessageLen bytes
  match hexHash (bytes.take sep) with
  | none => none
  | some (old, h) =>
    match lit 32 h with
    | none => none
    | some h =>
      match hexHash h with
      | none => none
      | some (new, h) =>
        match lit 32 h with
        | none => none
        | some h =>
          match signature h with
          | none => none
          | some (name, email, time, h) =>
            let msg : Option Bytes :=
              match bytes.drop (sep - h.length) with
              | [] => some []
              | b :: m =>
                if b = 9 then some (m.takeWhile (· != 10))
                else if b = 10 then some []
                else none
            match msg with
            | none => none
            | some msg => some { old := old, new := new, name := name, email := email, time := time, msg := msg }

/-! ### writers -/

def twoDigits (n : Nat) : Bytes := if n < 10 then 48 :: natDec n else natDec n

/-- `gix_date::Time::write_to` -/
def Time.write (t : Time) : Option Bytes :=
  let off := t.offset.natAbs
  let hours := off / 3600
  let minutes := (off - hours * 3600) / 60
  if hours > 99 then none
  else some (intDec t.seconds ++ [32] ++ [if t.minus then 45 else 43] ++ twoDigits hours ++ twoDigits minutes)

def illegalToken (bs : Bytes) : Bool := bs.any fun b => b == 60 || b == 62 || b == 10

/-- `SignatureRef::write_to` -/
def writeSig (name email : Bytes) (t : Time) : Option Bytes :=
  if illegalToken name then none
  else if illegalToken email then none
  else
    match t.write with
    | none => none
    | some tb => some (name ++ [32, 60] ++ email ++ [62, 32] ++ tb)

/-- lower-case hex of an object id (`Display for ObjectId`) -/
def hexBytes (id : Bytes) : Bytes :=
  id.flatMap fun b =>
    let d (n : Nat) : UInt8 := if n < 10 then UInt8.ofNat (48 + n) else UInt8.ofNat (87 + n)
    [d (b.toNat / 16), d (b.toNat % 16)]

/-- an owned `log::Line` -/
structure Entry where
  oldId : Bytes
  newId : Bytes
  name : Bytes
  email : Bytes
  time : Time
  msg : Bytes
  deriving Repr, DecidableEq

/-- `Line::write_to` -/
def writeLine (e : Entry) : Option Bytes :=
  match writeSig e.name e.email e.time with
  | none => none
  | some sig =>
    if e.msg.contains 10 then none
    else some (hexBytes e.oldId ++ [32] ++ hexBytes e.newId ++ [32] ++ sig ++ [9] ++ e.msg ++ [10])

/-- what `reflog_create_or_append` appends (`e.oldId` = the previous id or the null id) -/
def appendLine (e : Entry) : Option Bytes :=
  match writeSig e.name e.email e.time with
  | none => none
  | some sig =>
    some (hexBytes e.oldId ++ [32] ++ hexBytes e.newId ++ [32] ++ sig
      ++ (if e.msg.isEmpty then [10] else [9] ++ e.msg ++ [10]))

/-- what reading `e` back must give -/
def Entry.toLine (e : Entry) : Line :=
  { old := hexBytes e.oldId, new := hexBytes e.newId, name := e.name, email := e.email,
    time := e.time, msg := e.msg }

/-! ### driver -/

def showLine (l : Line) : String :=
  s!"ok:{hexOfBytes l.old}:{hexOfBytes l.new}:{hexOfBytes l.name}:{hexOfBytes l.email}:{l.time.seconds}:{l.time.offset}:{if l.time.minus then "-" else "+"}:{hexOfBytes l.msg}"

def showParsed (line : Bytes) (count : Nat) : String :=
  match parseLine line with
  | some l => showLine l
  | none => s!"derr@{count}"

def showItem : Item → String
  | .raw line count => showParsed line count
  | .ioSmall => "io:small"
  | .ioRead => "io:other"
  | .panic => "panic"
  | .fuel => "model-out-of-fuel"

def showItems (xs : List String) : String :=
  if xs.isEmpty then "-" else ",".intercalate xs

def showRev (file : Bytes) (b : Nat) : String :=
  match revAll file (List.replicate b 170) with
  | none => "init-err"
  | some items => showItems (items.map showItem)

def showRevs (file : Bytes) : Option String → List Nat → List String
  | _, [] => []
  | prev, b :: bs =>
    let o := showRev file b
    (if prev = some o then "=" else o) :: showRevs file (some o) bs

def parseNats (s : String) : Option (List Nat) :=
  (s.splitOn ",").mapM (·.toNat?)

def parseEntry? (prevNone : Bool) : List String → Option Entry
  | [old, new, name, email, secs, off, sign, msg] => do
    let oldId ← (if prevNone && old == "none" then some (List.replicate 20 0) else bytesOfHex old)
    let newId ← bytesOfHex new
    let name ← bytesOfHex name
    let email ← bytesOfHex email
    let secs ← secs.toInt?
    let off ← off.toInt?
    let msg ← bytesOfHex msg
    if oldId.length = 20 ∧ newId.length = 20 ∧ (sign == "+" || sign == "-") then
      some { oldId, newId, name, email, time := { seconds := secs, offset := off, minus := sign == "-" }, msg }
    else none
  | _ => none

def showWritten : Option Bytes → String
  | none => "err"
  | some bs => s!"ok {hexOfBytes bs}"

def handle? : List String → Option String
  | ["revs", file, bs] => do
    let file ← bytesOfHex file
    let bs ← parseNats bs
    some (";".intercalate (showRevs file none bs))
  | ["fwd", file] => do
    let file ← bytesOfHex file
    some (showItems ((forward file).map fun (l, n) => showParsed l n))
  | ["parse", line] => do
    let line ← bytesOfHex line
    some (match parseLine line with
      | some l => showLine l
      | none => "err")
  | "write" :: rest => do
    let e ← parseEntry? false rest
    some (showWritten (writeLine e))
  | "append" :: rest => do
    let e ← parseEntry? true rest
    some (showWritten (appendLine e))
  | _ => none

def handle (args : List String) : String := (handle? args).getD "bad-op"

end GixModel.C21
