import GixModel.Model.C40
import GixModel.Model.C42
/-
C41 — checkout into a worktree: an abstract file system and the checkout algorithm over it.

Rust code modelled (all in /repo, AFTER the repairs 44805c9d9, 576d7d1f0, 2f8e2fb83, 065268b93 — see
known-findings.txt):
  gix_worktree::Stack::at_path                         gix-worktree/src/stack/mod.rs
      (the empty-path refusal, the re-validation of a path that is already on the stack as directory,
       the "previous leaf becomes a leading directory" check, then make_relative_path_current)
  gix_fs::Stack::make_relative_path_current             gix-fs/src/stack.rs   (`cur`, `curIsDir`; the
      delegate calls that matter here are `push`; `push_directory`/`pop_directory` only touch attributes)
  StackDelegate::push = validate_last_component + create_leading_directory,  create_directory
                                                        gix-worktree/src/stack/delegate.rs
  entry::checkout, open_file/open_options, try_op_or_unlink, try_unlink_path_recursively
                                                        gix-worktree-state/src/checkout/entry.rs
  chunk::process (symlinks are delayed), checkout_entry_handle_result (collision / error with
  keep_going), function::checkout_inner (phase 1: everything but symlinks, by any assignment of
  entries to worker stacks; phase 2: the symlinks, sequentially)
                                                        gix-worktree-state/src/checkout/{chunk,function}.rs
  gix_validate::path::component                         = GixModel.C40.component (imported)
  std::path::Path::components                           = GixModel.C42.components (imported)

The file system is a map from absolute paths (component lists, root = []) to nodes. A system call on
a path none of whose proper prefixes is a symbolic link acts on exactly that path (`direct`); if a
proper prefix IS a symbolic link the kernel follows it — that is `follow`, a PARAMETER of the model:
the theorems hold for every `follow` whatsoever, the driver uses `posixFollow` (POSIX resolution
with `..`, absolute targets and a loop limit).  The leaf is never followed (mkdir, unlink, lstat,
symlink by nature; open with O_NOFOLLOW).
-/
namespace GixModel.C41
open GixModel

abbrev Name := Bytes
abbrev Path := List Name

inductive Node where
  | file (content : Bytes) (exec : Bool)
  | link (target : Bytes)
  | dir
  deriving DecidableEq, Repr

abbrev FS := Path → Option Node

def Node.isLink : Node → Bool
  | .link _ => true
  | _ => false

def isLinkAt (fs : FS) (p : Path) : Bool :=
  match fs p with
  | some n => n.isLink
  | none => false

def FS.set (fs : FS) (p : Path) (n : Node) : FS := fun q => if q = p then some n else fs q
def FS.erase (fs : FS) (p : Path) : FS := fun q => if q = p then none else fs q
/-- remove `p` and everything below it -/
def FS.eraseTree (fs : FS) (p : Path) : FS := fun q => if p.isPrefixOf q then none else fs q

inductive Errno where
  | exist | isdir | loop | noent | notdir | other
  deriving DecidableEq, Repr

/-- `gix_fs::symlink::is_collision_error`: AlreadyExists, EISDIR (21), ELOOP (40) -/
def Errno.isCollision : Errno → Bool
  | .exist | .isdir | .loop => true
  | _ => false

inductive Op where
  | mkdir
  | lstat
  /-- unlink(2) / remove_file -/
  | unlink
  /-- remove_dir_all -/
  | rmtree
  /-- open(O_WRONLY|O_CREAT|O_TRUNC|O_NOFOLLOW [|O_EXCL]) + write + close (+ chmod when the
  executable bit has to be set on a file that existed); `execNew`: mode of a newly created file,
  `chmodX`: set the bit afterwards -/
  | openW (excl : Bool) (content : Bytes) (execNew chmodX : Bool)
  | symlink (target : Bytes)
  deriving Repr

inductive Res where
  | ok
  /-- lstat -/
  | isDir | isFile | isLink
  | err (e : Errno)
  deriving DecidableEq, Repr

/-- the first proper, non-empty prefix of `p` that is not a directory: its errno -/
def parentsErr (fs : FS) (p : Path) : Nat → Option Errno
  | 0 => none
  | k + 1 =>
    match parentsErr fs p k with
    | some e => some e
    | none =>
      if k + 1 < p.length then
        match fs (p.take (k + 1)) with
        | some .dir => none
        | some _ => some .notdir
        | none => some .noent
      else none

/-- The call acting on exactly the path `p` (whose parents must be directories). -/
def direct (fs : FS) (p : Path) (op : Op) : FS × Res :=
  match parentsErr fs p p.length with
  | some e => (fs, .err e)
  | none =>
    match op with
    | .mkdir =>
      match fs p with
      | none => (fs.set p .dir, .ok)
      | some _ => (fs, .err .exist)
    | .lstat =>
      match fs p with
      | none => (fs, .err .noent)
      | some .dir => (fs, .isDir)
      | some (.file _ _) => (fs, .isFile)
      | some (.link _) => (fs, .isLink)
    | .unlink =>
      match fs p with
      | none => (fs, .err .noent)
      | some .dir => (fs, .err .isdir)
      | some _ => (fs.erase p, .ok)
    | .rmtree =>
      match fs p with
      | some .dir => (fs.eraseTree p, .ok)
      | some _ => (fs, .err .notdir)
      | none => (fs, .err .noent)
    | .openW excl content execNew chmodX =>
      match fs p with
      | none => (fs.set p (.file content (execNew || chmodX)), .ok)
      | some (.file _ x) => if excl then (fs, .err .exist) else (fs.set p (.file content (x || chmodX)), .ok)
      | some (.link _) => (fs, .err (if excl then .exist else .loop))
      | some .dir => (fs, .err (if excl then .exist else .isdir))
    | .symlink target =>
      if target.isEmpty then (fs, .err .noent)
      else match fs p with
        | none => (fs.set p (.link target), .ok)
        | some _ => (fs, .err .exist)

/-- some proper, non-empty prefix of `p` is a symbolic link -/
def linkPrefix (fs : FS) (p : Path) : Bool :=
  (List.range p.length).any (fun k => 0 < k && isLinkAt fs (p.take k))

/-- What the kernel does when a proper prefix of the path is a symbolic link. -/
abbrev Follow := FS → Path → Op → FS × Res

/-- a system call -/
def sys (follow : Follow) (fs : FS) (p : Path) (op : Op) : FS × Res :=
  if linkPrefix fs p then follow fs p op else direct fs p op

/-! ## POSIX resolution (the `follow` of the driver) -/

inductive TComp where
  | name (n : Name)
  | up
  deriving Repr

def splitSlash (bs : Bytes) : List Bytes := C42.splitSlash bs

/-- a symlink target: absolute?, components (empty and `.` segments dropped) -/
def parseTarget (t : Bytes) : Bool × List TComp :=
  (t.head? == some 47,
   (splitSlash t).filterMap (fun s =>
      if s == [] || s == [46] then none else if s == [46, 46] then some TComp.up else some (TComp.name s)))

/-- Resolve `comps` starting in the directory `cur` (canonical), following every symbolic link;
the canonical path of a DIRECTORY, or `none`. `fuel` bounds the number of links followed and steps taken. -/
def walkDir (fs : FS) : Nat → Path → List TComp → Option Path
  | 0, _, _ => none
  | _ + 1, cur, [] => some cur
  | f + 1, cur, .up :: rest => walkDir fs f cur.dropLast rest
  | f + 1, cur, .name n :: rest =>
    match fs (cur ++ [n]) with
    | some .dir => walkDir fs f (cur ++ [n]) rest
    | some (.link t) =>
      let (abs, cs) := parseTarget t
      walkDir fs f (if abs then [] else cur) (cs ++ rest)
    | _ => none

/-- resolve the parent directory POSIX-style, then act on the leaf there -/
def posixFollow : Follow := fun fs p op =>
  match p.getLast? with
  | none => (fs, .err .other)
  | some leaf =>
    match walkDir fs (64 + 4 * p.length) [] (p.dropLast.map TComp.name) with
    | none => (fs, .err .noent)
    | some d => direct fs (d ++ [leaf]) op

/-! ## The checkout -/

inductive Kind where
  | file | exec | link | gitlink
  deriving DecidableEq, Repr

structure Entry where
  path : Bytes
  kind : Kind
  /-- blob content (the target for a symlink) -/
  data : Bytes
  deriving Repr

structure Opts where
  overwrite : Bool
  /-- destination_is_initially_empty -/
  empty : Bool
  deriving Repr

/-- `gix_fs::Stack` + the `current_is_leaf` flag of `gix_worktree::Stack` -/
structure Stk where
  cur : List Name
  curIsDir : Bool
  isLeaf : Bool
  deriving Repr

def Stk.new : Stk := ⟨[], true, false⟩

/-- configuration that does not change during a checkout -/
structure Cfg where
  follow : Follow
  /-- `gix_validate::path::component(name, symlink-mode?)` accepts -/
  valid : Name → Bool → Bool
  dest : Path
  opts : Opts

/-- `delegate::create_directory` -/
def createDirectory (c : Cfg) (fs : FS) (p : Path) : FS × Option Errno :=
  match sys c.follow fs p .mkdir with
  | (fs1, .ok) => (fs1, none)
  | (fs1, .err .exist) =>
    match sys c.follow fs1 p .lstat with
    | (fs2, .isDir) => (fs2, none)
    | (fs2, .err e) => (fs2, some e)
    | (fs2, _) =>
      if c.opts.overwrite then
        match sys c.follow fs2 p .unlink with
        | (fs3, .ok) =>
          match sys c.follow fs3 p .mkdir with
          | (fs4, .ok) => (fs4, none)
          | (fs4, .err e) => (fs4, some e)
          | (fs4, _) => (fs4, some .other)
        | (fs3, .err e) => (fs3, some e)
        | (fs3, _) => (fs3, some .other)
      else (fs2, some .exist)
  | (fs1, .err e) => (fs1, some e)
  | (fs1, _) => (fs1, some .other)

def normalNames : List C42.Comp → Option (List Name)
  | [] => some []
  | .normal n :: rest => (normalNames rest).map (n :: ·)
  | _ :: _ => none

/-- length of the common prefix of the stack and the new components -/
def matching : List Name → List C42.Comp → Nat
  | a :: as, .normal b :: bs => if a = b then matching as bs + 1 else 0
  | _, _ => 0

def isDirMode : Kind → Bool
  | .gitlink => true
  | _ => false

/-- the push loop of `make_relative_path_current` with the checkout delegate -/
def pushLoop (c : Cfg) (kind : Kind) : List C42.Comp → Stk → FS → Stk × FS × Option Errno
  | [], st, fs => (st, fs, none)
  | comp :: rest, st, fs =>
    match comp with
    | .normal n =>
      let isLast := rest.isEmpty
      let cur' := st.cur ++ [n]
      -- delegate.push: validate, then create the leading directory
      if c.valid n (kind == .link) = false then
        ({ st with curIsDir := true }, fs, some .other)
      else if isLast && !isDirMode kind then
        pushLoop c kind rest { st with cur := cur', curIsDir := false } fs
      else
        match createDirectory c fs (c.dest ++ cur') with
        | (fs1, none) => pushLoop c kind rest { st with cur := cur', curIsDir := !isLast } fs1
        | (fs1, some e) => ({ st with curIsDir := true }, fs1, some e)
    | _ => (st, fs, some .other)

/-- `gix_fs::Stack::make_relative_path_current` with the checkout delegate; `m` = number of leading
components the new path shares with the stack -/
def makeCurrent (c : Cfg) (kind : Kind) (comps : List C42.Comp) (m : Nat) (st0 : Stk) (fs0 : FS) :
    Stk × FS × Option Errno :=
  -- popping makes the top a directory; so does pushing below a former last component
  let st2 : Stk := { cur := st0.cur.take m,
                     curIsDir := decide (m < st0.cur.length) || st0.curIsDir || !(comps.drop m).isEmpty,
                     isLeaf := st0.isLeaf }
  pushLoop c kind (comps.drop m) st2 fs0

/-- the previous path, written as file or symlink, is a leading directory of this one -/
def needDir (st : Stk) (comps : List C42.Comp) (m : Nat) : Bool :=
  st.isLeaf && !st.cur.isEmpty && m = st.cur.length && st.cur.length < comps.length

/-- the path is on the stack as a leading directory of the previous one and its name is refused
for what it is now -/
def revalidateFails (c : Cfg) (st : Stk) (comps : List C42.Comp) (m : Nat) (kind : Kind) : Bool :=
  (m = comps.length && comps.length < st.cur.length) &&
  (match comps.getLast? with
    | some (.normal n) => c.valid n (kind == .link) = false
    | _ => false)

/-- `gix_worktree::Stack::at_path(relative, Some(mode))` in the checkout state -/
def atPath (c : Cfg) (st : Stk) (fs : FS) (e : Entry) : Stk × FS × Option Errno :=
  let comps := C42.components e.path
  let m := matching st.cur comps
  if e.path.isEmpty then (st, fs, some .other)
  else if revalidateFails c st comps m e.kind then (st, fs, some .other)
  else
    match (if needDir st comps m then createDirectory c fs (c.dest ++ st.cur) else (fs, none)) with
    | (fs0, some err) => (st, fs0, some err)
    | (fs0, none) =>
      match makeCurrent c e.kind comps m (if needDir st comps m then { st with isLeaf := false } else st) fs0 with
      | (st3, fs3, none) =>
        -- nothing is pushed for the path that is set already: what is known about it stays
        ({ st3 with isLeaf := !isDirMode e.kind || ((m = comps.length && m = st.cur.length) && st.isLeaf) }, fs3, none)
      | (st3, fs3, some err) => ({ st3 with isLeaf := false }, fs3, some err)

/-- `try_unlink_path_recursively`, then the operation once more -/
def removeThenRetry (c : Cfg) (fs : FS) (p : Path) (rm op : Op) : FS × Option Errno :=
  match sys c.follow fs p rm with
  | (fs3, .ok) =>
    match sys c.follow fs3 p op with
    | (fs4, .ok) => (fs4, none)
    | (fs4, .err e4) => (fs4, some e4)
    | (fs4, _) => (fs4, some .other)
  | (fs3, .err e3) => (fs3, some e3)
  | (fs3, _) => (fs3, some .other)

/-- `try_op_or_unlink` -/
def tryOpOrUnlink (c : Cfg) (fs : FS) (p : Path) (op : Op) : FS × Option Errno :=
  match sys c.follow fs p op with
  | (fs1, .ok) => (fs1, none)
  | (fs1, .err e) =>
    if c.opts.overwrite && e.isCollision then
      match sys c.follow fs1 p .lstat with
      | (fs2, .err e2) => (fs2, some e2)
      | (fs2, k) => removeThenRetry c fs2 p (if k = .isDir then .rmtree else .unlink) op
    else (fs1, some e)
  | (fs1, _) => (fs1, some .other)

inductive Outcome where
  | written | collision | error
  deriving DecidableEq, Repr

def classify : Option Errno → Outcome
  | none => .written
  | some e => if e.isCollision then .collision else .error

/-- `entry::checkout` + `checkout_entry_handle_result` with keep_going -/
def checkoutEntry (c : Cfg) (st : Stk) (fs : FS) (e : Entry) : Stk × FS × Outcome :=
  match atPath c st fs e with
  | (st1, fs1, some err) => (st1, fs1, classify (some err))
  | (st1, fs1, none) =>
    let p := c.dest ++ st1.cur
    match e.kind with
    | .file =>
      let r := tryOpOrUnlink c fs1 p (.openW (c.opts.empty && !c.opts.overwrite) e.data false false)
      (st1, r.1, classify r.2)
    | .exec =>
      let r := tryOpOrUnlink c fs1 p (.openW (c.opts.empty && !c.opts.overwrite) e.data true (!c.opts.empty))
      (st1, r.1, classify r.2)
    | .link =>
      let r := tryOpOrUnlink c fs1 p (.symlink e.data)
      (st1, r.1, classify r.2)
    | .gitlink => (st1, fs1, .written)

structure World where
  fs : FS
  /-- the path stack of each worker -/
  stacks : Nat → Stk
  /-- outcome per entry, newest first -/
  log : List (Bytes × Outcome)

def World.init (fs : FS) : World := ⟨fs, fun _ => Stk.new, []⟩

def stepEntry (c : Cfg) (w : World) (t : Nat) (e : Entry) : World :=
  let r := checkoutEntry c (w.stacks t) w.fs e
  { fs := r.2.1, stacks := fun u => if u = t then r.1 else w.stacks u, log := (e.path, r.2.2) :: w.log }

/-- phase 1: the entries that are not symlinks, each handled by the worker it is assigned to, in the
given global order -/
def phase1 (c : Cfg) : World → List (Nat × Entry) → World
  | w, [] => w
  | w, (t, e) :: rest => phase1 c (if e.kind = .link then w else stepEntry c w t e) rest

/-- phase 2: the delayed symlinks, by worker `t` -/
def phase2 (c : Cfg) (t : Nat) : World → List Entry → World
  | w, [] => w
  | w, e :: rest => phase2 c t (if e.kind = .link then stepEntry c w t e else w) rest

/-- The whole checkout. `sched` = the index entries in the order and by the workers that handle them
in phase 1; `entries` = the index in order; `t2` = the worker whose stack handles the symlinks (the
only worker when single-threaded, a fresh one otherwise). -/
def checkout (c : Cfg) (fs : FS) (sched : List (Nat × Entry)) (entries : List Entry) (t2 : Nat) : World :=
  phase2 c t2 (phase1 c (World.init fs) sched) entries

/-! ## Driver glue -/

def dotGit : Name := [46, 103, 105, 116]

def validDrv (n : Name) (sym : Bool) : Bool :=
  (C40.component C40.extractedTables ⟨true, true, true⟩ sym n).isNone

def joinPath : Path → Bytes
  | [] => []
  | [n] => n
  | n :: rest => n ++ 47 :: joinPath rest

def bytesLt : Bytes → Bytes → Bool
  | [], [] => false
  | [], _ :: _ => true
  | _ :: _, [] => false
  | a :: as, b :: bs => if a < b then true else if b < a then false else bytesLt as bs

def insertSorted (x : Bytes × String) : List (Bytes × String) → List (Bytes × String)
  | [] => [x]
  | y :: ys => if bytesLt x.1 y.1 then x :: y :: ys else if x.1 == y.1 then y :: ys else y :: insertSorted x ys

def prefixesOf (p : Path) : List Path := (List.range p.length).map (fun k => p.take (k + 1))

def showNode : Node → String
  | .dir => "d"
  | .file cnt x => "f" ++ (if x then "x" else "-") ++ hexOfBytes cnt
  | .link t => "l" ++ hexOfBytes t

/-- everything below `dest`, as `relpath=node` sorted by path bytes -/
def listing (fs : FS) (dest : Path) (cands : List Path) : String :=
  let items := cands.foldr (fun rel acc =>
    match fs (dest ++ rel) with
    | some n => insertSorted (joinPath rel, hexOfBytes (joinPath rel) ++ "=" ++ showNode n) acc
    | none => acc) []
  if items.isEmpty then "-" else ",".intercalate (items.map (·.2))

def showPaths (ps : List Bytes) : String :=
  let items := ps.foldr (fun p acc => insertSorted (p, hexOfBytes p) acc) []
  if items.isEmpty then "-" else ",".intercalate (items.map (·.2))

def parseKind? : String → Option Kind
  | "f" => some .file | "x" => some .exec | "l" => some .link | "g" => some .gitlink | _ => none

/-- `<kind>:<hex path>:<hex data>` -/
def parseEntry? (w : String) : Option Entry :=
  match w.splitOn ":" with
  | [k, p, d] => do
    let k ← parseKind? k
    let p ← bytesOfHex p
    let d ← bytesOfHex d
    pure ⟨p, k, d⟩
  | _ => none

/-- pre-existing node below dest: `d:<hex path>:-`, `f|x:<hex path>:<hex content>`, `l:<hex path>:<hex target>` -/
def parsePre? (w : String) : Option (Path × Node) :=
  match w.splitOn ":" with
  | [k, p, d] => do
    let p ← bytesOfHex p
    let d ← bytesOfHex d
    let rel := (splitSlash p).filter (· != [])
    match k with
    | "d" => some (rel, .dir)
    | "f" => some (rel, .file d false)
    | "x" => some (rel, .file d true)
    | "l" => some (rel, .link d)
    | _ => none
  | _ => none

def parseList {α} (f : String → Option α) : List String → Option (List α)
  | [] => some []
  | w :: ws => do
    let a ← f w
    let as ← parseList f ws
    pure (a :: as)

/-- the world of the harness: `/out` (a directory with a file and a sub directory), `/sib`, `/w/side`,
`/w/dest` with the given content -/
def baseFS (pre : List (Path × Node)) : FS := fun q =>
  let fixed : List (Path × Node) :=
    [ ([[111, 117, 116]], .dir), ([[111, 117, 116], [102]], .file [99] false),
      ([[111, 117, 116], [115, 117, 98]], .dir), ([[115, 105, 98]], .file [115] false),
      ([[119]], .dir), ([[119], [115, 105, 100, 101]], .file [115] false),
      ([[119], [100, 101, 115, 116]], .dir) ]
  match (fixed ++ pre.map (fun x => ([[119], [100, 101, 115, 116]] ++ x.1, x.2))).find? (fun x => x.1 == q) with
  | some x => some x.2
  | none => none

def destDrv : Path := [[119], [100, 101, 115, 116]]

/-- `co <o|-><e|-> <npre> pre… entries…`  →  `C:<collisions>;E:<errors>;T:<tree below dest>` -/
def handle? : List String → Option String
  | "co" :: flags :: npre :: ws => do
    let fl := flags.toList
    let ow ← (match fl[0]? with | some 'o' => some true | some '-' => some false | _ => none)
    let em ← (match fl[1]? with | some 'e' => some true | some '-' => some false | _ => none)
    let npre ← npre.toNat?
    let pre ← parseList parsePre? (ws.take npre)
    let entries ← parseList parseEntry? (ws.drop npre)
    let c : Cfg := ⟨posixFollow, validDrv, destDrv, ⟨ow, em⟩⟩
    let w := checkout c (baseFS pre) (entries.map (fun e => (0, e))) entries 0
    let cols := (w.log.filter (·.2 == Outcome.collision)).map (·.1)
    let errs := (w.log.filter (·.2 == Outcome.error)).map (·.1)
    let cands := (pre.flatMap (fun x => prefixesOf x.1)) ++
      entries.flatMap (fun e => match normalNames ((C42.components e.path).filter (fun c => match c with | .normal _ => true | _ => false)) with
        | some ns => prefixesOf ns
        | none => [])
    some ("C:" ++ showPaths cols ++ ";E:" ++ showPaths errs ++ ";T:" ++ listing w.fs destDrv cands)
  | _ => none

def handle (args : List String) : String := (handle? args).getD "bad-op"

end GixModel.C41
