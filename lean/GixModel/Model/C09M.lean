import GixModel.Model.C14
import GixModel.Spec.C14
/-
C09 (multi-pack index, byte level) — model of opening a `multi-pack-index` file and reading it.

Rust functions modelled:
  gix_pack::multi_index::File::try_from(path)     multi_index/init.rs   → `MidxFile.at`
  multi_index::chunk::index_names::from_bytes     multi_index/chunk.rs  → `namesLoop`, `parseNames`
  multi_index::chunk::{fanout::from_bytes, lookup::is_valid, offsets::is_valid, large_offsets::is_valid}
  multi_index::File::{oid_at_index, lookup, lookup_prefix, pack_id_and_pack_offset_at_index}
                                                  multi_index/access.rs → `MidxFile.*`
  gix_chunk::file::Index::from_bytes              (shared with the commit-graph)  → `C14.tocParse`
This file carries the driver for C09 (`handle`): `midxraw` operations are answered here, everything
else is passed to `C09.handle`.

`Option` is the panic monad. Index-file names are compared as byte strings (`PathBuf` comparison
agrees with that for names without `/` that are not `.` or `..`; the harness only sends such names).
`oid_at_index` carries the `debug_assert!(index < num_objects)` of the real code (debug builds).
Modelled at repo commits dd7bf297c (empty chunks / zero objects) and 8002babab (monotonic fan-out).
-/
namespace GixModel.C09M
open GixModel
open GixModel.C09 (readU32 readU64 slice readFan lookupWith lookupPrefixWith cmpBytes HIGH_BIT Prefix PrefixRes)
open GixModel.C14 (Chunk ChunkErr tocParse findChunk chunkBytes tocBytes layout optChunk)
open GixModel.C09 (be32 be64 Midx)

inductive MErr where
  | corrupt | version | hash | chunk (e : ChunkErr) | missing | names | fanSize | size
  deriving Repr, DecidableEq

def PNAM : Bytes := [80, 78, 65, 77]
def OIDF : Bytes := [79, 73, 68, 70]
def OIDL : Bytes := [79, 73, 68, 76]
def OOFF : Bytes := [79, 79, 70, 70]
def LOFF : Bytes := [76, 79, 70, 70]

/-- position of the first NUL byte -/
def findNul : Bytes → Nat → Option Nat
  | [], _ => none
  | b :: rest, i => if b = 0 then some i else findNul rest (i + 1)

/-- the `for _ in 0..num_packs` loop of `index_names::from_bytes`; `none` inside = an error -/
def namesLoop : Nat → Bytes → List Bytes → Option (List Bytes × Bytes)
  | 0, chunk, out => some (out, chunk)
  | k + 1, chunk, out =>
    match findNul chunk 0 with
    | none => none                                        -- MissingNullByte
    | some pos =>
      let path := chunk.take pos
      let ordered : Bool := match out.getLast? with
        | some prev => cmpBytes prev path == .lt          -- `previous >= &path` is the error
        | none => true
      if ordered = true then namesLoop k (chunk.drop (pos + 1)) (out ++ [path]) else none

/-- `index_names::from_bytes(chunk, num_packs)`; `none` = one of its errors -/
def parseNames (chunk : Bytes) (numPacks : Nat) : Option (List Bytes) :=
  match namesLoop numPacks chunk [] with
  | none => none
  | some (out, rest) => if rest.all (· == 0) then some out else none   -- UnknownTrailerBytes

structure MidxFile where
  data : Bytes
  fan : List Nat
  numObjects : Nat
  numIndices : Nat
  names : List Bytes
  lookupOfs : Nat
  offsetsOfs : Nat
  largeOfs : Option Nat
  deriving Repr

/-- the chunk validations of `File::try_from`, in its order: PNAM, OIDF, OIDL, OOFF, LOFF, trailer -/
def MidxFile.fromChunks (data : Bytes) (numIndices : Nat) (chunks : List Chunk) : Option (Except MErr MidxFile) :=
  match findChunk chunks PNAM with
  | none => some (.error .missing)
  | some pn =>
    match chunkBytes data pn with
    | none => none
    | some pnb =>
      match parseNames pnb numIndices with
      | none => some (.error .names)
      | some names =>
        match findChunk chunks OIDF with
        | none => some (.error .missing)
        | some fo =>
          if fo.stop - fo.start ≠ 1024 then some (.error .fanSize)
          else
            match readFan 256 (data.drop fo.start) with
            | none => none
            | some fan =>
              if !C14.fanMonotone fan then some (.error .corrupt)
              else
                match fan[255]? with
                | none => none
                | some n =>
                  match findChunk chunks OIDL with
                  | none => some (.error .missing)
                  | some ol =>
                    if (ol.stop - ol.start) / 20 ≠ n then some (.error .size)
                    else
                      match findChunk chunks OOFF with
                      | none => some (.error .missing)
                      | some oo =>
                        if (if n = 0 then oo.stop ≠ oo.start else (oo.stop - oo.start) / n ≠ 8) then some (.error .size)
                        else
                          let largeR : Except MErr (Option Nat) :=
                            match findChunk chunks LOFF with
                            | none => .ok none
                            | some lo => if (lo.stop - lo.start) % 8 ≠ 0 then .error .size else .ok (some lo.start)
                          match largeR with
                          | .error e => some (.error e)
                          | .ok large =>
                            match chunks.getLast? with
                            | none => none
                            | some lastc =>
                              if lastc.stop > data.length then none
                              else if data.length - lastc.stop ≠ 20 then some (.error .corrupt)
                              else some (.ok { data := data, fan := fan, numObjects := n, numIndices := numIndices,
                                               names := names, lookupOfs := ol.start, offsetsOfs := oo.start,
                                               largeOfs := large })

/-- `multi_index::File::try_from`; outer `none` = panic -/
def MidxFile.at (data : Bytes) : Option (Except MErr MidxFile) :=
  if data.length < 12 + 5 * 12 + 1024 + 20 then some (.error .corrupt)
  else if data.take 4 ≠ [77, 73, 68, 88] then some (.error .corrupt)
  else
    match data[4]?, data[5]?, data[6]?, (slice data 8 4).bind readU32 with
    | some ver, some hk, some nc, some ni =>
      if ver.toNat ≠ 1 then some (.error .version)
      else if hk.toNat ≠ 1 then some (.error .hash)
      else
        match tocParse data 12 nc.toNat with
        | none => none
        | some (.error e) => some (.error (.chunk e))
        | some (.ok chunks) => MidxFile.fromChunks data ni chunks
    | _, _, _, _ => none

/-- `oid_at_index` (with its `debug_assert!`) -/
def MidxFile.oidAt (f : MidxFile) (i : Nat) : Option Bytes :=
  if i < f.numObjects then slice f.data (f.lookupOfs + i * 20) 20 else none

def MidxFile.lookup (f : MidxFile) (id : Bytes) : Option (Option Nat) := lookupWith f.fan f.oidAt id

def MidxFile.lookupPrefix (f : MidxFile) (p : Prefix) (withCand : Bool) : Option (PrefixRes × Option (Nat × Nat)) :=
  lookupPrefixWith f.fan f.oidAt f.numObjects p withCand

/-- `pack_id_and_pack_offset_at_index` -/
def MidxFile.packAndOffsetAt (f : MidxFile) (i : Nat) : Option (Nat × Nat) :=
  match (slice f.data (f.offsetsOfs + i * 8) 4).bind readU32, (slice f.data (f.offsetsOfs + i * 8 + 4) 4).bind readU32 with
  | some pk, some v =>
    if v &&& HIGH_BIT = HIGH_BIT then
      match f.largeOfs with
      | some lo =>
        match (slice f.data (lo + (v ^^^ HIGH_BIT) * 8) 8).bind readU64 with
        | some o => some (pk, o)
        | none => none
      | none => some (pk, v)
    else some (pk, v)
  | _, _ => none

/-! ### the writer's byte layout (`write_from_index_paths`: `write_header`, `index_names::write` with its
padding, `fanout::write`, `lookup::write`, `offsets::write`, `large_offsets::write`, `gix_chunk` table of contents) -/

/-- `index_names::write`: every name followed by NUL, then zero padding up to a multiple of 4 -/
def namesPayload (names : List Bytes) : Bytes :=
  let b := names.flatMap (fun n => n ++ [0])
  b ++ List.replicate (if b.length % 4 = 0 then 0 else 4 - b.length % 4) 0

/-- `offsets::write`: pack index and 32-bit offset word per object -/
def ooffPayload (x : Midx) : Bytes := ((x.packIds.zip x.ofs32).map (fun p => be32 p.1 ++ be32 p.2)).flatten

/-- the chunks in the order they are planned -/
def mChunks (names : List Bytes) (x : Midx) : List (Bytes × Bytes) :=
  [(PNAM, namesPayload names), (OIDF, x.fan.flatMap be32), (OIDL, x.ids.flatten), (OOFF, ooffPayload x)]
    ++ optChunk LOFF (x.large.map (fun l => l.flatMap be64))

def mHeader (names : List Bytes) (x : Midx) : Bytes :=
  [77, 73, 68, 88, 1, 1, UInt8.ofNat (mChunks names x).length, 0] ++ be32 names.length

/-- the whole multi-pack-index file (`trailer` = the checksum, not modelled) -/
def mWrite (names : List Bytes) (x : Midx) (trailer : Bytes) : Bytes :=
  mHeader names x ++ (tocBytes (layout (mChunks names x) (12 + 12 * ((mChunks names x).length + 1)))
    ++ (((mChunks names x).map (·.2)).flatten ++ trailer))

/-! ### driver -/

def showErr : MErr → String
  | .corrupt => "err:corrupt" | .version => "err:version" | .hash => "err:hash"
  | .chunk e => "err:chunk:" ++ C14.showChunkErr e | .missing => "err:missing-chunk" | .names => "err:names"
  | .fanSize => "err:fan-size" | .size => "err:chunk-size"

def MidxFile.view (f : MidxFile) : C09.View where
  lookup := f.lookup
  lookupPrefix := f.lookupPrefix
  info := fun i => do
    let (p, o) ← f.packAndOffsetAt i
    some s!"{p},{o}"
  fanHex := C09.hexList C09.be32 f.fan
  tables := s!"{f.numObjects},{f.numIndices}," ++ ",".intercalate (f.names.map hexOfBytes)

def handle (args : List String) : String :=
  match args with
  | "midxraw" :: file :: "|" :: qs =>
    match bytesOfHex file with
    | none => "bad-op"
    | some data =>
      match MidxFile.at data with
      | none => "panic"
      | some (.error e) => showErr e
      | some (.ok f) => (C09.answers f.view qs).getD "bad-op"
  | "midxw" :: np :: rest =>
    -- the bytes the writer produces (without the trailing checksum) for the packs of a `midx` operation
    match np.toNat? with
    | none => "bad-op"
    | some n =>
      match C09.parsePacks? n rest with
      | some (ps, []) =>
        match C09.midxBuild ps with
        | none => "panic"
        | some x =>
          let pad (k : Nat) : String := String.ofList (List.replicate (4 - (toString k).length) '0') ++ toString k
          let names := (List.range n).map fun k => ("pack-" ++ pad k ++ ".idx").toUTF8.toList
          hexOfBytes (mWrite names x [])
      | _ => "bad-op"
  | _ => C09.handle args

end GixModel.C09M
