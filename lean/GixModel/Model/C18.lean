import GixModel.Spec.C18
/-
C18 — Reference lookup and iteration match git.  MODEL (executable; `handle` is the driver glue).

Rust code modelled (all under /repo, after the six `fix:` commits recorded in known-findings.txt):
  gix-features/src/fs.rs        walkdir_sorted_by_path_new → `sortF cmpRepaired` (per-directory sort with the
                                comparator `shared::cmp_entry_names`; the comparator used before the
                                fix — plain file-name order — is kept as `cmpLegacy`), depth-first walk
                                of the sorted directory = `walk`
  gix-ref/src/store/file/loose/iter.rs     SortedLoosePaths::next  → `looseItems` (files only, full
                                name = path relative to the git dir, optional full-name prefix filter,
                                `name_partial` validity filter = parameter `valid`)
  gix-ref/src/store/packed/iter.rs         packed::Iter / Buffer::iter_prefixed → `packedPrefixed`
                                (start at the first record ≥ prefix, stop at the first record that
                                does not start with it)
  gix-ref/src/store/file/overlay_iter.rs   LooseThenPacked::next → `merge` (peek both, compare names,
                                loose wins on equal and the packed record is dropped),
                                IterInfo::from_prefix / iter_from_info → `iterPrefixed`,
                                iter_packed → `iterAll`
  gix-ref/src/store/file/find.rs           find_one_with_verified_input / find_inner / ref_contents
                                → `candidates`, `lookupRef`, `find`
  gix-ref/src/name.rs           looks_like_full_name, construct_full_name_ref, is_pseudo_ref

The store: `Store.at(git_dir)` — no namespace, no linked worktree (one loose iterator), object
hash SHA-1. The git directory is a `Forest` (a directory listing in *readdir* order, arbitrary);
packed-refs is the list of its records in file order (the file carries the `sorted` trait; C19 is
the property about opening/sorting/searching it). Ref values are abstract: a commit number, a
symbolic target, or unparsable content (`broken` — the iterator yields an error item for it).
Outside the model: I/O errors, symlinks, precomposed unicode, namespaces, worktree categories
(`main-worktree/`, `worktrees/`, `refs/worktree/` …).
-/
namespace GixModel.C18
open GixModel

/-! ### the loose store: a directory tree -/

/-- A directory listing: a chain of entries, each a file (with the value its content parses to) or
a directory (with its own listing). -/
inductive Forest where
  | nil
  | file (name : Bytes) (t : Target) (rest : Forest)
  | dir (name : Bytes) (sub : Forest) (rest : Forest)
  deriving Repr

/-- comparator on directory entries: name and is-directory flag of both sides -/
abbrev Cmp := Bytes → Bool → Bytes → Bool → Ordering

/-- before the fix: `sort_by_file_name()` / jwalk's `sort(true)` -/
def cmpLegacy : Cmp := fun a _ b _ => cmpB a b

/-- `<Option<&u8> as Ord>::cmp`: `None < Some(_)` -/
def cmpOpt : Option UInt8 → Option UInt8 → Ordering
  | none, none => .eq
  | none, some _ => .lt
  | some _, none => .gt
  | some a, some b => if a.toNat < b.toNat then .lt else if b.toNat < a.toNat then .gt else .eq

/-- `gix_features::fs::shared::cmp_entry_names`: compare the common-length prefixes, then the next
byte, where a directory whose name is exhausted continues with `/` -/
def cmpRepaired : Cmp := fun a ad b bd =>
  let common := min a.length b.length
  match cmpB (a.take common) (b.take common) with
  | .eq =>
    cmpOpt ((a[common]?).orElse fun _ => if ad then some 47 else none)
           ((b[common]?).orElse fun _ => if bd then some 47 else none)
  | o => o

/-- stable insertion of a file entry into an already sorted listing -/
def insFile (cmp : Cmp) (n : Bytes) (t : Target) : Forest → Forest
  | .nil => .file n t .nil
  | .file m u rest =>
    if cmp n false m false = .gt then .file m u (insFile cmp n t rest) else .file n t (.file m u rest)
  | .dir m s rest =>
    if cmp n false m true = .gt then .dir m s (insFile cmp n t rest) else .file n t (.dir m s rest)

def insDir (cmp : Cmp) (n : Bytes) (sub : Forest) : Forest → Forest
  | .nil => .dir n sub .nil
  | .file m u rest =>
    if cmp n true m false = .gt then .file m u (insDir cmp n sub rest) else .dir n sub (.file m u rest)
  | .dir m s rest =>
    if cmp n true m true = .gt then .dir m s (insDir cmp n sub rest) else .dir n sub (.dir m s rest)

/-- what the sorted walker sees: every directory's entries sorted with `cmp` (Rust's stable sort;
any stable sort computes the same list) -/
def sortF (cmp : Cmp) : Forest → Forest
  | .nil => .nil
  | .file n t rest => insFile cmp n t (sortF cmp rest)
  | .dir n sub rest => insDir cmp n (sortF cmp sub) (sortF cmp rest)

/-- depth-first walk in listing order; `pre` is the path of the directory relative to the git
dir, ending in `/` (or empty); yields the files only, like `SortedLoosePaths` -/
def walk (pre : Bytes) : Forest → List Item
  | .nil => []
  | .file n t rest => (pre ++ n, t) :: walk pre rest
  | .dir n sub rest => walk (pre ++ n ++ [47]) sub ++ walk pre rest

/-- entry lookup in one directory (first match, like the file system: names are unique) -/
def findEntry (c : Bytes) : Forest → Option (Target ⊕ Forest)
  | .nil => none
  | .file m u rest => if m = c then some (.inl u) else findEntry c rest
  | .dir m s rest => if m = c then some (.inr s) else findEntry c rest

/-- path lookup: `some (inl t)` a file, `some (inr sub)` a directory, `none` missing (incl. a file
in the middle of the path, ENOTDIR) -/
def lookup (f : Forest) : List Bytes → Option (Target ⊕ Forest)
  | [] => some (.inr f)
  | c :: cs =>
    match findEntry c f with
    | some (.inr sub) => lookup sub cs
    | some (.inl t) => if cs.isEmpty then some (.inl t) else none
    | none => none

/-- `a/b/c` → `[a, b, c]`; the empty string has no component; a trailing slash is ignored (like
`Path` does) -/
def splitAux : Bytes → Bytes → List Bytes
  | [], cur => if cur.isEmpty then [] else [cur.reverse]
  | b :: rest, cur => if b = 47 then cur.reverse :: splitAux rest [] else splitAux rest (b :: cur)

def splitPath (p : Bytes) : List Bytes := splitAux p []

/-- the path of directory `comps` as a name prefix: every component followed by `/` (empty for
the git dir itself) -/
def dirPrefix : List Bytes → Bytes
  | [] => []
  | c :: cs => c ++ 47 :: dirPrefix cs

/-! ### iteration -/

/-- `SortedLoosePaths` over directory `comps` of git dir `g`: nothing unless it is a directory
(`path.is_dir().then(..)`), else the sorted walk, files only, filtered by the optional full-name
prefix and by `name_partial` validity -/
def looseItems (cmp : Cmp) (valid : Name → Bool) (g : Forest) (comps : List Bytes)
    (namePrefix : Option Bytes) : List Item :=
  match lookup g comps with
  | some (.inr sub) =>
    ((walk (dirPrefix comps) (sortF cmp sub)).filter fun x =>
      match namePrefix with
      | some p => startsWith p x.1
      | none => true).filter fun x => valid x.1
  | _ => []

/-- `LooseThenPacked::next` without common dir: the merge of two peekable streams. `mergeOne l k`
is the state "loose head `l` peeked, `k` = the rest of the loose stream merged with …" -/
def mergeOne (l : Item) (k : List Item → List Item) : List Item → List Item
  | [] => l :: k []
  | p :: ps =>
    match cmpB l.1 p.1 with
    | .lt => l :: k (p :: ps)
    | .eq => l :: k ps
    | .gt => p :: mergeOne l k ps

def merge : List Item → List Item → List Item
  | [], ps => ps
  | l :: ls, ps => mergeOne l (merge ls) ps

/-- `Buffer::iter_prefixed` + the prefix check in `packed::Iter::next` -/
def packedPrefixed (p : List Item) (pre : Bytes) : List Item :=
  (p.dropWhile fun x => cmpB x.1 pre = .lt).takeWhile fun x => startsWith pre x.1

def refsC : Bytes := [114, 101, 102, 115]            -- "refs"

/-- `file::Store::iter()?.all()` -/
def iterAll (cmp : Cmp) (valid : Name → Bool) (g : Forest) (p : List Item) : List Item :=
  merge (looseItems cmp valid g [refsC] none) p

def dropTrailingSlash (p : Bytes) : Bytes :=
  match p.getLast? with
  | some 47 => p.dropLast
  | _ => p

/-- `file::Store::iter()?.prefixed(prefix)` → `IterInfo::from_prefix` -/
def iterPrefixed (cmp : Cmp) (valid : Name → Bool) (g : Forest) (p : List Item) (pre : Bytes) : List Item :=
  let comps := splitPath pre
  match lookup g comps with
  | some (.inr _) =>
    -- BaseAndIterRoot: walk the directory; packed prefix = `prefix.join("")`
    merge (looseItems cmp valid g comps none) (packedPrefixed p (dropTrailingSlash pre ++ [47]))
  | _ =>
    -- ComputedIterationRoot: walk the parent, keep full names starting with the prefix
    merge (looseItems cmp valid g comps.dropLast (some pre)) (packedPrefixed p pre)

/-! ### lookup (DWIM) -/

def isPseudoRef (n : Name) : Bool := n.all fun b => (65 ≤ b.toNat && b.toNat ≤ 90) || b = 95

/-- `PartialNameRef::looks_like_full_name(consider_pseudo_ref)` -/
def looksFull (n : Name) (considerPseudo : Bool) : Bool :=
  startsWith refsSlash n || startsWith mainWt n || startsWith worktrees n || (considerPseudo && isPseudoRef n)

/-- `construct_full_name_ref(inbetween, buf, consider_pseudo_ref)` -/
def construct (n : Name) (inbetween : Bytes) (considerPseudo : Bool) : Name :=
  (if looksFull n considerPseudo then [] else refsSlash) ++
  (if inbetween.isEmpty then [] else inbetween ++ [47]) ++ n

def inbetweens : List Bytes := [[], tagsC, headsC, remotesC]

/-- the full names `find_one_with_verified_input` probes, in order -/
def candidates (n : Name) : List Name :=
  (if isPseudoRef n then [construct n [] true] ++ inbetweens.map (fun i => construct n i false)
   else inbetweens.map (fun i => construct n i true)) ++
  (if n = headName then [] else [construct (n ++ 47 :: headName) remotesC false])

/-- `find_inner`: the loose file if there is one (a directory or a file in the middle of the path
count as missing), else the packed record -/
def lookupRef (g : Forest) (p : List Item) (full : Name) : Option Target :=
  match lookup g (splitPath full) with
  | some (.inl t) => some t
  | _ => (p.find? fun x => x.1 = full).map (·.2)

/-- first candidate that exists; unparsable content of a loose candidate aborts the search -/
def findIn (g : Forest) (p : List Item) : List Name → Found
  | [] => .none
  | c :: cs =>
    match lookupRef g p c with
    | some .broken => .err
    | some t => .ref c t
    | none => findIn g p cs

def find (g : Forest) (p : List Item) (n : Name) : Found := findIn g p (candidates n)

/-! ### driver instantiation of `valid` (`gix_validate::reference::name_partial`; C15 is the
property about it — every theorem here quantifies over `valid`) -/

def hasSub (pat : Bytes) : Bytes → Bool
  | [] => pat.isEmpty
  | b :: rest => (pat.isPrefixOf (b :: rest)) || hasSub pat rest

def forbiddenByte (b : UInt8) : Bool :=
  b = 92 || b = 94 || b = 58 || b = 91 || b = 63 || b = 32 || b = 126 || b ≤ 31 || b = 127 || b = 42

def validPartial (n : Bytes) : Bool :=
  !n.isEmpty && n.getLast? != some 47 && n.head? != some 47 && n.all (fun b => !forbiddenByte b)
    && !hasSub [46, 46] n && !hasSub [47, 46] n && !hasSub [64, 123] n && !hasSub [47, 47] n
    && !hasSub [46, 108, 111, 99, 107, 47] n
    && !([46, 108, 111, 99, 107] : Bytes).reverse.isPrefixOf n.reverse
    && n.head? != some 46 && n.getLast? != some 46 && n != [64]

/-! ### building a git dir from the op line (driver glue) -/

def hasEntry (c : Bytes) (f : Forest) : Bool := (findEntry c f).isSome

def appendFile (c : Bytes) (t : Target) : Forest → Forest
  | .nil => .file c t .nil
  | .file m u rest => .file m u (appendFile c t rest)
  | .dir m s rest => .dir m s (appendFile c t rest)

/-- apply `k` to the listing of directory `c`, creating it (at the end) if missing -/
def updDir (c : Bytes) (k : Forest → Option Forest) : Forest → Option Forest
  | .nil => (k .nil).map fun s => .dir c s .nil
  | .file m u rest => if m = c then none else (updDir c k rest).map (.file m u)
  | .dir m s rest => if m = c then (k s).map fun s' => .dir m s' rest else (updDir c k rest).map (.dir m s)

def addFile : List Bytes → Target → Forest → Option Forest
  | [], _, _ => none
  | [c], t, f => if hasEntry c f || c.isEmpty then none else some (appendFile c t f)
  | c :: cs, t, f => if c.isEmpty then none else updDir c (addFile cs t) f

def addDir : List Bytes → Forest → Option Forest
  | [], f => some f
  | c :: cs, f => if c.isEmpty then none else updDir c (addDir cs) f

/-! ### line protocol -/

def parseVal (v : String) : Option Target :=
  if v == "!" then some .broken
  else if v.startsWith "@" then some (.sym (bytesOfString (v.drop 1).toString))
  else v.toNat?.map .id

def parseList (s : String) : List String := if s == "-" then [] else s.splitOn ","

def parseEntry (e : String) : Option (Bytes × Target) :=
  match e.splitOn ":" with
  | [n, v] => (parseVal v).map fun t => (bytesOfString n, t)
  | _ => none

def buildDir (loose dirs : String) : Option Forest := do
  let g0 ← addDir [refsC] .nil
  let g1 ← (parseList dirs).foldlM (fun g d => addDir (splitPath (bytesOfString d)) g) g0
  let entries ← (parseList loose).mapM parseEntry
  entries.foldlM (fun g e => addFile (splitPath e.1) e.2 g) g1

def parsePacked (packed : String) : Option (List Item) := (parseList packed).mapM parseEntry

def showVal : Target → String
  | .id n => toString n
  | .sym t => "@" ++ asciiOfBytes t
  | .broken => "!"

def showItems (xs : List Item) : String :=
  if xs.isEmpty then "-" else " ".intercalate (xs.map fun x => asciiOfBytes x.1 ++ "=" ++ showVal x.2)

def showFound : Found → String
  | .ref n t => asciiOfBytes n ++ "=" ++ showVal t
  | .none => "none"
  | .err => "err:broken"

def showResolved (look : Name → Option Target) (n : Name) : String :=
  match Spec.resolve look 8 n with
  | some i => toString i
  | none => "?"

def handle? : List String → Option String
  | ["all", l, p, d] => do
    let g ← buildDir l d
    let p ← parsePacked p
    some (showItems (iterAll cmpRepaired validPartial g p))
  | ["pre", l, p, d, pre] => do
    let g ← buildDir l d
    let p ← parsePacked p
    some (showItems (iterPrefixed cmpRepaired validPartial g p (bytesOfString pre)))
  | ["find", l, p, d, n] => do
    let g ← buildDir l d
    let p ← parsePacked p
    if !validPartial (bytesOfString n) then some "err:name" else
    some (showFound (find g p (bytesOfString n)))
  | ["gitall", l, p, d] => do
    let g ← buildDir l d
    let p ← parsePacked p
    let r ← match lookup g [refsC] with
      | some (.inr r) => some r
      | _ => none
    let xs := Spec.forEachRef validPartial (walk (dirPrefix [refsC]) r) p
    some (if xs.isEmpty then "-" else
      " ".intercalate (xs.map fun x => asciiOfBytes x.1 ++ "=" ++ showResolved (lookupRef g p) x.1))
  | ["gitdwim", l, p, d, n] => do
    let g ← buildDir l d
    let p ← parsePacked p
    -- git refuses names failing `check_refname_format` before expanding them
    if !validPartial (bytesOfString n) then some "none" else
    match Spec.dwim (lookupRef g p) (bytesOfString n) with
    | .ref r _ => some (showResolved (lookupRef g p) r)
    | _ => some "none"
  | _ => none

def handle (args : List String) : String := (handle? args).getD "bad-op"

end GixModel.C18
