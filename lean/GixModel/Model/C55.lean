import GixModel.Basic.Hex
/-
C55 — model of gix-worktree-stream's pipe protocol and tree traversal.

Rust functions modelled (/repo/gix-worktree-stream/src):
  protocol.rs   write_entry_header_and_path, write_stream, read_entry_info, mode_to_byte/byte_to_mode
  entry.rs      Stream::next_entry, Entry::{fill_buf, read}, Drop for Entry
  from_tree/{mod,traverse}.rs   run (tree part + additional entries), Delegate::{visit_tree, handle_entry,
                push_element}; gix_traverse::tree::breadthfirst as the queue discipline it is
External, as parameters or plain byte streams:
  the pipe (`gix_features::io::pipe`): a reliable byte stream — `Reader::read(out)` fills `out`
  completely unless the writer is gone (read off the code: its loop only ends on `out.is_empty()`
  or a closed channel), so a `Vec<u8>` of everything written is the channel state;
  the attribute lookup (`export-ignore`) and the filter pipeline are parameters `ign` / `conv`.
`usize` is 64 bit.
-/
namespace GixModel.C55
open GixModel

/-- `n.to_le_bytes()` truncated to `k` bytes (so `as u16` / `usize` wrap-around is what is written) -/
def le : Nat → Nat → Bytes
  | 0, _ => []
  | k + 1, n => UInt8.ofNat (n % 256) :: le k (n / 256)

/-- `from_le_bytes` -/
def ofLe : Bytes → Nat
  | [] => 0
  | b :: r => b.toNat + 256 * ofLe r

def usizeMax : Nat := 18446744073709551615

/-- `BUF_LEN = u16::MAX as usize` in `write_stream` -/
def bufLen : Nat := 65535

/-- how the producer got the content -/
inductive Body
  /-- `stream_len = Some(len)`: the bytes are written as they are -/
  | known (content : Bytes)
  /-- `stream_len = None`: `write_stream`; `reads` are the successive `Ok(n)`, `n > 0`, results of
  `input.read(buf)` (`Interrupted` errors are retried and leave no trace) -/
  | chunks (reads : List Bytes)
  deriving Repr, DecidableEq

structure Entry where
  path : Bytes
  /-- `mode_to_byte`: 0 tree, 1 blob, 2 executable, 3 link, 4 commit -/
  kind : Nat
  id : Bytes
  body : Body
  deriving Repr, DecidableEq

def Body.content : Body → Bytes
  | .known c => c
  | .chunks rs => rs.flatten

def Body.declared : Body → Option Nat
  | .known c => some c.length
  | .chunks _ => none

/-- `write_stream` -/
def writeStream (reads : List Bytes) : Bytes :=
  reads.flatMap (fun c => le 2 c.length ++ c) ++ le 2 0

/-- `write_entry_header_and_path` followed by the body -/
def encodeEntry (e : Entry) : Bytes :=
  le 8 e.path.length ++ le 8 (match e.body.declared with | some n => n | none => usizeMax)
    ++ [UInt8.ofNat e.kind, 0] ++ e.id ++ e.path ++
  (match e.body with
   | .known c => c
   | .chunks rs => writeStream rs)

def encodeAll (es : List Entry) : Bytes := es.flatMap encodeEntry

/-! ### the consumer side -/

/-- `read_exact(k)` on the pipe: `none` = `UnexpectedEof` -/
def readExact (k : Nat) (inp : Bytes) : Option (Bytes × Bytes) :=
  if (inp.take k).length = k then some (inp.take k, inp.drop k) else none

inductive Info
  | eof                       -- `Ok(None)`: "the other side dropped"
  | panic                     -- `unreachable!("BUG: we control the protocol")`
  | ok (remaining : Option Nat) (kind : Nat) (id path rest : Bytes)
  deriving Repr, DecidableEq

/-- `read_entry_info` as seen through `next_entry` -/
def readEntryInfo (inp : Bytes) : Info :=
  match readExact 18 inp with
  | none => .eof
  | some (hdr, r1) =>
    let pathLen := ofLe (hdr.take 8)
    let streamLen := ofLe ((hdr.drop 8).take 8)
    let modeB := ((hdr.drop 16).headD 0).toNat
    let hashB := ((hdr.drop 17).headD 0).toNat
    if modeB > 4 then .panic
    else if hashB ≠ 0 then .panic
    else match readExact 20 r1 with
      | none => .eof
      | some (id, r2) =>
        match readExact pathLen r2 with
        | none => .eof
        | some (path, r3) => .ok (if streamLen = usizeMax then none else some streamLen) modeB id path r3

/-- the pipe and `Stream::buf[pos..filled]` -/
structure RState where
  inp : Bytes
  pending : Bytes
  deriving Repr, DecidableEq

inductive ReadRes
  | err
  | ok (out : Bytes) (st : RState) (remaining : Option Nat)
  deriving Repr, DecidableEq

/-- `<Entry as Read>::read(buf)` with `buf.len() = bufsz` -/
def entryRead (st : RState) (remaining : Option Nat) (bufsz : Nat) : ReadRes :=
  if bufsz = 0 then .ok [] st remaining      -- an empty buffer: `Ok(0)`, nothing changes
  else match remaining with
  | none =>
    -- fill_buf
    let filled : Option RState :=
      if st.pending.isEmpty then
        match readExact 2 st.inp with
        | none => none
        | some (nbB, r) =>
          let nb := ofLe nbB
          if nb = 0 then some { inp := r, pending := [] }
          else match readExact nb r with
            | none => none
            | some (chunk, r') => some { inp := r', pending := chunk }
      else some st
    match filled with
    | none => .err
    | some st' =>
      let nb := min st'.pending.length bufsz
      .ok (st'.pending.take nb) { st' with pending := st'.pending.drop nb } (if nb = 0 then some 0 else none)
  | some rem =>
    let n := min bufsz rem
    let out := st.inp.take n
    .ok out { st with inp := st.inp.drop n } (if out.length = 0 then some 0 else some (rem - out.length))

/-- a consumer reading to the end (`io::copy`, `read_to_end`): `read` with buffers of sizes
`sz i, sz (i+1), …` until it returns 0; `acc` holds what the reads returned so far, latest first.
`none`: an I/O error or out of fuel. -/
def consume (sz : Nat → Nat) : Nat → Nat → RState → Option Nat → List Bytes → Option (Bytes × RState × Nat)
  | 0, _, _, _, _ => none
  | fuel + 1, i, st, rem, acc =>
    match entryRead st rem (sz i) with
    | .err => none
    | .ok out st' rem' =>
      if out.isEmpty then some (acc.reverse.flatten, st', i + 1)
      else consume sz fuel (i + 1) st' rem' (out :: acc)

/-- what a consumer sees of one entry -/
structure Seen where
  path : Bytes
  kind : Nat
  id : Bytes
  declared : Option Nat
  content : Bytes
  deriving Repr, DecidableEq

inductive Decoded
  | ok (es : List Seen)
  | panic (es : List Seen)
  | ioErr (es : List Seen)
  deriving Repr, DecidableEq

def Decoded.cons (s : Seen) : Decoded → Decoded
  | .ok es => .ok (s :: es)
  | .panic es => .panic (s :: es)
  | .ioErr es => .ioErr (s :: es)

/-- `while let Some(entry) = stream.next_entry()? { read entry to the end }` -/
def decodeLoop (sz : Nat → Nat) : Nat → Nat → RState → Decoded
  | 0, _, _ => .ioErr []
  | fuel + 1, i, st =>
    match readEntryInfo st.inp with
    | .eof => .ok []
    | .panic => .panic []
    | .ok rem kind id path rest =>
      match consume sz (rest.length + st.pending.length + 2) i { st with inp := rest } rem [] with
      | none => .ioErr []
      | some (content, st', i') =>
        (decodeLoop sz fuel i' st').cons { path, kind, id, declared := rem, content }

def decodeAll (sz : Nat → Nat) (stream : Bytes) : Decoded :=
  decodeLoop sz (stream.length + 1) 0 { inp := stream, pending := [] }

def seenOf (e : Entry) : Seen :=
  { path := e.path, kind := e.kind, id := e.id, declared := e.body.declared, content := e.body.content }

/-! ### from_tree -/

mutual
  inductive Node
    /-- blob (kind 1), executable (2) or symlink (3) -/
    | blob (kind : Nat) (id content : Bytes)
    /-- a submodule entry -/
    | commit (id : Bytes)
    | tree (children : Forest)
  inductive Forest
    | nil
    | cons (name : Bytes) (node : Node) (rest : Forest)
end

/-- `Delegate::push_element` -/
def joinPath (pre name : Bytes) : Bytes := if pre.isEmpty then name else pre ++ [47] ++ name

/-- one pass over the entries of a tree (the `for entry in tree` loop of breadthfirst with
`Delegate::{visit_tree, visit_nontree}`): entries written to the pipe, and the directories queued.
`ign path kind` = the `export-ignore` attribute is set; `conv path content` = `convert_to_worktree`. -/
def scan (ign : Bytes → Nat → Bool) (conv : Bytes → Bytes → Bytes) (pre : Bytes) :
    Forest → List Entry × List (Bytes × Forest)
  | .nil => ([], [])
  | .cons name node rest =>
    let p := joinPath pre name
    let (es, ds) := scan ign conv pre rest
    match node with
    | .tree cs => if ign p 0 then (es, ds) else (es, (p, cs) :: ds)
    | .commit _ => (es, ds)
    | .blob kind id content =>
      if ign p kind then (es, ds)
      else ({ path := p, kind, id, body := .known (conv p content) } :: es, ds)

/-- breadth-first: the front directory is scanned, its sub-directories go to the back -/
def bfs (ign : Bytes → Nat → Bool) (conv : Bytes → Bytes → Bytes) :
    Nat → List (Bytes × Forest) → List Entry
  | 0, _ => []
  | _ + 1, [] => []
  | fuel + 1, (pre, f) :: q =>
    (scan ign conv pre f).1 ++ bfs ign conv fuel (q ++ (scan ign conv pre f).2)

mutual
  def Node.trees : Node → Nat
    | .blob _ _ _ => 0
    | .commit _ => 0
    | .tree cs => 1 + cs.trees
  def Forest.trees : Forest → Nat
    | .nil => 0
    | .cons _ n rest => n.trees + rest.trees
end

/-- everything `run` writes for the tree `root`, before the additional entries -/
def fromTree (ign : Bytes → Nat → Bool) (conv : Bytes → Bytes → Bytes) (root : Forest) : List Entry :=
  bfs ign conv (root.trees + 1) [([], root)]

/-! ### driver -/

def fnv64 (bs : Bytes) : Nat :=
  bs.foldl (fun h b => ((h ^^^ b.toNat) * 0x100000001b3) % 18446744073709551616) 0xcbf29ce484222325

def lcgGo : Nat → Nat → Bytes → Bytes
  | 0, _, acc => acc.reverse
  | n + 1, x, acc =>
    let x' := (x * 1103515245 + 12345) % 2147483648
    lcgGo n x' (UInt8.ofNat ((x' / 65536) % 256) :: acc)

def lcgBytes (n x : Nat) : Bytes := lcgGo n x []

/-- content given as `h:<hex>`, `r:<seed>:<len>` (pseudo random) or `z:<byte>:<len>` (repeated) -/
def contentOf (s : String) : Option Bytes :=
  match s.splitOn ":" with
  | ["h", x] => bytesOfHex x
  | ["r", seed, len] => do
    let seed ← seed.toNat?
    let len ← len.toNat?
    some (lcgBytes len seed)
  | ["z", b, len] => do
    let b ← b.toNat?
    let len ← len.toNat?
    some (List.replicate len (UInt8.ofNat b))
  | _ => none

def hex16 (n : Nat) : String :=
  String.ofList ((List.range 16).reverse.map fun i => hexDigit ((n / 16 ^ i) % 16))

def bytesSummary (bs : Bytes) : String :=
  if bs.length ≤ 48 then s!"{bs.length}:{hexOfBytes bs}" else s!"{bs.length}:#{hex16 (fnv64 bs)}"

def seenStr (s : Seen) : String :=
  let d := match s.declared with | none => "?" | some n => toString n
  s!"{hexOfBytes s.path},{s.kind},{hexOfBytes s.id},{d},{bytesSummary s.content}"

def joinWith (sep : String) : List String → String
  | [] => "-"
  | x :: xs => xs.foldl (fun acc s => acc ++ sep ++ s) x

def decodedStr : Decoded → String
  | .ok es => "ok " ++ joinWith "|" (es.map seenStr)
  | .panic es => "panic " ++ joinWith "|" (es.map seenStr)
  | .ioErr es => "err " ++ joinWith "|" (es.map seenStr)

/-- split `content` into pieces of the given sizes (cycled), every piece non-empty -/
def splitGo : Nat → List Nat → Nat → Bytes → List Bytes → List Bytes
  | 0, _, _, _, acc => acc.reverse
  | fuel + 1, sizes, i, bs, acc =>
    if bs.isEmpty then acc.reverse
    else
      let n := max 1 (sizes.getD (i % (max 1 sizes.length)) 1)
      splitGo fuel sizes (i + 1) (bs.drop n) (bs.take n :: acc)

def splitBy (fuel : Nat) (sizes : List Nat) (i : Nat) (bs : Bytes) : List Bytes := splitGo fuel sizes i bs []

def natList (s : String) : Option (List Nat) :=
  if s == "-" then some [] else (s.splitOn ",").mapM (·.toNat?)

/-- the consumer's buffer sizes: the list cycled; a 0 in the list is a read with an empty buffer, which
leaves everything as it is (`zero_read_noop`) and is therefore skipped here -/
def szOf (l : List Nat) : Nat → Nat :=
  let l' := l.filter (· ≠ 0)
  fun i => max 1 (l'.getD (i % (max 1 l'.length)) 1)

/-- entries on the op line: `<path> <kind> <id> <m|c:<sizes>> <content>` -/
def entriesOf : List String → Option (List Entry)
  | [] => some []
  | p :: k :: id :: how :: c :: rest => do
    let p ← bytesOfHex p
    let k ← k.toNat?
    let id ← bytesOfHex id
    let c ← contentOf c
    let body ←
      (if how == "m" then some (Body.known c)
       else match how.splitOn ":" with
         | ["c", sizes] => do
           let sizes ← natList sizes
           some (Body.chunks (splitBy (c.length + 1) sizes 0 c))
         | _ => none)
    let r ← entriesOf rest
    some ({ path := p, kind := k, id, body } :: r)
  | _ => none

/-- forest on the op line (pre-order): `d <name>` … `u`, `f <name> <kind> <id> <content>`, `g <name> <id>` -/
def forestOf : Nat → List String → Option (Forest × List String)
  | 0, _ => none
  | _ + 1, [] => some (.nil, [])
  | _ + 1, "u" :: rest => some (.nil, rest)
  | _ + 1, "." :: rest => some (.nil, "." :: rest)
  | fuel + 1, "d" :: name :: rest => do
    let name ← bytesOfHex name
    let (cs, rest) ← forestOf fuel rest
    let (sib, rest) ← forestOf fuel rest
    some (.cons name (.tree cs) sib, rest)
  | fuel + 1, "f" :: name :: kind :: id :: c :: rest => do
    let name ← bytesOfHex name
    let kind ← kind.toNat?
    let id ← bytesOfHex id
    let c ← contentOf c
    let (sib, rest) ← forestOf fuel rest
    some (.cons name (.blob kind id c) sib, rest)
  | fuel + 1, "g" :: name :: id :: rest => do
    let name ← bytesOfHex name
    let id ← bytesOfHex id
    let (sib, rest) ← forestOf fuel rest
    some (.cons name (.commit id) sib, rest)
  | _, _ => none

def handle? : List String → Option String
  | "enc" :: rest => do
    -- the raw bytes of the pipe for these (additional) entries
    let es ← entriesOf rest
    some (bytesSummary (encodeAll es))
  | "dec" :: sizes :: [stream] => do
    let sizes ← natList sizes
    let s ← bytesOfHex stream
    some (decodedStr (decodeAll (szOf sizes) s))
  | "rt" :: sizes :: rest => do
    -- encode with the model, decode with the model: what the real decoder must see as well
    let sizes ← natList sizes
    let es ← entriesOf rest
    some (decodedStr (decodeAll (szOf sizes) (encodeAll es)))
  | "tree" :: sizes :: rest => do
    -- stream of a tree (no export-ignore, identity filter) plus additional entries after "."
    let sizes ← natList sizes
    let (root, rest) ← forestOf (rest.length + 2) rest
    match rest with
    | "." :: extra => do
      let extra ← entriesOf extra
      some (decodedStr (decodeAll (szOf sizes) (encodeAll (fromTree (fun _ _ => false) (fun _ c => c) root ++ extra))))
    | _ => none
  | _ => none

def handle (args : List String) : String := (handle? args).getD "bad-op"

end GixModel.C55
