import GixModel.Model.C10Core
import GixModel.Model.C10Inject
/-
C10 — driver protocol for the models of `Model/C10Core.lean` and `Model/C10Inject.lean`.

  `trav <seed> <workers> r:<children>|<children>|… k:<children>|…`
        the delta forest of a pack (children lists as indices into the `k:` array, `.`-separated, `-` =
        none); the traversal is run under three different pseudo-random schedules (seeds `seed`,
        `seed+1`, `seed+2` with `workers`, 1 and 16 workers). Values are `(root index, depth)`:
        `decodeRoot i = (i, 0)`, `applyDelta (r, d) _ = (r, d + 1)`.
        Output: `ok=<forest check> term=<all three runs terminal> once=<every item written exactly once>
        indep=<the three runs gave the same items> vals=<root:depth per item, roots then children>`
  `persist <pack exists> <idx exists> <fail>`   `inner_write` with `fail` = `none` | `index` (error while
        the index is produced). Output: `pack=… idx=… keep=… tmp=…` (new keep file; tempfiles left)
  `inject <entries> | <odb sizes>`   see `Model/C10Inject.lean`
-/
namespace GixModel.C10

def parseList (s : String) : Option (List Nat) :=
  if s == "-" || s.isEmpty then some [] else (s.splitOn ".").mapM fun x => x.toNat?

def parseLists (s : String) : Option (List (List Nat)) :=
  if s.isEmpty then some [] else (s.splitOn "|").mapM parseList

def lcg (x : Nat) : Nat := (x * 6364136223846793005 + 1442695040888963407) % 18446744073709551616

def depthCodec : Codec (Nat × Nat) (Nat × Nat) :=
  { decodeRoot := fun i => (i, 0), applyDelta := fun v _ => (v.1, v.2 + 1), hash := fun v => v }

/-- a pseudo-random scheduler: picks a worker; an idle worker takes a random available node or claims
the next root, a busy one handles its next child or finishes -/
def schedRun (f : Forest) (k : Nat) : Nat → Nat → St (Nat × Nat) (Nat × Nat) → St (Nat × Nat) (Nat × Nat)
  | 0, _, s => s
  | fuel + 1, rnd, s =>
    let rnd := lcg rnd
    let t := (rnd / 65536) % k
    let ev : Ev :=
      match s.workers t with
      | some w => if w.rem.isEmpty then Ev.done t else Ev.child t
      | none =>
        let rnd2 := lcg rnd
        if s.queue.isEmpty || (s.nextRoot < f.roots.length && (rnd2 / 65536) % 3 == 0) then Ev.claim
        else Ev.pop t ((rnd2 / 65536) % s.queue.length)
    match step f depthCodec s ev with
    | some s' => schedRun f k fuel rnd s'
    | none => schedRun f k fuel rnd s

def isTerminal (f : Forest) (k : Nat) (s : St (Nat × Nat) (Nat × Nat)) : Bool :=
  s.nextRoot == f.roots.length && s.queue.isEmpty && (List.range k).all fun t => (s.workers t).isNone

def showItems (l : List (Node × Option (Nat × Nat))) : String :=
  ",".intercalate (l.map fun p => match p.2 with
    | some v => s!"{v.1}:{v.2}"
    | none => "?")

def travOp (seed k : Nat) (f : Forest) : String :=
  let n := f.roots.length + f.kids.length
  let fuel := 40 * (n + 1) * (k + 1)
  let s1 := schedRun f k fuel seed (St.init _ _)
  let s2 := schedRun f 1 (40 * (n + 1) * 2) (seed + 1) (St.init _ _)
  let s3 := schedRun f 16 (40 * (n + 1) * 17) (seed + 2) (St.init _ _)
  let term := isTerminal f k s1 && isTerminal f 1 s2 && isTerminal f 16 s3
  let once := f.allNodes.all fun nd => s1.writes nd == 1 && s2.writes nd == 1 && s3.writes nd == 1
  let i1 := items f s1
  let indep := i1 == items f s2 && i1 == items f s3
  let b := fun (x : Bool) => if x then "1" else "0"
  s!"ok={b f.ok} term={b term} once={b once} panic={b (s1.panicked || s2.panicked || s3.panicked)} indep={b indep} vals={showItems i1}"

def persistOp (packExists idxExists : Bool) (fail : String) : Option String :=
  let d0 : Dir := { tmpPack := false, tmpPackComplete := false, tmpIdx := false, keep := false,
                    pack := packExists, packComplete := packExists, idx := idxExists }
  let d := match fail with
    | "none" => some (cleanup (pexec d0 protocol))   -- tempfiles that were not persisted are dropped
    | "index" => some (cleanup (pexec d0 (protocol.take 3)))
    | _ => none
  d.map fun d =>
    let b := fun (x : Bool) => if x then "1" else "0"
    s!"pack={b d.pack} idx={b d.idx} keep={b d.keep} tmp={b (d.tmpPack || d.tmpIdx)}"

def handle (args : List String) : String :=
  match args with
  | ["trav", seed, k, r, kd] =>
    match seed.toNat?, k.toNat?, parseLists ((r.drop 2).toString), parseLists ((kd.drop 2).toString) with
    | some seed, some k, some roots, some kids =>
      if k == 0 || !(r.startsWith "r:") || !(kd.startsWith "k:") then "bad-op"
      else travOp seed k { roots := roots, kids := kids }
    | _, _, _, _ => "bad-op"
  | ["persist", p, i, fail] =>
    if (p == "0" || p == "1") && (i == "0" || i == "1") then (persistOp (p == "1") (i == "1") fail).getD "bad-op"
    else "bad-op"
  | "inject" :: rest => (injectOp rest).getD "bad-op"
  | _ => "bad-op"

end GixModel.C10
