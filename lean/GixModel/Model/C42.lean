import GixModel.Basic.Hex
/-
C42 — model of `gix_fs::Stack::make_relative_path_current` (gix-fs/src/stack.rs) together with a
delegate that may reject any `push` / `push_directory` call.

Rust items modelled:
  std::path::Path::components (Unix)                      → `components`
  gix_fs::Stack::{new, make_relative_path_current}        → `Stack.new`, `makeCurrent`
  gix_fs::stack::Delegate::{push_directory, push, pop_directory} → `Delegate` (an ARBITRARY pair of
      functions of the whole call log so far and the call's arguments) and the recorded `Ev` log.

Paths are kept as lists of component names, DEEPEST COMPONENT FIRST (`PathBuf::push` = cons,
`PathBuf::pop` = tail); `current` is the part of `Stack::current()` below the root.
The log is kept newest event first.

`makeCurrent` is the code after the repair `fix: keep the path stack consistent when the delegate
rejects a component` (see known-findings.txt); `Legacy.makeCurrent` is the code as it was before
(kept because the check found the property FALSE for it; the witnesses are proved in
`Lemmas/C42.lean` and were replayed against the real code by the harness before the repair).
-/
namespace GixModel.C42
open GixModel

/-- `std::path::Component` on Unix (no prefixes). -/
inductive Comp
  | normal (name : Bytes)
  | parentDir
  | rootDir
  | curDir
  deriving DecidableEq, Repr

/-- split on `/` (47); always at least one segment -/
def splitSlash : Bytes → List Bytes
  | [] => [[]]
  | b :: rest =>
    if b == 47 then [] :: splitSlash rest
    else match splitSlash rest with
      | [] => [[b]]
      | s :: ss => (b :: s) :: ss

/-- `Components::parse_single_component`: empty and `.` segments vanish, `..` is `ParentDir` -/
def segComp (s : Bytes) : List Comp :=
  if s == [] then []
  else if s == [46] then []
  else if s == [46, 46] then [Comp.parentDir]
  else [Comp.normal s]

/-- `Path::components()` on Unix: a leading `/` gives `RootDir`; a leading `.` segment (path is `.`
or starts with `./`) gives `CurDir`; every other `.` and every empty segment is dropped. -/
def components (p : Bytes) : List Comp :=
  match splitSlash p with
  | [] => []
  | first :: rest =>
    if p.head? == some 47 then Comp.rootDir :: rest.flatMap segComp
    else if first == [46] then Comp.curDir :: rest.flatMap segComp
    else segComp first ++ rest.flatMap segComp

/-- a path below the root: component names, deepest first -/
abbrev RPath := List Bytes

structure Stack where
  /-- components of `current` below `root`, deepest first -/
  current : RPath
  /-- components of `current_relative`, deepest first -/
  currentRel : RPath
  valid : Nat
  isDir : Bool
  /-- the root directory was announced to the delegate (added by the repair) -/
  rootPushed : Bool
  deriving DecidableEq, Repr

def Stack.new : Stack :=
  { current := [], currentRel := [], valid := 0, isDir := true, rootPushed := false }

/-- one delegate call as recorded; paths are `stack.current_relative()` at the time of the call -/
inductive Ev
  | pushDir (path : RPath) (ok : Bool)
  | push (path : RPath) (isLast : Bool) (ok : Bool)
  /-- `left` is the directory that was just popped off (not visible to the real delegate) -/
  | popDir (left : RPath)
  deriving DecidableEq, Repr

/-- The delegate: whether a call succeeds may depend on everything that happened so far and on
the call's arguments, in any way. -/
structure Delegate where
  pushDirOk : List Ev → RPath → Bool
  pushOk : List Ev → RPath → Bool → Bool

inductive Outcome
  | ok
  | errEmpty        -- "empty inputs are not allowed"
  | errComponent    -- "contains relative or absolute components"
  | errDelegate     -- the delegate's error
  | panic           -- usize underflow (debug) — proved unreachable
  deriving DecidableEq, Repr

structure Res where
  s : Stack
  log : List Ev
  out : Outcome

/-- the `while let (Some(existing), Some(new)) = …` loop: number of matching leading components
and the components that are left. `existing` is root-side first. -/
def matching : List Bytes → List Comp → Nat × List Comp
  | e :: es, c :: cs =>
    if Comp.normal e = c then ((matching es cs).1 + 1, (matching es cs).2) else (0, c :: cs)
  | _, cs => (0, cs)

/-- `for _ in 0..k { current.pop(); current_relative.pop(); if is_dir { pop_directory() }; is_dir = true }` -/
def popLoop : Nat → Stack → List Ev → Stack × List Ev
  | 0, s, log => (s, log)
  | k + 1, s, log =>
    let log1 := if s.isDir then Ev.popDir s.currentRel :: log else log
    popLoop k { s with current := s.current.tail, currentRel := s.currentRel.tail, isDir := true } log1

def rollback (s : Stack) : Stack :=
  { s with current := s.current.tail, currentRel := s.currentRel.tail, valid := s.valid - 1, isDir := true }

/-- the `while let Some(comp) = components.next()` loop (repaired code) -/
def pushLoop (d : Delegate) : List Comp → Stack → List Ev → Res
  | [], s, log => ⟨s, log, .ok⟩
  | c :: rest, s, log =>
    match c with
    | .normal n =>
      let isLast := rest.isEmpty
      let s1 : Stack := { s with isDir := !isLast, current := n :: s.current,
                                 currentRel := n :: s.currentRel, valid := s.valid + 1 }
      let okP := d.pushOk log s1.currentRel isLast
      let log1 := Ev.push s1.currentRel isLast okP :: log
      if okP then
        if isLast then pushLoop d rest s1 log1
        else
          let okD := d.pushDirOk log1 s1.currentRel
          let log2 := Ev.pushDir s1.currentRel okD :: log1
          if okD then pushLoop d rest s1 log2
          else ⟨rollback s1, log2, .errDelegate⟩
      else ⟨rollback s1, log1, .errDelegate⟩
    | _ => ⟨s, log, .errComponent⟩

/-- everything after the root announcement -/
def afterRoot (d : Delegate) (p : Bytes) (s : Stack) (log : List Ev) : Res :=
  let m := matching s.currentRel.reverse (components p)
  if m.1 > s.valid then ⟨s, log, .panic⟩
  else
    let (s1, log1) := popLoop (s.valid - m.1) s log
    let s2 := { s1 with valid := m.1 }
    if !s2.isDir && !m.2.isEmpty then
      let okD := d.pushDirOk log1 s2.currentRel
      let log2 := Ev.pushDir s2.currentRel okD :: log1
      if okD then pushLoop d m.2 { s2 with isDir := true } log2
      else ⟨s2, log2, .errDelegate⟩
    else pushLoop d m.2 s2 log1

/-- `Stack::make_relative_path_current(relative, delegate)` (repaired code) -/
def makeCurrent (d : Delegate) (p : Bytes) (s : Stack) (log : List Ev) : Res :=
  if s.valid != 0 && p.isEmpty then ⟨s, log, .errEmpty⟩
  else if s.valid == 0 && !s.rootPushed then
    let okD := d.pushDirOk log s.currentRel
    let log1 := Ev.pushDir s.currentRel okD :: log
    if okD then afterRoot d p { s with rootPushed := true } log1
    else ⟨s, log1, .errDelegate⟩
  else afterRoot d p s log

/-- a history: the paths made current one after the other on one stack with one delegate;
outcomes newest first -/
def run (d : Delegate) : List Bytes → Stack × List Ev × List Outcome
  | [] => (Stack.new, [], [])
  | p :: earlier =>
    let (s, log, outs) := run d earlier
    let r := makeCurrent d p s log
    (r.s, r.log, r.out :: outs)

/-- `run` takes the history newest path first; this is the natural order -/
def runHistory (d : Delegate) (paths : List Bytes) : Stack × List Ev × List Outcome :=
  run d paths.reverse

/-! ### the code before the repair -/
namespace Legacy

def rollback (s : Stack) : Stack :=
  { s with current := s.current.tail, currentRel := s.currentRel.tail, valid := s.valid - 1 }

def pushLoop (d : Delegate) : List Comp → Stack → List Ev → Res
  | [], s, log => ⟨s, log, .ok⟩
  | c :: rest, s, log =>
    match c with
    | .normal n =>
      let isLast := rest.isEmpty
      let s1 : Stack := { s with isDir := !isLast, current := n :: s.current,
                                 currentRel := n :: s.currentRel, valid := s.valid + 1 }
      let okP := d.pushOk log s1.currentRel isLast
      let log1 := Ev.push s1.currentRel isLast okP :: log
      if !isLast then
        -- `push_directory` is called whether or not `push` failed, and `?` returns first
        let okD := d.pushDirOk log1 s1.currentRel
        let log2 := Ev.pushDir s1.currentRel okD :: log1
        if !okD then ⟨s1, log2, .errDelegate⟩
        else if okP then pushLoop d rest s1 log2
        else ⟨rollback s1, log2, .errDelegate⟩
      else if okP then pushLoop d rest s1 log1
      else ⟨rollback s1, log1, .errDelegate⟩
    | _ => ⟨s, log, .errComponent⟩

def afterRoot (d : Delegate) (p : Bytes) (s : Stack) (log : List Ev) : Res :=
  let m := matching s.currentRel.reverse (components p)
  if m.1 > s.valid then ⟨s, log, .panic⟩
  else
    let (s1, log1) := popLoop (s.valid - m.1) s log
    let s2 := { s1 with valid := m.1 }
    if !s2.isDir && !m.2.isEmpty then
      let okD := d.pushDirOk log1 s2.currentRel
      let log2 := Ev.pushDir s2.currentRel okD :: log1
      if okD then pushLoop d m.2 s2 log2
      else ⟨s2, log2, .errDelegate⟩
    else pushLoop d m.2 s2 log1

def makeCurrent (d : Delegate) (p : Bytes) (s : Stack) (log : List Ev) : Res :=
  if s.valid != 0 && p.isEmpty then ⟨s, log, .errEmpty⟩
  else if s.valid == 0 then
    let okD := d.pushDirOk log s.currentRel
    let log1 := Ev.pushDir s.currentRel okD :: log
    if okD then afterRoot d p s log1
    else ⟨s, log1, .errDelegate⟩
  else afterRoot d p s log

def run (d : Delegate) : List Bytes → Stack × List Ev × List Outcome
  | [] => (Stack.new, [], [])
  | p :: earlier =>
    let (s, log, outs) := run d earlier
    let r := makeCurrent d p s log
    (r.s, r.log, r.out :: outs)

end Legacy

/-! ### what "balanced" means -/

/-- all directories from `p` up to the root, deepest first: `p, parent p, …, root` -/
def dirChain : RPath → List RPath
  | [] => [[]]
  | c :: p => (c :: p) :: dirChain p

/-- the directories on the stack's current path that are open as directories, deepest first:
nothing before the root was announced; otherwise every proper ancestor of the current path, and
the current path itself when its leaf is a directory -/
def openDirsOf (s : Stack) : List RPath :=
  if !s.rootPushed then []
  else if s.isDir then dirChain s.currentRel
  else dirChain s.currentRel.tail

/-- replay of the delegate's log as a stack of open directories (deepest first): a successful
`push_directory` opens its directory, `pop_directory` must close the most recently opened one that
is still open — and that must be the directory the stack just left; `none` = not well bracketed. -/
def replayLog : List Ev → Option (List RPath)
  | [] => some []
  | Ev.pushDir p true :: older => (replayLog older).map (p :: ·)
  | Ev.popDir p :: older =>
    match replayLog older with
    | some (q :: open_) => if q = p then some open_ else none
    | _ => none
  | _ :: older => replayLog older

/-- The delegate's open directories are exactly the directories of the current path. -/
def Balanced (s : Stack) (log : List Ev) : Prop := replayLog log = some (openDirsOf s)

instance (s : Stack) (log : List Ev) : Decidable (Balanced s log) := by unfold Balanced; infer_instance

/-- number of successful `push_directory` calls / of `pop_directory` calls -/
def countPushDir : List Ev → Nat
  | [] => 0
  | Ev.pushDir _ true :: l => countPushDir l + 1
  | _ :: l => countPushDir l

def countPopDir : List Ev → Nat
  | [] => 0
  | Ev.popDir _ :: l => countPopDir l + 1
  | _ :: l => countPopDir l

/-! ### driver -/

/-- the harness delegate: the k-th fallible call (push / push_directory, counted from 0 over the
whole history) fails iff `mask[k]` is set -/
def fallibleCalls : List Ev → Nat
  | [] => 0
  | Ev.popDir _ :: l => fallibleCalls l
  | _ :: l => fallibleCalls l + 1

def maskDelegate (mask : List Bool) : Delegate :=
  { pushDirOk := fun log _ => !(mask.getD (fallibleCalls log) false)
    pushOk := fun log _ _ => !(mask.getD (fallibleCalls log) false) }

def joinPath (p : RPath) : Bytes :=
  match p.reverse with
  | [] => []
  | c :: cs => c ++ cs.flatMap (fun x => 47 :: x)

def showEv : Ev → String
  | .pushDir p ok => s!"D{if ok then 1 else 0}:{hexOfBytes (joinPath p)}"
  | .push p l ok => s!"P{if l then "L" else "N"}{if ok then 1 else 0}:{hexOfBytes (joinPath p)}"
  | .popDir _ => "O"

def showOutcome : Outcome → String
  | .ok => "ok" | .errEmpty => "err:empty" | .errComponent => "err:comp"
  | .errDelegate => "err:delegate" | .panic => "panic"

/-- observation of one call: outcome, `current()` below the root, `current_relative()`, the
delegate calls made during this call (oldest first) -/
def showCall (r : Res) (before : Nat) : String :=
  let evs := (r.log.take (r.log.length - before)).reverse
  let l := if evs.isEmpty then "-" else ",".intercalate (evs.map showEv)
  s!"{showOutcome r.out} cur={hexOfBytes (joinPath r.s.current)} rel={hexOfBytes (joinPath r.s.currentRel)} log={l}"

def observe (mk : Delegate → Bytes → Stack → List Ev → Res) (d : Delegate) :
    List Bytes → Stack → List Ev → List String
  | [], _, _ => []
  | p :: ps, s, log =>
    let r := mk d p s log
    showCall r log.length :: observe mk d ps r.s r.log

def parseMask (s : String) : Option (List Bool) :=
  if s == "-" then some []
  else s.toList.mapM fun c => if c == '1' then some true else if c == '0' then some false else none

def handle? : List String → Option String
  | "hist" :: mask :: paths => do
    let m ← parseMask mask
    let ps ← paths.mapM bytesOfHex
    some (";".intercalate (observe makeCurrent (maskDelegate m) ps Stack.new []))
  | "legacy" :: mask :: paths => do
    let m ← parseMask mask
    let ps ← paths.mapM bytesOfHex
    some (";".intercalate (observe Legacy.makeCurrent (maskDelegate m) ps Stack.new []))
  | ["comps", p] => do
    let p ← bytesOfHex p
    let cs := (components p).map fun
      | .normal n => "N:" ++ hexOfBytes n
      | .parentDir => "parent" | .rootDir => "root" | .curDir => "cur"
    some (if cs.isEmpty then "-" else ",".intercalate cs)
  | _ => none

def handle (args : List String) : String := (handle? args).getD "bad-op"

end GixModel.C42
