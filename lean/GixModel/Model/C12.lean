import GixModel.Model.C12Core
/-
C12 — the control flow of the dynamic object store on top of the protocol core (`Model/C12Core`):
`Handle::contains`, `Handle::try_find`, `Store::{load_one_index, load_next_index,
consolidate_with_disk_state, collect_snapshot}`, `load_pack`, handle creation, `prevent_pack_unload`,
`Store::metrics`.  Every access to the shared memory of the store goes through `act`, i.e. is one
`step` of the protocol core — an API call is therefore one particular schedule of the transition
system the theorems quantify over (here: the schedule in which the call runs without interruption).
What the core leaves open (which slots the consolidation picks, the counters of a `SlotMapIndex`,
the state id of a marker, refresh mode, stable handles) is fixed here as the code does it.

Driver protocol: one scenario per line, `scn <slots> <step> <step> …`; steps
  `D[f:o.o.o+f:o.o…]`  the pack directory now lists these index files (in the order of
                       `collect_indices_and_mtime_sorted_by_size`) with these objects; the model applies
                       the difference as environment events (additions first) — rejected if that breaks
                       git's rule.  An element `M<f>:<p>=o.o|<p>=o.o.o` is the multi-pack index (store opened
                       with `use_multi_pack_index`): version `f` of the file (same path, another mtime),
                       standing for the packs `p` (their index files are on disk but not listed) with the
                       objects the multi-pack index assigns to each
  `L[o.o.o]`           the loose objects now present
  `N`  new handle   `X<h>` drop handle   `S<h>` `prevent_pack_unload()`   `R<h>` `refresh_never()`
  `H<h>:<o>` `contains`   `F<h>:<o>` `try_find`   `M` `Store::metrics()`
and `ev <bumpOnClear> <recheck> <slots> <event> …`: an explicit schedule of the protocol core (the
interleavings the harness forces on the real code through the cfg(gix_verif) interleaving points).
Output: the observations of the `H` (`0`/`1`), `F` (`ok`/`none`/`wrong`/`panic`/`err`) and `M` steps,
joined by `,`.  Multi-pack indices: a changed file is moved to another slot (`consSetFilesM`), a lookup goes
to the pack the multi-pack index assigns the object to (one snapshot entry per pack in the core; `swap(0, idx)`
of the whole multi-pack index entry is replayed as swaps of the core).  Not modelled here: alternates, delta
bases in other packs; a pack of a multi-pack index counts as on disk as long as ALL packs of that version are.
-/
namespace GixModel.C12

/-- one `SlotMapIndex` object (`Arc`), identified by `ptr` -/
structure IdxObj where
  ptr : Nat
  gen : Nat
  slots : List Nat
  init : Bool
  nextToLoad : Nat
  loaded : Nat
  deriving Repr

structure HAux where
  mPtr : Nat
  mLoaded : Nat
  refresh : Bool
  stable : Bool
  alive : Bool
  /-- `snapshot.loose_dbs` is non-empty (the snapshot was taken from an initialized index) -/
  looseDbs : Bool
  deriving Repr

structure World where
  sys : Sys
  objs : List IdxObj
  haux : List HAux
  stableCount : Nat
  numRefreshes : Nat
  listing : List Nat
  fileObjs : List (Nat × List Nat)
  /-- every version of the multi-pack index seen so far: its packs (index file, objects assigned to it) -/
  midx : List (Nat × List (Nat × List Nat)) := []

def World.init (nSlots : Nat) : World :=
  { sys := Sys.init Cfg.fixed nSlots,
    objs := [{ ptr := 0, gen := 0, slots := [], init := false, nextToLoad := 0, loaded := 0 }],
    haux := [], stableCount := 0, numRefreshes := 0, listing := [], fileObjs := [] }

abbrev M := StateT World (Except String)

def act (e : Ev) : M Unit := do
  let w ← get
  match step w.sys e with
  | some s' => set { w with sys := s' }
  | none => throw s!"rejected:{repr e}"

def getSys : M Sys := do return (← get).sys

def getObj (ptr : Nat) : M IdxObj := do
  match (← get).objs[ptr]? with
  | some o => return o
  | none => throw "no-such-index-object"

def setObj (o : IdxObj) : M Unit := modify fun w => { w with objs := w.objs.set o.ptr o }

def getAux (h : Nat) : M HAux := do
  match (← get).haux[h]? with
  | some a => if a.alive then return a else throw "dead-handle"
  | none => throw "no-such-handle"

def setAux (h : Nat) (a : HAux) : M Unit := modify fun w => { w with haux := w.haux.set h a }

def objsOfFile (w : World) (f : Nat) : List Nat :=
  match w.fileObjs.find? fun d => d.1 == f with
  | some d => d.2
  | none => []

def midxOf (w : World) (f : Nat) : Option (List (Nat × List Nat)) :=
  (w.midx.find? fun d => d.1 == f).map fun d => d.2

def isMidx (w : World) (f : Nat) : Bool := (midxOf w f).isSome

/-- all versions of the multi-pack index have the same path -/
def pathKey (w : World) (f : Nat) : Nat := if isMidx w f then 4000000000 else f

/-- the objects a snapshot entry answers for -/
def objsOfEntry (w : World) (e : Entry) : List Nat :=
  if e.multi then
    match midxOf w e.id.file with
    | some ps => (ps.getD e.pk (0, [])).2
    | none => []
  else objsOfFile w e.id.file

/-- `collect_snapshot()` -/
def collectSnapshot (h : Nat) : M Unit := do
  let s ← getSys
  let ix ← getObj s.pubPtr
  act (Ev.collBegin h)
  for _ in (if ix.init then ix.slots else []) do
    act (Ev.collSlot h)
  act (Ev.collEnd h)
  let a ← getAux h
  setAux h { a with mPtr := ix.ptr, mLoaded := ix.loaded, looseDbs := ix.init }

/-- the inner loop of `load_next_index`: claim slot-map positions until one index was loaded
successfully or nothing is left -/
def loadNextInner (fuel : Nat) (ptr : Nat) : M Unit := do
  match fuel with
  | 0 => throw "fuel"
  | fuel + 1 =>
    let ix ← getObj ptr
    if ix.nextToLoad != ix.slots.length then
      let k := ix.slots.getD ix.nextToLoad 0
      setObj { ix with nextToLoad := ix.nextToLoad + 1 }
      let sl := (← getSys).slots k
      act (Ev.loadIdx k ix.gen)
      if sl.gen > ix.gen then loadNextInner fuel ptr
      else
        match sl.files with
        | none => loadNextInner fuel ptr
        | some _ =>
          let ix ← getObj ptr
          setObj { ix with loaded := ix.loaded + 1 }
          match ((← getSys).slots k).files with
          | some b' => if b'.idx.isLoaded then return () else loadNextInner fuel ptr
          | none => loadNextInner fuel ptr
    else return ()

/-- `load_next_index(index)` -/
def loadNextIndex (fuel : Nat) (ptr : Nat) : M Bool := do
  match fuel with
  | 0 => throw "fuel"
  | fuel + 1 =>
    let prev := (← getObj ptr).loaded
    loadNextInner ((← getObj ptr).slots.length + 2) ptr
    if prev == (← getObj ptr).loaded then
      let p := (← getSys).pubPtr
      if p == ptr then return false else loadNextIndex fuel p
    else return true

def eraseNat (l : List Nat) (k : Nat) : List Nat := l.filter fun x => x != k

/-- `set_slot_to_index` -/
def setSlotTo (k f : Nat) : M Unit := do
  act (Ev.consSetGen k)
  match midxOf (← get) f with
  | some ps => act (Ev.consSetFilesM k f (ps.length - 1))
  | none => act (Ev.consSetFiles k f false)

/-- find a slot for `f` (the `'increment_slot_index` loop); `mf` = the slot a changed multi-pack index is
moved from; returns `none` for `InsufficientSlots` -/
def placeOne (fuel : Nat) (f : Nat) (mf : Option Nat) (stable : Bool) (next checked : Nat) (newSlots toRemove : List Nat)
    (bump : Bool) : M (Option (Nat × Nat × List Nat × List Nat × Bool)) := do
  match fuel with
  | 0 => throw "fuel"
  | fuel + 1 =>
    let s ← getSys
    let w ← get
    if checked == s.nSlots then return none
    let k := next
    let next := (next + 1) % s.nSlots
    let checked := checked + 1
    if newSlots.contains k || (stable && toRemove.contains k) || mf == some k then
      placeOne fuel f mf stable next checked newSlots toRemove bump
    else
      let after := fun (toRemove : List Nat) => match mf with
        | some m => eraseNat toRemove k ++ [m]
        | none => eraseNat toRemove k
      match (s.slots k).files with
      | some b =>
        if pathKey w b.file == pathKey w f || (b.isDisposable && stable) then
          placeOne fuel f mf stable next checked newSlots toRemove bump
        else do
          setSlotTo k f
          return some (next, checked, newSlots ++ [k], after toRemove, true)
      | none => do
        setSlotTo k f
        return some (next, checked, newSlots ++ [k], after toRemove, bump)

def placeAll (toAdd : List (Nat × Option Nat)) (stable : Bool) (next checked : Nat) (newSlots toRemove : List Nat)
    (bump : Bool) : M (Option (List Nat × List Nat × Bool)) := do
  match toAdd with
  | [] => return some (newSlots, toRemove, bump)
  | (f, mf) :: rest =>
    let s ← getSys
    match ← placeOne (s.nSlots + 2) f mf stable next checked newSlots toRemove bump with
    | none => return none
    | some (next, checked, newSlots, toRemove, bump) =>
      placeAll rest stable next checked newSlots toRemove bump

/-- the first loop of `consolidate_with_disk_state`: match the directory listing with the slots of the
current index; returns (slots that stay, files to add, number of loaded indices, slots to remove) -/
def matchListing (listing : List Nat) (byFile : List (Nat × Nat)) (newSlots : List Nat) (toAdd : List (Nat × Option Nat))
    (numLoaded : Nat) : M (List Nat × List (Nat × Option Nat) × Nat × List (Nat × Nat)) := do
  match listing with
  | [] => return (newSlots, toAdd, numLoaded, byFile)
  | f :: rest =>
    let w ← get
    match byFile.find? fun p => p.1 == pathKey w f with
    | some (_, k) =>
      let byFile := byFile.filter fun p => p.1 != pathKey w f
      let s ← getSys
      match (s.slots k).files with
      | some b =>
        if isMidx w f && b.file != f then
          -- a changed multi-pack index: moved into a new slot, the old one is freed later
          matchListing rest byFile newSlots (toAdd ++ [(f, some k)]) (if b.idx.isLoaded then numLoaded + 1 else numLoaded)
        else
          if b.isDisposable then act (Ev.consPutBack k)
          matchListing rest byFile (newSlots ++ [k]) toAdd (if b.idx.isLoaded then numLoaded + 1 else numLoaded)
      | none => throw "panic:slot-unset"
    | none => matchListing rest byFile newSlots (toAdd ++ [(f, none)]) numLoaded

inductive Outcome
  | some    -- a new snapshot was collected
  | none    -- nothing changed
  | err     -- `Err(InsufficientSlots)`
  deriving DecidableEq

/-- `consolidate_with_disk_state(needs_init, load_new_index)` called by handle `h` -/
def consolidate (h : Nat) (needsInit loadNew : Bool) : M Outcome := do
  act (Ev.consBegin h)
  let s ← getSys
  let ix ← getObj s.pubPtr
  let wasUninit := !ix.init
  if !wasUninit && needsInit then
    collectSnapshot h
    act Ev.consEnd
    return Outcome.some
  modify fun w => { w with numRefreshes := w.numRefreshes + 1 }
  let w ← get
  let byFile : List (Nat × Nat) := ix.slots.filterMap fun k =>
    match (s.slots k).files with
    | some b => some (pathKey w b.file, k)
    | none => none
  -- a BTreeMap keyed by path: a later slot with the same path replaces an earlier one
  let byFile := byFile.foldl (fun acc p => (acc.filter fun q => q.1 != p.1) ++ [p]) []
  let (newSlots, toAdd, numLoaded, leftover) ← matchListing w.listing byFile [] [] 0
  let stable := w.stableCount > 0
  let next := match ix.slots.foldl (fun (m : Option Nat) k => match m with
      | some x => some (max x k) | none => some k) none with
    | some m => (m + 1) % s.nSlots
    | none => 0
  let toRemove := leftover.map fun p => p.2
  let bump0 := !stable && (!toRemove.isEmpty || toAdd.any fun t => t.2.isSome)
  match ← placeAll toAdd stable next 0 newSlots toRemove bump0 with
  | none =>
    -- `Err(InsufficientSlots)`: only modelled if no slot was overwritten before
    act Ev.consEnd
    return Outcome.err
  | some (newSlots, toRemove, bump) =>
    let unchanged := ix.slots == newSlots && !bump
    if !unchanged || wasUninit then
      act (Ev.consPublish newSlots bump)
      let s ← getSys
      let o : IdxObj := { ptr := s.pubPtr, gen := s.pubGen, slots := newSlots, init := true,
                          nextToLoad := if unchanged then ix.nextToLoad else 0,
                          loaded := if unchanged then ix.loaded else numLoaded }
      modify fun w => { w with objs := w.objs ++ [o] }
    for k in toRemove do
      if stable then act (Ev.consTrash k)
      else
        act (Ev.consClearGen k)
        act (Ev.consClearFiles k)
    let s ← getSys
    let old ← getObj ix.ptr
    let new ← getObj s.pubPtr
    if old.ptr == new.ptr && old.loaded == new.loaded then
      act Ev.consEnd
      return Outcome.none
    else
      if loadNew then
        let _ ← loadNextIndex 64 new.ptr
      collectSnapshot h
      act Ev.consEnd
      return Outcome.some

/-- `load_one_index(refresh_mode, marker)` -/
def loadOneIndex (h : Nat) : M Outcome := do
  let s ← getSys
  let ix ← getObj s.pubPtr
  if !ix.init then consolidate h true false
  else
    let a ← getAux h
    if (s.handles h).g != ix.gen || a.mPtr != ix.ptr || a.mLoaded != ix.loaded then
      collectSnapshot h
      return Outcome.some
    else if ← loadNextIndex 64 ix.ptr then
      collectSnapshot h
      return Outcome.some
    else if a.refresh then consolidate h false true
    else return Outcome.none

def findEntry (w : World) (es : List Entry) (o : Nat) (i : Nat) : Option (Nat × Entry) :=
  match es with
  | [] => none
  | e :: rest => if (objsOfEntry w e).contains o then some (i, e) else findEntry w rest o (i + 1)

/-- the entries of one installation are kept together: `[start, start+len)` of the group holding position `i` -/
def groupOf (es : List Entry) (i : Nat) : Nat × Nat :=
  match es[i]? with
  | none => (i, 1)
  | some e =>
    let same := fun (x : Entry) => x.slot == e.slot && x.id == e.id
    let before := ((es.take i).reverse.takeWhile same).length
    let after := ((es.drop i).takeWhile same).length
    (i - before, before + after)

/-- the list after `snapshot.indices.swap(0, idx)` where the elements are whole installations -/
def swapGroups (es : List Entry) (i : Nat) : List Entry :=
  let (a0, la) := groupOf es 0
  let (b0, lb) := groupOf es i
  if b0 == a0 then es
  else
    let ga := (es.drop a0).take la
    let gb := (es.drop b0).take lb
    let mid := (es.drop (a0 + la)).take (b0 - (a0 + la))
    let rest := es.drop (b0 + lb)
    gb ++ mid ++ ga ++ rest

/-- reach `target` (a permutation of the entries) by swaps with position 0 -/
def permuteTo (fuel : Nat) (h : Nat) (target : List Entry) : M Unit := do
  match fuel with
  | 0 => throw "fuel"
  | fuel + 1 =>
    let es := ((← getSys).handles h).entries
    if es == target then return ()
    match es.head? with
    | none => return ()
    | some x =>
      if target.head? == some x then
        -- position 0 is right: bring a misplaced element there
        match (List.range es.length).find? fun q => es[q]? != target[q]? with
        | some q => act (Ev.promote h q); permuteTo fuel h target
        | none => return ()
      else
        match (List.range target.length).find? fun q => target[q]? == some x with
        | some q => act (Ev.promote h q); permuteTo fuel h target
        | none => throw "permute"

/-- `snapshot.indices.swap(0, idx)` for the installation holding entry `i` -/
def promoteEntry (h i : Nat) : M Unit := do
  let es := ((← getSys).handles h).entries
  let (b0, lb) := groupOf es i
  let (_, la) := groupOf es 0
  if b0 == 0 then return ()
  else if la == 1 && lb == 1 then act (Ev.promote h i)
  else permuteTo (4 * es.length + 4) h (swapGroups es i)

/-- `Handle::contains` -/
def apiContains (fuel : Nat) (h o : Nat) : M String := do
  match fuel with
  | 0 => throw "fuel"
  | fuel + 1 =>
    let w ← get
    match findEntry w (w.sys.handles h).entries o 0 with
    | some (i, _) =>
      promoteEntry h i
      return "1"
    | none =>
      if (← getAux h).looseDbs && w.sys.loose.contains o then return "1"
      match ← loadOneIndex h with
      | Outcome.some => apiContains fuel h o
      | Outcome.none => return "0"
      | Outcome.err => return "0"

/-- `load_pack(pack_id, marker)` for entry `i` of the snapshot: `true` if a pack was returned -/
def loadPack (h i : Nat) : M Bool := do
  let nrets := (← getSys).rets.length
  act (Ev.lp1 h i)
  if (((← getSys).handles h).pc != RPc.lp1 i) then return false
  act (Ev.lp2 h)
  act (Ev.lp3 h)
  match ((← getSys).handles h).pc with
  | RPc.checked _ p =>
    match p with
    | some b =>
      let e := (((← getSys).handles h).entries.getD i { slot := 0, id := ⟨0, 0⟩, multi := false, pack := none })
      if b.multi != e.multi || (b.packAt e.pk).isLoaded then act (Ev.lp4 h) else act (Ev.lp5 h)
    | none => act (Ev.lp4 h)
    return (← getSys).rets.length > nrets
  | _ => return false

/-- `Handle::try_find` -/
def apiFind (fuel : Nat) (h o : Nat) : M String := do
  match fuel with
  | 0 => throw "fuel"
  | fuel + 1 =>
    let w ← get
    match findEntry w (w.sys.handles h).entries o 0 with
    | some (i, e) =>
      let got ← (match e.pack with
        | some _ => do act (Ev.retCached h i); return true
        | none => loadPack h i)
      let s ← getSys
      if s.panicked then return "panic"
      if got then
        let ok := match s.rets.head? with
          | some r => r.got == r.want
          | none => false
        promoteEntry h i
        return if ok then "ok" else "wrong"
      else
        match ← loadOneIndex h with
        | Outcome.some => apiFind fuel h o
        | Outcome.none => return "none"
        | Outcome.err => return "err"
    | none =>
      if (← getAux h).looseDbs && w.sys.loose.contains o then return "ok"
      match ← loadOneIndex h with
      | Outcome.some => apiFind fuel h o
      | Outcome.none => return "none"
      | Outcome.err => return "err"

/-- `Store::metrics()`: open_reachable_indices/known_reachable_indices/open_reachable_packs/known_packs/
unused_slots/unreachable_indices/unreachable_packs/num_refreshes/num_handles -/
def metrics (w : World) : String :=
  let s := w.sys
  let reach := s.pubSlots.filterMap fun k => (s.slots k).files
  let packsOf := fun (b : Bundle) => b.pack :: b.more
  let openIdx := (reach.filter fun b => b.idx.isLoaded).length
  let openPacks := (reach.map fun b => ((packsOf b).filter LoadSt.isLoaded).length).foldl (· + ·) 0
  let knownPacks := (reach.map fun b => (packsOf b).length).foldl (· + ·) 0
  let all := (List.range s.nSlots).map fun k => (s.slots k).files
  let unused := (all.filter fun f => f.isNone).length
  let disp := all.filterMap fun f => match f with
    | some b => if b.isDisposable then some b else none
    | none => none
  let unreachPacks := (disp.map fun b => ((packsOf b).filter LoadSt.isLoaded).length).foldl (· + ·) 0
  let handles := (w.haux.filter fun a => a.alive).length
  s!"{openIdx}/{reach.length}/{openPacks}/{knownPacks}/{unused}/{disp.length}/{unreachPacks}/{w.numRefreshes}/{handles}"

def parseNats (sep : String) (s : String) : Option (List Nat) :=
  if s.isEmpty then some [] else (s.splitOn sep).mapM fun x => x.toNat?

/-- an element of the listing: an index file with its objects, or a version of the multi-pack index with its packs -/
inductive Item
  | idx (f : Nat) (os : List Nat)
  | midx (f : Nat) (packs : List (Nat × List Nat))

def parseFile (s : String) : Option (Nat × List Nat) :=
  match s.splitOn ":" with
  | [f, os] => do
    let f ← f.toNat?
    let os ← parseNats "." os
    some (f, os)
  | _ => none

def parseItem (s : String) : Option Item :=
  match s.toList with
  | 'M' :: r =>
    match (String.ofList r).splitOn ":" with
    | [f, ps] => do
      let f ← f.toNat?
      let packs ← (ps.splitOn "|").mapM fun p =>
        match p.splitOn "=" with
        | [pf, os] => do some ((← pf.toNat?), (← parseNats "." os))
        | _ => none
      some (Item.midx f packs)
    | _ => none
  | _ => (parseFile s).map fun t => Item.idx t.1 t.2

def dedupNats (l : List Nat) : List Nat := l.foldl (fun acc x => if acc.contains x then acc else acc ++ [x]) []

/-- the pack directory changed: additions first, then removals.  On disk (for the protocol core) are: the
listed index files, the index files of the packs of the current multi-pack index, the current multi-pack
index, and an older version of it as long as all its packs are there. -/
def setDisk (items : List Item) : M Unit := do
  -- remember versions and objects
  for it in items do
    match it with
    | Item.idx f os => modify fun w => { w with fileObjs := (w.fileObjs.filter fun d => d.1 != f) ++ [(f, os)] }
    | Item.midx f packs =>
      modify fun w => { w with midx := (w.midx.filter fun d => d.1 != f) ++ [(f, packs)] }
      for (pf, os) in packs do
        modify fun w => if (w.fileObjs.any fun d => d.1 == pf) then w else { w with fileObjs := w.fileObjs ++ [(pf, os)] }
  let w ← get
  let packFiles : List Nat := items.foldl (fun acc it => match it with
    | Item.idx f _ => acc ++ [f]
    | Item.midx _ packs => acc ++ packs.map fun p => p.1) []
  let current : List Nat := items.filterMap fun it => match it with
    | Item.midx f _ => some f
    | _ => none
  let oldVersions := w.midx.filter fun d => !current.contains d.1 && d.2.all fun p => packFiles.contains p.1
  let desired : List (Nat × List Nat) :=
    (packFiles.map fun f => (f, objsOfFile w f))
    ++ (w.midx.filter fun d => current.contains d.1).map (fun d => (d.1, dedupNats (d.2.foldl (fun acc p => acc ++ p.2) [])))
    ++ oldVersions.map (fun d => (d.1, dedupNats (d.2.foldl (fun acc p => acc ++ p.2) [])))
  let s ← getSys
  for (f, os) in desired do
    if !onDisk s.disk f then act (Ev.envAdd f os)
  for (f, _) in s.disk do
    if !(desired.any fun d => d.1 == f) then act (Ev.envRemove f)
  modify fun w => { w with listing := items.map fun it => match it with
    | Item.idx f _ => f
    | Item.midx f _ => f }

def setLoose (os : List Nat) : M Unit := do
  let s ← getSys
  for o in os do
    if !s.loose.contains o then act (Ev.envAddLoose o)
  for o in s.loose do
    if !os.contains o then act (Ev.envRemoveLoose o)

def runStep (st : String) : M (Option String) := do
  match st.toList with
  | 'D' :: r =>
    let r := String.ofList r
    let files ← (if r.isEmpty then pure [] else
      match (r.splitOn "+").mapM parseItem with
      | some fs => pure fs
      | none => throw "bad-op")
    setDisk files
    return none
  | 'L' :: r =>
    match parseNats "." (String.ofList r) with
    | some os => setLoose os; return none
    | none => throw "bad-op"
  | ['N'] =>
    let h := (← getSys).nHandles
    act Ev.newHandle
    modify fun w => { w with haux := w.haux ++ [{ mPtr := 0, mLoaded := 0, refresh := true, stable := false, alive := true, looseDbs := false }] }
    collectSnapshot h
    return none
  | 'X' :: r =>
    match (String.ofList r).toNat? with
    | some h =>
      let a ← getAux h
      if a.stable then modify fun w => { w with stableCount := w.stableCount - 1 }
      setAux h { a with alive := false }
      return none
    | none => throw "bad-op"
  | 'S' :: r =>
    match (String.ofList r).toNat? with
    | some h =>
      let a ← getAux h
      if !a.stable then
        modify fun w => { w with stableCount := w.stableCount + 1 }
        setAux h { a with stable := true }
      return none
    | none => throw "bad-op"
  | 'R' :: r =>
    match (String.ofList r).toNat? with
    | some h =>
      let a ← getAux h
      setAux h { a with refresh := false }
      return none
    | none => throw "bad-op"
  | 'H' :: r =>
    match (String.ofList r).splitOn ":" with
    | [h, o] =>
      match h.toNat?, o.toNat? with
      | some h, some o =>
        let _ ← getAux h
        return some (← apiContains 64 h o)
      | _, _ => throw "bad-op"
    | _ => throw "bad-op"
  | 'F' :: r =>
    match (String.ofList r).splitOn ":" with
    | [h, o] =>
      match h.toNat?, o.toNat? with
      | some h, some o =>
        let _ ← getAux h
        return some (← apiFind 64 h o)
      | _, _ => throw "bad-op"
    | _ => throw "bad-op"
  | ['M'] => return some (metrics (← get))
  | _ => throw "bad-op"

def runSteps (steps : List String) (acc : List String) : M (List String) := do
  match steps with
  | [] => return acc
  | st :: rest =>
    match ← runStep st with
    | some o => runSteps rest (acc ++ [o])
    | none => runSteps rest acc

/-- an event of the protocol core, e.g. `ea:10:1.2` (envAdd), `kf:0:10` (consSetFiles), `kp:0.1:1` (consPublish) -/
def parseEv (t : String) : Option Ev :=
  match t.splitOn ":" with
  | ["ea", f, os] => do some (Ev.envAdd (← f.toNat?) (← parseNats "." os))
  | ["er", f] => do some (Ev.envRemove (← f.toNat?))
  | ["la", o] => do some (Ev.envAddLoose (← o.toNat?))
  | ["lr", o] => do some (Ev.envRemoveLoose (← o.toNat?))
  | ["nh"] => some Ev.newHandle
  | ["cb", h] => do some (Ev.collBegin (← h.toNat?))
  | ["cs", h] => do some (Ev.collSlot (← h.toNat?))
  | ["ce", h] => do some (Ev.collEnd (← h.toNat?))
  | ["pm", h, i] => do some (Ev.promote (← h.toNat?) (← i.toNat?))
  | ["rc", h, i] => do some (Ev.retCached (← h.toNat?) (← i.toNat?))
  | ["l1", h, i] => do some (Ev.lp1 (← h.toNat?) (← i.toNat?))
  | ["l2", h] => do some (Ev.lp2 (← h.toNat?))
  | ["l3", h] => do some (Ev.lp3 (← h.toNat?))
  | ["l4", h] => do some (Ev.lp4 (← h.toNat?))
  | ["l5", h] => do some (Ev.lp5 (← h.toNat?))
  | ["li", k, g] => do some (Ev.loadIdx (← k.toNat?) (← g.toNat?))
  | ["kb", h] => do some (Ev.consBegin (← h.toNat?))
  | ["kg", k] => do some (Ev.consSetGen (← k.toNat?))
  | ["kf", k, f] => do some (Ev.consSetFiles (← k.toNat?) (← f.toNat?) false)
  | ["km", k, f, x] => do some (Ev.consSetFilesM (← k.toNat?) (← f.toNat?) (← x.toNat?))
  | ["kr", k] => do some (Ev.consPutBack (← k.toNat?))
  | ["kp", sl, b] => do some (Ev.consPublish (← parseNats "." sl) (b == "1"))
  | ["kt", k] => do some (Ev.consTrash (← k.toNat?))
  | ["kc", k] => do some (Ev.consClearGen (← k.toNat?))
  | ["kx", k] => do some (Ev.consClearFiles (← k.toNat?))
  | ["ke"] => some Ev.consEnd
  | _ => none

/-- run the events; the position of the first rejected one, if any -/
def runEvents (s : Sys) (evs : List Ev) (pos : Nat) : Sys × Option Nat :=
  match evs with
  | [] => (s, none)
  | e :: rest =>
    match step s e with
    | some s' => runEvents s' rest (pos + 1)
    | none => (s, some pos)

def handle (args : List String) : String :=
  match args with
  | "ev" :: bump :: recheck :: n :: evs =>
    match n.toNat?, evs.mapM parseEv with
    | some n, some evs =>
      let (s, rej) := runEvents (Sys.init { bumpOnClear := bump == "1", recheck := recheck == "1" } n) evs 0
      let wrong := s.rets.any fun r => r.got != r.want
      let rejs := match rej with
        | some p => toString p
        | none => "-"
      s!"wrong={if wrong then 1 else 0} panic={if s.panicked then 1 else 0} rejected={rejs}"
    | _, _ => "bad-op"
  | "scn" :: n :: steps =>
    match n.toNat? with
    | some n =>
      match (runSteps steps []).run (World.init n) with
      | Except.ok (outs, _) => if outs.isEmpty then "-" else ",".intercalate outs
      | Except.error e => e
    | none => "bad-op"
  | _ => "bad-op"

end GixModel.C12
