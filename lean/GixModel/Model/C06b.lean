import GixModel.Model.C06Core
import GixModel.Model.C05
import GixModel.Model.C15
import GixModel.Model.C53
/-
C06 (round 2) — more of C06's OWN models with explicit panic sites, for entry points that were
correspondence-only before:

  gix_actor::signature::decode::{identity, decode}, SignatureRef::from_bytes   gix-actor/src/signature/decode.rs
  gix_transport::client::Capabilities::{from_bytes, from_lines}                gix-transport/src/client/capabilities.rs
  gix_protocol::fetch::response::{Acknowledgement, ShallowUpdate, WantedRef}::from_line
                                                                              gix-protocol/src/fetch/response/mod.rs
  gix_ref::file::loose::Reference::try_from_path (decode.rs: parse, TryFrom<MaybeUnsafeState>)
                                                                              gix-ref/src/store/file/loose/reference/decode.rs
  gix_url::expand_path::{path_segments, parse}                                 gix-url/src/expand_path.rs

Conventions as in Model/C06.lean: every `&a[i..j]`, `split_at`, `expect`, checked subtraction /
multiplication / addition is an explicit `panic` branch (`slice*`/`splitAt` = `none`); `Option`-
returning std functions (`get`, `strip_suffix`, `split_once`, `splitn`, `find_byte`, `trim*`) cannot
panic and are plain total functions. Calls into code other properties model go to THEIR models:
`ObjectId::from_hex` = `C05.idFromHex` (has a panic outcome), `gix_validate::reference::name` =
`C15.refName` (has a panic outcome), bstr/str `trim*` and UTF-8 validity = `C53.{trim, trimEnd,
isUtf8}` (total; bstr and std cannot panic there).
-/
namespace GixModel.C06
open GixModel

/-! ### helpers -/

def rfindByte (c : UInt8) : Bytes → Option Nat
  | [] => none
  | b :: bs =>
    match rfindByte c bs with
    | some i => some (i + 1)
    | none => if b = c then some 0 else none

/-- `u8::is_ascii_whitespace`: SP, HT, LF, FF, CR -/
def isAsciiWs (b : UInt8) : Bool := b = 32 || b = 9 || b = 10 || b = 12 || b = 13

def isDec (b : UInt8) : Bool := 48 ≤ b && b ≤ 57

def stripPrefix? (p : Bytes) (bs : Bytes) : Option Bytes :=
  if p.isPrefixOf bs then some (bs.drop p.length) else none

/-! ### `gix_actor::signature::decode` -/

/-- `identity(i)`: `(name, email, rest)`; every index expression is explicit -/
def identity (i : Bytes) : Res (Bytes × Bytes × Bytes) :=
  let eolIdx := (findByte 10 i).getD i.length
  match sliceTo i eolIdx with                               -- i[..eol_idx]
  | none => .panic
  | some line =>
    match rfindByte 62 line with
    | none => .err                                          -- "Closing '>' not found"
    | some rd =>
      match sliceTo i rd with                               -- &i[..right_delim_idx]
      | none => .panic
      | some nameAndEmail =>
        let skipFromRight := (nameAndEmail.reverse.takeWhile fun b => isAsciiWs b || b = 62).length
        match findByte 60 nameAndEmail with
        | none => .err                                      -- "Opening '<' not found"
        | some ld =>
          match sliceFrom i ld with                         -- i[left_delim_idx..]
          | none => .panic
          | some fromLd =>
            let skipFromLeft := (fromLd.takeWhile fun b => isAsciiWs b || b = 60).length
            match sliceTo i ld with                         -- i[..left_delim_idx]
            | none => .panic
            | some name0 =>
              let name := if name0.getLast? = some 32 then name0.dropLast else name0
              if rd < skipFromRight then .panic             -- right_delim_idx - skip_from_right
              else
                let a := ld + skipFromLeft
                let b := rd - skipFromRight
                -- i.get(a..b): None when a > b or b > len
                if a ≤ b ∧ b ≤ i.length then
                  .ok (name, (i.take b).drop a, i.drop (rd + 1))   -- i.get(rd + 1..).unwrap_or(&[])
                else .err                                   -- "Skipped parts run into each other"

def i64Min : Int := -9223372036854775808
def i64Max : Int := 9223372036854775807
def i32Max : Int := 2147483647
def i32Min : Int := -2147483648

def decVal (ds : Bytes) : Nat := ds.foldl (fun acc b => acc * 10 + (b.toNat - 48)) 0

/-- `to_signed::<I>(bs)` for a signed `I` with range `lo..=hi` (checked arithmetic inside returns
errors, not panics; digits accumulate towards the sign) -/
def toSignedIn (lo hi : Int) : Bytes → Option Int
  | [] => none
  | b :: rest =>
    let digits := fun (ds : Bytes) (neg : Bool) =>
      if ds.isEmpty || !ds.all isDec then (none : Option Int)
      else
        let v : Int := if neg then -(decVal ds : Int) else (decVal ds : Int)
        if lo ≤ v ∧ v ≤ hi then some v else none
    if b = 43 then digits rest false
    else if b = 45 then digits rest true
    else digits (b :: rest) false

/-- `(hours * 3600 + minutes * 60) * if sign == Minus { -1 } else { 1 }`, every step overflow-checked `i32` -/
def offsetOf (neg : Bool) (hours minutes : Int) : Res Int :=
  if hours * 3600 > i32Max ∨ hours * 3600 < i32Min then .panic
  else if minutes * 60 > i32Max ∨ minutes * 60 < i32Min then .panic
  else if hours * 3600 + minutes * 60 > i32Max ∨ hours * 3600 + minutes * 60 < i32Min then .panic
  else if (if neg then -(hours * 3600 + minutes * 60) else hours * 3600 + minutes * 60) > i32Max ∨
      (if neg then -(hours * 3600 + minutes * 60) else hours * 3600 + minutes * 60) < i32Min then .panic
  else .ok (if neg then -(hours * 3600 + minutes * 60) else hours * 3600 + minutes * 60)

/-- `HH` and `MM` through `to_signed::<i32>` (`verify_map`), then the offset — computed only when no
further digits trail, otherwise it is 0 -/
def timeOffset (neg : Bool) (hh mm : Bytes) (noTrailing : Bool) : Option (Res Int) :=
  match toSignedIn i32Min i32Max hh, toSignedIn i32Min i32Max mm with
  | some hours, some minutes => if noTrailing then some (offsetOf neg hours minutes) else some (.ok 0)
  | _, _ => none

/-- the optional `(timestamp, sign, HH, MM, trailing digits)` tuple and the offset computed from it:
`none` = some component did not parse (`opt` backtracks, the time is `Time::new(0, 0)`) -/
def timeTuple (i : Bytes) : Option (Res Int) :=
  match findByte 32 i with                                  -- take_until(0.., " ") + take(1)
  | none => none
  | some k =>
    match toSignedIn i64Min i64Max (i.take k) with
    | none => none
    | some _ =>
      let r := i.drop (k + 1)
      let minus := r.takeWhile (· = 45)
      let plus := r.takeWhile (· = 43)
      let sign? : Option (Bool × Bytes) :=
        if minus.length ≥ 1 then some (true, r.drop minus.length)
        else if plus.length ≥ 1 then some (false, r.drop plus.length)
        else none
      match sign? with
      | none => none
      | some (neg, r) =>
        let hh := (r.takeWhile isDec).take 2                -- take_while(2, digit)
        if hh.length ≠ 2 then none
        else
          let r := r.drop 2
          let mm := (r.takeWhile isDec).take 2              -- take_while(1..=2, digit)
          if mm.length < 1 then none
          else
            let trailing := (r.drop mm.length).takeWhile isDec   -- take_while(0.., digit)
            timeOffset neg hh mm trailing.isEmpty

/-- `opt(b" ")` -/
def dropOneSpace : Bytes → Bytes
  | 32 :: r => r
  | r => r

/-- `SignatureRef::from_bytes`: identity, `opt(" ")`, optional time -/
def signatureDecode (i : Bytes) : Res Unit :=
  match identity i with
  | .err => .err | .panic => .panic | .hang => .hang
  | .ok (_, _, rest) =>
    match timeTuple (dropOneSpace rest) with
    | some .panic => .panic
    | _ => .ok ()

/-! ### `Capabilities::{from_bytes, from_lines}` -/

def capsFromBytes (bytes : Bytes) : Res Unit :=
  match findByte 0 bytes with
  | none => .err                                            -- MissingDelimitingNullByte
  | some pos =>
    if pos + 1 = bytes.length then .err                     -- NoCapabilities
    else match sliceFrom bytes (pos + 1) with               -- &bytes[delimiter_pos + 1..]
      | none => .panic
      | some _ => .ok ()

/-- the first item of `bstr::lines()`: up to the first LF, one trailing CR removed; `none` when the
input is empty -/
def firstLine (bs : Bytes) : Option Bytes :=
  if bs.isEmpty then none
  else
    let l := bs.takeWhile (· ≠ 10)
    some (if l.getLast? = some 13 ∧ l.length < bs.length then l.dropLast else l)

def bVersion : Bytes := [118, 101, 114, 115, 105, 111, 110]

def capsFromLines (buf : Bytes) : Res Unit :=
  match firstLine (C53.trim buf) with
  | none => .err                                            -- MissingVersionLine
  | some versionLine =>
    match findByte 32 versionLine with
    | none => .err                                          -- MalformattedVersionLine
    | some sp =>
      match splitAt versionLine sp with                     -- version_line.split_at(..)
      | none => .panic
      | some (name, value) =>
        if name ≠ bVersion then .err
        else if value ≠ [32, 50] then .err                  -- " 2"
        else .ok ()

def orRes : Res Unit → Res Unit → Res Unit
  | .panic, _ => .panic
  | _, .panic => .panic
  | .hang, _ => .hang
  | _, .hang => .hang
  | .ok (), _ => .ok ()
  | _, .ok () => .ok ()
  | .err, .err => .err

/-- what the harness entry point `capabilities` observes: either parser accepts -/
def capabilitiesRun (d : Bytes) : Res Unit := orRes (capsFromBytes d) (capsFromLines d)

/-! ### single-line parsers of the fetch response -/

def splitOnce (c : UInt8) (s : Bytes) : Option (Bytes × Bytes) :=
  match findByte c s with
  | none => none
  | some k => some (s.take k, s.drop (k + 1))

def hexRes (id : Bytes) : Res Unit :=
  match C05.idFromHex id with
  | .ok _ => .ok ()
  | .err _ => .err
  | .panic => .panic

def bShallow : Bytes := [115, 104, 97, 108, 108, 111, 119]
def bUnshallow : Bytes := [117, 110] ++ bShallow
def bReady : Bytes := [114, 101, 97, 100, 121]
def bNAK : Bytes := [78, 65, 75]
def bACK : Bytes := [65, 67, 75]
def bCommon : Bytes := [99, 111, 109, 109, 111, 110]

/-- `let id = ObjectId::from_hex(..).map_err(..)?;` followed by `k` -/
def bindHex (id : Bytes) (k : Res Unit) : Res Unit :=
  match hexRes id with
  | .ok () => k
  | .err => .err
  | .panic => .panic
  | .hang => .hang

/-- `ShallowUpdate::from_line` (the id is decoded before the prefix is looked at) -/
def shallowFromLine (line : Bytes) : Res Unit :=
  match splitOnce 32 (C53.trimEnd line) with
  | none => .err
  | some (pfx, id) => bindHex id (if pfx = bShallow ∨ pfx = bUnshallow then .ok () else .err)

/-- the `"ACK"` arm of `Acknowledgement::from_line`: `r` is what follows `ACK ` -/
def ackTail (r : Bytes) : Res Unit :=
  match splitOnce 32 r with
  | none => bindHex r (.ok ())
  | some (id, d) => bindHex id (if d = bCommon ∨ d = bReady then .ok () else .err)

/-- `Acknowledgement::from_line`: `splitn(3, ' ')` -/
def ackFromLine (line : Bytes) : Res Unit :=
  match splitOnce 32 (C53.trimEnd line) with
  | none => if C53.trimEnd line = bReady ∨ C53.trimEnd line = bNAK then .ok () else .err
  | some (first, r) =>
    if first = bReady ∨ first = bNAK then .ok ()
    else if first = bACK then ackTail r
    else .err

/-- `WantedRef::from_line` -/
def wantedFromLine (line : Bytes) : Res Unit :=
  match splitOnce 32 (C53.trimEnd line) with
  | none => .err
  | some (id, _) => bindHex id (.ok ())

/-- the harness entry point `fetch-line`: valid UTF-8, and one of the three accepts -/
def fetchLineRun (d : Bytes) : Res Unit :=
  if !C53.isUtf8 d then .err
  else orRes (ackFromLine d) (orRes (shallowFromLine d) (wantedFromLine d))

/-! ### loose reference files -/

def isHexLc (b : UInt8) : Bool := (48 ≤ b && b ≤ 57) || (97 ≤ b && b ≤ 102)

def bRefColon : Bytes := [114, 101, 102, 58, 32]

/-- `Reference::try_from_path(name, contents)`: `parse` + `Target::try_from`.
`hex_hash` takes between `Kind::shortest().len_in_hex()` and `Kind::longest().len_in_hex()` hex
digits — both 40 in this build (SHA-1 only) — and the id is then made with
`ObjectId::from_hex(hex).expect("prior validation")`. -/
def looseRef (contents : Bytes) : Res Unit :=
  match stripPrefix? bRefColon contents with
  | some r =>
    let r := r.dropWhile (· = 32)
    let path := r.takeWhile fun b => b ≠ 13 && b ≠ 10
    (match C15.refName C15.extractedTable path with
     | .ok _ => .ok ()
     | .err _ => .err
     | .panic => .panic)
  | none =>
    let hex := (contents.takeWhile isHexLc).take 40
    if hex.length < 40 then .err
    else match C05.idFromHex hex with
      | .ok _ => .ok ()
      | .err _ => .panic                                    -- .expect("prior validation")
      | .panic => .panic

/-! ### `gix_url::expand_path::parse` -/

/-- `parse(path)` always returns `Ok`; its two slices are `path[1..]` behind `starts_with("/")` and
`segment[1..]` behind `starts_with("~")`. The user name is returned (`none` = no `~`, `some []` =
`ForUser::Current`). -/
def expandPathParse (path : Bytes) : Res (Option Bytes) :=
  match path with
  | 47 :: _ =>
    match sliceFrom path 1 with                             -- path[1..]
    | none => .panic
    | some rest =>
      let segment := rest.takeWhile (· ≠ 47)                -- iter.next() of split('/')
      (match segment with
       | 126 :: _ =>
         if segment.length = 1 then .ok (some [])
         else match sliceFrom segment 1 with                -- segment[1..]
           | none => .panic
           | some user => .ok (some user)
       | _ => .ok none)
  | _ => .ok none

end GixModel.C06
