import GixModel.Basic.C43Scan
import GixModel.Extracted.EolStats
import GixModel.Spec.C43
/-
C43 — model of gitoxide's built-in content filters (no external driver, no working-tree-encoding).

Rust functions modelled (all in /repo/gix-filter/src):
  eol::Stats::{from_bytes, is_binary, will_convert_lf_to_crlf}         eol/utils.rs
  eol::{AttributesDigest::{to_eol, is_auto_text}, Configuration::to_eol, From<Mode>/From<AutoCrlf>}
  eol::convert_to_git (round-trip check, index lookup, both strip loops)  eol/convert_to_git.rs
  eol::convert_to_worktree                                              eol/convert_to_worktree.rs
  ident::{undo, apply}                                                  ident.rs
  pipeline::util::Configuration::at_path (extract_crlf, extract_eol, ident)  pipeline/util.rs
  Pipeline::{convert_to_git, convert_to_worktree}                       pipeline/convert.rs

The byte classification inside `Stats::from_bytes` is NOT transcribed by hand: it is
`Extracted.eol*`, regenerated from the source on every run (`extractedTable`).
Slices: `src[ofs..]` is the list of remaining bytes, `find*` return the pieces (see Basic/C43Scan).
`while let` loops run on fuel (`len + 1`, more than the bytes they can consume).
The blob id used by `ident::apply` (SHA-1, external) is a parameter.
(The import of Spec.C43 is used only by the `sgit`/`swt` driver ops at the end of this file, which
evaluate the git-side transcription so that the harness can compare it with the git binary.)
-/
namespace GixModel.C43
open GixModel GixModel.C43Scan

/-- `eol::Mode` -/
inductive Mode | lf | crlf
  deriving DecidableEq, Repr

/-- `eol::AutoCrlf` -/
inductive AutoCrlf | input | enabled | disabled
  deriving DecidableEq, Repr

/-- `eol::AttributesDigest` -/
inductive Digest
  | binary | text | textInput | textCrlf | textAuto | textAutoCrlf | textAutoInput
  deriving DecidableEq, Repr

/-- `eol::Configuration` plus the compile-time `Mode::default()` (`cfg!(windows)` ⇒ CrLf). -/
structure Config where
  autoCrlf : AutoCrlf
  eol : Option Mode
  native : Mode
  deriving DecidableEq, Repr

/-- `eol::Stats` -/
structure Stats where
  null : Nat := 0
  loneCr : Nat := 0
  loneLf : Nat := 0
  crlf : Nat := 0
  printable : Nat := 0
  nonPrintable : Nat := 0
  deriving DecidableEq, Repr

/-- The constants and `match` arms of `Stats::from_bytes` as the extractor presents them. -/
structure StatsTable where
  cr : Nat
  lf : Nat
  eqByte : Nat
  eqAction : Nat × Nat × Nat
  ctrlBelow : Nat
  ctrlArms : List (List Nat × Bool × (Nat × Nat × Nat))
  elseAction : Nat × Nat × Nat

def extractedTable : StatsTable :=
  { cr := Extracted.eolCr, lf := Extracted.eolLf, eqByte := Extracted.eolEqByte,
    eqAction := Extracted.eolEqAction, ctrlBelow := Extracted.eolCtrlBelow,
    ctrlArms := Extracted.eolCtrlArms, elseAction := Extracted.eolElseAction }

/-- first arm whose pattern list contains `b` (or is `_`) and whose `if bytes.peek().is_none()`
guard, if present, holds -/
def armAction : List (List Nat × Bool × (Nat × Nat × Nat)) → Nat → Bool → Nat × Nat × Nat
  | [], _, _ => (0, 0, 0)
  | (pats, guard, act) :: rest, b, isLast =>
    if (pats.isEmpty || pats.contains b) && (!guard || isLast) then act else armAction rest b isLast

/-- (printable, non_printable, null) increments for a byte that is neither CR nor LF -/
def StatsTable.classify (t : StatsTable) (b : Nat) (isLast : Bool) : Nat × Nat × Nat :=
  if b == t.eqByte then t.eqAction
  else if b < t.ctrlBelow then armAction t.ctrlArms b isLast
  else t.elseAction

def Stats.bump (s : Stats) (a : Nat × Nat × Nat) : Stats :=
  { s with printable := s.printable + a.1, nonPrintable := s.nonPrintable + a.2.1, null := s.null + a.2.2 }

/-- the `while let Some(b) = bytes.next()` loop of `Stats::from_bytes` -/
def statsGo (t : StatsTable) : Bytes → Stats → Stats
  | [], s => s
  | b :: rest, s =>
    if b.toNat == t.cr then
      match rest with
      | n :: rest' =>
        if n.toNat == t.lf then statsGo t rest' { s with crlf := s.crlf + 1 }
        else statsGo t (n :: rest') { s with loneCr := s.loneCr + 1 }
      | [] => { s with loneCr := s.loneCr + 1 }
    else if b.toNat == t.lf then statsGo t rest { s with loneLf := s.loneLf + 1 }
    else statsGo t rest (s.bump (t.classify b.toNat rest.isEmpty))

/-- `Stats::from_bytes` -/
def Stats.fromBytesWith (t : StatsTable) (bs : Bytes) : Stats := statsGo t bs {}

def Stats.fromBytes (bs : Bytes) : Stats := Stats.fromBytesWith extractedTable bs

/-- `Stats::is_binary` -/
def Stats.isBinary (s : Stats) : Bool :=
  s.loneCr > 0 || s.null > 0 || s.printable / 128 < s.nonPrintable

/-- `Configuration::to_eol` -/
def Config.toEol (c : Config) : Mode :=
  match c.autoCrlf with
  | .enabled => .crlf
  | .input => .lf
  | .disabled => c.eol.getD c.native

/-- `AttributesDigest::to_eol` -/
def Digest.toEol (d : Digest) (c : Config) : Option Mode :=
  match d with
  | .binary => none
  | .textInput | .textAutoInput => some .lf
  | .textCrlf | .textAutoCrlf => some .crlf
  | .text | .textAuto => some c.toEol

/-- `AttributesDigest::is_auto_text` -/
def Digest.isAutoText : Digest → Bool
  | .textAuto | .textAutoCrlf | .textAutoInput => true
  | _ => false

/-- `Stats::will_convert_lf_to_crlf` -/
def Stats.willConvertLfToCrlf (s : Stats) (d : Digest) (c : Config) : Bool :=
  if d.toEol c != some .crlf then false
  else if s.loneLf == 0 then false
  else if d.isAutoText then
    if s.isBinary then false
    else if s.loneCr > 0 || s.crlf > 0 then false
    else true
  else true

/-- `RoundTripCheck` (the path is only used in messages) -/
inductive RoundTrip | fail | warn
  deriving DecidableEq, Repr

/-- the two `Error::RoundTrip` / warning messages -/
inductive RtMsg | crlfToLf | lfToCrlf
  deriving DecidableEq, Repr

/-- `Ok(changed)` of `eol::convert_to_git`: `out = none` is `Ok(false)`; `warned` records the
`gix_trace::warn!` (not observable on the real code without a tracing subscriber). -/
structure EolToGit where
  out : Option Bytes
  warned : Option RtMsg := none
  deriving DecidableEq, Repr

/-- `buf.extend(src.iter().filter(|b| **b != b'\r'))` -/
def stripAllCr (src : Bytes) : Bytes := src.filter (· != 13)

/-- the peekable loop: `if !(*b == b'\r' && bytes.peek() == Some(&&b'\n')) { buf.push(*b) }` -/
def stripCrBeforeLf : Bytes → Bytes
  | [] => []
  | b :: rest =>
    if b == 13 && rest.head? == some 10 then stripCrBeforeLf rest else b :: stripCrBeforeLf rest

/-- `buf.find_byte(b'\r').map(|_| Stats::from_bytes(buf)).filter(|s| !s.is_binary() && s.crlf > 0).is_some()` -/
def hasCrlfInIndex (t : StatsTable) (buf : Bytes) : Bool :=
  if buf.contains 13 then
    let s := Stats.fromBytesWith t buf
    !s.isBinary && s.crlf > 0
  else false

/-- `new_stats` after "simulate to-git conversion/git-add" and "simulate worktree checkout" -/
def simulateRoundTrip (stats : Stats) (convert : Bool) (d : Digest) (c : Config) : Stats :=
  let new1 := if convert then { stats with loneLf := stats.loneLf + stats.crlf, crlf := 0 } else stats
  if new1.willConvertLfToCrlf d c then { new1 with crlf := new1.crlf + new1.loneLf, loneLf := 0 } else new1

/-- the round-trip check: which message is due, if any -/
def roundTripMsg (stats : Stats) (convert : Bool) (d : Digest) (c : Config) : Option RtMsg :=
  let new2 := simulateRoundTrip stats convert d c
  if stats.crlf > 0 && new2.crlf == 0 then some .crlfToLf
  else if stats.loneLf > 0 && new2.loneLf == 0 then some .lfToCrlf
  else none

/-- `convert_crlf_to_lf` after the auto-text adjustment: an index blob with CRLF keeps the CRLF -/
def convertCrlfToLf (t : StatsTable) (stats : Stats) (d : Digest) (index : Option Bytes) : Bool :=
  if d.isAutoText then
    match index with
    | some buf => if hasCrlfInIndex t buf then false else stats.crlf > 0
    | none => stats.crlf > 0
  else stats.crlf > 0

/-- the end of `eol::convert_to_git`: fail or warn, then strip the CRs (or not) -/
def eolToGitTail (src : Bytes) (stats : Stats) (convert : Bool) (msg : Option RtMsg)
    (rt : Option RoundTrip) : Except RtMsg EolToGit :=
  match rt, msg with
  | some .fail, some m => .error m
  | _, _ =>
    if !convert then .ok { out := none, warned := msg }
    else if stats.loneCr == 0 then .ok { out := some (stripAllCr src), warned := msg }
    else .ok { out := some (stripCrBeforeLf src), warned := msg }

/-- `eol::convert_to_git`; `index` is what `index_object` delivers (`Ok(None)` = `none`). -/
def eolToGitWith (t : StatsTable) (src : Bytes) (d : Digest) (index : Option Bytes)
    (rt : Option RoundTrip) (c : Config) : Except RtMsg EolToGit :=
  if d == .binary || src.isEmpty then .ok { out := none }
  else
    let stats := Stats.fromBytesWith t src
    if d.isAutoText && stats.isBinary then .ok { out := none }
    else
      let convert := convertCrlfToLf t stats d index
      let msg : Option RtMsg := match rt with
        | some _ => roundTripMsg stats convert d c
        | none => none
      eolToGitTail src stats convert msg rt

/-- the `while let Some(pos) = src[ofs..].find_byteset(b"\r\n")` loop of `eol::convert_to_worktree` -/
def eolToWorktreeLoop : Nat → Bytes → Bytes → Bytes
  | 0, cur, buf => buf ++ cur
  | fuel + 1, cur, buf =>
    match breakAt (fun b => b == 13 || b == 10) cur with
    | none => buf ++ cur
    | some (pre, hit, post) =>
      if hit == 13 then
        if post.head? == some 10 then eolToWorktreeLoop fuel (post.drop 1) (buf ++ pre ++ [13, 10])
        else eolToWorktreeLoop fuel post (buf ++ pre ++ [13])
      else eolToWorktreeLoop fuel post (buf ++ pre ++ [13, 10])

/-- `eol::convert_to_worktree`: `none` is `Ok(false)` -/
def eolToWorktreeWith (t : StatsTable) (src : Bytes) (d : Digest) (c : Config) : Option Bytes :=
  if src.isEmpty || d.toEol c != some .crlf then none
  else
    let stats := Stats.fromBytesWith t src
    if !stats.willConvertLfToCrlf d c then none
    else some (eolToWorktreeLoop (src.length + 1) src [])

/-! ### ident -/

def tagIdColon : Bytes := [36, 73, 100, 58]      -- "$Id:"
def tagIdDollar : Bytes := [36, 73, 100, 36]     -- "$Id$"

/-- `find_range` inside `ident::undo`: `some (before, after)` are `input[..range.start]` and
`input[range.end..]`; `skipped` are the bytes already passed by `ofs` -/
def findRange : Nat → Bytes → Bytes → Option (Bytes × Bytes)
  | 0, _, _ => none
  | fuel + 1, cur, skipped =>
    match splitOnSub tagIdColon cur with
    | none => none
    | some (pre, afterTag) =>
      match breakAt (fun b => b == 36 || b == 10) afterTag with
      | none => none
      | some (mid, hit, post) =>
        if hit == 10 then findRange fuel post (skipped ++ pre ++ tagIdColon ++ mid ++ [10])
        else some (skipped ++ pre, post)

/-- the `while let Some(range) = find_range(&src[ofs..])` loop of `ident::undo` -/
def identUndoLoop : Nat → Bytes → Bytes → Bool → Option Bytes
  | 0, cur, buf, initialized => if initialized then some (buf ++ cur) else none
  | fuel + 1, cur, buf, initialized =>
    match findRange (cur.length + 1) cur [] with
    | none => if initialized then some (buf ++ cur) else none
    | some (before, after) => identUndoLoop fuel after (buf ++ before ++ tagIdDollar) true

/-- `ident::undo`: `none` is `Ok(false)` -/
def identUndo (src : Bytes) : Option Bytes := identUndoLoop (src.length + 1) src [] false

/-- the `while let Some(pos) = src[ofs..].find(b"$Id$")` loop of `ident::apply`; `hex` is
`id.write_hex_to` of the blob id of `src` -/
def identApplyLoop (hex : Bytes) : Nat → Bytes → Bytes → Bool → Option Bytes
  | 0, cur, buf, found => if found then some (buf ++ cur) else none
  | fuel + 1, cur, buf, found =>
    match splitOnSub tagIdDollar cur with
    | none => if found then some (buf ++ cur) else none
    | some (pre, post) =>
      identApplyLoop hex fuel post (buf ++ pre ++ [36, 73, 100] ++ [58, 32] ++ hex ++ [36]) true

/-- `ident::apply`: `none` is `Ok(false)` -/
def identApply (hash : Bytes → Bytes) (src : Bytes) : Option Bytes :=
  identApplyLoop (hash src) (src.length + 1) src [] false

/-! ### attributes → configuration -/

/-- `gix_attributes::StateRef` -/
inductive AttrState
  | unspecified | set | unset | value (v : Bytes)
  deriving DecidableEq, Repr

def strInput : Bytes := [105, 110, 112, 117, 116]
def strAuto : Bytes := [97, 117, 116, 111]
def strLf : Bytes := [108, 102]
def strCrlf : Bytes := [99, 114, 108, 102]

/-- `extract_crlf` -/
def extractCrlf : AttrState → Option Digest
  | .unspecified => none
  | .set => some .text
  | .unset => some .binary
  | .value v => if v == strInput then some .textInput else if v == strAuto then some .textAuto else none

/-- `extract_eol` -/
def extractEol : AttrState → Option Mode
  | .value v => if v == strLf then some .lf else if v == strCrlf then some .crlf else none
  | _ => none

/-- the attributes `Configuration::at_path` looks at (`filter` and `working-tree-encoding` unspecified) -/
structure Attrs where
  crlf : AttrState
  ident : AttrState
  eol : AttrState
  text : AttrState
  deriving DecidableEq, Repr

def Mode.toDigest : Mode → Digest
  | .lf => .textInput
  | .crlf => .textCrlf

def AutoCrlf.toDigest : AutoCrlf → Digest
  | .input => .textAutoInput
  | .enabled => .textAutoCrlf
  | .disabled => .binary

/-- the second half of `Configuration::at_path`: the `eol` attribute refines what `text`/`crlf`
said (`d0`), then the configuration fills in what the attributes left open -/
def digestOf (d0 : Option Digest) (eol : Option Mode) (c : Config) : Digest :=
  let d1 : Option Digest :=
    if d0 != some .binary then
      match d0, eol with
      | some .textAuto, some .lf => some .textAutoInput
      | some .textAuto, some .crlf => some .textAutoCrlf
      | _, some .crlf => some .textCrlf
      | _, some .lf => some .textInput
      | _, none => d0
    else d0
  match d1 with
  | none => c.autoCrlf.toDigest
  | some .text => c.toEol.toDigest
  | some d => d

/-- `Configuration::at_path`: (`digest`, `apply_ident_filter`) -/
def atPath (a : Attrs) (c : Config) : Digest × Bool :=
  -- `let mut digest = extract_crlf(&attrs[4]); if digest.is_none() { digest = extract_crlf(&attrs[0]); }`
  let d0 := (extractCrlf a.text).or (extractCrlf a.crlf)
  (digestOf d0 (extractEol a.eol) c, a.ident == .set)

/-- `pipeline::CrlfRoundTripCheck` -/
inductive CrlfRoundTripCheck | fail | warn | skip
  deriving DecidableEq, Repr

def CrlfRoundTripCheck.toEol : CrlfRoundTripCheck → Option RoundTrip
  | .fail => some .fail
  | .warn => some .warn
  | .skip => none

/-- `ToGitOutcome` without drivers: `Unchanged(src)` or `Buffer(bytes)` -/
inductive Outcome
  | unchanged
  | buffer (bs : Bytes)
  deriving DecidableEq, Repr

def Outcome.bytes (o : Outcome) (src : Bytes) : Bytes :=
  match o with
  | .unchanged => src
  | .buffer b => b

/-- `would_convert_eol`: `eol::convert_to_git(b"\r\n", digest, …, round_trip_check: None)` —
"this is just an approximation, but it's as good as it gets without reading the actual input" -/
def wouldConvertEol (t : StatsTable) (digest : Digest) (c : Config) : Bool :=
  match eolToGitWith t [13, 10] digest none none c with
  | .ok r => r.out.isSome
  | .error _ => false

/-- `Pipeline::convert_to_git` without driver and encoding -/
def pipelineToGitWith (t : StatsTable) (src : Bytes) (a : Attrs) (index : Option Bytes)
    (check : CrlfRoundTripCheck) (c : Config) : Except RtMsg (Outcome × Option RtMsg) :=
  let (digest, applyIdent) := atPath a c
  if !(applyIdent || wouldConvertEol t digest c) then
    -- nothing is read; the later stages see an empty/stale buffer and `digest == Binary`
    .ok (.unchanged, none)
  else
    match eolToGitWith t src digest index check.toEol c with
    | .error m => .error m
    | .ok r =>
      let s1 := r.out.getD src
      let s2 := if applyIdent then (identUndo s1).getD s1 else s1
      .ok (.buffer s2, r.warned)

/-- `Pipeline::convert_to_worktree` without driver and encoding -/
def pipelineToWorktreeWith (t : StatsTable) (hash : Bytes → Bytes) (src : Bytes) (a : Attrs)
    (c : Config) : Outcome :=
  let (digest, applyIdent) := atPath a c
  let r1 := if applyIdent then identApply hash src else none
  let s1 := r1.getD src
  let r2 := eolToWorktreeWith t s1 digest c
  match r1, r2 with
  | none, none => .unchanged
  | _, some b => .buffer b
  | some b, none => .buffer b

def eolToGit := eolToGitWith extractedTable
def eolToWorktree := eolToWorktreeWith extractedTable
def pipelineToGit := pipelineToGitWith extractedTable
def pipelineToWorktree := pipelineToWorktreeWith extractedTable

/-! ### driver -/

def parseMode? : String → Option (Option Mode)
  | "lf" => some (some .lf) | "crlf" => some (some .crlf) | "native" => some none | _ => none

def parseAuto? : String → Option AutoCrlf
  | "true" => some .enabled | "false" => some .disabled | "input" => some .input | _ => none

def parseDigest? : String → Option Digest
  | "Binary" => some .binary | "Text" => some .text | "TextInput" => some .textInput
  | "TextCrlf" => some .textCrlf | "TextAuto" => some .textAuto | "TextAutoCrlf" => some .textAutoCrlf
  | "TextAutoInput" => some .textAutoInput | _ => none

def parseCheck? : String → Option CrlfRoundTripCheck
  | "fail" => some .fail | "warn" => some .warn | "skip" => some .skip | _ => none

def parseOptHex? (s : String) : Option (Option Bytes) :=
  if s == "none" then some none else (bytesOfHex s).map some

/-- `u` unspecified, `s` set, `n` unset, `v<hex>` value -/
def parseAttr? (s : String) : Option AttrState :=
  if s == "u" then some .unspecified
  else if s == "s" then some .set
  else if s == "n" then some .unset
  else if s.startsWith "v" then (bytesOfHex (s.drop 1).toString).map .value
  else none

def parseCfg? (auto eol : String) : Option Config := do
  let a ← parseAuto? auto
  let e ← parseMode? eol
  some { autoCrlf := a, eol := e, native := .lf }

def msgName : RtMsg → String
  | .crlfToLf => "crlf-to-lf" | .lfToCrlf => "lf-to-crlf"

def optOut : Option Bytes → String
  | none => "unchanged" | some b => s!"ok {hexOfBytes b}"

def outcomeStr : Outcome → String
  | .unchanged => "unchanged" | .buffer b => s!"buf {hexOfBytes b}"

/-! spec side (git), for the `sgit`/`swt` ops -/
open Spec.C43 in
def specAttr : AttrState → Spec.C43.AttrValue
  | .unspecified => .unset | .set => .true_ | .unset => .false_ | .value v => .str v

def specCfg? (auto eol : String) : Option Spec.C43.GitConfig := do
  let a ← match auto with
    | "true" => some Spec.C43.AutoCrlf.true_ | "false" => some .false_ | "input" => some .input | _ => none
  let e ← match eol with
    | "lf" => some Spec.C43.Eol.lf | "crlf" => some .crlf | "native" => some .unset | _ => none
  some { autoCrlf := a, coreEol := e, nativeCrlf := false }

def specSafe? : String → Option Spec.C43.SafeCrlf
  | "fail" => some .die | "warn" => some .warn | "skip" => some .off | _ => none

def specMsgName : Spec.C43.EolMsg → String
  | .crlfToLf => "crlf-to-lf" | .lfToCrlf => "lf-to-crlf"

def handle? : List String → Option String
  | ["stats", src] => do
    let src ← bytesOfHex src
    let s := Stats.fromBytes src
    some s!"{s.null} {s.loneCr} {s.loneLf} {s.crlf} {s.printable} {s.nonPrintable} bin={if s.isBinary then 1 else 0}"
  | ["eolgit", d, auto, eol, rt, index, src] => do
    let d ← parseDigest? d
    let c ← parseCfg? auto eol
    let rt ← parseCheck? rt
    let index ← parseOptHex? index
    let src ← bytesOfHex src
    match eolToGit src d index rt.toEol c with
    | .error m => some s!"err:{msgName m}"
    | .ok r => some (optOut r.out)
  | ["eolwt", d, auto, eol, src] => do
    let d ← parseDigest? d
    let c ← parseCfg? auto eol
    let src ← bytesOfHex src
    some (optOut (eolToWorktree src d c))
  | ["undo", src] => do
    let src ← bytesOfHex src
    some (optOut (identUndo src))
  | ["apply", hex, src] => do
    let hex ← bytesOfHex hex
    let src ← bytesOfHex src
    some (optOut (identApply (fun _ => hex) src))
  | ["pgit", text, crlf, eolA, ident, auto, eol, rt, index, src] => do
    let a : Attrs := { text := ← parseAttr? text, crlf := ← parseAttr? crlf, eol := ← parseAttr? eolA,
                       ident := ← parseAttr? ident }
    let c ← parseCfg? auto eol
    let rt ← parseCheck? rt
    let index ← parseOptHex? index
    let src ← bytesOfHex src
    match pipelineToGit src a index rt c with
    | .error m => some s!"err:{msgName m}"
    | .ok (o, _) => some (outcomeStr o)
  | ["pwt", text, crlf, eolA, ident, auto, eol, hex, src] => do
    let a : Attrs := { text := ← parseAttr? text, crlf := ← parseAttr? crlf, eol := ← parseAttr? eolA,
                       ident := ← parseAttr? ident }
    let c ← parseCfg? auto eol
    let hex ← bytesOfHex hex
    let src ← bytesOfHex src
    some (outcomeStr (pipelineToWorktree (fun _ => hex) src a c))
  -- the git-side transcription, compared by the harness with what the git binary did
  | ["sgit", text, crlf, eolA, ident, auto, eol, safe, index, src] => do
    let a : Spec.C43.GitAttrs := { text := specAttr (← parseAttr? text), crlf := specAttr (← parseAttr? crlf),
                                   eol := specAttr (← parseAttr? eolA), ident := specAttr (← parseAttr? ident) }
    let c ← specCfg? auto eol
    let safe ← specSafe? safe
    let index ← parseOptHex? index
    let src ← bytesOfHex src
    match Spec.C43.convertToGit c a index safe src with
    | .error m => some s!"die:{specMsgName m}"
    | .ok r => some s!"{hexOfBytes r.out} warn={match r.warning with | none => "none" | some m => specMsgName m}"
  | ["swt", text, crlf, eolA, ident, auto, eol, hex, src] => do
    let a : Spec.C43.GitAttrs := { text := specAttr (← parseAttr? text), crlf := specAttr (← parseAttr? crlf),
                                   eol := specAttr (← parseAttr? eolA), ident := specAttr (← parseAttr? ident) }
    let c ← specCfg? auto eol
    let hex ← bytesOfHex hex
    let src ← bytesOfHex src
    some (hexOfBytes (Spec.C43.checkoutEntry (fun _ => hex) c a src))
  | ["swtm", text, crlf, eolA, ident, auto, eol, hex, src] => do
    let a : Spec.C43.GitAttrs := { text := specAttr (← parseAttr? text), crlf := specAttr (← parseAttr? crlf),
                                   eol := specAttr (← parseAttr? eolA), ident := specAttr (← parseAttr? ident) }
    let c ← specCfg? auto eol
    let hex ← bytesOfHex hex
    let src ← bytesOfHex src
    some (hexOfBytes (Spec.C43.convertToWorkingTree (fun _ => hex) c a src))
  | _ => none

def handle (args : List String) : String := (handle? args).getD "bad-op"

end GixModel.C43
