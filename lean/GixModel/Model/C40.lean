import GixModel.Basic.Hex
import GixModel.Extracted.WinDevices
import GixModel.Extracted.HfsIgnorable
import GixModel.Spec.C40
/-
C40 — model of `gix_validate::path::component` (gix-validate/src/path.rs) and its helpers
`is_win_device` (= `component_is_windows_device`), `check_win_devices_and_illegal_characters`,
`is_dot_hfs`, `is_dot_git_ntfs`, `is_dot_ntfs`, `is_done_ntfs`, `is_done_windows`, plus the part of
the `bstr` crate they rely on (`decode_utf8` with its "maximal prefix" replacement rule, `chars()`).

Table-shaped code is NOT transcribed by hand: the Windows device names (`Extracted.winDevices`) and
the code points `is_dot_hfs` filters out (`Extracted.hfsIgnorable`) are regenerated from the source
on every run; the model is generic in them (`Tables`).

The function has no panicking operations (every slice access is a `get`), so the outcome is `ok` or
`err kind`; the checks run in source order and the first that fires decides the kind.
-/
namespace GixModel.C40
open GixModel

inductive Err
  | empty | dotOrDotDot | pathSeparator | windowsPathPrefix | windowsReservedName | windowsIllegalCharacter
  | dotGitDir | symlinkedGitModules
  deriving DecidableEq, Repr

def Err.name : Err → String
  | .empty => "Empty" | .dotOrDotDot => "DotOrDotDot" | .pathSeparator => "PathSeparator" | .windowsPathPrefix => "WindowsPathPrefix"
  | .windowsReservedName => "WindowsReservedName" | .windowsIllegalCharacter => "WindowsIllegalCharacter"
  | .dotGitDir => "DotGitDir" | .symlinkedGitModules => "SymlinkedGitModules"

structure Opts where
  windows : Bool
  hfs : Bool
  ntfs : Bool
  deriving DecidableEq, Repr

/-- a device entry: the 3-byte name, an optional digit range that must follow, alternative
extensions (`IN$`, `OUT$`) that may follow instead of nothing -/
structure Device where
  name : Bytes
  digit : Option (Nat × Nat)
  ext : List Bytes

structure Tables where
  devices : List Device
  ignorable : List Nat

def extractedTables : Tables :=
  ⟨Extracted.winDevices.map fun d => ⟨d.1, d.2.1, d.2.2⟩, Extracted.hfsIgnorable⟩

/-! ### bstr -/

def inRange (lo hi b : UInt8) : Bool := lo ≤ b && b ≤ hi
def isCont (b : UInt8) : Bool := inRange 0x80 0xbf b

def cp2 (a b : UInt8) : Nat := ((a &&& 0x1f).toNat <<< 6) ||| (b &&& 0x3f).toNat
def cp3 (a b c : UInt8) : Nat := ((a &&& 0x0f).toNat <<< 12) ||| ((b &&& 0x3f).toNat <<< 6) ||| (c &&& 0x3f).toNat
def cp4 (a b c d : UInt8) : Nat :=
  ((a &&& 0x07).toNat <<< 18) ||| ((b &&& 0x3f).toNat <<< 12) ||| ((c &&& 0x3f).toNat <<< 6) ||| (d &&& 0x3f).toNat

/-- allowed range of the second byte after a 3- or 4-byte lead (Unicode table 3-7) -/
def secondRange (b0 : UInt8) : UInt8 × UInt8 :=
  if b0 == 0xe0 then (0xa0, 0xbf)
  else if b0 == 0xed then (0x80, 0x9f)
  else if b0 == 0xf0 then (0x90, 0xbf)
  else if b0 == 0xf4 then (0x80, 0x8f)
  else (0x80, 0xbf)

/-- `bstr::decode_utf8` on a non-empty slice `b0 :: t`: the scalar value (or `none` for an invalid
sequence) and the number of bytes consumed (1‥4; for an invalid sequence the maximal prefix of a
valid sequence, at least 1) -/
def decode1 (b0 : UInt8) (t : Bytes) : Option Nat × Nat :=
  if b0 ≤ 0x7f then (some b0.toNat, 1)
  else if inRange 0xc2 0xdf b0 then
    match t with
    | b1 :: _ => if isCont b1 then (some (cp2 b0 b1), 2) else (none, 1)
    | [] => (none, 1)
  else if inRange 0xe0 0xef b0 then
    match t with
    | [] => (none, 1)
    | b1 :: t1 =>
      if !inRange (secondRange b0).1 (secondRange b0).2 b1 then (none, 1)
      else match t1 with
        | [] => (none, 2)
        | b2 :: _ => if isCont b2 then (some (cp3 b0 b1 b2), 3) else (none, 2)
  else if inRange 0xf0 0xf4 b0 then
    match t with
    | [] => (none, 1)
    | b1 :: t1 =>
      if !inRange (secondRange b0).1 (secondRange b0).2 b1 then (none, 1)
      else match t1 with
        | [] => (none, 2)
        | b2 :: t2 =>
          if !isCont b2 then (none, 2)
          else match t2 with
            | [] => (none, 3)
            | b3 :: _ => if isCont b3 then (some (cp4 b0 b1 b2 b3), 4) else (none, 3)
  else (none, 1)

/-- `ByteSlice::chars()`: lossy decoding, U+FFFD for every invalid sequence. `fuel = length`. -/
def charsFuel : Nat → Bytes → List Nat
  | 0, _ => []
  | _, [] => []
  | f + 1, b0 :: t =>
    let (c, k) := decode1 b0 t
    c.getD 0xfffd :: charsFuel f (t.drop (k - 1))

def chars (bs : Bytes) : List Nat := charsFuel bs.length bs

/-! ### helpers of path.rs -/

def toLower (b : UInt8) : UInt8 := if 65 ≤ b && b ≤ 90 then b + 32 else b

/-- `<[u8]>::eq_ignore_ascii_case` -/
def eqIC : Bytes → Bytes → Bool
  | [], [] => true
  | a :: as, b :: bs => toLower a == toLower b && eqIC as bs
  | _, _ => false

/-- `char::eq_ignore_ascii_case` between an ASCII needle byte and a decoded scalar value -/
def charEqIC (needle : UInt8) (c : Nat) : Bool :=
  (toLower needle).toNat == (if 65 ≤ c ∧ c ≤ 90 then c + 32 else c)

/-- `input.get(a..b)` -/
def getRange (input : Bytes) (a b : Nat) : Option Bytes :=
  if a ≤ b ∧ b ≤ input.length then some ((input.drop a).take (b - a)) else none

/-- `input.get(a..)` -/
def getFrom (input : Bytes) (a : Nat) : Option Bytes :=
  if a ≤ input.length then some (input.drop a) else none

/-- `is_done_ntfs` on the slice itself -/
def doneNtfsSlice : Bytes → Bool
  | [] => true
  | b :: rest => if b == 58 then true else if b != 32 && b != 46 then false else doneNtfsSlice rest

def isDoneNtfs : Option Bytes → Bool
  | none => true
  | some s => doneNtfsSlice s

/-- `is_done_windows` -/
def isDoneWindows : Option Bytes → Bool
  | none => true
  | some s =>
    match s.dropWhile (· == 32) with
    | [] => true
    | next :: _ => next == 46 || next == 58

def deviceMatches (input : Bytes) (d : Device) : Bool :=
  match getRange input 0 3 with
  | none => false
  | some in3 =>
    eqIC in3 d.name &&
      (match d.digit with
       | some (lo, hi) =>
         (match input[3]? with
          | some n => lo ≤ n.toNat && n.toNat ≤ hi
          | none => false) && isDoneWindows (getFrom input 4)
       | none =>
         isDoneWindows (getFrom input 3)
           || d.ext.any fun e =>
                (match getRange input 3 (3 + e.length) with
                 | some n => eqIC n e
                 | none => false) && isDoneWindows (getFrom input (3 + e.length)))

/-- `is_win_device` -/
def isWinDevice (t : Tables) (input : Bytes) : Bool := t.devices.any (deviceMatches input)

def illegalWin (b : UInt8) : Bool :=
  b < 0x20 || b == 58 || b == 60 || b == 62 || b == 34 || b == 124 || b == 63 || b == 42

/-- `check_win_devices_and_illegal_characters` -/
def checkWin (t : Tables) (input : Bytes) : Option Err :=
  if isWinDevice t input then some .windowsReservedName
  else if input.any illegalWin then some .windowsIllegalCharacter
  else if input.getLast? == some 46 || input.getLast? == some 32 then some .windowsIllegalCharacter
  else none

/-- the comparison loop of `is_dot_hfs` after the leading '.' -/
def hfsCompare : Bytes → List Nat → Bool
  | [], [] => true
  | a :: as, b :: bs => charEqIC a b && hfsCompare as bs
  | _, _ => false

/-- `is_dot_hfs(input, needle)` -/
def isDotHfs (t : Tables) (input needle : Bytes) : Bool :=
  match (chars input).filter (fun c => !t.ignorable.contains c) with
  | 46 :: rest => hfsCompare needle rest
  | _ => false

/-- `is_dot_git_ntfs` -/
def isDotGitNtfs (input : Bytes) : Bool :=
  if (match getRange input 0 4 with | some p => eqIC p [46, 103, 105, 116] | none => false) then
    isDoneNtfs (getFrom input 4)
  else if (match getRange input 0 5 with | some p => eqIC p [103, 105, 116, 126, 49] | none => false) then
    isDoneNtfs (getFrom input 5)
  else false

/-- the `while pos < 8` loop of `is_dot_ntfs`; `none` = `return false`, `some pos` = fell out -/
def ntfsShortLoop (input shortPrefix : Bytes) : Nat → Nat → Bool → Option Nat
  | 0, pos, _ => some pos
  | fuel + 1, pos, sawTilde =>
    if pos ≥ 8 then some pos
    else match input[pos]? with
      | none => none
      | some b =>
        if sawTilde then
          if !(48 ≤ b && b ≤ 57) then none else ntfsShortLoop input shortPrefix fuel (pos + 1) true
        else if b == 126 then
          match input[pos + 1]? with
          | none => none
          | some d =>
            if !(49 ≤ d && d ≤ 57) then none else ntfsShortLoop input shortPrefix fuel (pos + 2) true
        else if pos ≥ 6 || b &&& 0x80 == 0x80
            || (match shortPrefix[pos]? with | none => true | some ob => !(toLower b == toLower ob)) then none
        else ntfsShortLoop input shortPrefix fuel (pos + 1) false

/-- `is_dot_ntfs(input, search, ntfs_shortname_prefix)` -/
def isDotNtfs (input search shortPrefix : Bytes) : Bool :=
  if input.head? == some 46 then
    let endPos := 1 + search.length
    if (match getRange input 1 endPos with | some p => eqIC p search | none => false) then
      isDoneNtfs (getFrom input endPos)
    else false
  else if (match getRange search 0 6, getRange input 0 6 with
           | some np, some f6 =>
             eqIC f6 np && input[6]? == some 126
               && (match input[7]? with | some n => 49 ≤ n && n ≤ 52 | none => false)
           | _, _ => false) then
    isDoneNtfs (getFrom input 8)
  else
    match ntfsShortLoop input shortPrefix 9 0 false with
    | none => false
    | some pos => isDoneNtfs (getFrom input pos)

def gitmodules : Bytes := [103, 105, 116, 109, 111, 100, 117, 108, 101, 115]
def gi7eba : Bytes := [103, 105, 55, 101, 98, 97]

/-- the checks of `component()` in source order: (fires, error) -/
def checks (t : Tables) (o : Opts) (symlink : Bool) (input : Bytes) : List (Bool × Err) :=
  [ (input.isEmpty, .empty),
    (input == [46] || input == [46, 46], .dotOrDotDot),
    (o.windows && (input.contains 47 || input.contains 92), .pathSeparator),
    (o.windows && (chars input)[1]? == some 58, .windowsPathPrefix),
    (!o.windows && input.contains 47, .pathSeparator),
    (o.hfs && isDotHfs t input [103, 105, 116], .dotGitDir),
    (o.hfs && symlink && isDotHfs t input gitmodules, .symlinkedGitModules),
    (o.ntfs && isDotGitNtfs input, .dotGitDir),
    (o.ntfs && symlink && isDotNtfs input gitmodules gi7eba, .symlinkedGitModules),
    (o.ntfs && o.windows && isWinDevice t input, .windowsReservedName),
    (o.ntfs && o.windows && input.any illegalWin, .windowsIllegalCharacter),
    (o.ntfs && o.windows && (input.getLast? == some 46 || input.getLast? == some 32), .windowsIllegalCharacter),
    (!(o.hfs || o.ntfs) && eqIC input [46, 103, 105, 116], .dotGitDir),
    (!(o.hfs || o.ntfs) && symlink && eqIC input (46 :: gitmodules), .symlinkedGitModules) ]

/-- `path::component(input, mode, opts)`: `none` = `Ok(input)` -/
def component (t : Tables) (o : Opts) (symlink : Bool) (input : Bytes) : Option Err :=
  ((checks t o symlink input).find? (·.1)).map (·.2)

/-! ### the callers that choose the `mode` argument -/

/-- `tree::EntryMode::kind() == EntryKind::Link` / `EntryKind::Tree` (gix-object/src/tree/mod.rs:
`mode & 0o170000`) -/
def modeIsLink (m : Nat) : Bool := m &&& 0o170000 == 0o120000
def modeIsTree (m : Nat) : Bool := m &&& 0o170000 == 0o040000

/-- `gix_index::State::from_tree` (gix-index/src/init.rs, `CollectEntries`) on a tree whose only
hostile entry is `(mode, name)` (at the root or below a harmless directory; a tree entry points to a
tree with one harmless blob): every name is validated with `mode = None` when it is pushed
(`push_element`), a non-tree leaf once more with `Some(Symlink)` iff its mode's KIND is a link
(`add_entry`). `none` = the index is built. -/
def fromTreeEntry (t : Tables) (o : Opts) (mode : Nat) (name : Bytes) : Option Err :=
  match component t o false name with
  | some e => some e
  | none => if !modeIsTree mode && modeIsLink mode then component t o true name else none

/-- `gix_worktree::Stack::at_entry(name, Some(mode), …)` with `State::for_checkout` for a single
normal path component: `StackDelegate::push` → `validate_last_component(stack, mode, opts)`, where
symlink = (`mode == gix_index::entry::Mode::SYMLINK`). -/
def stackPush (t : Tables) (o : Opts) (symlink : Bool) (name : Bytes) : Option Err :=
  component t o symlink name

def parseOct? (s : String) : Option Nat :=
  if s.isEmpty then none
  else s.toList.foldl (fun acc c => match acc with
    | none => none
    | some n => if '0' ≤ c ∧ c ≤ '7' then some (n * 8 + (c.toNat - 48)) else none) (some 0)

/-! ### driver -/

def parseBool? : String → Option Bool
  | "1" => some true
  | "0" => some false
  | _ => none

def yn (b : Bool) : String := if b then "accept" else "refuse"

def handle? : List String → Option String
  | ["component", w, h, n, s, hx] => do
    let w ← parseBool? w
    let h ← parseBool? h
    let n ← parseBool? n
    let s ← parseBool? s
    let bs ← bytesOfHex hx
    match component extractedTables ⟨w, h, n⟩ s bs with
    | none => some "ok"
    | some e => some ("err:" ++ e.name)
  | ["fromtree", w, h, n, _depth, mode, hx] => do
    let w ← parseBool? w
    let h ← parseBool? h
    let n ← parseBool? n
    let mode ← parseOct? mode
    let bs ← bytesOfHex hx
    match fromTreeEntry extractedTables ⟨w, h, n⟩ mode bs with
    | none => some "ok"
    | some e => some ("err:" ++ e.name)
  | ["stack", w, h, n, s, hx] => do
    let w ← parseBool? w
    let h ← parseBool? h
    let n ← parseBool? n
    let s ← parseBool? s
    let bs ← bytesOfHex hx
    match stackPush extractedTables ⟨w, h, n⟩ s bs with
    | none => some "ok"
    | some e => some ("err:" ++ e.name)
  | ["gittree", n, h, mode, hx] => do
    -- git read-tree of a literal tree with one entry: the mode is a symlink iff S_ISLNK(mode)
    let n ← parseBool? n
    let h ← parseBool? h
    let mode ← parseOct? mode
    let bs ← bytesOfHex hx
    if bs.contains 0 then none else some (yn (Spec.C40.gitVerifyPath n h (modeIsLink mode) bs))
  | ["device", hx] => do
    let bs ← bytesOfHex hx
    some (if isWinDevice extractedTables bs then "device" else "no")
  | ["git", n, h, s, hx] => do
    -- the Lean transcription of verify_path, compared with the git binary's verdict
    let n ← parseBool? n
    let h ← parseBool? h
    let s ← parseBool? s
    let bs ← bytesOfHex hx
    if bs.contains 0 then none else some (yn (Spec.C40.gitVerifyPath n h s bs))
  | _ => none

def handle (args : List String) : String := (handle? args).getD "bad-op"

end GixModel.C40
