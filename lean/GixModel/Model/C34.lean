import GixModel.Basic.Dec
/-
C34 — model of how URL components reach the argument vectors of spawned transport programs.

Rust functions modelled (all in /repo):
  gix-url/src/lib.rs           looks_like_command_line_option, Url::{user_as_argument,
                               host_as_argument, path_argument_safe}
  gix-url/src/expand_path.rs   parse + for_shell (`/~/x` → `~/x`, `/~user/x` → `~user/x`)
  gix-quote/src/single.rs      single
  gix-transport/src/client/blocking_io/ssh/program_kind.rs   ProgramKind::prepare_invocation
  gix-transport/src/client/blocking_io/ssh/mod.rs            connect (scheme / host check, path)
  gix-transport/src/client/blocking_io/file.rs               SpawnProcessOnDemand::handshake:
                               the argument vector for the ssh program and for the local
                               `git-upload-pack`, the leading-dash path rejection
  bstr `trim()` as used by that rejection: Unicode White_Space on UTF-8 (exact list below)
The `Prepare → Command` conversion of gix-command (direct spawn, or `/bin/sh -c '<cmd> "$@"' --
args…`) hands the arguments over unchanged; the harness observes the argv a recorder program
actually receives, for both ways.

`Outcome.panic` is the `panic!("BUG: host should always be present in SSH URLs")` branch.
Every argument carries its provenance so that "URL-derived" is a definition, not a comment.
-/
namespace GixModel.C34
open GixModel

inductive Kind | ssh | plink | putty | tortoisePlink | simple
  deriving Repr, DecidableEq

inductive ErrKind
  | ambiguousUserName | ambiguousHostName | unsupported | ambiguousPath | unsupportedScheme
  deriving Repr, DecidableEq

inductive Outcome (α : Type) where
  | ok (a : α)
  | err (e : ErrKind)
  | panic
  deriving Repr, DecidableEq

structure Url where
  /-- `scheme == Scheme::Ssh` -/
  isSsh : Bool
  user : Option Bytes
  host : Option Bytes
  /-- u16 -/
  port : Option Nat
  path : Bytes
  deriving Repr, DecidableEq

/-- `looks_like_command_line_option` -/
def looksLikeOption (b : Bytes) : Bool := b.head? == some 45

inductive Safety where
  | absent
  | usable (b : Bytes)
  | dangerous (b : Bytes)
  deriving Repr, DecidableEq

/-- `user_as_argument` / `host_as_argument` -/
def asArgument : Option Bytes → Safety
  | none => .absent
  | some v => if looksLikeOption v then .dangerous v else .usable v

/-- `Url::path_argument_safe` -/
def pathArgumentSafe (u : Url) : Option Bytes :=
  match u.path with
  | [] => none                                    -- `get(1..)` on an empty path
  | _ :: truncated => if looksLikeOption truncated then none else some u.path

/-- where an argument comes from -/
inductive Origin
  /-- a constant of the program (`-o`, `SendEnv=GIT_PROTOCOL`, `-batch`, `-P`) -/
  | fixed
  /-- rendered from the numeric port -/
  | port
  /-- `user@host` or `host` -/
  | userHost
  /-- the service name (`git-upload-pack`) -/
  | service
  /-- the repository path -/
  | path
  deriving Repr, DecidableEq

structure Arg where
  origin : Origin
  bytes : Bytes
  deriving Repr, DecidableEq

def bDashO : Bytes := [45, 111]                                                         -- "-o"
def bSendEnv : Bytes :=                                                                 -- "SendEnv=GIT_PROTOCOL"
  [83, 101, 110, 100, 69, 110, 118, 61, 71, 73, 84, 95, 80, 82, 79, 84, 79, 67, 79, 76]
def bDashP : Bytes := [45, 112]                                                         -- "-p"
def bDashBigP : Bytes := [45, 80]                                                       -- "-P"
def bBatch : Bytes := [45, 98, 97, 116, 99, 104]                                        -- "-batch"
def bUploadPack : Bytes := [103, 105, 116, 45, 117, 112, 108, 111, 97, 100, 45, 112, 97, 99, 107]

/-- the options in front of the host, per program kind (`version` = `desired_version as usize`) -/
def kindOptions (kind : Kind) (port : Option Nat) (version : Nat) : Outcome (List Arg) :=
  match kind with
  | .ssh =>
    .ok ((if version != 1 then [⟨.fixed, bDashO⟩, ⟨.fixed, bSendEnv⟩] else []) ++
         (match port with
          | some p => [⟨.port, bDashP ++ natDec p⟩]
          | none => []))
  | .plink | .putty | .tortoisePlink =>
    .ok ((if kind == .tortoisePlink then [⟨.fixed, bBatch⟩] else []) ++
         (match port with
          | some p => [⟨.fixed, bDashBigP⟩, ⟨.port, natDec p⟩]
          | none => []))
  | .simple => if port.isSome then .err .unsupported else .ok []

/-- `ProgramKind::prepare_invocation`: the arguments of the ssh program up to and including the host -/
def prepareInvocation (kind : Kind) (u : Url) (version : Nat) : Outcome (List Arg) :=
  match kindOptions kind u.port version with
  | .err e => .err e
  | .panic => .panic
  | .ok opts =>
    match asArgument u.user, asArgument u.host with
    | .usable user, .usable host => .ok (opts ++ [⟨.userHost, user ++ [64] ++ host⟩])
    | .usable user, .dangerous host => .ok (opts ++ [⟨.userHost, user ++ [64] ++ host⟩])
    | .absent, .usable host => .ok (opts ++ [⟨.userHost, host⟩])
    | .dangerous _, _ => .err .ambiguousUserName
    | _, .dangerous _ => .err .ambiguousHostName
    | _, .absent => .panic

/-! ### `expand_path::for_shell` -/

/-- `slice::split(|c| *c == b'/')`: at least one piece -/
def splitSlash : Bytes → List Bytes
  | [] => [[]]
  | b :: rest =>
    if b == 47 then [] :: splitSlash rest
    else match splitSlash rest with
      | [] => [[b]]
      | p :: ps => (b :: p) :: ps

def joinSlash : List Bytes → Bytes
  | [] => []
  | [p] => p
  | p :: ps => p ++ [47] ++ joinSlash ps

/-- `for_shell(path)`: `parse` splits off `~` / `~user` from `/~…`, `for_shell` glues it back in
front of `"/" + remaining segments joined by "/"` -/
def forShell (path : Bytes) : Bytes :=
  match path with
  | 47 :: rest =>
    match splitSlash rest with
    | [] => path
    | first :: more =>
      if first.head? == some 126 then first ++ [47] ++ joinSlash more
      else path
  | _ => path

/-! ### `bstr` `trim_start` (Unicode `White_Space`, UTF-8 encoded) -/

def trimStart : Bytes → Bytes
  | 0xE1 :: 0x9A :: 0x80 :: rest => trimStart rest                    -- U+1680
  | 0xE2 :: 0x80 :: b :: rest =>
    if (0x80 ≤ b && b ≤ 0x8A) || b == 0xA8 || b == 0xA9 || b == 0xAF then trimStart rest   -- U+2000–200A, 2028, 2029, 202F
    else 0xE2 :: 0x80 :: b :: rest
  | 0xE2 :: 0x81 :: 0x9F :: rest => trimStart rest                    -- U+205F
  | 0xE3 :: 0x80 :: 0x80 :: rest => trimStart rest                    -- U+3000
  | 0xC2 :: b :: rest =>
    if b == 0x85 || b == 0xA0 then trimStart rest                     -- U+0085, U+00A0
    else 0xC2 :: b :: rest
  | b :: rest =>
    if (9 ≤ b && b ≤ 13) || b == 32 then trimStart rest
    else b :: rest
  | [] => []

/-- `self.path.trim().first() == Some(&b'-')` -/
def pathLooksLikeOption (path : Bytes) : Bool := (trimStart path).head? == some 45

/-! ### `gix_quote::single` -/

def singleGo : Bytes → Bytes
  | [] => [39]
  | b :: rest => if b == 39 || b == 33 then [39, 92, b, 39] ++ singleGo rest else b :: singleGo rest

/-- `'…'` with every `'` and `!` written as `'\c'` -/
def single (v : Bytes) : Bytes := 39 :: singleGo v

/-! ### the two argument vectors -/

/-- `ssh::connect` + `SpawnProcessOnDemand::handshake` for the ssh transport: everything the ssh
program receives after its own name -/
def sshArgv (kind : Kind) (u : Url) (version : Nat) (service : Bytes) : Outcome (List Arg) :=
  if !u.isSsh || u.host.isNone then .err .unsupportedScheme
  else
    let path := forShell u.path
    match prepareInvocation kind u version with
    | .err e => .err e
    | .panic => .panic
    | .ok args =>
      if pathLooksLikeOption path then .err .ambiguousPath
      else .ok (args ++ [⟨.service, service⟩, ⟨.path, single path⟩])

/-- `file::connect` + `handshake`: the arguments of the local `git-upload-pack` -/
def localArgv (path : Bytes) : Outcome (List Arg) :=
  if pathLooksLikeOption path then .err .ambiguousPath else .ok [⟨.path, path⟩]

/-! ### driver -/

def showOutcome : Outcome (List Arg) → String
  | .panic => "panic"
  | .err .ambiguousUserName => "err:AmbiguousUserName"
  | .err .ambiguousHostName => "err:AmbiguousHostName"
  | .err .unsupported => "err:Unsupported"
  | .err .ambiguousPath => "err:AmbiguousPath"
  | .err .unsupportedScheme => "err:UnsupportedScheme"
  | .ok args => args.foldl (fun acc a => acc ++ " " ++ hexOfBytes a.bytes) s!"ok {args.length}"

def optHex? (s : String) : Option (Option Bytes) :=
  if s == "~" then some none else (bytesOfHex s).map some

def kindOf? : String → Option Kind
  | "ssh" => some .ssh | "plink" => some .plink | "putty" => some .putty
  | "tortoiseplink" => some .tortoisePlink | "simple" => some .simple
  | _ => none

def handle? : List String → Option String
  | ["ssh", kind, version, isSsh, user, host, port, path] => do
    let kind ← kindOf? kind
    let version ← version.toNat?
    let user ← optHex? user
    let host ← optHex? host
    let port ← (if port == "~" then some none else port.toNat?.map some)
    let path ← bytesOfHex path
    some (showOutcome (sshArgv kind ⟨isSsh == "1", user, host, port, path⟩ version bUploadPack))
  | ["local", path] => do
    let path ← bytesOfHex path
    some (showOutcome (localArgv path))
  | ["single", v] => do
    let v ← bytesOfHex v
    some (hexOfBytes (single v))
  | ["forshell", v] => do
    let v ← bytesOfHex v
    some (hexOfBytes (forShell v))
  | ["pathsafe", v] => do
    let v ← bytesOfHex v
    some (match pathArgumentSafe ⟨true, none, none, none, v⟩ with
      | none => "none"
      | some p => "some " ++ hexOfBytes p)
  | _ => none

def handle (args : List String) : String := (handle? args).getD "bad-op"

end GixModel.C34
