import GixModel.Model.C01
import GixModel.Spec.C02
/-
C02 — model of the object DECODERS (full and streaming) and of `WriteTo for CommitRef/TagRef/TreeRef`.

Rust functions modelled (all in /repo):
  gix_actor::signature::decode::{decode, identity}          gix-actor/src/signature/decode.rs
  gix_utils::btoi::to_signed (i64 / i32)                    gix-utils/src/btoi.rs
  gix_object::parse::{header_field, any_header_field, any_header_field_multi_line, hex_hash}
  gix_object::commit::decode::{commit, message}             gix-object/src/commit/decode.rs
  CommitRefIter::{next, next_inner_}                        gix-object/src/commit/ref_iter.rs
  gix_object::tag::decode::{git_tag, message}               gix-object/src/tag/decode.rs
  TagRefIter::{next, next_inner_}                           gix-object/src/tag/ref_iter.rs
  tree::ref_iter::{mode_from_decimal, decode::fast_entry, decode::tree}, TreeRefIter::next
  <CommitRef|TagRef|TreeRef as WriteTo>::write_to           = the C01 writers after `from_hex`
  From<CommitRef> for Commit, From<TagRef> for Tag          gix-object/src/object/convert.rs

The winnow combinators are re-expressed as plain recursive descent over `List UInt8`:
`PRes.fail` = `ErrMode::Backtrack` (what `opt`/`alt`/`repeat` recover from), `PRes.cut` =
`ErrMode::Cut` (only `identity` produces it; it passes through `opt`). `none` results of the
top-level functions stand for `Err(_)`. The writer-side structures are C01's.
-/
namespace GixModel.C02
open GixModel GixModel.C01 GixModel.Spec.C02

inductive PRes (α : Type) where
  | ok (a : α) (rest : Bytes)
  | fail
  | cut
  deriving Repr

/-! ### primitives -/

/-- literal tag: strip `p` from the front -/
def stripPrefix : Bytes → Bytes → Option Bytes
  | [], bs => some bs
  | _ :: _, [] => none
  | p :: ps, b :: bs => if p == b then stripPrefix ps bs else none

/-- `take_till(0.., stop)`: longest prefix without a `stop` byte, and the rest -/
def spanTill (stop : UInt8 → Bool) : Bytes → Bytes × Bytes
  | [] => ([], [])
  | b :: bs => if stop b then ([], b :: bs) else
    let r := spanTill stop bs
    (b :: r.1, r.2)

/-- `take_while(0..=n, p)` -/
def takeUpTo (p : UInt8 → Bool) : Nat → Bytes → Bytes × Bytes
  | 0, bs => ([], bs)
  | _ + 1, [] => ([], [])
  | n + 1, b :: bs => if p b then
      let r := takeUpTo p n bs
      (b :: r.1, r.2)
    else ([], b :: bs)

/-- split at the first `c`: (before, after) without the `c` -/
def splitFirst (c : UInt8) : Bytes → Option (Bytes × Bytes)
  | [] => none
  | b :: bs => if b == c then some ([], bs) else
    match splitFirst c bs with
    | none => none
    | some (x, y) => some (b :: x, y)

/-- split at the last `c` -/
def splitLast (c : UInt8) : Bytes → Option (Bytes × Bytes)
  | [] => none
  | b :: bs =>
    match splitLast c bs with
    | some (x, y) => some (b :: x, y)
    | none => if b == c then some ([], bs) else none

/-- `take_until(0.., pat)`: (before the first occurrence of `pat`, from `pat` on) -/
def findSub (pat : Bytes) : Bytes → Option (Bytes × Bytes)
  | [] => if pat.isEmpty then some ([], []) else none
  | b :: bs => if pat.isPrefixOf (b :: bs) then some ([], b :: bs) else
    match findSub pat bs with
    | none => none
    | some (x, y) => some (b :: x, y)

def isHexLc (b : UInt8) : Bool := (48 ≤ b && b ≤ 57) || (97 ≤ b && b ≤ 102)
def isAlpha (b : UInt8) : Bool := (65 ≤ b && b ≤ 90) || (97 ≤ b && b ≤ 122)

/-! ### integers (`btoi::to_signed`) -/

/-- value of a non-empty all-digit string -/
def digitsVal (bs : Bytes) : Option Nat :=
  if bs.isEmpty || !bs.all isDigit then none
  else some (bs.foldl (fun acc b => acc * 10 + (b.toNat - 48)) 0)

/-- `to_signed::<I>` for a type with range `[lo, hi]`: optional `+`/`-`, digits, checked arithmetic
(an overflow at any step happens exactly when the final value is out of range) -/
def toSigned (lo hi : Int) (bs : Bytes) : Option Int :=
  match bs with
  | [] => none
  | b :: ds =>
    if b == 43 then
      match digitsVal ds with
      | some v => if (v : Int) ≤ hi then some v else none
      | none => none
    else if b == 45 then
      match digitsVal ds with
      | some v => if lo ≤ -(v : Int) then some (-(v : Int)) else none
      | none => none
    else
      match digitsVal (b :: ds) with
      | some v => if (v : Int) ≤ hi then some v else none
      | none => none

def i64Lo : Int := -9223372036854775808
def i64Hi : Int := 9223372036854775807
def i32Lo : Int := -2147483648
def i32Hi : Int := 2147483647

/-! ### signatures -/

def wsOrLt (b : UInt8) : Bool := isWs b || b == 60
def wsOrGt (b : UInt8) : Bool := isWs b || b == 62

def stripOneSpace (bs : Bytes) : Bytes := if bs.getLast? == some 32 then bs.dropLast else bs

/-- `identity`: name/email between the first `<` and the last `>` of the first line; every error
is a `Cut`. Index arithmetic of the Rust code expressed with splits: `ne` = `i[..right_delim_idx]`,
`m` = `i[left_delim_idx..right_delim_idx]`. -/
def identity (i : Bytes) : PRes (Bytes × Bytes) :=
  let line := (spanTill (· == 10) i).1
  let afterLine := (spanTill (· == 10) i).2
  match splitLast 62 line with
  | none => .cut
  | some (ne, afterGt) =>
    match splitFirst 60 ne with
    | none => .cut
    | some (name0, afterLt) =>
      let m := 60 :: afterLt
      let skipL := (m.takeWhile wsOrLt).length
      let skipR := (afterLt.reverse.takeWhile wsOrGt).length
      if skipL + skipR ≤ m.length then
        .ok (stripOneSpace name0, (m.drop skipL).take (m.length - skipL - skipR)) (afterGt ++ afterLine)
      else .cut

/-- the `(time, sign, HH, MM, trailing)` tuple; any failure backtracks -/
def timeTuple (i : Bytes) : Option (Time × Bytes) :=
  match splitFirst 32 i with
  | none => none
  | some (secs, r1) =>
    match toSigned i64Lo i64Hi secs with
    | none => none
    | some s =>
      let minusRun := (spanTill (· != 45) r1).1
      let plusRun := (spanTill (· != 43) r1).1
      let signed : Option (Bool × Bytes) :=
        if !minusRun.isEmpty then some (true, (spanTill (· != 45) r1).2)
        else if !plusRun.isEmpty then some (false, (spanTill (· != 43) r1).2)
        else none
      match signed with
      | none => none
      | some (minus, r2) =>
        let hh := (takeUpTo isDigit 2 r2).1
        let r3 := (takeUpTo isDigit 2 r2).2
        if hh.length != 2 then none else
        match toSigned i32Lo i32Hi hh with
        | none => none
        | some h =>
          let mm := (takeUpTo isDigit 2 r3).1
          let r4 := (takeUpTo isDigit 2 r3).2
          if mm.isEmpty then none else
          match toSigned i32Lo i32Hi mm with
          | none => none
          | some mi =>
            let trailing := (spanTill (fun b => !isDigit b) r4).1
            let r5 := (spanTill (fun b => !isDigit b) r4).2
            let offset : Int := if trailing.isEmpty then (h * 3600 + mi * 60) * (if minus then -1 else 1) else 0
            some ({ seconds := s, offset := offset, minus := minus }, r5)

/-- `opt(b" ")` -/
def optSpace (r0 : Bytes) : Bytes :=
  match r0 with
  | 32 :: r => r
  | _ => r0

/-- `signature::decode`: `separated_pair(identity, opt(" "), opt(time…))`; a missing or malformed
time yields `Time::new(0, 0)` without consuming anything -/
def signature (i : Bytes) : PRes Signature :=
  match identity i with
  | .fail => .fail
  | .cut => .cut
  | .ok (name, email) r0 =>
    let r1 := optSpace r0
    match timeTuple r1 with
    | some (t, r2) => .ok { name := name, email := email, time := t } r2
    | none => .ok { name := name, email := email, time := { seconds := 0, offset := 0, minus := false } } r1

/-! ### header fields -/

/-- `parse::header_field`: `name SP value LF` -/
def hdr {α : Type} (name : Bytes) (p : Bytes → PRes α) (i : Bytes) : PRes α :=
  match stripPrefix name i with
  | none => .fail
  | some r0 =>
    match r0 with
    | 32 :: r1 =>
      match p r1 with
      | .ok a r2 =>
        match r2 with
        | 10 :: r3 => .ok a r3
        | _ => .fail
      | .fail => .fail
      | .cut => .cut
    | _ => .fail

/-- `hex_hash`: `take_while(40..=40, lowercase hex)` -/
def hexHash (i : Bytes) : PRes Bytes :=
  if (takeUpTo isHexLc 40 i).1.length == 40 then .ok (takeUpTo isHexLc 40 i).1 (takeUpTo isHexLc 40 i).2
  else .fail

/-- `take_till(1.., NL)` -/
def line1 (i : Bytes) : PRes Bytes :=
  if (spanTill (· == 10) i).1.isEmpty then .fail
  else .ok (spanTill (· == 10) i).1 (spanTill (· == 10) i).2

/-- `opt(p)` -/
def popt {α : Type} (r : PRes α) (i : Bytes) : PRes (Option α) :=
  match r with
  | .ok a rest => .ok (some a) rest
  | .fail => .ok none i
  | .cut => .cut

/-- `repeat(0.., p)`; `fuel = input length + 1` always suffices because every `p` used consumes -/
def repeat0 {α : Type} (p : Bytes → PRes α) : Nat → Bytes → PRes (List α)
  | 0, i => .ok [] i
  | f + 1, i =>
    match p i with
    | .fail => .ok [] i
    | .cut => .cut
    | .ok a r =>
      match repeat0 p f r with
      | .ok as r' => .ok (a :: as) r'
      | .fail => .fail
      | .cut => .cut

def spOrNl (b : UInt8) : Bool := b == 32 || b == 10

/-- `terminated(take_till(1.., SPACE_OR_NL), SPACE)` -/
def fieldName (i : Bytes) : Option (Bytes × Bytes) :=
  if (spanTill spOrNl i).1.isEmpty then none else
  match (spanTill spOrNl i).2 with
  | 32 :: r => some ((spanTill spOrNl i).1, r)
  | _ => none

/-- `terminated((SPACE, take_until(0.., NL)), NL)`: one continuation line, returns its body -/
def contLine (i : Bytes) : Option (Bytes × Bytes) :=
  match i with
  | 32 :: r =>
    match (spanTill (· == 10) r).2 with
    | 10 :: r' => some ((spanTill (· == 10) r).1, r')
    | _ => none
  | _ => none

/-- the continuation lines (`repeat`), bodies only -/
def contLines : Nat → Bytes → List Bytes × Bytes
  | 0, i => ([], i)
  | f + 1, i =>
    match contLine i with
    | none => ([], i)
    | some (l, r) =>
      let k := contLines f r
      (l :: k.1, k.2)

/-- the closure of `any_header_field_multi_line`: `lines_with_terminator` of the consumed slice,
first line kept, the leading SP cut off every other line -/
def unfoldValue (consumed : Bytes) : Bytes :=
  match linesWithTerminator consumed with
  | [] => []   -- `expect("first line")`: unreachable, the slice starts with a non-empty first line
  | first :: rest => first ++ rest.flatMap (fun l => l.drop 1)

/-- `any_header_field_multi_line`: a first line and at least one continuation line -/
def multiLine (fuel : Nat) (i : Bytes) : Option ((Bytes × Bytes) × Bytes) :=
  match fieldName i with
  | none => none
  | some (name, r0) =>
    if (spanTill (· == 10) r0).1.isEmpty then none else
    match (spanTill (· == 10) r0).2 with
    | 10 :: r1 =>
      match contLines fuel r1 with
      | ([], _) => none
      | (l :: ls, r2) =>
        some ((name, unfoldValue ((spanTill (· == 10) r0).1 ++ [10]
                ++ (l :: ls).flatMap (fun b => 32 :: b ++ [10]))), r2)
    | _ => none

/-- `any_header_field(take_till(1.., NL))` -/
def singleLine (i : Bytes) : Option ((Bytes × Bytes) × Bytes) :=
  match fieldName i with
  | none => none
  | some (name, r0) =>
    if (spanTill (· == 10) r0).1.isEmpty then none else
    match (spanTill (· == 10) r0).2 with
    | 10 :: r1 => some ((name, (spanTill (· == 10) r0).1), r1)
    | _ => none

/-- `alt((multi_line, single_line))` -/
def extraHeader (fuel : Nat) (i : Bytes) : PRes (Bytes × Bytes) :=
  match multiLine fuel i with
  | some (h, r) => .ok h r
  | none =>
    match singleLine i with
    | some (h, r) => .ok h r
    | none => .fail

/-! ### commits -/

/-- `CommitRef`: ids are the 40 hex characters as found -/
structure CommitRef where
  tree : Bytes
  parents : List Bytes
  author : Signature
  committer : Signature
  encoding : Option Bytes
  extra : List (Bytes × Bytes)
  message : Bytes
  deriving Repr, DecidableEq

def kTree : Bytes := [116, 114, 101, 101]
def kParent : Bytes := [112, 97, 114, 101, 110, 116]
def kAuthor : Bytes := [97, 117, 116, 104, 111, 114]
def kCommitter : Bytes := [99, 111, 109, 109, 105, 116, 116, 101, 114]
def kEncoding : Bytes := [101, 110, 99, 111, 100, 105, 110, 103]
def kObject : Bytes := [111, 98, 106, 101, 99, 116]
def kType : Bytes := [116, 121, 112, 101]
def kTag : Bytes := [116, 97, 103]
def kTagger : Bytes := [116, 97, 103, 103, 101, 114]

/-- `terminated(commit::decode::message, eof)`: a LF, then everything -/
def commitMessage (i : Bytes) : Option Bytes :=
  match i with
  | 10 :: r => some r
  | _ => none

/-- `commit::decode::commit` -/
def parseCommit (i : Bytes) : Option CommitRef :=
  let fuel := i.length + 1
  match hdr kTree hexHash i with
  | .ok tree r1 =>
    match repeat0 (hdr kParent hexHash) fuel r1 with
    | .ok parents r2 =>
      match hdr kAuthor signature r2 with
      | .ok author r3 =>
        match hdr kCommitter signature r3 with
        | .ok committer r4 =>
          match popt (hdr kEncoding line1 r4) r4 with
          | .ok enc r5 =>
            match repeat0 (extraHeader fuel) fuel r5 with
            | .ok extra r6 =>
              match commitMessage r6 with
              | some msg => some { tree := tree, parents := parents, author := author,
                                   committer := committer, encoding := enc, extra := extra, message := msg }
              | none => none
            | _ => none
          | _ => none
        | _ => none
      | _ => none
    | _ => none
  | _ => none

inductive CState | tree | parents | author | committer | encoding | extra | message
  deriving Repr, DecidableEq

inductive CToken
  | tree (id : Bytes) | parent (id : Bytes) | author (s : Signature) | committer (s : Signature)
  | encoding (e : Bytes) | extra (n v : Bytes) | message (m : Bytes)
  deriving Repr, DecidableEq

def stMessage (i : Bytes) : Option (CToken × CState × Bytes) :=
  match commitMessage i with
  | some m => some (.message m, .message, [])
  | none => none

def stExtra (fuel : Nat) (i : Bytes) : Option (CToken × CState × Bytes) :=
  match popt (extraHeader fuel i) i with
  | .ok (some (n, v)) r => some (.extra n v, .extra, r)
  | .ok none _ => stMessage i
  | _ => none

def stEncoding (fuel : Nat) (i : Bytes) : Option (CToken × CState × Bytes) :=
  match popt (hdr kEncoding line1 i) i with
  | .ok (some e) r => some (.encoding e, .extra, r)
  | .ok none _ => stExtra fuel i
  | _ => none

def stCommitter (i : Bytes) : Option (CToken × CState × Bytes) :=
  match hdr kCommitter signature i with
  | .ok s r => some (.committer s, .encoding, r)
  | _ => none

def stAuthor (i : Bytes) : Option (CToken × CState × Bytes) :=
  match hdr kAuthor signature i with
  | .ok s r => some (.author s, .committer, r)
  | _ => none

def stParents (i : Bytes) : Option (CToken × CState × Bytes) :=
  match popt (hdr kParent hexHash i) i with
  | .ok (some p) r => some (.parent p, .parents, r)
  | .ok none _ => stAuthor i
  | _ => none

def stTree (i : Bytes) : Option (CToken × CState × Bytes) :=
  match hdr kTree hexHash i with
  | .ok t r => some (.tree t, .parents, r)
  | _ => none

/-- `CommitRefIter::next_inner_` -/
def cNext (fuel : Nat) : CState → Bytes → Option (CToken × CState × Bytes)
  | .tree, i => stTree i
  | .parents, i => stParents i
  | .author, i => stAuthor i
  | .committer, i => stCommitter i
  | .encoding, i => stEncoding fuel i
  | .extra, i => stExtra fuel i
  | .message, i => stMessage i

/-- `Iterator for CommitRefIter` run to the end: the tokens, and whether it ended without `Err`
(an `Err` is the last item: `data` is cleared). `n` = iteration fuel, `input length + 1` suffices. -/
def cIter (fuel : Nat) : Nat → CState → Bytes → List CToken × Bool
  | 0, _, _ => ([], true)
  | n + 1, st, data =>
    if data.isEmpty then ([], true) else
    match cNext fuel st data with
    | none => ([], false)
    | some (tok, st', rest) =>
      let k := cIter fuel n st' rest
      (tok :: k.1, k.2)

def iterCommitTokens (i : Bytes) : List CToken × Bool := cIter (i.length + 1) (i.length + 1) .tree i

structure CAcc where
  tree : Option Bytes := none
  parents : List Bytes := []
  author : Option Signature := none
  committer : Option Signature := none
  encoding : Option Bytes := none
  extra : List (Bytes × Bytes) := []
  message : Option Bytes := none

def CAcc.push (a : CAcc) : CToken → CAcc
  | .tree t => { a with tree := some t }
  | .parent p => { a with parents := a.parents ++ [p] }
  | .author s => { a with author := some s }
  | .committer s => { a with committer := some s }
  | .encoding e => { a with encoding := some e }
  | .extra n v => { a with extra := a.extra ++ [(n, v)] }
  | .message m => { a with message := some m }

def CAcc.finish (a : CAcc) : Option CommitRef :=
  match a.tree, a.author, a.committer, a.message with
  | some t, some au, some co, some m =>
    some { tree := t, parents := a.parents, author := au, committer := co, encoding := a.encoding,
           extra := a.extra, message := m }
  | _, _, _, _ => none

/-- what a consumer of the token stream reconstructs (all of tree/author/committer/message needed) -/
def tokensToCommit (ts : List CToken × Bool) : Option CommitRef :=
  if ts.2 then (ts.1.foldl CAcc.push {}).finish else none

def iterCommit (i : Bytes) : Option CommitRef := tokensToCommit (iterCommitTokens i)

/-! ### hex ids, owned values, writers of the `*Ref` types -/

def hexNib (b : UInt8) : Option Nat :=
  if 48 ≤ b && b ≤ 57 then some (b.toNat - 48)
  else if 97 ≤ b && b ≤ 102 then some (b.toNat - 87)
  else if 65 ≤ b && b ≤ 70 then some (b.toNat - 55)
  else none

/-- `ObjectId::from_hex` (length is checked by the caller's parser: 40) -/
def unhex : Bytes → Option Bytes
  | [] => some []
  | [_] => none
  | a :: b :: rest =>
    match hexNib a, hexNib b, unhex rest with
    | some x, some y, some r => some (UInt8.ofNat (x * 16 + y) :: r)
    | _, _, _ => none

def unhexAll : List Bytes → Option (List Bytes)
  | [] => some []
  | h :: hs =>
    match unhex h, unhexAll hs with
    | some x, some xs => some (x :: xs)
    | _, _ => none

/-- `From<CommitRef> for Commit`; `none` = the `expect("prior parser validation")` panic -/
def CommitRef.toOwned (c : CommitRef) : Option Commit :=
  match unhex c.tree, unhexAll c.parents with
  | some t, some ps =>
    some { tree := t, parents := ps, author := c.author, committer := c.committer,
           encoding := c.encoding, extra := c.extra, message := c.message }
  | _, _ => none

/-- `WriteTo for CommitRef`: same field writers as `Commit` after `from_hex` of the ids -/
def CommitRef.write (c : CommitRef) : Option Bytes :=
  match c.toOwned with
  | some o => o.write
  | none => none

/-- `CommitRef::from_bytes(..).map(Commit::from)` -/
def decodeCommit (i : Bytes) : Option Commit :=
  match parseCommit i with
  | some r => r.toOwned
  | none => none

/-! ### tags -/

structure TagRef where
  target : Bytes
  kind : Kind
  name : Bytes
  tagger : Option Signature
  message : Bytes
  pgp : Option Bytes
  deriving Repr, DecidableEq

def kindOfBytes (bs : Bytes) : Option Kind :=
  if bs == Kind.tree.bytes then some .tree
  else if bs == Kind.blob.bytes then some .blob
  else if bs == Kind.commit.bytes then some .commit
  else if bs == Kind.tag.bytes then some .tag
  else none

/-- `take_while(1.., is_alpha)` -/
def alpha1 (i : Bytes) : PRes Bytes :=
  if (spanTill (fun b => !isAlpha b) i).1.isEmpty then .fail
  else .ok (spanTill (fun b => !isAlpha b) i).1 (spanTill (fun b => !isAlpha b) i).2

/-- `tag::decode::message` followed by `eof` (every branch consumes the whole input) -/
def tagMessage (i : Bytes) : Option (Bytes × Option Bytes) :=
  match i with
  | [] => some ([], none)
  | 10 :: r =>
    match findSub (10 :: pgpBegin) r with
    | none => some (r, none)
    | some (msg, fromNl) =>
      let sig := fromNl.drop 1
      match findSub pgpEnd (sig.drop pgpBegin.length) with
      | none => some (r, none)
      | some _ => some (msg, if sig.isEmpty then none else some sig)
  | _ => none

/-- `tag::decode::git_tag` -/
def parseTag (i : Bytes) : Option TagRef :=
  match hdr kObject hexHash i with
  | .ok target r1 =>
    match hdr kType alpha1 r1 with
    | .ok kindBytes r2 =>
      match kindOfBytes kindBytes with
      | none => none
      | some kind =>
        match hdr kTag line1 r2 with
        | .ok name r3 =>
          match popt (hdr kTagger signature r3) r3 with
          | .ok tagger r4 =>
            match tagMessage r4 with
            | some (msg, pgp) => some { target := target, kind := kind, name := name, tagger := tagger,
                                        message := msg, pgp := pgp }
            | none => none
          | _ => none
        | _ => none
    | _ => none
  | _ => none

inductive TState | target | kind | name | tagger | message
  deriving Repr, DecidableEq

inductive TToken
  | target (id : Bytes) | kind (k : Kind) | name (n : Bytes) | tagger (s : Option Signature)
  | body (m : Bytes) (pgp : Option Bytes)
  deriving Repr, DecidableEq

/-- `TagRefIter::next_inner_` -/
def tNext : TState → Bytes → Option (TToken × TState × Bytes)
  | .target, i =>
    match hdr kObject hexHash i with
    | .ok t r => some (.target t, .kind, r)
    | _ => none
  | .kind, i =>
    match hdr kType alpha1 i with
    | .ok kb r =>
      match kindOfBytes kb with
      | some k => some (.kind k, .name, r)
      | none => none
    | _ => none
  | .name, i =>
    match hdr kTag line1 i with
    | .ok n r => some (.name n, .tagger, r)
    | _ => none
  | .tagger, i =>
    match popt (hdr kTagger signature i) i with
    | .ok s r => some (.tagger s, .message, r)
    | _ => none
  | .message, i =>
    match tagMessage i with
    | some (m, p) => some (.body m p, .message, [])
    | none => none

/-- `Iterator for TagRefIter` run to the end -/
def tIter : Nat → TState → Bytes → List TToken × Bool
  | 0, _, _ => ([], true)
  | n + 1, st, data =>
    if data.isEmpty then ([], true) else
    match tNext st data with
    | none => ([], false)
    | some (tok, st', rest) =>
      let k := tIter n st' rest
      (tok :: k.1, k.2)

def iterTagTokens (i : Bytes) : List TToken × Bool := tIter (i.length + 1) .target i

structure TAcc where
  target : Option Bytes := none
  kind : Option Kind := none
  name : Option Bytes := none
  tagger : Option Signature := none
  message : Bytes := []
  pgp : Option Bytes := none

def TAcc.push (a : TAcc) : TToken → TAcc
  | .target t => { a with target := some t }
  | .kind k => { a with kind := some k }
  | .name n => { a with name := some n }
  | .tagger s => { a with tagger := s }
  | .body m p => { a with message := m, pgp := p }

/-- target/kind/name are required; an absent `Tagger`/`Body` token (the iterator stops as soon as
the data is used up) reads as "no tagger" / "empty message", as in `TagRefIter::tagger()` -/
def TAcc.finish (a : TAcc) : Option TagRef :=
  match a.target, a.kind, a.name with
  | some t, some k, some n =>
    some { target := t, kind := k, name := n, tagger := a.tagger, message := a.message, pgp := a.pgp }
  | _, _, _ => none

def tokensToTag (ts : List TToken × Bool) : Option TagRef :=
  if ts.2 then (ts.1.foldl TAcc.push {}).finish else none

def iterTag (i : Bytes) : Option TagRef := tokensToTag (iterTagTokens i)

/-- `From<TagRef> for Tag`; `nameValid` = verdict of `gix_validate::tag::name` on the name (C15) -/
def TagRef.toOwned (t : TagRef) (nameValid : Bool) : Option Tag :=
  match unhex t.target with
  | some id => some { target := id, targetKind := t.kind, name := t.name, nameValid := nameValid,
                      tagger := t.tagger, message := t.message, pgp := t.pgp }
  | none => none

/-- `WriteTo for TagRef` (`trusted_header_field(b"object", self.target)`: the hex as found) -/
def TagRef.write (t : TagRef) (nameValid : Bool) : Option Bytes :=
  concatOpts
    [ some (kObject ++ [32] ++ t.target ++ [10]),
      some (kType ++ [32] ++ t.kind.bytes ++ [10]),
      (if !nameValid then none
       else if t.name.head? == some 45 then none
       else headerField kTag t.name),
      taggerLine t.tagger,
      some ([10] ++ t.message),
      some (pgpPart t.pgp) ]

def decodeTag (i : Bytes) (nameValid : Bool) : Option Tag :=
  match parseTag i with
  | some r => r.toOwned nameValid
  | none => none

/-! ### trees -/

/-- `mode_from_decimal` (octal digits up to the first SP, accumulated in a wrapping `u32`) -/
def modeGo (mode : Nat) : Bytes → Option (Nat × Bytes)
  | [] => none
  | b :: r =>
    if b == 32 then some (mode, r)
    else if b < 48 || b > 55 then none
    else modeGo ((mode * 8 + (b.toNat - 48)) % 4294967296) r

/-- `EntryMode::try_from(u32)` then `as u16` -/
def entryMode (m : Nat) : Option Nat :=
  if m == 0o40000 || m == 0o120000 || m == 0o160000 then some (m % 65536)
  else if (m / 32768) % 2 == 1 then some (m % 65536)
  else none

/-- `decode::fast_entry` -/
def fastEntry (i : Bytes) : Option (Entry × Bytes) :=
  match modeGo 0 i with
  | none => none
  | some (m, r0) =>
    match entryMode m with
    | none => none
    | some mode =>
      match splitFirst 0 r0 with
      | none => none
      | some (name, r1) =>
        if r1.length < 20 then none
        else some ({ mode := mode, name := name, oid := r1.take 20 }, r1.drop 20)

/-- the loop shared by `decode::tree` and `TreeRefIter`: entries so far, and whether all data was
consumed without a failing entry -/
def treeLoop : Nat → Bytes → List Entry × Bool
  | 0, _ => ([], true)
  | n + 1, i =>
    if i.isEmpty then ([], true) else
    match fastEntry i with
    | none => ([], false)
    | some (e, r) =>
      let k := treeLoop n r
      (e :: k.1, k.2)

/-- `TreeRef::from_bytes` -/
def parseTree (i : Bytes) : Option (List Entry) :=
  if (treeLoop (i.length + 1) i).2 then some (treeLoop (i.length + 1) i).1 else none

/-- `TreeRefIter` collected: every `Ok` entry, then whether an `Err` item ended it -/
def iterTreeTokens (i : Bytes) : List Entry × Bool := treeLoop (i.length + 1) i

def iterTree (i : Bytes) : Option (List Entry) :=
  if (iterTreeTokens i).2 then some (iterTreeTokens i).1 else none

/-! ### the git side rendered into the decoder's vocabulary -/

def absTime (g : GitIdent) : Time :=
  { seconds := g.seconds,
    offset := ((g.tzH * 3600 + g.tzM * 60 : Nat) : Int) * (if g.tzMinus then -1 else 1),
    minus := g.tzMinus }

def absIdent (g : GitIdent) : Signature := { name := g.name, email := g.email, time := absTime g }

def headerValue (h : GitHeader) : Bytes :=
  match h.more with
  | [] => h.first
  | ls => h.first ++ [10] ++ ls.flatMap (fun l => l ++ [10])

def absCommit (c : GitCommit) : CommitRef :=
  { tree := hexBytes c.tree, parents := c.parents.map hexBytes, author := absIdent c.author,
    committer := absIdent c.committer, encoding := c.encoding,
    extra := c.extra.map (fun h => (h.name, headerValue h)), message := c.message }

def absTag (t : GitTag) : TagRef :=
  { target := hexBytes t.target, kind := t.kind, name := t.name, tagger := t.tagger.map absIdent,
    message := t.message, pgp := t.sigTail.map (fun s => pgpBegin ++ s) }

def absEntry (e : GitEntry) : Entry := { mode := e.mode, name := e.name, oid := e.oid }

/-! ### driver -/

def showTime (t : Time) : String := s!"{t.seconds}/{t.offset}/{if t.minus then "-" else "+"}"

def showSig (s : Signature) : String := s!"{hexOfBytes s.name}/{hexOfBytes s.email}/{showTime s.time}"

def showOpt : Option Bytes → String
  | none => "none"
  | some b => hexOfBytes b

def showCommit (c : CommitRef) : String :=
  s!"ok tree={hexOfBytes c.tree} parents=[{",".intercalate (c.parents.map hexOfBytes)}] author={showSig c.author} committer={showSig c.committer} enc={showOpt c.encoding} extra=[{",".intercalate (c.extra.map fun nv => hexOfBytes nv.1 ++ ":" ++ hexOfBytes nv.2)}] msg={hexOfBytes c.message}"

def showCToken : CToken → String
  | .tree t => s!"T:{hexOfBytes t}"
  | .parent p => s!"P:{hexOfBytes p}"
  | .author s => s!"A:{showSig s}"
  | .committer s => s!"C:{showSig s}"
  | .encoding e => s!"E:{hexOfBytes e}"
  | .extra n v => s!"X:{hexOfBytes n}:{hexOfBytes v}"
  | .message m => s!"M:{hexOfBytes m}"

def showTokens {α : Type} (f : α → String) (ts : List α × Bool) : String :=
  " ".intercalate (ts.1.map f ++ [if ts.2 then "END" else "ERR"])

def kindStr : Kind → String
  | .tree => "tree" | .blob => "blob" | .commit => "commit" | .tag => "tag"

def showTag (t : TagRef) : String :=
  s!"ok target={hexOfBytes t.target} kind={kindStr t.kind} name={hexOfBytes t.name} tagger={match t.tagger with | none => "none" | some s => showSig s} msg={hexOfBytes t.message} pgp={showOpt t.pgp}"

def showTToken : TToken → String
  | .target t => s!"O:{hexOfBytes t}"
  | .kind k => s!"K:{kindStr k}"
  | .name n => s!"N:{hexOfBytes n}"
  | .tagger none => "G:none"
  | .tagger (some s) => s!"G:{showSig s}"
  | .body m p => s!"B:{hexOfBytes m}:{showOpt p}"

def showEntry (e : Entry) : String := s!"{e.mode}:{hexOfBytes e.name}:{hexOfBytes e.oid}"

def showWrite : Option Bytes → String
  | none => "werr"
  | some b => s!"ok {hexOfBytes b}"

def parseIdent? : List String → Option (GitIdent × List String)
  | n :: e :: s :: sg :: h :: m :: rest => do
    let n ← bytesOfHex n
    let e ← bytesOfHex e
    let s ← s.toInt?
    let h ← h.toNat?
    let m ← m.toNat?
    if sg != "+" && sg != "-" then none
    some ({ name := n, email := e, seconds := s, tzMinus := sg == "-", tzH := h, tzM := m }, rest)
  | _ => none

def takeLines : Nat → List String → Option (List Bytes × List String)
  | 0, rest => some ([], rest)
  | n + 1, x :: rest => do
    let b ← bytesOfHex x
    let (bs, rest) ← takeLines n rest
    some (b :: bs, rest)
  | _, _ => none

def takeHeaders : Nat → List String → Option (List GitHeader × List String)
  | 0, rest => some ([], rest)
  | n + 1, nm :: first :: k :: rest => do
    let nm ← bytesOfHex nm
    let first ← bytesOfHex first
    let k ← k.toNat?
    let (more, rest) ← takeLines k rest
    let (hs, rest) ← takeHeaders n rest
    some ({ name := nm, first := first, more := more } :: hs, rest)
  | _, _ => none

def takeGitEntries : Nat → List String → Option (List GitEntry × List String)
  | 0, rest => some ([], rest)
  | n + 1, m :: nm :: oid :: rest => do
    let m ← m.toNat?
    let nm ← bytesOfHex nm
    let oid ← bytesOfHex oid
    let (es, rest) ← takeGitEntries n rest
    some ({ mode := m, name := nm, oid := oid } :: es, rest)
  | _, _ => none

def flag? : String → Option Bool
  | "1" => some true
  | "0" => some false
  | _ => none

def handle? : List String → Option String
  | ["sig", x] => do
    let b ← bytesOfHex x
    some (match signature b with
      | .ok s r => s!"ok {showSig s} rest={hexOfBytes r}"
      | .fail => "err"
      | .cut => "err")
  | ["parsecommit", x] => do
    let b ← bytesOfHex x
    some (match parseCommit b with | some c => showCommit c | none => "err")
  | ["itercommit", x] => do
    let b ← bytesOfHex x
    some (showTokens showCToken (iterCommitTokens b))
  | ["reencodecommit", x] => do
    let b ← bytesOfHex x
    some (match parseCommit b with | some c => showWrite c.write | none => "err")
  | ["parsetag", x] => do
    let b ← bytesOfHex x
    some (match parseTag b with | some t => showTag t | none => "err")
  | ["itertag", x] => do
    let b ← bytesOfHex x
    some (showTokens showTToken (iterTagTokens b))
  | ["reencodetag", v, x] => do
    let v ← flag? v
    let b ← bytesOfHex x
    some (match parseTag b with | some t => showWrite (t.write v) | none => "err")
  | ["parsetree", x] => do
    let b ← bytesOfHex x
    some (match parseTree b with
      | some es => "ok " ++ ",".intercalate (es.map showEntry)
      | none => "err")
  | ["itertree", x] => do
    let b ← bytesOfHex x
    some (showTokens showEntry (iterTreeTokens b))
  | ["reencodetree", x] => do
    let b ← bytesOfHex x
    some (match parseTree b with | some es => showWrite (treeWrite es) | none => "err")
  | "rendercommit" :: tree :: np :: rest => do
    let tree ← bytesOfHex tree
    let np ← np.toNat?
    let (parents, rest) ← takeLines np rest
    let (author, rest) ← parseIdent? rest
    let (committer, rest) ← parseIdent? rest
    match rest with
    | enc :: nx :: rest =>
      let enc ← optHex? enc
      let nx ← nx.toNat?
      let (extra, rest) ← takeHeaders nx rest
      match rest with
      | [msg] =>
        let msg ← bytesOfHex msg
        let c : GitCommit := { tree, parents, author, committer, encoding := enc, extra, message := msg }
        some (hexOfBytes c.render)
      | _ => none
    | _ => none
  | "rendertag" :: target :: kind :: name :: hasTagger :: rest => do
    let target ← bytesOfHex target
    let kind ← parseKind? kind
    let name ← bytesOfHex name
    let hasTagger ← flag? hasTagger
    let (tagger, rest) ← (if hasTagger then (parseIdent? rest).map (fun (s, r) => (some s, r))
                           else some (none, rest))
    match rest with
    | [msg, sig] =>
      let msg ← bytesOfHex msg
      let sig ← optHex? sig
      let t : GitTag := { target, kind, name, tagger, message := msg, sigTail := sig }
      some (hexOfBytes t.render)
    | _ => none
  | "rendertree" :: n :: rest => do
    let n ← n.toNat?
    let (es, rest) ← takeGitEntries n rest
    if !rest.isEmpty then none
    some (hexOfBytes (renderTree es))
  | _ => none

def handle (args : List String) : String := (handle? args).getD "bad-op"

end GixModel.C02
