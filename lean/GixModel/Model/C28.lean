import GixModel.Model.C26
import GixModel.Model.C27Core
/-
C28 — model of the editing API of gix-config.

Rust functions modelled:
  File::{set_raw_value_by, set_existing_raw_value_by, section_mut, new_section, remove_section,
         rename_section, section_mut_or_create_new}                file/access/{raw,mutate}.rs
  File::push_section_internal and the lookup tree (`section_ids_by_name_and_subname`)   file/util.rs
  SectionMut::{new, push, set, remove, push_newline, remove_internal, set_internal, delete}  file/mutable/section.rs
  ValueMut::set (via raw_value_mut)                                 file/mutable/value.rs, file/access/raw.rs
  MultiValueMut::{set_all, set_at, delete, delete_all} (via raw_values_mut_by)   file/mutable/multi_value.rs, file/access/raw.rs
  mutable::{escape_value, Whitespace::{from_body, key_value_separators, default}}  file/mutable/mod.rs
  section::Header::new (validation)                                 parse/section/header.rs
  ValueName::try_from (validation)                                  parse/section/mod.rs
Serialization, parsing and the per-body lookups are C26's and C27's models.

The lookup tree is modelled by what it observably is for the operations in scope (no
`insert_section_after`): every section remembers the (lower-cased name, sub-section) it was
REGISTERED under (`rename_section` re-files it since the repair d6aaf6e78) and `reg` is the set of
pairs ever registered (entries survive `remove_section`, which is why lookups can yield an empty id
list; since 3b46a60ab that is `SectionMissing`, before it was a panic). A failed call changes nothing.
-/
namespace GixModel.C28
open GixModel GixModel.C26 GixModel.C27

structure Sec where
  header : Header
  body : List Event
  /-- key of the lookup tree this section is filed under -/
  regName : Bytes
  regSub : Option Bytes
  deriving Repr, DecidableEq

structure FileS where
  front : List Event
  sections : List Sec
  /-- every (lower-cased name, sub-section) that was ever registered in the lookup tree -/
  reg : List (Bytes × Option Bytes)
  deriving Repr, DecidableEq

def lowerName (n : Bytes) : Bytes := n.map asciiLower

def register (f : FileS) (h : Header) : FileS :=
  let k := (lowerName h.name, h.sub)
  { f with reg := if f.reg.contains k then f.reg else f.reg ++ [k] }

/-- `File::from_bytes_no_includes` -/
def load (bs : Bytes) : Option FileS :=
  (fileFromBytes bs).map fun f =>
    f.sections.foldl
      (fun acc s => register { acc with sections := acc.sections ++
        [{ header := s.header, body := s.body, regName := lowerName s.header.name, regSub := s.header.sub }] } s.header)
      { front := f.front, sections := [], reg := [] }

def FileS.toFile (f : FileS) : File :=
  { front := f.front, sections := f.sections.map fun s => { header := s.header, body := s.body } }

/-- `to_bstring` -/
def FileS.write (f : FileS) : Bytes := f.toFile.write

inductive Err | sectionMissing | subSectionMissing | keyMissing | invalidName | invalidSub | invalidKey
  deriving Repr, DecidableEq

inductive Outcome (α : Type)
  | ok (a : α)
  | err (e : Err)
  | panic
  deriving Repr

/-- `section_ids_by_name_and_subname`: positions (in `sections`) of the sections filed under the key -/
def idsBy (f : FileS) (name : Bytes) (sub : Option Bytes) : Except Err (List Nat) :=
  let n := lowerName name
  if !(f.reg.any fun k => k.1 == n) then .error .sectionMissing
  else if !f.reg.contains (n, sub) then .error .subSectionMissing
  else .ok ((List.range f.sections.length).filter fun i =>
    match f.sections[i]? with
    | some s => s.regName == n && s.regSub == sub
    | none => false)

/-! ### what a `SectionMut` carries -/

structure Ws where
  preKey : Option Bytes
  preSep : Option Bytes
  postSep : Option Bytes
  deriving Repr, DecidableEq

def Ws.default : Ws := { preKey := some [9], preSep := some [32], postSep := some [32] }

def wsOf : Option Event → Option Bytes
  | some (.ws w) => some w
  | _ => none

/-- `Whitespace::from_body` -/
def Ws.fromBody (body : List Event) : Ws :=
  match body.findIdx? isName with
  | none => Ws.default
  | some keyPos =>
    let preKey := wsOf (body.take keyPos).getLast?
    let fromKey := body.drop keyPos
    match fromKey.findIdx? (· == Event.sep) with
    | none => { preKey := preKey, preSep := none, postSep := none }
    | some sepPos =>
      { preKey := preKey, preSep := wsOf fromKey[sepPos - 1]?, postSep := wsOf fromKey[sepPos + 1]? }

/-- `Whitespace::key_value_separators` -/
def Ws.seps (w : Ws) : List Event :=
  (match w.preSep with | some x => [.ws x] | none => []) ++ [.sep] ++
  (match w.postSep with | some x => [.ws x] | none => [])

/-- `escape_value` -/
def escapeValue (v : Bytes) : Bytes :=
  let quote := v.head?.any isAsciiWs || v.getLast?.any isAsciiWs || v.any (fun b => b == 59 || b == 35)
  let inner := v.flatMap fun b =>
    if b == 10 then [92, 110] else if b == 9 then [92, 116] else if b == 34 then [92, 34]
    else if b == 92 then [92, 92] else [b]
  if quote then [34] ++ inner ++ [34] else inner

/-- a comment extends to the end of its line: start a new one first -/
def nlIfComment (nl : Bytes) (body : List Event) : List Event :=
  match body.getLast? with
  | some (.comment _ _) => [.newline nl]
  | _ => []

def Ws.preKeyEvs (w : Ws) : List Event :=
  match w.preKey with
  | some x => [.ws x]
  | none => []

def valueEvs (w : Ws) (value : Option Bytes) : List Event :=
  match value with
  | some v => w.seps ++ [.value (escapeValue v)]
  | none => [.value []]

/-- what `SectionMut::push` appends (implicit newline on, no comment): a newline first if the body
ends in a comment, the leading whitespace, the name, separators and escaped value, a newline -/
def pushSuffix (w : Ws) (nl : Bytes) (body : List Event) (key : Bytes) (value : Option Bytes) : List Event :=
  nlIfComment nl body ++ w.preKeyEvs ++ [.name key] ++ valueEvs w value ++ [.newline nl]

/-- `SectionMut::push` -/
def pushBody (w : Ws) (nl : Bytes) (body : List Event) (key : Bytes) (value : Option Bytes) : List Event :=
  body ++ pushSuffix w nl body key value

/-- `SectionMut::remove_internal` -/
def removeInternal (body : List Event) (s t : Nat) (fixWs : Bool) : List Event :=
  let b1 := if fixWs && body[t]?.any evIsNewline then body.eraseIdx t else body
  let b2 := b1.take s ++ b1.drop t
  if fixWs && decide (s > 0) && b2[s - 1]?.any evIsWs then b2.eraseIdx (s - 1) else b2

/-- `SectionMut::set` -/
def setBody (w : Ws) (nl : Bytes) (body : List Event) (key value : Bytes) : List Event :=
  match keyAndValueRange key body with
  | none => pushBody w nl body key (some value)
  | some ((_, ke), vr) =>
    let r := vr.getD (ke - 1, ke)
    let b := removeInternal body r.1 r.2 false
    b.take r.1 ++ [.value (escapeValue value)] ++ b.drop r.1

/-- `SectionMut::remove`; `none` = no such key -/
def removeBody (body : List Event) (key : Bytes) : Option (List Event) :=
  match keyAndValueRange key body with
  | none => none
  | some ((ks, ke), _) => some (removeInternal body ks ke true)

/-- the index/size loop of `raw_value_mut_filter_inner` over one body -/
def mutRange (key : Bytes) : List (Nat × Event) → Bool → Nat → Nat → Nat × Nat
  | [], _, idx, size => (idx, size)
  | (i, e) :: rest, found, idx, size =>
    match e with
    | .name k => if eqIgnoreCase k key then mutRange key rest true i 1 else mutRange key rest found idx size
    | .newline _ => mutRange key rest found idx (if found then size + 1 else size)
    | .ws _ => mutRange key rest found idx (if found then size + 1 else size)
    | .notDone _ => mutRange key rest found idx (if found then size + 1 else size)
    | .done _ => if found then mutRange key rest false idx (size + 1) else mutRange key rest found idx size
    | .value _ => if found then mutRange key rest false idx (size + 1) else mutRange key rest found idx size
    | .sep => mutRange key rest found idx (if found then size + 1 else size)
    | _ => mutRange key rest found idx size

/-- `ValueMut::set`: delete the old pair, `set_internal` a new one (separators are spliced in
reversed order, as the code does) -/
def valueMutSet (w : Ws) (body : List Event) (key value : Bytes) (idx size : Nat) : List Event :=
  let b := body.take idx ++ body.drop (idx + size)
  b.take idx ++ [.name key] ++ w.seps.reverse ++ [.value (escapeValue value)] ++ b.drop idx

/-- the scan of `raw_values_mut_filter_inner` over one body: the `(start, length)` of every
`name … value` span of the key (a span starts at the latest matching name and ends with the next
`Value` / `ValueDone`) -/
def mvSpansGo (key : Bytes) : List (Nat × Event) → Bool → Nat → List (Nat × Nat)
  | [], _, _ => []
  | (i, e) :: rest, expect, start =>
    match e with
    | .name k => if eqIgnoreCase k key then mvSpansGo key rest true i else mvSpansGo key rest expect start
    | .value _ => if expect then (start, i - start + 1) :: mvSpansGo key rest false start else mvSpansGo key rest expect start
    | .done _ => if expect then (start, i - start + 1) :: mvSpansGo key rest false start else mvSpansGo key rest expect start
    | _ => mvSpansGo key rest expect start

def mvSpans (key : Bytes) (body : List Event) : List (Nat × Nat) := mvSpansGo key (indexed body) false 0

/-- `MultiValueMut::set_value_inner` on the `j`-th span of the current body -/
def mvSetNth (body : List Event) (key value : Bytes) (j : Nat) : List Event :=
  match (mvSpans key body)[j]? with
  | some (st, len) => valueMutSet (Ws.fromBody body) body key value st len
  | none => body

/-- `set_all` within one body: spans are rewritten first to last (offsets are kept up to date by
`set_offset`, which is the same as looking the `j`-th span up again) -/
def mvSetAllBody (key value : Bytes) : Nat → Nat → List Event → List Event
  | 0, _, body => body
  | n + 1, j, body => mvSetAllBody key value n (j + 1) (mvSetNth body key value j)

/-- `delete` of the `j`-th span: the events are drained, nothing else -/
def mvDeleteNth (body : List Event) (key : Bytes) (j : Nat) : List Event :=
  match (mvSpans key body)[j]? with
  | some (st, len) => body.take st ++ body.drop (st + len)
  | none => body

/-- `delete_all` within one body (last span first, so that the earlier positions stay valid) -/
def mvDeleteAllBody (key : Bytes) : Nat → List Event → List Event
  | 0, body => body
  | n + 1, body => mvDeleteAllBody key n (mvDeleteNth body key n)

/-! ### validation -/

def validName (n : Bytes) : Bool := n.all isNameChar
def validSub (s : Bytes) : Bool := s.all fun b => b != 10 && b != 0
def validKey (k : Bytes) : Bool := !k.isEmpty && k.all isNameChar && k.head?.any isAlpha

/-- `Header::new` -/
def headerNew (name : Bytes) (sub : Option Bytes) : Except Err Header :=
  if !validName name then .error .invalidName
  else match sub with
    | none => .ok { name := name, sep := none, sub := none }
    | some s => if validSub s then .ok { name := name, sep := some [32], sub := some s } else .error .invalidSub

/-! ### operations on files -/

def FileS.nl (f : FileS) : Bytes := detectNewline f.toFile

def modifySec (f : FileS) (i : Nat) (g : Sec → Sec) : FileS :=
  { f with sections := f.sections.modify i g }

/-- `File::new_section`: register, append, `push_newline` -/
def newSection (f : FileS) (name : Bytes) (sub : Option Bytes) : Outcome FileS :=
  match headerNew name sub with
  | .error e => .err e
  | .ok h =>
    let f1 := register { f with sections := f.sections ++
      [{ header := h, body := [], regName := lowerName name, regSub := sub }] } h
    let nl := f1.nl
    .ok (modifySec f1 (f1.sections.length - 1) fun s => { s with body := s.body ++ [.newline nl] })

inductive Op
  | set (sec : Bytes) (sub : Option Bytes) (key value : Bytes)
  | setExisting (sec : Bytes) (sub : Option Bytes) (key value : Bytes)
  | push (sec : Bytes) (sub : Option Bytes) (key : Bytes) (value : Option Bytes)
  | remove (sec : Bytes) (sub : Option Bytes) (key : Bytes)
  | newSection (name : Bytes) (sub : Option Bytes)
  | removeSection (name : Bytes) (sub : Option Bytes)
  | rename (name : Bytes) (sub : Option Bytes) (newName : Bytes) (newSub : Option Bytes)
  deriving Repr, DecidableEq

/-- `section_mut`: the last section filed under the key; an empty id list is the `expect` panic -/
def sectionMut (f : FileS) (sec : Bytes) (sub : Option Bytes) : Outcome Nat :=
  match idsBy f sec sub with
  | .error e => .err e
  | .ok ids => match ids.getLast? with
    | some i => .ok i
    | none => .err .sectionMissing   -- `remove_section` leaves empty id lists behind

def bodyAt (f : FileS) (i : Nat) : List Event := (f.sections[i]?.map (·.body)).getD []

/-- the `n`-th entry over sections in file order: (section position, index within the section) -/
def locate : List (Nat × Nat) → Nat → Option (Nat × Nat)
  | [], _ => none
  | (i, c) :: rest, n => if n < c then some (i, n) else locate rest (n - c)

/-- one API call: the new file and whether the call reported success -/
def apply (f : FileS) : Op → Outcome FileS
  | .set sec sub key value =>
    -- section_mut_or_create_new_filter: last filed section, else new_section; THEN the key is validated
    let target : Outcome (FileS × Nat) :=
      match idsBy f sec sub with
      | .ok ids => (match ids.getLast? with
        | some i => .ok (f, i)
        | none => match newSection f sec sub with
          | .ok f1 => .ok (f1, f1.sections.length - 1)
          | .err e => .err e
          | .panic => .panic)
      | .error _ => match newSection f sec sub with
        | .ok f1 => .ok (f1, f1.sections.length - 1)
        | .err e => .err e
        | .panic => .panic
    if !validKey key then .err .invalidKey   -- the value name is validated before anything is created
    else match target with
    | .err e => .err e
    | .panic => .panic
    | .ok (f1, i) =>
        let nl := f1.nl
        .ok (modifySec f1 i fun s => { s with body := setBody (Ws.fromBody s.body) nl s.body key value })
  | .setExisting sec sub key value =>
    match idsBy f sec sub with
    | .error e => .err e
    | .ok ids =>
      match ids.reverse.find? fun i => (mutRange key (indexed (bodyAt f i)) false 0 0).2 != 0 with
      | none => .err .keyMissing
      | some i =>
        let r := mutRange key (indexed (bodyAt f i)) false 0 0
        .ok (modifySec f i fun s => { s with body := valueMutSet (Ws.fromBody s.body) s.body key value r.1 r.2 })
  | .push sec sub key value =>
    match sectionMut f sec sub with
    | .err e => .err e
    | .panic => .panic
    | .ok i =>
      if !validKey key then .err .invalidKey
      else
        let nl := f.nl
        .ok (modifySec f i fun s => { s with body := pushBody (Ws.fromBody s.body) nl s.body key value })
  | .remove sec sub key =>
    match sectionMut f sec sub with
    | .err e => .err e
    | .panic => .panic
    | .ok i =>
      match removeBody (bodyAt f i) key with
      | none => .err .keyMissing
      | some b => .ok (modifySec f i fun s => { s with body := b })
  | .newSection name sub => newSection f name sub
  | .removeSection name sub =>
    match idsBy f name sub with
    | .error _ => .err .keyMissing   -- `remove_section` answers `None` whatever the reason
    | .ok ids => match ids.getLast? with
      | none => .err .keyMissing
      | some i => .ok { f with sections := f.sections.eraseIdx i }
  | .rename name sub newName newSub =>
    match sectionMut f name sub with
    | .err e => .err e
    | .panic => .panic
    | .ok i =>
      match headerNew newName newSub with
      | .error e => .err e
      | .ok h =>
        -- the header is replaced and the section re-filed under its new name (`move_section_in_lookup`)
        .ok (register (modifySec f i fun s =>
          { s with header := h, regName := lowerName h.name, regSub := h.sub }) h)

/-! ### `MultiValueMut` (one handle per call: `raw_values_mut_by(sec, sub, key)?` and one method) -/

inductive MOp
  /-- `set_all(value)` -/
  | mvSetAll (sec : Bytes) (sub : Option Bytes) (key value : Bytes)
  /-- `set_at(n % len, value)` -/
  | mvSetAt (sec : Bytes) (sub : Option Bytes) (key : Bytes) (n : Nat) (value : Bytes)
  /-- `delete(n % len)` -/
  | mvDelete (sec : Bytes) (sub : Option Bytes) (key : Bytes) (n : Nat)
  /-- `delete_all()` -/
  | mvDeleteAll (sec : Bytes) (sub : Option Bytes) (key : Bytes)
  deriving Repr, DecidableEq

def applyM (f : FileS) : MOp → Outcome FileS
  | .mvSetAll sec sub key value =>
    match idsBy f sec sub with
    | .error e => .err e
    | .ok ids =>
      if (ids.map fun i => (mvSpans key (bodyAt f i)).length).sum == 0 then .err .keyMissing
      else .ok (ids.foldl (fun acc i =>
        modifySec acc i fun s => { s with body := mvSetAllBody key value (mvSpans key s.body).length 0 s.body }) f)
  | .mvSetAt sec sub key n value =>
    match idsBy f sec sub with
    | .error e => .err e
    | .ok ids =>
      let total := (ids.map fun i => (mvSpans key (bodyAt f i)).length).sum
      if total == 0 then .err .keyMissing
      else match locate (ids.map fun i => (i, (mvSpans key (bodyAt f i)).length)) (n % total) with
        | some (i, j) => .ok (modifySec f i fun s => { s with body := mvSetNth s.body key value j })
        | none => .panic
  | .mvDelete sec sub key n =>
    match idsBy f sec sub with
    | .error e => .err e
    | .ok ids =>
      let total := (ids.map fun i => (mvSpans key (bodyAt f i)).length).sum
      if total == 0 then .err .keyMissing
      else match locate (ids.map fun i => (i, (mvSpans key (bodyAt f i)).length)) (n % total) with
        | some (i, j) => .ok (modifySec f i fun s => { s with body := mvDeleteNth s.body key j })
        | none => .panic
  | .mvDeleteAll sec sub key =>
    match idsBy f sec sub with
    | .error e => .err e
    | .ok ids =>
      if (ids.map fun i => (mvSpans key (bodyAt f i)).length).sum == 0 then .err .keyMissing
      else .ok (ids.foldl (fun acc i =>
        modifySec acc i fun s => { s with body := mvDeleteAllBody key (mvSpans key s.body).length s.body }) f)

/-- a call of either kind -/
inductive AnyOp
  | single (op : Op)
  | multi (op : MOp)
  deriving Repr, DecidableEq

def applyAny (f : FileS) : AnyOp → Outcome FileS
  | .single op => apply f op
  | .multi op => applyM f op

/-! ### driver -/

def errName : Err → String
  | .sectionMissing => "section"
  | .subSectionMissing => "subsection"
  | .keyMissing => "key"
  | .invalidName => "name"
  | .invalidSub => "sub"
  | .invalidKey => "valuename"

def optB (s : String) : Option (Option Bytes) :=
  if s == "~" then some none else (bytesOfHex s).map some

def parseOp (s : String) : Option AnyOp :=
  match s.splitOn ":" with
  | ["set", a, b, c, d] => do some (.single (.set (← bytesOfHex a) (← optB b) (← bytesOfHex c) (← bytesOfHex d)))
  | ["setx", a, b, c, d] => do some (.single (.setExisting (← bytesOfHex a) (← optB b) (← bytesOfHex c) (← bytesOfHex d)))
  | ["push", a, b, c, d] => do some (.single (.push (← bytesOfHex a) (← optB b) (← bytesOfHex c) (← optB d)))
  | ["rm", a, b, c] => do some (.single (.remove (← bytesOfHex a) (← optB b) (← bytesOfHex c)))
  | ["new", a, b] => do some (.single (.newSection (← bytesOfHex a) (← optB b)))
  | ["rmsec", a, b] => do some (.single (.removeSection (← bytesOfHex a) (← optB b)))
  | ["mv", a, b, c, d] => do some (.single (.rename (← bytesOfHex a) (← optB b) (← bytesOfHex c) (← optB d)))
  | ["mvall", a, b, c, d] => do some (.multi (.mvSetAll (← bytesOfHex a) (← optB b) (← bytesOfHex c) (← bytesOfHex d)))
  | ["mvat", a, b, c, n, d] => do some (.multi (.mvSetAt (← bytesOfHex a) (← optB b) (← bytesOfHex c) (← n.toNat?) (← bytesOfHex d)))
  | ["mvdel", a, b, c, n] => do some (.multi (.mvDelete (← bytesOfHex a) (← optB b) (← bytesOfHex c) (← n.toNat?)))
  | ["mvdelall", a, b, c] => do some (.multi (.mvDeleteAll (← bytesOfHex a) (← optB b) (← bytesOfHex c)))
  | _ => none

/-- run a history; after every call print its status and the serialized file -/
def runHist : FileS → List AnyOp → List String
  | _, [] => []
  | f, op :: rest =>
    match applyAny f op with
    | .ok f1 => s!"ok:{hexOfBytes f1.write}" :: runHist f1 rest
    | .err e => s!"err-{errName e}:{hexOfBytes f.write}" :: runHist f rest
    | .panic => ["panic"]

def handle? : List String → Option String
  | "hist" :: file :: ops => do
    let bs ← bytesOfHex file
    let ops ← ops.mapM parseOp
    match load bs with
    | none => some "parse-err"
    | some f => some (" ".intercalate (runHist f ops))
  | _ => none

def handle (args : List String) : String := (handle? args).getD "bad-op"

end GixModel.C28
