import GixModel.Basic.Hex
import GixModel.Spec.C31
import GixModel.Model.C31Neg
/-
C31 — what Lean carries of fetch: (1) the decision table of
`gix::remote::connection::fetch::refs::update()` (gix/src/remote/connection/fetch/update_refs/mod.rs)
as a pure function of the per-ref situation and the abstract object world; (2) the negotiators of
gix-negotiate (Model/C31Neg.lean). This file: the decision table and the driver.

Modelled of `update()` (the `DryRun::No` path): the order of the checks and the `Mode` each ends in —
object-exists check (`ImplicitTagNotSentByRemote` / `RejectedSourceObjectNotFound`), no destination
(`NoChangeNeeded`), checked-out destination, unborn remote, equal ids, tag destination with/without
force, the fast-forward computation (`find_object(local)?.try_into_commit()` → committer time →
`remote_id.ancestors().sorting(ByCommitTimeCutoff)` → `any(== local_id)`, any failure = `force := true`),
unborn local destination, new destination. The ancestry walk itself is the oracle `World.anc`.
NOT modelled: `new_value_by_remote` / the symbolic-target adjustment pass (which value is written
for symbolic remote refs), the ref transaction, reflog messages.
-/
namespace GixModel.C31
open GixModel
open GixModel.Spec.C31

inductive Mode where
  | noChangeNeeded | fastForward | forced | new | implicitTagNotSentByRemote
  | rejectedSourceObjectNotFound | rejectedTagUpdate | rejectedNonFastForward
  | rejectedToReplaceWithUnborn | rejectedCurrentlyCheckedOut
  deriving Repr, DecidableEq

def Mode.effect : Mode → Effect
  | .fastForward | .forced | .new => .update
  | _ => .keep

/-- the fast-forward computation: `(is_fast_forward, force')` -/
def ffCheck (w : World) (s : Sit) : Bool × Bool :=
  match w.kind s.localId, w.kind s.remoteId with
  | .commit, .commit => (w.anc s.localId s.remoteId, s.force)
  | _, _ => (false, true)   -- `Err(_) => { force = true; false }`

def gixDecide (w : World) (s : Sit) : Mode :=
  if !s.remoteUnborn && !s.newExists then
    (if s.implicitTag then .implicitTagNotSentByRemote else .rejectedSourceObjectNotFound)
  else if !s.hasDst then .noChangeNeeded
  else if s.localExists then
    if s.checkedOut then .rejectedCurrentlyCheckedOut
    else if s.localUnborn then
      (if s.unbornSameTarget then .noChangeNeeded else .forced)
    else if s.remoteUnborn then .rejectedToReplaceWithUnborn
    else if s.localId == s.remoteId then .noChangeNeeded
    else if s.dstIsTag then (if s.force then .forced else .rejectedTagUpdate)
    else
      let (isFF, force) := ffCheck w s
      if isFF then .fastForward
      else if force then .forced
      else .rejectedNonFastForward
  else .new

/-- which git outcome a gitoxide mode may stand for (all pairs have the same effect on the ref) -/
def Mode.agrees : Mode → GitOutcome → Bool
  | .noChangeNeeded, .upToDate => true
  | .fastForward, .fastForward => true
  | .forced, .forced => true
  | .forced, .tagUpdate => true          -- gitoxide has no separate mode for forced tag updates
  | .forced, .storeNew => true           -- old or new value is not a commit: both store unconditionally
  | .new, .storeNew => true
  | .rejectedTagUpdate, .rejectTag => true
  | .rejectedNonFastForward, .rejectNonFF => true
  | .rejectedCurrentlyCheckedOut, .rejectCheckedOut => true
  | .rejectedCurrentlyCheckedOut, .upToDate => true   -- gitoxide looks at the worktrees before comparing ids
  | _, _ => false

/-! ### driver -/

def Mode.str : Mode → String
  | .noChangeNeeded => "NoChangeNeeded" | .fastForward => "FastForward" | .forced => "Forced" | .new => "New"
  | .implicitTagNotSentByRemote => "ImplicitTagNotSentByRemote"
  | .rejectedSourceObjectNotFound => "RejectedSourceObjectNotFound" | .rejectedTagUpdate => "RejectedTagUpdate"
  | .rejectedNonFastForward => "RejectedNonFastForward"
  | .rejectedToReplaceWithUnborn => "RejectedToReplaceWithUnborn"
  | .rejectedCurrentlyCheckedOut => "RejectedCurrentlyCheckedOut"

def bit? : String → Option Bool
  | "0" => some false
  | "1" => some true
  | _ => none

def kind? : String → Option Kind
  | "commit" => some .commit
  | "tag" => some .tag
  | "other" => some .other
  | _ => none

/-- `hasDst remoteUnborn newExists implicitTag localExists localUnborn unbornSameTarget checkedOut
dstIsTag force sameId localKind remoteKind localPeels remotePeels anc` — ids are abstracted:
local = 1, remote = 2 (or 1 if `sameId`), their peeled commits 3 and 4 -/
def parseSit : List String → Option (World × Sit)
  | [hasDst, remoteUnborn, newExists, implicitTag, localExists, localUnborn, unbornSame, checkedOut,
      dstIsTag, force, sameId, lk, rk, lp, rp, anc] => do
    let hasDst ← bit? hasDst
    let remoteUnborn ← bit? remoteUnborn
    let newExists ← bit? newExists
    let implicitTag ← bit? implicitTag
    let localExists ← bit? localExists
    let localUnborn ← bit? localUnborn
    let unbornSame ← bit? unbornSame
    let checkedOut ← bit? checkedOut
    let dstIsTag ← bit? dstIsTag
    let force ← bit? force
    let sameId ← bit? sameId
    let lk ← kind? lk
    let rk ← kind? rk
    let lp ← bit? lp
    let rp ← bit? rp
    let anc ← bit? anc
    let remoteId := if sameId then 1 else 2
    let peelOf (k : Kind) (peels : Bool) (self peeled : Nat) : Option Nat :=
      match k with
      | .commit => some self
      | .tag => if peels then some peeled else none
      | .other => none
    let w : World :=
      { kind := fun x => if x = 1 then lk else if x = 2 then rk else .commit,
        peel := fun x => if x = 1 then peelOf lk lp 1 3 else if x = 2 then peelOf rk rp 2 4 else some x,
        anc := fun _ _ => anc }
    let s : Sit :=
      { hasDst, remoteUnborn, remoteId, newExists, implicitTag, localExists, localId := 1, localUnborn,
        unbornSameTarget := unbornSame, checkedOut, dstIsTag, force }
    some (w, s)
  | _ => none

def handle? : List String → Option String
  | "dec" :: rest => do
    let (w, s) ← parseSit rest
    some (gixDecide w s).str
  | "gitdec" :: rest => do
    let (w, s) ← parseSit rest
    some (gitDecide w s).flag
  | "giteff" :: rest => do
    let (w, s) ← parseSit rest
    some (gitEffectX w s).str
  | "neg" :: rest => Neg.handleNeg rest
  | _ => none

def handle (args : List String) : String := (handle? args).getD "bad-op"

end GixModel.C31
