import GixModel.Model.C38Core
/-
C38 — the git side: a transcription of git 2.39's `attr.c` (from memory of the C source; VALIDATED
against the git 2.39.5 binary by the harness: every `attrs` operation carries what
`git check-attr` printed and the driver must reproduce it from this file).

  parse_attr_line / parse_attr / attr_name_valid / unquote_c_style   → `parseAttrLineC` …
  read_attr_from_file (strbuf_getline, UTF-8 BOM on the first line)      → `parseFileC`
  bootstrap_attr_stack / prepare_attr_stack (frame order, origins)       → `gitStack`
  collect_some_attrs (last_slash, dirlen) / determine_macros / fill /
  fill_one / macroexpand_one / path_matches (base check of match_pathname) → `gitCollect`

Deliberate abstractions (documented in props/C38.json):
  * `parse_path_pattern` + `match_basename`/`match_pathname`/`wildmatch` are the SAME parameter
    `Env.pm` (on the pattern parsed by `C38.parsePat`, and the path relative to the frame's origin)
    that the gitoxide model uses — pattern matching is property C36.
  * the `rem` counter (an early exit once every interned attribute has a value) is omitted: it
    never changes a value.
  * C strings end at the first NUL: `cstr`.
-/
namespace GixModel.Spec.C38
open GixModel GixModel.C38

/-! ### parsing -/

/-- `blank = " \t\r\n"` -/
def isBlankC (b : UInt8) : Bool := b == 32 || b == 9 || b == 13 || b == 10

/-- `s + strspn(s, blank)` -/
def skipBlank (s : Bytes) : Bytes := s.dropWhile isBlankC

/-- `strcspn(s, blank)` -/
def cspnBlank (s : Bytes) : Nat := (s.takeWhile fun b => !isBlankC b).length

/-- what a C function sees of a buffer: everything before the first NUL -/
def cstr (s : Bytes) : Bytes := s.takeWhile (· != 0)

/-- `unquote_c_style` after the opening quote: `(unquoted, rest after the closing quote)`;
reaching the end of the string before the closing quote is an error -/
def unquoteBody : Bytes → Option (Bytes × Bytes)
  | [] => none
  | 34 :: rest => some ([], rest)
  | 92 :: [] => none
  | 92 :: c :: rest =>
    match simpleEscape c with
    | some e => (unquoteBody rest).map fun (o, r) => (e :: o, r)
    | none =>
      if 48 ≤ c && c ≤ 51 then
        match rest with
        | d1 :: d2 :: rest2 =>
          if isOct d1 && isOct d2 then (unquoteBody rest2).map fun (o, r) => (octVal c d1 d2 :: o, r)
          else none
        | _ => none
      else none
  | b :: rest => (unquoteBody rest).map fun (o, r) => (b :: o, r)

def unquoteC : Bytes → Option (Bytes × Bytes)
  | 34 :: rest => unquoteBody rest
  | _ => none

/-- `attr_name_valid` -/
def attrNameValid (n : Bytes) : Bool :=
  decide (0 < n.length) && n.head? != some 45 && n.all attrChar

def indexOfEq : Bytes → Option Nat
  | [] => none
  | b :: rest => if b == 61 then some 0 else (indexOfEq rest).map (· + 1)

/-- `parse_attr(src, lineno, cp, e)` (both passes at once): the state parsed at `cp` and the new `cp`,
or `none` for an invalid attribute name (first pass: name validity; second pass: the state) -/
def parseAttrC (cp : Bytes) : Option (Asg × Bytes) :=
  let ep := cspnBlank cp
  let equals : Option Nat := match indexOfEq cp with
    | some e => if ep < e then none else some e
    | none => none
  let len := match equals with | some e => e | none => ep
  let next := skipBlank (cp.drop ep)
  let pair : Bytes × St := match cp with
    | 45 :: r => (r.take (len - 1), St.unset)
    | 33 :: r => (r.take (len - 1), St.unspecified)
    | _ => (cp.take len, match equals with | none => St.set | some e => St.value ((cp.take ep).drop (e + 1)))
  if attrNameValid pair.1 then some (⟨pair.1, pair.2⟩, next) else none

/-- `for (cp = states; *cp; ) cp = parse_attr(…)` -/
def parseStatesC : Nat → Bytes → Option (List Asg)
  | 0, _ => none
  | _ + 1, [] => some []
  | f + 1, cp =>
    match parseAttrC cp with
    | none => none
    | some (a, next) => (parseStatesC f next).map (a :: ·)

/-- `parse_attr_line` (`line` is one line of the file without its terminator) -/
def parseAttrLineC (macroOk : Bool) (line0 : Bytes) (no : Nat) : Option Line :=
  let line := cstr line0
  let cp := skipBlank line
  if cp.isEmpty then none
  else if cp.head? == some 35 then none
  else if line.length ≥ maxLineLen then none
  else
    let unq : Option (Bytes × Bytes) := if cp.head? == some 34 then unquoteC cp else none
    let split : Bytes × Bytes := match unq with
      | some (u, rest) => (u, rest)
      | none => (cp.take (cspnBlank cp), cp.drop (cspnBlank cp))
    let name := split.1
    let kind : Option Kind :=
      if macroPrefix.length < name.length && macroPrefix.isPrefixOf name then
        if !macroOk then none else
        let n1 := skipBlank (name.drop macroPrefix.length)
        let n := n1.take (cspnBlank n1)
        if attrNameValid n then some (Kind.macro n) else none
      else
        -- parse_path_pattern: a leading `!` makes the line invalid; the rest of the pattern
        -- analysis is `C38.parsePat` (shared with the model, see header)
        match parsePat name with
        | none => none
        | some p => if p.negative then none else some (Kind.pattern p)
    let states := skipBlank split.2
    match kind, parseStatesC (states.length + 1) states with
    | some k, some as => some ⟨k, as, no⟩
    | _, _ => none

def parseLinesFromC (macroOk : Bool) : Nat → List Bytes → PFile
  | _, [] => []
  | n, l :: rest =>
    match parseAttrLineC macroOk l n with
    | some x => x :: parseLinesFromC macroOk (n + 1) rest
    | none => parseLinesFromC macroOk (n + 1) rest

/-- `read_attr_from_file` -/
def parseFileC (macroOk : Bool) (bytes : Bytes) : PFile :=
  parseLinesFromC macroOk 1 (splitLines (stripBom bytes))

/-! ### the attribute stack -/

structure Frame where
  /-- `attr_stack.origin`: `none` = NULL (built-in, system, user, info), `some []` = root -/
  origin : Option Bytes
  lines : List Line

/-- `git check-attr` marks a directory by a trailing slash -/
def gitPath (path : Bytes) (isDir : Bool) : Bytes := if isDir then path ++ [47] else path

/-- `collect_some_attrs`: the index of the last `/` that is followed by another character -/
def lastSlashAux : Nat → Bytes → Option Nat → Option Nat
  | _, [], acc => acc
  | i, b :: rest, acc => lastSlashAux (i + 1) rest (if b == 47 && !rest.isEmpty then some i else acc)

def dirLen (gpath : Bytes) : Nat := (lastSlashAux 0 gpath none).getD 0

def slashPositionsAux : Nat → Bytes → List Nat
  | _, [] => []
  | i, b :: rest => if b == 47 then i :: slashPositionsAux (i + 1) rest else slashPositionsAux (i + 1) rest

/-- the directories `prepare_attr_stack` reads a `.gitattributes` from, besides the root:
every component boundary of `path[0..dirlen]` -/
def gitOrigins (gpath : Bytes) : List Bytes :=
  let dirlen := dirLen gpath
  if dirlen == 0 then []
  else ((slashPositionsAux 0 (gpath.take dirlen)).map fun i => gpath.take i) ++ [gpath.take dirlen]

/-- a frame read without `READ_ATTR_MACRO_OK` has no macro lines (`… not allowed`) -/
def noMacros (f : PFile) : PFile := f.filter fun l => !l.isMacro

/-- the stack, top (consulted first) to bottom -/
def gitStack (t : PTree) (gpath : Bytes) : List Frame :=
  [⟨none, t.info.getD []⟩]
  ++ ((gitOrigins gpath).reverse.map fun d => ⟨some d, noMacros ((t.dirs d).getD [])⟩)
  ++ [⟨some [], (t.dirs []).getD []⟩]
  ++ (t.globals.reverse.map fun f => ⟨none, f⟩)
  ++ [⟨none, builtin⟩]

/-! ### collect -/

/-- `fspathncmp(a, b, n) == 0` on equally long pieces -/
def fspathEq (a b : Bytes) (icase : Bool) : Bool := if icase then eqIgnoreCase a b else a == b

/-- `path_matches`: the directory check and the base check of `match_pathname`, then the matcher
parameter on the name relative to the frame's origin -/
def pathMatches (env : Env) (p : Pat) (origin : Option Bytes) (gpath : Bytes) (icase : Bool) : Bool :=
  let isdir := gpath.getLast? == some 47
  let pathname := if isdir then gpath.dropLast else gpath
  let base := origin.getD []
  let baselen := base.length
  if pathname.length < baselen + 1 then false
  else if baselen != 0 && pathname[baselen]? != some 47 then false
  else if !fspathEq (pathname.take baselen) base icase then false
  else
    let name := if baselen != 0 then pathname.drop (baselen + 1) else pathname
    env.pm p name isdir icase

/-- attributes whose value is not `ATTR__UNKNOWN` any more, newest first -/
abbrev Vals := List (Bytes × St)

def known (v : Vals) (n : Bytes) : Bool := (v.lookup n).isSome

/-- `fill_one` with `macroexpand_one` inlined: states are visited from the last to the first; an
attribute that just became `ATTR__TRUE` and names a macro is expanded at once. The fuel bounds the
recursion depth (`macroDepth` always suffices). -/
def fillOne (macroOf : Bytes → Option (List Asg)) : Nat → List Asg → Vals → Vals
  | 0, _, v => v
  | f + 1, states, v =>
    states.reverse.foldl (fun v a =>
      if known v a.name then v
      else
        let v1 := (a.name, a.st) :: v
        match macroOf a.name with
        | some body => if a.st = St.set then fillOne macroOf f body v1 else v1
        | none => v1) v

def frameMacro (n : Bytes) : List Line → Option (List Asg)
  | [] => none
  | l :: rest => if l.kind = Kind.macro n then some l.attrs else frameMacro n rest

/-- `determine_macros`: frames top-down, lines bottom-up, the first definition found wins -/
def findMacro : List Frame → Bytes → Option (List Asg)
  | [], _ => none
  | fr :: rest, n =>
    match frameMacro n fr.lines.reverse with
    | some b => some b
    | none => findMacro rest n

def macroDepth (stack : List Frame) : Nat :=
  ((stack.map fun fr => (fr.lines.filter Line.isMacro).length).sum) + 1

def fillFrame (env : Env) (macroOf : Bytes → Option (List Asg)) (fuel : Nat) (gpath : Bytes) (icase : Bool)
    (fr : Frame) (v : Vals) : Vals :=
  fr.lines.reverse.foldl (fun v l =>
    match l.kind with
    | .macro _ => v
    | .pattern p => if pathMatches env p fr.origin gpath icase then fillOne macroOf fuel l.attrs v else v) v

/-- `fill` -/
def fill (env : Env) (macroOf : Bytes → Option (List Asg)) (fuel : Nat) (gpath : Bytes) (icase : Bool)
    (stack : List Frame) (v : Vals) : Vals :=
  stack.foldl (fun v fr => fillFrame env macroOf fuel gpath icase fr v) v

/-- `collect_some_attrs` -/
def gitCollect (env : Env) (t : PTree) (gpath : Bytes) (icase : Bool) : Vals :=
  let stack := gitStack t gpath
  fill env (findMacro stack) (macroDepth stack) gpath icase stack []

/-- what `git check-attr` prints for `a`: `ATTR__UNKNOWN` and `ATTR__UNSET` are both "unspecified" -/
def gitValue (v : Vals) (a : Bytes) : St := (v.lookup a).getD St.unspecified

end GixModel.Spec.C38
