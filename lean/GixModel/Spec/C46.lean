import GixModel.Basic.CommitDag
/-
C46 — what `git merge-base --all A B…` is documented to print (git-merge-base(1)):

  "the best common ancestors between commit A and a hypothetical merge commit M of B, C, …";
  "one common ancestor is better than another if the latter is an ancestor of the former; a
   common ancestor that does not have any better common ancestor is a best common ancestor,
   i.e. a merge base"; `--all`: "output all merge bases".

The ancestors of the hypothetical merge M are the ancestors of the B's, so:
`Common` = ancestor-or-self of A and of at least one B; a merge base = a `Common` commit that is
not a proper ancestor of another `Common` commit. (A ∈ {B…} gives {A}: git's early return.)
The harness validates this transcription against the git 2.39.5 binary on every generated query
by an independent brute-force evaluation (`brute_merge_bases` in harness/c46).
-/
namespace GixModel.Spec.C46
open GixModel.CG

def Common (g : Dag) (a : Nat) (bs : List Nat) (x : Nat) : Prop :=
  Reach g a x ∧ ∃ b, b ∈ bs ∧ Reach g b x

def IsMergeBase (g : Dag) (a : Nat) (bs : List Nat) (x : Nat) : Prop :=
  Common g a bs x ∧ ∀ y, Common g a bs y → Reach g y x → y = x

/-- the repository: finitely many commits, every parent present, no cycles, generation numbers
monotone along parent links -/
structure Repo (g : Dag) (nodes : List Nat) : Prop where
  acyclic : Acyclic g
  closed : Closed g nodes
  nodup : nodes.Nodup
  genmono : GenMono g

end GixModel.Spec.C46
