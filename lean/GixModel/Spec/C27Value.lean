import GixModel.Spec.C27
import GixModel.Spec.C27Body
/-
C27 — the statement of `value_eq_git`: gitoxide's reading of the text after `=` (events of
`value_impl`, concatenated, normalized), and the texts on which it is claimed to equal git's.
-/
namespace GixModel.C27
open GixModel GixModel.C26

/-- gitoxide's reading of the text that follows `=`: the events of `value_impl` after the optional
whitespace, their value text concatenated and normalized -/
def gixValueOfText (text : Bytes) : Option Bytes :=
  (valueScan (optSpaces text).2 [] false false []).map fun p => normalize (valText p.1)

/-- the text after `=` (leading blanks removed) is free of the constructs on which git 2.39 and
gitoxide are known to differ: no TAB / FF / CR, no `\b`, no lone backslash at the end, no unquoted
space while the value is still empty. `started`: a byte has been appended to the value. -/
def plainGo : Bytes → Bool → Bool → Bool
  | [], _, _ => true
  | [c], started, inQ =>
    if c == 10 then true
    else if (c == 59 || c == 35) && !inQ then true
    else c != 92 && c != 9 && c != 12 && c != 13 && (c != 32 || inQ || started)
  | c :: d :: r, started, inQ =>
    if c == 10 then true
    else if (c == 59 || c == 35) && !inQ then true
    else if c == 92 then
      if d == 10 then plainGo r started inQ
      else if d == 98 || d == 13 then false
      else if isEscapable d then plainGo r true inQ
      else true
    else if c == 9 || c == 12 || c == 13 then false
    else if c == 34 then plainGo (d :: r) started (!inQ)
    else if c == 32 then (inQ || started) && plainGo (d :: r) (started || inQ) inQ
    else plainGo (d :: r) true inQ

/-- the domain of `value_eq_git`: no CR anywhere, and after the leading blanks `plainGo` -/
def plainText (text : Bytes) : Bool :=
  text.all (· != 13) && plainGo (text.dropWhile isSpace) false false

/-- every CR is the first half of a CR LF -/
def crOk : Bytes → Bool
  | [] => true
  | [c] => c != 13
  | c :: d :: r => if c == 13 then d == 10 && crOk r else crOk (d :: r)

/-- the domain of `value_eq_git_crlf`: CRs only as CR LF, and plain once those are read as LF -/
def plainTextCrlf (text : Bytes) : Bool := crOk text && plainText (foldCrlf text)

end GixModel.C27
