import GixModel.Model.C19
/-
C19 — the declarative side: what a well-formed packed-refs body is (`render` of records with
their line endings), what a linear scan returns (`linearFind`).
-/
namespace GixModel.C19
open GixModel

/-- a record as it stands in a packed-refs file, with the line endings of its one or two lines -/
structure FileRec where
  name : Bytes
  target : Bytes
  object : Option Bytes
  /-- the reference line ends in `\r\n` -/
  crlf : Bool
  /-- the peeled line ends in `\r\n` -/
  crlf2 : Bool
  deriving Repr, DecidableEq

def nl (crlf : Bool) : Bytes := if crlf then [13, 10] else [10]

/-- the line up to, not including, its final `\n` -/
def FileRec.refBody (r : FileRec) : Bytes := r.target ++ 32 :: r.name ++ (if r.crlf then [13] else [])

def FileRec.peelLine (r : FileRec) : Bytes :=
  match r.object with
  | none => []
  | some o => 94 :: (o ++ (if r.crlf2 then [13] else [])) ++ [10]

def FileRec.render (r : FileRec) : Bytes := (r.refBody ++ [10]) ++ r.peelLine

def FileRec.toRecord (r : FileRec) : Record := { name := r.name, target := r.target, object := r.object }

def render (rs : List FileRec) : Bytes := rs.flatMap FileRec.render

def Hex40 (h : Bytes) : Prop := h.length = 40 ∧ ∀ x ∈ h, isHexLc x = true

/-- a record the parser accepts: 40-digit ids, a valid name without `\r` / `\n` -/
structure FileRec.WF (validName : Bytes → Bool) (r : FileRec) : Prop where
  target : Hex40 r.target
  valid : validName r.name = true
  noNl : (10 : UInt8) ∉ r.name
  noCr : (13 : UInt8) ∉ r.name
  object : ∀ o, r.object = some o → Hex40 o

/-- strictly increasing names (bytewise) — what the `sorted` trait promises and what
`Buffer::open` establishes otherwise (for distinct names) -/
def SortedByName (rs : List FileRec) : Prop :=
  rs.Pairwise (fun x y => cmpBytes x.name y.name = .lt)

/-- what a linear scan for `name` returns -/
def linearFind (rs : List FileRec) (name : Bytes) : Found :=
  match rs.find? (fun r => r.name == name) with
  | some r => .ok r.toRecord
  | none => .none

/-- the first record with that name among the items of a scan (`packed::Iter`), skipping lines
that do not parse -/
def firstMatch (items : List (Option Record)) (name : Bytes) : Option Record :=
  match items.find? (fun i => match i with | some r => r.name == name | none => false) with
  | some (some r) => some r
  | _ => none

end GixModel.C19
