import GixModel.Model.C49
/-
C49 — git's side, transcribed from git 2.39 (`read-cache.c`, `dir.c`) and VALIDATED against the
`git status` binary by the harness (a disagreement between these definitions and the binary is a
defect of this file, never of gitoxide).

(1) `gitIeMatchStat` / `gitIeModified` = `ie_match_stat`, `ce_match_stat_basic`,
    `match_stat_data`, `is_racy_timestamp`, `ie_modified` for git's default build (no USE_NSEC, no
    USE_STDEV), and `gitLetter`, the letter `git status --porcelain=v2` prints in the worktree
    column after its index refresh.
(2) `gitTreatPath` = `treat_path`'s verdict for one directory entry (`dir.c`), and
    `gitWalk`, what `git status --ignored --untracked-files=normal|all` lists, as a declarative
    function of the directory tree.
-/
namespace GixModel.Spec.C49
open GixModel GixModel.C49

/-! ## (1) index entry versus worktree file -/

/-- the bits of git's `changed` word that matter: TYPE_CHANGED, MODE_CHANGED, DATA_CHANGED and
"any of MTIME/CTIME/OWNER/INODE_CHANGED" -/
structure Chg where
  type : Bool
  mode : Bool
  data : Bool
  other : Bool
  deriving Repr, DecidableEq

def Chg.any (c : Chg) : Bool := c.type || c.mode || c.data || c.other

/-- `match_stat_data`: which stat fields git compares under `core.trustctime` / `core.checkStat` -/
def gitMatchStatData (sd st : Stat) (trustCtime checkStat : Bool) : Bool × Bool :=
  let other := sd.mtimeS != st.mtimeS || (trustCtime && checkStat && sd.ctimeS != st.ctimeS)
    || (checkStat && (sd.uid != st.uid || sd.gid != st.gid || sd.ino != st.ino))
  (other, sd.size != st.size)

/-- `ce_match_stat_basic` for regular-file and symlink entries -/
def gitBasic (e : Entry) (m : Meta) (o : Opts) : Chg :=
  let sd := gitMatchStatData e.stat m.stat o.stat.trustCtime o.stat.checkStat
  -- "Racily smudged entry?"
  let smudged := e.stat.size == 0 && !e.emptyBlob
  match e.mode with
  | .symlink => ⟨m.kind != .symlink && (o.symlink || m.kind != .file), false, sd.2 || smudged, sd.1⟩
  | _ =>
    -- only the owner-executable bit counts as a mode change
    let fsExec := if m.kind == .file then m.exec else true
    ⟨m.kind != .file, o.execBit && ((e.mode == .fileExec) != fsExec), sd.2 || smudged, sd.1⟩

/-- `is_racy_timestamp`: the RECORDED mtime against the index timestamp, which git keeps in an
`unsigned int` (0 = unknown) -/
def gitRacy (tsS : Nat) (e : Entry) : Bool := tsS % 2 ^ 32 != 0 && tsS % 2 ^ 32 ≤ e.stat.mtimeS

/-- `ie_match_stat`; `contentDiffers` is what `ce_modified_check_fs` finds -/
def gitIeMatchStat (e : Entry) (m : Meta) (tsS : Nat) (o : Opts) (contentDiffers : Bool) : Chg :=
  if e.intentToAdd then ⟨true, true, true, false⟩
  else
    let c := gitBasic e m o
    if !c.any && gitRacy tsS e then { c with data := contentDiffers } else c

/-- `ie_modified` -/
def gitIeModified (e : Entry) (m : Meta) (tsS : Nat) (o : Opts) (contentDiffers : Bool) : Bool :=
  let c := gitIeMatchStat e m tsS o contentDiffers
  if !c.any then false
  else if c.mode || c.type then true
  else if c.data && e.stat.size != 0 then true
  else contentDiffers

inductive Letter | clean | deleted | typechange | modified | added
  deriving Repr, DecidableEq

/-- does `ce_mode_from_stat` give a different object type than the entry has? -/
def gitTypeDiffers (e : Entry) (m : Meta) (o : Opts) : Bool :=
  match e.mode with
  | .symlink => !(m.kind == .symlink || (m.kind == .file && !o.symlink))
  | _ => m.kind == .symlink || m.kind == .dir

/-- the worktree-column letter of `git status --porcelain=v2` for a stage-0 entry -/
def gitLetter (e : Entry) (l : Lookup) (tsS : Nat) (o : Opts) (contentDiffers : Bool) : Letter :=
  if e.skip then .clean
  else match l with
  | .notFound => .deleted
  | .found m =>
    if m.kind == .dir then .deleted
    else if e.intentToAdd then .added
    else if gitIeModified e m tsS o contentDiffers then
      (if gitTypeDiffers e m o then .typechange else .modified)
    else .clean

/-- the letter a gitoxide status maps to -/
def letterOf : Status → Letter
  | .unchanged => .clean
  | .needsUpdate => .clean
  | .removed => .deleted
  | .typeChange => .typechange
  | .intentToAdd => .added
  | .modified _ _ _ => .modified
  | .submodule => .clean

end GixModel.Spec.C49

namespace GixModel.Spec.C49
open GixModel GixModel.C49

/-! ## (2) directory entries -/

/-- verdicts of `treat_path` (`dir.c`): `none` = not shown (tracked file, `.git`), `recurse` = a
directory the index knows about, `excluded`, `untracked` (`repo` = a nested repository, shown as
one entry and never entered) -/
inductive PathVerdict
  | none
  | recurse
  | excluded (k : IgnKind)
  | untracked (repo : Bool)
  deriving Repr, DecidableEq

/-- `treat_path`: `.git` is skipped; a non-directory with an index entry is tracked; a directory
with index entries below it (`directory_exists_in_index` = `index_directory`) is recursed into;
everything else is excluded if an ignore pattern matches and untracked otherwise. -/
def gitTreatPath (f : PathFacts) : PathVerdict :=
  if f.dotGit then .none
  else if !f.isDir && f.indexFile then .none
  else if f.isDir && f.indexDir then .recurse
  else match f.excluded with
    | some k => .excluded k
    | none => .untracked (f.isDir && f.nestedRepo)

/-- gitoxide's classification read as a `treat_path` verdict -/
def verdictOf (c : DStatus × Bool) (isDir : Bool) : PathVerdict :=
  match c.1 with
  | .pruned => .none
  | .tracked => if isDir then .recurse else .none
  | .ignored k => .excluded k
  | .untracked => .untracked c.2

/-- what a directory entry contributes to the decision whether its parent can be shown as one
entry: its status and whether it is a nested repository -/
abbrev Leaf := DStatus × Bool

mutual
/-- the entries below a directory as `git status` weighs them: files and directories that are not
entered (ignored ones, nested repositories) count with their own status; entered directories count
through their content — so an empty directory counts for nothing (git never shows directories
without files) -/
def leaves : Tree → List Leaf
  | .file _ f => [((classify f).1, false)]
  | .dir _ f cs =>
    if !(classify f).2 && ((classify f).1 == .tracked || (classify f).1 == .untracked) then
      -- a directory with index entries below it is tracked content even if those files are gone from disk
      (if (classify f).1 == .tracked then [(DStatus.tracked, false)] else []) ++ leavesL cs
    else [classify f]
def leavesL : List Tree → List Leaf
  | [] => []
  | t :: ts => leaves t ++ leavesL ts
end

/-- git's rule for showing a directory as ONE entry (`--untracked-files=normal`, `--ignored`):
never if something below is tracked or a nested repository; as untracked if anything below is
untracked; as ignored if everything below is ignored. (`.git` does not count.) -/
def gitFold (l : List Leaf) : Option DStatus :=
  let l := l.filter fun x => x.1 != .pruned
  if l.any (fun x => x.2 || x.1 == .tracked) then none
  else if l.any (fun x => x.1 == .untracked) then some .untracked
  else if l.isEmpty then none
  else if l.all (fun x => x.1 == .ignored .expendable) then some (.ignored .expendable)
  else if l.all (fun x => x.1 == .ignored .precious) then some (.ignored .precious)
  else none

/-! ## (3) what `git status --porcelain --ignored -unormal` lists -/

/-- an untracked / ignored line: path and status -/
abbrev Shown := Bytes × DStatus

mutual
/-- the `??` and `!!` lines below directory `p` that one directory entry gives rise to
(`read_directory_recursive` with `DIR_SHOW_IGNORED_TOO`, `-unormal`): a file is listed by
`treat_path`'s verdict; an ignored directory and a nested repository are listed as ONE entry and
not entered; a directory the index knows is entered; any other directory is shown as ONE entry if
`gitFold` says so — and then what is listed inside it with a DIFFERENT status (the ignored files of
an untracked directory) is still listed — and entered otherwise. -/
def gitShow (p : Bytes) : Tree → List Shown
  | .file name f =>
    match gitTreatPath f with
    | .excluded k => [(joinPath p name, .ignored k)]
    | .untracked _ => [(joinPath p name, .untracked)]
    | _ => []
  | .dir name f cs =>
    match gitTreatPath f with
    | .none => []
    | .excluded k => [(joinPath p name, .ignored k)]
    | .untracked true => [(joinPath p name, .untracked)]
    | .untracked false =>
      (match gitFold (leavesL cs) with
        | some s => (joinPath p name, s) :: (gitShowL (joinPath p name) cs).filter (fun x => x.2 != s)
        | none => gitShowL (joinPath p name) cs)
    | .recurse => gitShowL (joinPath p name) cs
def gitShowL (p : Bytes) : List Tree → List Shown
  | [] => []
  | t :: ts => gitShow p t ++ gitShowL p ts
end

/-- the lines of the worktree column: path and letter of every entry that is not clean -/
inductive GLine
  | change (path : Bytes) (l : Letter)
  | other (path : Bytes) (s : DStatus)
  deriving Repr, DecidableEq

/-- a line of gitoxide's report as git prints it -/
def lineOf : Line → GLine
  | .change p s => .change p (letterOf s)
  | .other p s => .other p s

/-- everything `git status --porcelain --ignored -unormal` prints for the worktree (no submodules,
no rename detection): one line per changed index entry, then the untracked and ignored entries -/
def gitReport (w : Worktree) : List GLine :=
  (w.entries.filterMap fun x =>
    let l := gitLetter x.e x.l w.tsS w.o x.hashDiffers
    if l = .clean then none else some (.change x.path l)) ++
  (gitShowL [] w.tree).map fun x => .other x.1 x.2

end GixModel.Spec.C49
