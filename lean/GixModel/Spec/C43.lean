import GixModel.Basic.C43Scan
/-
C43 — what git 2.39 does: a transcription of the relevant parts of `convert.c`
(`gather_stats`, `convert_is_binary`, `text_eol_is_crlf`, `output_eol`, `will_convert_lf_to_crlf`,
`has_crlf_in_index`, `check_global_conv_flags_eol`, `crlf_to_git`, `crlf_to_worktree`,
`count_ident`, `ident_to_git`, `ident_to_worktree`, `git_path_check_{crlf,eol,ident}`,
`convert_attrs`, `convert_to_git`, `convert_to_working_tree_ca_internal`) for paths without
`filter=` driver and without `working-tree-encoding`.

Conventions: a C `(const char *src, size_t len)` pair is the list of the remaining bytes; `memchr`
is `breakAt`; the output `strbuf` is an accumulator; every `for(;;)`/`while` loop is a function on
explicit fuel, called with more fuel than it has bytes to consume. This file does not mention the
model of the Rust code. It is validated against the git binary by the harness (ops `sgit`/`swt`,
whose expected observations are produced by `git hash-object` / `git checkout-index`).
-/
namespace GixModel.Spec.C43
open GixModel GixModel.C43Scan

/-- `enum convert_crlf_action` -/
inductive CrlfAction
  | undefined | binary | text | textInput | textCrlf | auto | autoCrlf | autoInput
  deriving DecidableEq, Repr

/-- `enum eol` -/
inductive Eol | unset | lf | crlf
  deriving DecidableEq, Repr

/-- `enum auto_crlf` (`core.autocrlf`) -/
inductive AutoCrlf | false_ | true_ | input
  deriving DecidableEq, Repr

/-- the configuration `convert.c` reads: `auto_crlf`, `core_eol` and the compile-time `EOL_NATIVE`
(`crlf` only with `NATIVE_CRLF`, i.e. on Windows) -/
structure GitConfig where
  autoCrlf : AutoCrlf
  coreEol : Eol
  nativeCrlf : Bool
  deriving DecidableEq, Repr

/-- `struct text_stat` -/
structure TextStat where
  nul : Nat := 0
  lonecr : Nat := 0
  lonelf : Nat := 0
  crlf : Nat := 0
  printable : Nat := 0
  nonprintable : Nat := 0
  deriving DecidableEq, Repr

/-- the body of the `for` loop of `gather_stats` for a byte that is neither CR nor LF -/
def countByte (c : UInt8) (st : TextStat) : TextStat :=
  if c == 127 then { st with nonprintable := st.nonprintable + 1 }            -- DEL
  else if c < 32 then
    if c == 8 || c == 9 || c == 27 || c == 12 then                           -- BS, HT, ESC and FF
      { st with printable := st.printable + 1 }
    else if c == 0 then
      { st with nul := st.nul + 1, nonprintable := st.nonprintable + 1 }      -- case 0: nul++; fall through
    else { st with nonprintable := st.nonprintable + 1 }
  else { st with printable := st.printable + 1 }

/-- the `for (i = 0; i < size; i++)` loop of `gather_stats`; the list is `buf + i` -/
def gatherLoop : Bytes → TextStat → TextStat
  | [], st => st
  | c :: rest, st =>
    if c == 13 then
      match rest with
      | n :: rest' =>
        if n == 10 then gatherLoop rest' { st with crlf := st.crlf + 1 }      -- i+1 < size && buf[i+1] == '\n': i++
        else gatherLoop (n :: rest') { st with lonecr := st.lonecr + 1 }
      | [] => { st with lonecr := st.lonecr + 1 }
    else if c == 10 then gatherLoop rest { st with lonelf := st.lonelf + 1 }
    else gatherLoop rest (countByte c st)

/-- `gather_stats`: "If file ends with EOF then don't count this EOF as non-printable." -/
def gatherStats (buf : Bytes) : TextStat :=
  let st := gatherLoop buf {}
  if buf.getLast? == some 26 then { st with nonprintable := st.nonprintable - 1 } else st

/-- `convert_is_binary` -/
def convertIsBinary (st : TextStat) : Bool :=
  if st.lonecr != 0 then true
  else if st.nul != 0 then true
  else if st.printable / 128 < st.nonprintable then true      -- (printable >> 7) < nonprintable
  else false

/-- `text_eol_is_crlf` -/
def textEolIsCrlf (cfg : GitConfig) : Bool :=
  if cfg.autoCrlf == .true_ then true
  else if cfg.autoCrlf == .input then false
  else if cfg.coreEol == .crlf then true
  else if cfg.coreEol == .unset && cfg.nativeCrlf then true
  else false

/-- `output_eol` -/
def outputEol (cfg : GitConfig) : CrlfAction → Eol
  | .binary => .unset
  | .textCrlf => .crlf
  | .textInput => .lf
  | .undefined | .autoCrlf => .crlf
  | .autoInput => .lf
  | .text | .auto => if textEolIsCrlf cfg then .crlf else .lf

def CrlfAction.isAuto (a : CrlfAction) : Bool := a == .auto || a == .autoInput || a == .autoCrlf

/-- `will_convert_lf_to_crlf` -/
def willConvertLfToCrlf (cfg : GitConfig) (st : TextStat) (a : CrlfAction) : Bool :=
  if outputEol cfg a != .crlf then false
  else if st.lonelf == 0 then false                 -- No "naked" LF? Nothing to convert, regardless.
  else if a.isAuto then
    if st.lonecr != 0 || st.crlf != 0 then false    -- If we have any CR or CRLF line endings, we do not touch it
    else if convertIsBinary st then false
    else true
  else true

/-- `gather_convert_stats` + the test in `has_crlf_in_index`, given the blob data the index holds for
the path (`read_blob_data_from_index`), if any -/
def hasCrlfInIndex (data : Option Bytes) : Bool :=
  match data with
  | none => false
  | some d =>
    if d.contains 13 then                                        -- crp = memchr(data, '\r', sz)
      if d.isEmpty then false                                    -- gather_convert_stats: !size → 0
      else
        let st := gatherStats d
        !convertIsBinary st && st.crlf != 0                      -- !(BITS_BIN) && (BITS_TXT_CRLF)
    else false

/-- `core.safecrlf` as `global_conv_flags_eol`: 0, `CONV_EOL_RNDTRP_WARN`, `CONV_EOL_RNDTRP_DIE` -/
inductive SafeCrlf | off | warn | die
  deriving DecidableEq, Repr

/-- the two messages of `check_global_conv_flags_eol` -/
inductive EolMsg | crlfToLf | lfToCrlf
  deriving DecidableEq, Repr

/-- `check_global_conv_flags_eol`: which message, if any, is due (it is a `die` or a `warning`
depending on the flags) -/
def checkGlobalConvFlagsEol (old new : TextStat) : Option EolMsg :=
  if old.crlf != 0 && new.crlf == 0 then some .crlfToLf          -- CRLFs would not be restored by checkout
  else if old.lonelf != 0 && new.lonelf == 0 then some .lfToCrlf -- CRLFs would be added by checkout
  else none

/-- `new_stats` in `crlf_to_git` after "simulate git add" and "simulate git checkout" -/
def simulateAddCheckout (cfg : GitConfig) (stats : TextStat) (convert : Bool) (a : CrlfAction) : TextStat :=
  let new1 := if convert then { stats with lonelf := stats.lonelf + stats.crlf, crlf := 0 } else stats
  if willConvertLfToCrlf cfg new1 a then { new1 with crlf := new1.crlf + new1.lonelf, lonelf := 0 } else new1

/-- the `do … while (--len)` loop of `crlf_to_git` for the non-auto actions:
`if (! (c == '\r' && (1 < len && *src == '\n'))) *dst++ = c;` -/
def stripCrBeforeLf : Bytes → Bytes
  | [] => []
  | c :: src =>
    if c == 13 && (match src with | n :: _ => n == 10 | [] => false) then stripCrBeforeLf src
    else c :: stripCrBeforeLf src

/-- the loop for the auto actions: `if (c != '\r') *dst++ = c;` -/
def stripAllCr : Bytes → Bytes
  | [] => []
  | c :: src => if c != 13 then c :: stripAllCr src else stripAllCr src

/-- what a to-git conversion step yields: the bytes, or `die(...)`; a warning may be printed -/
structure ToGit where
  out : Bytes
  warning : Option EolMsg := none
  deriving DecidableEq, Repr

/-- `convert_crlf_into_lf` in `crlf_to_git`: "If the file in the index has any CR in it, do not
convert. This is the new safer autocrlf handling" -/
def convertCrlfIntoLf (stats : TextStat) (a : CrlfAction) (index : Option Bytes) : Bool :=
  if a.isAuto && hasCrlfInIndex index then false
  else stats.crlf != 0                 -- Optimization: No CRLF? Nothing to convert, regardless.

/-- the end of `crlf_to_git`: `die`/`warning` from `check_global_conv_flags_eol`, then the copy loops -/
def crlfToGitTail (src : Bytes) (a : CrlfAction) (convert : Bool) (msg : Option EolMsg)
    (safe : SafeCrlf) : Except EolMsg ToGit :=
  match safe, msg with
  | .die, some m => .error m
  | _, _ =>
    if !convert then .ok { out := src, warning := msg }
    else if a.isAuto then .ok { out := stripAllCr src, warning := msg }
    else .ok { out := stripCrBeforeLf src, warning := msg }

/-- `crlf_to_git` (with a destination buffer, without `CONV_EOL_RENORMALIZE`); `index` is the blob
the index holds for the path. -/
def crlfToGit (cfg : GitConfig) (index : Option Bytes) (src : Bytes) (a : CrlfAction)
    (safe : SafeCrlf) : Except EolMsg ToGit :=
  if a == .binary || src.isEmpty then .ok { out := src }
  else
    let stats := gatherStats src
    if a.isAuto && convertIsBinary stats then .ok { out := src }
    else
      let convert := convertCrlfIntoLf stats a index
      let msg : Option EolMsg :=
        if safe != .off then checkGlobalConvFlagsEol stats (simulateAddCheckout cfg stats convert a)
        else none
      crlfToGitTail src a convert msg safe

/-- the `for (;;)` loop of `crlf_to_worktree`: `nl = memchr(src, '\n', len)`; a newline directly
preceded (inside the current chunk) by `\r` is copied, any other gets a `\r` -/
def crlfToWorktreeLoop : Nat → Bytes → Bytes → Bytes
  | 0, src, buf => buf ++ src
  | fuel + 1, src, buf =>
    match breakAt (· == 10) src with
    | none => buf ++ src
    | some (pre, _, rest) =>
      if pre.getLast? == some 13 then crlfToWorktreeLoop fuel rest (buf ++ pre ++ [10])   -- nl > src && nl[-1] == '\r'
      else crlfToWorktreeLoop fuel rest (buf ++ pre ++ [13, 10])

/-- `crlf_to_worktree` -/
def crlfToWorktree (cfg : GitConfig) (src : Bytes) (a : CrlfAction) : Bytes :=
  if src.isEmpty || outputEol cfg a != .crlf then src
  else
    let stats := gatherStats src
    if !willConvertLfToCrlf cfg stats a then src
    else crlfToWorktreeLoop (src.length + 1) src []

/-! ### ident -/

/-- the inner `while (size)` of `count_ident` scanning an `$Id: …` up to `$` (counted) or `\n` -/
def countIdentInner : Bytes → Nat → Bytes × Nat
  | [], cnt => ([], cnt)
  | ch :: cp, cnt =>
    if ch == 36 then (cp, cnt + 1)
    else if ch == 10 then (cp, cnt)
    else countIdentInner cp cnt

/-- `count_ident` -/
def countIdentLoop : Nat → Bytes → Nat → Nat
  | 0, _, cnt => cnt
  | _ + 1, [], cnt => cnt
  | fuel + 1, ch :: cp, cnt =>
    if ch != 36 then countIdentLoop fuel cp cnt
    else if cp.length < 3 then cnt                                   -- if (size < 3) break;
    else if !startsWith [73, 100] cp then countIdentLoop fuel cp cnt  -- memcmp("Id", cp, 2)
    else
      let ch2 := (cp.drop 2).headD 0                                 -- ch = cp[2]; cp += 3; size -= 3
      let cp3 := cp.drop 3
      let cnt1 := if ch2 == 36 then cnt + 1 else cnt                 -- $Id$
      if ch2 != 58 then countIdentLoop fuel cp3 cnt1
      else
        let r := countIdentInner cp3 cnt1
        countIdentLoop fuel r.1 r.2

def countIdent (src : Bytes) : Nat := countIdentLoop (src.length + 1) src 0

/-- the `for (;;)` loop of `ident_to_git`; `dst` is what has been written so far -/
def identToGitLoop : Nat → Bytes → Bytes → Bytes
  | 0, src, dst => dst ++ src
  | fuel + 1, src, dst =>
    match breakAt (· == 36) src with
    | none => dst ++ src
    | some (pre, _, src1) =>
      let dst1 := dst ++ pre ++ [36]
      if src1.length > 3 && startsWith [73, 100, 58] src1 then      -- len > 3 && !memcmp(src, "Id:", 3)
        match breakAt (· == 36) (src1.drop 3) with
        | none => dst1 ++ src1                                       -- if (!dollar) break;
        | some (mid, _, src2) =>
          if mid.contains 10 then identToGitLoop fuel src1 dst1      -- Line break before the next dollar.
          else identToGitLoop fuel src2 (dst1 ++ [73, 100, 36])      -- memcpy(dst, "Id$", 3)
      else identToGitLoop fuel src1 dst1

/-- `ident_to_git` -/
def identToGit (src : Bytes) (ident : Bool) : Bytes :=
  if !ident || countIdent src == 0 then src
  else identToGitLoop (src.length + 1) src []

/-- the `for (;;)` loop of `ident_to_worktree`. `hex` is `oid_to_hex` of the blob id of the whole
input; `tail` is what follows it (git: `" $"`). -/
def identToWorktreeLoop (hex tail : Bytes) : Nat → Bytes → Bytes → Bytes
  | 0, src, buf => buf ++ src
  | fuel + 1, src, buf =>
    match breakAt (· == 36) src with                                 -- step 1: run to the next '$'
    | none => buf ++ src
    | some (pre, _, src1) =>
      let buf1 := buf ++ pre ++ [36]
      -- step 2: does it looks like a bit like Id:xxx$ or Id$ ?
      if src1.length < 3 || !startsWith [73, 100] src1 then identToWorktreeLoop hex tail fuel src1 buf1
      else
        let c2 := (src1.drop 2).headD 0
        -- step 3: skip over Id$ or Id:xxxxx$
        if c2 == 36 then
          identToWorktreeLoop hex tail fuel (src1.drop 3) (buf1 ++ [73, 100, 58, 32] ++ hex ++ tail)
        else if c2 == 58 then
          match breakAt (· == 36) (src1.drop 3) with                 -- dollar = memchr(src + 3, '$', len - 3)
          | none => buf1 ++ src1                                     -- incomplete keyword, no more '$', so just quit the loop
          | some (mid, _, src2) =>
            if mid.contains 10 then identToWorktreeLoop hex tail fuel src1 buf1     -- Line break before the next dollar.
            else
              -- spc = memchr(src + 4, ' ', dollar - src - 4); if (spc && spc < dollar-1) continue;
              -- `mid` is src+3 .. dollar; "a space before the last byte of mid, not counting mid[0]"
              if ((mid.drop 1).dropLast).contains 32 then identToWorktreeLoop hex tail fuel src1 buf1
              else identToWorktreeLoop hex tail fuel src2 (buf1 ++ [73, 100, 58, 32] ++ hex ++ tail)
        else identToWorktreeLoop hex tail fuel src1 buf1             -- it wasn't a "Id$" or "Id:xxxx$"

/-- git's expansion is `$Id: <hex> $` -/
def gitIdTail : Bytes := [32, 36]

/-- `ident_to_worktree` (the blob id is computed from the bytes it is given) -/
def identToWorktree (hash : Bytes → Bytes) (src : Bytes) (ident : Bool) : Bytes :=
  if !ident then src
  else if countIdent src == 0 then src
  else identToWorktreeLoop (hash src) gitIdTail (src.length + 1) src []

/-! ### attributes -/

/-- value of an attribute as `attr.h` presents it: `ATTR_TRUE`, `ATTR_FALSE`, `ATTR_UNSET`
(unspecified), or a string -/
inductive AttrValue
  | true_ | false_ | unset | str (v : Bytes)
  deriving DecidableEq, Repr

def strInput : Bytes := [105, 110, 112, 117, 116]
def strAuto : Bytes := [97, 117, 116, 111]
def strLf : Bytes := [108, 102]
def strCrlf : Bytes := [99, 114, 108, 102]

/-- `git_path_check_crlf` -/
def gitPathCheckCrlf : AttrValue → CrlfAction
  | .true_ => .text
  | .false_ => .binary
  | .unset => .undefined
  | .str v => if v == strInput then .textInput else if v == strAuto then .auto else .undefined

/-- `git_path_check_eol` -/
def gitPathCheckEol : AttrValue → Eol
  | .str v => if v == strLf then .lf else if v == strCrlf then .crlf else .unset
  | _ => .unset

/-- `git_path_check_ident` -/
def gitPathCheckIdent : AttrValue → Bool
  | .true_ => true
  | _ => false

/-- the attributes `convert_attrs` looks at (no `filter`, no `working-tree-encoding`) -/
structure GitAttrs where
  crlf : AttrValue
  ident : AttrValue
  eol : AttrValue
  text : AttrValue
  deriving DecidableEq, Repr

/-- the part of `convert_attrs` after `ca->crlf_action` was read from `text` (or else `crlf`):
the `eol` attribute, then "Save attr and make a decision for action" -/
def crlfActionOf (cfg : GitConfig) (a1 : CrlfAction) (eolAttr : Eol) : CrlfAction :=
  let a2 :=
    if a1 != .binary then
      if a1 == .auto && eolAttr == .lf then .autoInput
      else if a1 == .auto && eolAttr == .crlf then .autoCrlf
      else if eolAttr == .lf then .textInput
      else if eolAttr == .crlf then .textCrlf
      else a1
    else a1
  let a3 := if a2 == .text then (if textEolIsCrlf cfg then .textCrlf else .textInput) else a2
  let a4 := if a3 == .undefined && cfg.autoCrlf == .false_ then .binary else a3
  let a5 := if a4 == .undefined && cfg.autoCrlf == .true_ then .autoCrlf else a4
  if a5 == .undefined && cfg.autoCrlf == .input then .autoInput else a5

/-- `convert_attrs`: (`ca->crlf_action`, `ca->ident`) -/
def convertAttrs (cfg : GitConfig) (at_ : GitAttrs) : CrlfAction × Bool :=
  let a0 := gitPathCheckCrlf at_.text
  let a1 := if a0 == .undefined then gitPathCheckCrlf at_.crlf else a0
  (crlfActionOf cfg a1 (gitPathCheckEol at_.eol), gitPathCheckIdent at_.ident)

/-- `convert_to_git` (what `git hash-object -w --path` / `git add` store): `crlf_to_git`, then
`ident_to_git` -/
def convertToGit (cfg : GitConfig) (at_ : GitAttrs) (index : Option Bytes) (safe : SafeCrlf)
    (src : Bytes) : Except EolMsg ToGit :=
  let ca := convertAttrs cfg at_
  match crlfToGit cfg index src ca.1 safe with
  | .error m => .error m
  | .ok r => .ok { r with out := identToGit r.out ca.2 }

/-- `convert_to_working_tree` (in memory; what `git cat-file --filters` prints and what checkout
uses when the filters cannot be streamed): `ident_to_worktree`, then `crlf_to_worktree` -/
def convertToWorkingTree (hash : Bytes → Bytes) (cfg : GitConfig) (at_ : GitAttrs) (src : Bytes) : Bytes :=
  let ca := convertAttrs cfg at_
  crlfToWorktree cfg (identToWorktree hash src ca.2) ca.1

/-! ### the streaming filters checkout uses (`get_stream_filter`, `entry.c:write_entry`)

`git checkout`/`checkout-index` write a regular file through `streaming_write_entry` whenever
`get_stream_filter_ca` returns a filter, i.e. unless the action is `CRLF_AUTO`/`CRLF_AUTO_CRLF`
(or a driver / encoding is configured). The streaming ident filter is a different program from
`ident_to_worktree`: a prefix matcher for `"$Id"` without backtracking whose pending bytes
(`ident->left`) are not always drained before the next keyword — both transcribed below. -/

/-- git's `isspace` (`sane_ctype`: GIT_SPACE) -/
def isSpace (c : UInt8) : Bool := c == 32 || c == 9 || c == 10 || c == 13

/-- the `for` loop of `is_foreign_ident` after `skip_prefix(str, "$Id: ", &str)` -/
def foreignScan : Bytes → Bool
  | [] => false
  | c :: rest => (isSpace c && rest.headD 0 != 36) || foreignScan rest

/-- `is_foreign_ident(ident->left.buf)`: `left.buf` is read as a C string (up to the first NUL) -/
def isForeignIdent (left : Bytes) : Bool :=
  let str := left.takeWhile (· != 0)
  if !startsWith [36, 73, 100, 58, 32] str then false
  else foreignScan (str.drop 5)

/-- `static const char head[] = "$Id";` (`sizeof(head)` is 4: the NUL takes part in the match) -/
def identHead : Bytes := [36, 73, 100, 0]

/-- `ident->state`: number of bytes of `head` matched, or `IDENT_SKIPPING` (`IDENT_DRAINING` is
the moment `left` is moved to the output) -/
inductive IdentMode
  | head (n : Nat)
  | skipping
  deriving DecidableEq, Repr

/-- output so far, `ident->left`, `ident->state` -/
structure IdentFilter where
  out : Bytes := []
  left : Bytes := []
  mode : IdentMode := .head 0
  deriving DecidableEq, Repr

/-- `ident->state = IDENT_DRAINING` followed by `ident_drain` -/
def IdentFilter.drain (f : IdentFilter) : IdentFilter := { out := f.out ++ f.left, left := [], mode := .head 0 }

/-- one input byte of `ident_filter_fn`; `identStr` is `ident->ident` = `": <hex> $"` -/
def identFilterStep (identStr : Bytes) (f : IdentFilter) (ch : UInt8) : IdentFilter :=
  match f.mode with
  | .skipping =>
    -- Skipping until '$' or LF, but keeping them in case it is a foreign ident.
    let left1 := f.left ++ [ch]
    if ch != 10 && ch != 36 then { f with left := left1 }
    else if ch == 36 && !isForeignIdent left1 then
      -- strbuf_setlen(&ident->left, sizeof(head) - 1); strbuf_addstr(&ident->left, ident->ident);
      IdentFilter.drain { f with left := left1.take 3 ++ identStr }
    else IdentFilter.drain { f with left := left1 }
  | .head n =>
    if n < 4 && identHead.getD n 0 == ch then { f with mode := .head (n + 1) }
    else
      let left1 := f.left ++ identHead.take n        -- if (ident->state) strbuf_add(&ident->left, head, ident->state)
      if n == 3 then
        if ch != 58 && ch != 36 then { f with left := left1 ++ [ch], mode := .head 0 }   -- state = 0; continue (no drain)
        else if ch == 58 then { f with left := left1 ++ [ch], mode := .skipping }
        else IdentFilter.drain { f with left := left1 ++ identStr }
      else IdentFilter.drain { f with left := left1 ++ [ch] }

/-- the whole stream through `ident_filter_fn`, including the final drain (`input == NULL`) -/
def identStream (hex : Bytes) (src : Bytes) : Bytes :=
  let f := src.foldl (identFilterStep ([58, 32] ++ hex ++ gitIdTail)) {}
  match f.mode with
  | .head n => f.out ++ f.left ++ identHead.take n
  | .skipping => f.out ++ f.left

/-- `lf_to_crlf_filter_fn`: `wasCr` is the held CR -/
def lfToCrlfStream : Bytes → Bool → Bytes
  | [], wasCr => if wasCr then [13] else []
  | ch :: rest, wasCr =>
    if ch == 10 then 13 :: 10 :: lfToCrlfStream rest false
    else
      let pre : Bytes := if wasCr then [13] else []
      if ch == 13 then pre ++ lfToCrlfStream rest true
      else pre ++ ch :: lfToCrlfStream rest false

/-- `get_stream_filter_ca` returns NULL (no driver, no encoding) -/
def noStreamFilter (a : CrlfAction) : Bool := a == .auto || a == .autoCrlf

/-- what `git checkout-index` / `git checkout` write for a regular file -/
def checkoutEntry (hash : Bytes → Bytes) (cfg : GitConfig) (at_ : GitAttrs) (src : Bytes) : Bytes :=
  let ca := convertAttrs cfg at_
  if noStreamFilter ca.1 then convertToWorkingTree hash cfg at_ src
  else
    let s1 := if ca.2 then identStream (hash src) src else src
    if outputEol cfg ca.1 == .crlf then lfToCrlfStream s1 false else s1

end GixModel.Spec.C43
