import GixModel.Basic.Hex
/-
C44 — the declarative specification of a tree diff without rename tracking, as
`git diff-tree -r -t --no-renames --raw A B` prints it: compare, path by path, what the two trees
hold (a node = mode and id of a file, symlink, submodule OR directory; `-t` shows directories too).

  nothing → x                     A  x
  x → nothing                     D  x
  directory ↔ non-directory       D  old  and  A  new   (git never reports this as a modification)
  two directories                 M  if their ids differ
  two non-directories             M  if id or mode differ (git shows `T` when the kind changed
                                     among file/symlink/submodule: still one record old → new)
Sub-trees with the same id hold the same nodes, so nothing below them is reported.
-/
namespace GixModel.Spec.C44
open GixModel

abbrev Path := List Bytes
abbrev Node := Nat × Bytes

def isDir (x : Node) : Bool := (x.1 &&& 0o170000) == 0o040000

/-- a change without the bookkeeping (`Relation`) gitoxide adds -/
inductive CChange where
  | add (path : Path) (mode : Nat) (oid : Bytes)
  | del (path : Path) (mode : Nat) (oid : Bytes)
  | mod (path : Path) (pmode : Nat) (poid : Bytes) (mode : Nat) (oid : Bytes)
  deriving Repr, DecidableEq

/-- the rule for one path -/
def changeAt (p : Path) : Option Node → Option Node → List CChange
  | none, none => []
  | some x, none => [.del p x.1 x.2]
  | none, some y => [.add p y.1 y.2]
  | some x, some y =>
    if isDir x != isDir y then [.del p x.1 x.2, .add p y.1 y.2]
    else if isDir x then (if x.2 = y.2 then [] else [.mod p x.1 x.2 y.1 y.2])
    else (if x = y then [] else [.mod p x.1 x.2 y.1 y.2])

/-- the new node a change puts at path `p`, if it puts one there -/
def putsAt (p : Path) : CChange → Option Node
  | .add q m o => if q = p then some (m, o) else none
  | .mod q _ _ m o => if q = p then some (m, o) else none
  | .del _ _ _ => none

def deletesAt (p : Path) : CChange → Bool
  | .del q _ _ => q == p
  | _ => false

/-- What a set of changes does to the node at path `p` (order-independent: a type change is a
deletion and an addition of the same path, in either order). -/
def applyAt (cs : List CChange) (p : Path) (x : Option Node) : Option Node :=
  match cs.findSome? (putsAt p) with
  | some y => some y
  | none => if cs.any (deletesAt p) then none else x

end GixModel.Spec.C44
