import GixModel.Basic.Hex
/-
C40 — git's side: which paths `verify_path()` refuses (read-cache.c, git 2.39, a NON-Windows
build: `is_dir_sep(c)` is `c == '/'`, `has_dos_drive_prefix`/`is_valid_path` are no-ops), with
`is_hfs_dotgit`/`is_hfs_dotgitmodules` (utf8.c: `next_hfs_char`, `pick_one_utf8_char`) and
`is_ntfs_dotgit`/`is_ntfs_dotgitmodules` (path.c).

A C string ends at its NUL; here a path is a NUL-free byte list and "the NUL" is the end of the
list. Every function takes the REST of the path (the C pointer) as a list.

This transcription is validated against the git 2.39.5 binary by the C40 harness (op `git`):
`git -c core.protectNTFS=… -c core.protectHFS=… update-index --add --cacheinfo <mode>,<oid>,<path>`
and, batched, `git update-index -z --stdin` ("Ignoring path …").
-/
namespace GixModel.Spec.C40
open GixModel

/-! ### utf8.c -/

def isCont (b : UInt8) : Bool := b &&& 0xc0 == 0x80

/-- `pick_one_utf8_char(&s, NULL)`: `none` is the `invalid:` exit (`*start = NULL`), otherwise the
code point and the rest. At the end of the string the C code reads the NUL: code point 0. -/
def pickOne : Bytes → Option (Nat × Bytes)
  | [] => some (0, [])
  | s0 :: t =>
    if s0 < 0x80 then some (s0.toNat, t)
    else if s0 &&& 0xe0 == 0xc0 then
      match t with
      | s1 :: t1 =>
        if !isCont s1 || s0 &&& 0xfe == 0xc0 then none
        else some (((s0 &&& 0x1f).toNat <<< 6) ||| (s1 &&& 0x3f).toNat, t1)
      | _ => none
    else if s0 &&& 0xf0 == 0xe0 then
      match t with
      | s1 :: s2 :: t2 =>
        if !isCont s1 || !isCont s2
            || (s0 == 0xe0 && s1 &&& 0xe0 == 0x80)                       -- overlong
            || (s0 == 0xed && s1 &&& 0xe0 == 0xa0)                       -- surrogate
            || (s0 == 0xef && s1 == 0xbf && s2 &&& 0xfe == 0xbe) then none -- U+FFFE, U+FFFF
        else some (((s0 &&& 0x0f).toNat <<< 12) ||| ((s1 &&& 0x3f).toNat <<< 6) ||| (s2 &&& 0x3f).toNat, t2)
      | _ => none
    else if s0 &&& 0xf8 == 0xf0 then
      match t with
      | s1 :: s2 :: s3 :: t3 =>
        if !isCont s1 || !isCont s2 || !isCont s3
            || (s0 == 0xf0 && s1 &&& 0xf0 == 0x80)                       -- overlong
            || (s0 == 0xf4 && s1 > 0x8f) || s0 > 0xf4 then none          -- > U+10FFFF
        else some (((s0 &&& 0x07).toNat <<< 18) ||| ((s1 &&& 0x3f).toNat <<< 12)
                    ||| ((s2 &&& 0x3f).toNat <<< 6) ||| (s3 &&& 0x3f).toNat, t3)
      | _ => none
    else none

/-- the `switch` of `next_hfs_char`: code points HFS+ ignores when comparing names -/
def hfsIgnorable : List Nat :=
  [0x200c, 0x200d, 0x200e, 0x200f, 0x202a, 0x202b, 0x202c, 0x202d, 0x202e,
   0x206a, 0x206b, 0x206c, 0x206d, 0x206e, 0x206f, 0xfeff]

/-- `next_hfs_char(&in)`: (code point, rest, malformed). Malformed UTF-8 yields code point 0 — the
same value as the end of the string. The skip loop consumes at least one byte per round: `fuel =
length + 1` suffices. -/
def nextHfs : Nat → Bytes → Nat × Bytes × Bool
  | 0, _ => (0, [], true)
  | f + 1, p =>
    match pickOne p with
    | none => (0, [], true)
    | some (ch, rest) =>
      if p.isEmpty then (0, [], false)
      else if hfsIgnorable.contains ch then nextHfs f rest
      else (ch, rest, false)

/-- `tolower()` of git's sane ctype, on a code point already known to be ≤ 127 -/
def toLowerCp (c : Nat) : Nat := if 65 ≤ c ∧ c ≤ 90 then c + 32 else c

/-- the needle loop and the final test of `is_hfs_dot_generic` -/
def hfsNeedle : List UInt8 → Bytes → Bool
  | [], p =>
    let (c, _, _) := nextHfs (p.length + 1) p
    c == 0 || c == 47
  | n :: ns, p =>
    let (c, p', _) := nextHfs (p.length + 1) p
    if c > 127 then false
    else if toLowerCp c != n.toNat then false
    else hfsNeedle ns p'

def hfsDotGeneric (path needle : Bytes) : Bool :=
  let (c, p, _) := nextHfs (path.length + 1) path
  if c != 46 then false else hfsNeedle needle p

/-- `is_hfs_dot_generic` returns 1 when the character after the needle is 0. That is the end of the
name — or a MALFORMED UTF-8 sequence (`next_hfs_char` returns 0 for it, "good enough for is_hfs_dotgit
to realize it cannot be .git"). These two functions say whether a refusal is of the second kind. -/
def hfsNeedleEndsMalformed : List UInt8 → Bytes → Bool
  | [], p => (nextHfs (p.length + 1) p).2.2
  | n :: ns, p =>
    let (c, p', _) := nextHfs (p.length + 1) p
    if c > 127 then false
    else if toLowerCp c != n.toNat then false
    else hfsNeedleEndsMalformed ns p'

def hfsEndsMalformed (path needle : Bytes) : Bool :=
  let (c, p, _) := nextHfs (path.length + 1) path
  if c != 46 then false else hfsNeedleEndsMalformed needle p

def needleGit : Bytes := [103, 105, 116]
def needleGitmodules : Bytes := [103, 105, 116, 109, 111, 100, 117, 108, 101, 115]

def isHfsDotgit (path : Bytes) : Bool := hfsDotGeneric path needleGit
def isHfsDotgitmodules (path : Bytes) : Bool := hfsDotGeneric path needleGitmodules

/-! ### path.c -/

def toLower (b : UInt8) : UInt8 := if 65 ≤ b && b ≤ 90 then b + 32 else b

/-- the closing `for (;;)` of `is_ntfs_dotgit`: NUL, a directory separator of ANY platform or ':'
ends the name; spaces and dots are skipped -/
def ntfsDotgitTail : Bytes → Bool
  | [] => true
  | c :: rest =>
    if c == 47 || c == 92 || c == 58 then true
    else if c != 46 && c != 32 then false
    else ntfsDotgitTail rest

def isNtfsDotgit (name : Bytes) : Bool :=
  match name with
  | 46 :: g :: i :: t :: rest =>
    if toLower g == 103 && toLower i == 105 && toLower t == 116 then ntfsDotgitTail rest else false
  | g :: i :: t :: 126 :: 49 :: rest =>
    if toLower g == 103 && toLower i == 105 && toLower t == 116 then ntfsDotgitTail rest else false
  | _ => false

/-- `only_spaces_and_periods:` of `is_ntfs_dot_generic`: only NUL or ':' end the name -/
def ntfsGenericTail : Bytes → Bool
  | [] => true
  | c :: rest =>
    if c == 58 then true
    else if c != 32 && c != 46 then false
    else ntfsGenericTail rest

/-- `!strncasecmp(a, needle, needle.length)` for an ASCII lower-case needle (C locale) -/
def hasPrefixIC : Bytes → Bytes → Bool
  | _, [] => true
  | [], _ :: _ => false
  | a :: as, n :: ns => toLower a == n && hasPrefixIC as ns

/-- the fall-back short-name loop `for (i = 0, saw_tilde = 0; i < 8; i++)`; `i` counts up to 8,
`name` is the rest at index `i`; result: `none` = `return 0`, `some rest` = rest at the final index -/
def ntfsFallback (prefix6 : Bytes) : Nat → Nat → Bool → Bytes → Option Bytes
  | 0, _, _, name => some name
  | fuel + 1, i, sawTilde, name =>
    if i ≥ 8 then some name
    else match name with
      | [] => none
      | c :: rest =>
        if sawTilde then
          if c < 48 || c > 57 then none else ntfsFallback prefix6 fuel (i + 1) true rest
        else if c == 126 then
          match rest with
          | [] => none
          | d :: rest' =>
            if d < 49 || d > 57 then none else ntfsFallback prefix6 fuel (i + 2) true rest'
        else if i ≥ 6 then none
        else if c &&& 0x80 != 0 then none
        else if some (toLower c) != prefix6[i]? then none
        else ntfsFallback prefix6 fuel (i + 1) false rest

def isNtfsDotGeneric (name dotgitName shortPrefix : Bytes) : Bool :=
  if name.head? == some 46 && hasPrefixIC (name.drop 1) dotgitName then
    ntfsGenericTail (name.drop (dotgitName.length + 1))
  else if hasPrefixIC name (dotgitName.take 6) && name[6]? == some 126
      && (match name[7]? with | some d => 49 ≤ d && d ≤ 52 | none => false) then
    ntfsGenericTail (name.drop 8)
  else
    match ntfsFallback shortPrefix 9 0 false name with
    | none => false
    | some rest => ntfsGenericTail rest

def isNtfsDotgitmodules (name : Bytes) : Bool :=
  isNtfsDotGeneric name needleGitmodules [103, 105, 55, 101, 98, 97]

/-! ### read-cache.c -/

/-- `verify_dotfile(rest, mode)`: the leading '.' has been consumed; `true` = fine -/
def verifyDotfile (symlink : Bool) (rest : Bytes) : Bool :=
  match rest with
  | [] => false                                  -- "."
  | 47 :: _ => false
  | 46 :: r =>                                   -- ".."
    (match r with | [] => false | 47 :: _ => false | _ => true)
  | g :: r =>
    if toLower g != 103 then true
    else match r with
      | i :: t :: r3 =>
        if toLower i != 105 then true
        else if toLower t != 116 then true
        else match r3 with
          | [] => false                          -- ".git"
          | 47 :: _ => false
          | _ =>
            if symlink && hasPrefixIC r3 [109, 111, 100, 117, 108, 101, 115] then
              (match r3.drop 7 with | [] => false | 47 :: _ => false | _ => true)
            else true
      | [i] => if toLower i != 105 then true else true   -- rest[2] is the NUL: `break`
      | [] => true

/-- the checks at the label `inside:` on the path from the start of a component -/
def startChecks (ntfs hfs symlink : Bool) (path : Bytes) : Bool :=
  !(hfs && (isHfsDotgit path || (symlink && isHfsDotgitmodules path)))
    && !(ntfs && (isNtfsDotgit path || (symlink && isNtfsDotgitmodules path)))

/-- `verify_path(path, mode)` for a mode that is not a directory. `atStart = true` is the label
`inside:` (also the entry point), `false` is the bottom of the loop (`c = *path++`). Note that the
first character of a component is never looked at by the `c == '\\'` branch. -/
def vp (ntfs hfs symlink : Bool) : Bool → Bytes → Bool
  | true, path =>
    startChecks ntfs hfs symlink path &&
      (match path with
       | [] => false                             -- `return S_ISDIR(mode)`
       | c :: rest =>
         if (c == 46 && !verifyDotfile symlink rest) || c == 47 then false
         else vp ntfs hfs symlink false rest)
  | false, [] => true
  | false, c :: rest =>
    if c == 47 then vp ntfs hfs symlink true rest
    else if c == 92 && ntfs then
      !(isNtfsDotgit rest || (symlink && isNtfsDotgitmodules rest)) && vp ntfs hfs symlink false rest
    else vp ntfs hfs symlink false rest

/-- `true` = git accepts the path -/
def gitVerifyPath (ntfs hfs symlink : Bool) (path : Bytes) : Bool := vp ntfs hfs symlink true path

end GixModel.Spec.C40
