import GixModel.Basic.Hex
/-
C36 — Spec: git 2.39's `wildmatch.c` (`dowild` / `wildmatch`) transcribed by hand.

C strings are NUL-free byte lists with an implicit terminator: `hd s` is `*s` (0 at the end).
The transcription keeps the C control flow: the `for` loop over the pattern (`dowild`), the
`do … while` loop of a bracket expression (`bracketLoop`), the `while (1)` loop after a star
(`starLoop`) with its inner "advance faster" scan (`scanLit`). Pointer look-behind
(`prev_p = p - 2`, `p[-1]`) is carried as loop state. All loops run on one fuel that is
decremented per iteration and per recursive call (`p.length + 1` always suffices: every
iteration and every recursive call consumes at least one pattern byte); the star loop runs on
the text. `Wm.fuelOut` is never returned from `wildmatch` (lemma `dowild_fuel_ok` … if proved).

Character classes are git's `sane_ctype` ones (git-compat-util.h / ctype.c): isspace = SP HT LF CR,
isblank = SP HT, isprint = 0x20..0x7e, ispunct = printable, not SP, not alnum, iscntrl = 0..31,127.

This transcription is validated on every run against the `git` binary (git ls-files pathspecs in
all four flag combinations, git check-attr) — `git` ops of the harness — and against a second
transcription (Rust port, `spec` ops).
-/
namespace GixModel.Spec.C36
open GixModel

inductive Wm
  | matched | noMatch | abortAll | abortToStarStar | fuelOut
  deriving Repr, DecidableEq

structure Flags where
  casefold : Bool
  pathname : Bool
  deriving Repr, DecidableEq

/-- `*s` -/
def hd (s : Bytes) : UInt8 := s.headD 0

def isUpper (c : UInt8) : Bool := 65 ≤ c && c ≤ 90
def isLower (c : UInt8) : Bool := 97 ≤ c && c ≤ 122
def isDigit (c : UInt8) : Bool := 48 ≤ c && c ≤ 57
def isAlpha (c : UInt8) : Bool := isUpper c || isLower c
def isAlnum (c : UInt8) : Bool := isAlpha c || isDigit c
/-- git's `isspace`: GIT_SPACE = SP, HT, LF, CR (no VT, no FF) -/
def isSpace (c : UInt8) : Bool := c == 32 || c == 9 || c == 10 || c == 13
def isBlank (c : UInt8) : Bool := c == 32 || c == 9
def isPrint (c : UInt8) : Bool := 32 ≤ c && c ≤ 126
def isGraph (c : UInt8) : Bool := isPrint c && !isSpace c
def isCntrl (c : UInt8) : Bool := c < 32 || c == 127
def isPunct (c : UInt8) : Bool := isPrint c && c != 32 && !isAlnum c
def isXdigit (c : UInt8) : Bool := isDigit c || (65 ≤ c && c ≤ 70) || (97 ≤ c && c ≤ 102)
def toLower (c : UInt8) : UInt8 := if isUpper c then c + 32 else c
def toUpper (c : UInt8) : UInt8 := if isLower c then c - 32 else c
/-- `is_glob_special`: `*`, `?`, `[`, `\` -/
def isGlobSpecial (c : UInt8) : Bool := c == 42 || c == 63 || c == 91 || c == 92

/-- `if ((flags & WM_CASEFOLD) && ISUPPER(c)) c = tolower(c);` -/
def fold (f : Flags) (c : UInt8) : UInt8 := if f.casefold && isUpper c then toLower c else c

/-- `strchr(text, '/')`: the suffix starting at the first slash -/
def strchrSlash : Bytes → Option Bytes
  | [] => none
  | c :: r => if c == 47 then some (c :: r) else strchrSlash r

/-- `CC_EQ(s, i, name)` dispatch of a `[:name:]` class on the (folded) text byte; `none` = malformed -/
def classTest (f : Flags) (name : Bytes) (tch : UInt8) : Option Bool :=
  if name == [97, 108, 110, 117, 109] then some (isAlnum tch)            -- alnum
  else if name == [97, 108, 112, 104, 97] then some (isAlpha tch)        -- alpha
  else if name == [98, 108, 97, 110, 107] then some (isBlank tch)        -- blank
  else if name == [99, 110, 116, 114, 108] then some (isCntrl tch)       -- cntrl
  else if name == [100, 105, 103, 105, 116] then some (isDigit tch)      -- digit
  else if name == [103, 114, 97, 112, 104] then some (isGraph tch)       -- graph
  else if name == [108, 111, 119, 101, 114] then some (isLower tch)      -- lower
  else if name == [112, 114, 105, 110, 116] then some (isPrint tch)      -- print
  else if name == [112, 117, 110, 99, 116] then some (isPunct tch)       -- punct
  else if name == [115, 112, 97, 99, 101] then some (isSpace tch)        -- space
  else if name == [117, 112, 112, 101, 114] then some (isUpper tch || (f.casefold && isLower tch)) -- upper
  else if name == [120, 100, 105, 103, 105, 116] then some (isXdigit tch) -- xdigit
  else none

inductive BrRes
  | abort
  | fuel
  /-- the loop ended at `]`: `matched`, and the bytes behind the `]` -/
  | done (matched : Bool) (rest : Bytes)
  deriving Repr, DecidableEq

/-- body of the `do { … }` for one `p_ch`: `none` = `return WM_ABORT_ALL`, otherwise the new
`(p_ch, bytes behind p, matched)` with which the `while` condition is evaluated. -/
def bracketStep (f : Flags) (tch pch : UInt8) (rest : Bytes) (prev : UInt8) (matched : Bool) :
    Option (UInt8 × Bytes × Bool) :=
  if pch == 92 then
    -- p_ch = *++p; if (!p_ch) return ABORT; if (t_ch == p_ch) matched = 1;
    let c := hd rest
    if c == 0 then none else some (c, rest.tail, matched || tch == c)
  else if pch == 45 && prev != 0 && hd rest != 0 && hd rest != 93 then
    -- a range prev_ch - p_ch
    let c := hd rest
    let rest := rest.tail
    let hi? : Option (UInt8 × Bytes) :=
      if c == 92 then (if hd rest == 0 then none else some (hd rest, rest.tail)) else some (c, rest)
    match hi? with
    | none => none
    | some (hi, rest) =>
      let m := if tch ≤ hi && tch ≥ prev then true
        else if f.casefold && isLower tch then
          let up := toUpper tch
          up ≤ hi && up ≥ prev
        else false
      -- p_ch = 0: this makes prev_ch get set to 0
      some (0, rest, matched || m)
  else if pch == 91 && hd rest == 58 then
    -- for (s = p += 2; (p_ch = *p) && p_ch != ']'; p++) {}
    let s := rest.tail
    let seg := s.takeWhile (fun c => c != 0 && c != 93)
    let after := s.dropWhile (fun c => c != 0 && c != 93)
    if hd after == 0 then none
    else if seg.isEmpty || seg.getLast? != some 58 then
      -- didn't find ":]": p = s - 2; p_ch = '['; continue
      some (91, rest, matched || tch == 91)
    else
      match classTest f seg.dropLast tch with
      | none => none
      | some b => some (0, after.tail, matched || b)
  else some (pch, rest, matched || tch == pch)

/-- `do { … } while (prev_ch = p_ch, (p_ch = *++p) != ']');` — `pch` = `*p`, `rest` = bytes behind `p` -/
def bracketLoop (f : Flags) (tch : UInt8) : Nat → UInt8 → Bytes → UInt8 → Bool → BrRes
  | n, pch, rest, prev, matched =>
    if pch == 0 then .abort
    else match n with
      | 0 => .fuel
      | n + 1 =>
        match bracketStep f tch pch rest prev matched with
        | none => .abort
        | some (pch, rest, matched) =>
          -- prev_ch = p_ch, (p_ch = *++p) != ']'
          if hd rest == 93 then .done matched rest.tail
          else bracketLoop f tch n (hd rest) rest.tail pch matched

/-- `case '['` up to the end of the loop; `rest` = bytes behind the `[` -/
def bracket (f : Flags) (tch : UInt8) (fuel : Nat) (rest : Bytes) : BrRes :=
  -- p_ch = *++p; '^' is '!'
  let pch := if hd rest == 94 then 33 else hd rest
  let negated := pch == 33
  let (pch, rest) := if negated then (hd rest.tail, rest.tail.tail) else (pch, rest.tail)
  match bracketLoop f tch fuel pch rest 0 false with
  | .done m r => .done (m != negated) r   -- "matched == negated" is the failure
  | r => r

/-- the "advance faster" scan: `while ((t_ch = *text) != 0 && (match_slash || t_ch != '/')) { fold;
if (t_ch == p_ch) break; text++; }` — returns the final `(t_ch, text)` -/
def scanLit (f : Flags) (matchSlash : Bool) (pch : UInt8) : Bytes → UInt8 × Bytes
  | [] => (0, [])
  | c :: r =>
    if c == 0 then (0, c :: r)
    else if !matchSlash && c == 47 then (c, c :: r)
    else if fold f c == pch then (fold f c, c :: r)
    else scanLit f matchSlash pch r

/-- the `while (1)` loop behind a star. `tch` is the current `t_ch`, `text` the current pointer
(so `hd text` is the unfolded `t_ch`); `p` = pattern behind the star(s), `rec` = `dowild(p, ·, flags)`. -/
def starLoop (f : Flags) (rec : Bytes → Wm) (p : Bytes) (matchSlash : Bool) : Nat → UInt8 → Bytes → Wm
  | 0, _, _ => .fuelOut
  | n + 1, tch, text =>
    if tch == 0 then .abortAll
    else
      let scanned : Option (UInt8 × Bytes) :=
        if !isGlobSpecial (hd p) then
          let pch := fold f (hd p)
          let (tch, text) := scanLit f matchSlash pch text
          if tch != pch then none else some (tch, text)
        else some (tch, text)
      match scanned with
      | none => .noMatch
      | some (tch, text) =>
        let m := rec text
        if m != .noMatch && (!matchSlash || m != .abortToStarStar) then m
        else if m == .noMatch && !matchSlash && tch == 47 then .abortToStarStar
        else starLoop f rec p matchSlash n (hd text.tail) text.tail

/-- `dowild(p, text, flags)`. `prev` is the pattern byte before `p` within this invocation
(`none` at the invocation's start: `prev_p < pattern`). -/
def dowild (f : Flags) : Nat → Option UInt8 → Bytes → Bytes → Wm
  | 0, _, _, _ => .fuelOut
  | n + 1, prev, p, t =>
    if hd p == 0 then (if hd t == 0 then .matched else .noMatch)
    else
      let pc := hd p
      let rest := p.tail
      if hd t == 0 && pc != 42 then .abortAll
      else
        let tch := fold f (hd t)
        let pch := fold f pc
        if pch == 92 then
          -- p_ch = *++p, then "default"
          let c := hd rest
          if tch != c then .noMatch else dowild f n (some c) rest.tail t.tail
        else if pch == 63 then
          if f.pathname && tch == 47 then .noMatch else dowild f n (some pc) rest t.tail
        else if pch == 42 then
          let (p, matchSlash, early) : Bytes × Bool × Bool :=
            if hd rest == 42 then
              let prevOk := prev.isNone || prev == some 47
              let p := rest.dropWhile (· == 42)
              if !f.pathname then (p, true, false)
              else if prevOk && (hd p == 0 || hd p == 47 || (hd p == 92 && hd p.tail == 47)) then
                (p, true, hd p == 47 && dowild f n none p.tail t == .matched)
              else (p, false, false)
            else (rest, !f.pathname, false)
          if early then .matched
          else if hd p == 0 then
            (if !matchSlash && (strchrSlash t).isSome then .noMatch else .matched)
          else if !matchSlash && hd p == 47 then
            match strchrSlash t with
            | none => .noMatch
            | some s => dowild f n (some 47) p.tail s.tail
          else starLoop f (fun text => dowild f n none p text) p matchSlash (t.length + 1) tch t
        else if pch == 91 then
          match bracket f tch n rest with
          | .abort => .abortAll
          | .fuel => .fuelOut
          | .done ok rest =>
            if !ok || (f.pathname && tch == 47) then .noMatch
            else dowild f n (some 93) rest t.tail
        else
          if tch != pch then .noMatch else dowild f n (some pc) rest t.tail

/-- `wildmatch(pattern, text, flags) == WM_MATCH` -/
def wildmatch (f : Flags) (pattern text : Bytes) : Bool :=
  dowild f (pattern.length + 1) none pattern text == .matched

end GixModel.Spec.C36
