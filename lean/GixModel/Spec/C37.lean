import GixModel.Spec.C36
/-
C37 — Spec: how git 2.39 decides whether a path is ignored (dir.c), transcribed by hand.

  * reading a file of patterns: `add_patterns` (a '\n' is appended to the buffer),
    `add_patterns_from_buffer` (UTF-8 BOM, lines, '#', CR before LF), `trim_trailing_spaces`,
    `parse_path_pattern` (`!`, trailing `/`, NODIR, nowildcardlen, ENDSWITH);
  * one pattern against one path: `match_basename`, `match_pathname` (base directory, leading `/`,
    literal prefix, then `wildmatch(…, WM_PATHNAME | casefold)`);
  * one list: `last_matching_pattern_from_list` (last pattern wins, MUSTBEDIR needs a directory);
  * all lists: `last_matching_pattern_from_lists` (command line, per-directory deepest first,
    info/exclude, core.excludesFile);
  * the directory walk of `prep_exclude` + `last_matching_pattern`: top-down, a directory matched
    by a positive pattern decides for everything below it and stops the walk (deeper .gitignore
    files are not even read), a negative match of a directory is dropped.

The list/stack structure is generic in the pattern type and in the one-pattern matcher
(`gitDecide`), so that the structural theorems hold for ANY matcher; `gitMatchOne` is git's.
Validated against `git check-ignore -v -n --no-index` on every run (`gitign` ops).
-/
namespace GixModel.Spec.C37
open GixModel GixModel.Spec.C36

/-! ### reading patterns -/

/-- `trim_trailing_spaces`: the scan; `last` = `last_space` as an index. `none` = the early `return`
behind a trailing backslash. -/
def trimScan : Bytes → Nat → Option Nat → Option (Option Nat)
  | [], _, last => some last
  | c :: r, pos, last =>
    if c == 32 then trimScan r (pos + 1) (if last.isNone then some pos else last)
    else if c == 92 then
      match r with
      | [] => none
      | _ :: r' => trimScan r' (pos + 2) none
    else trimScan r (pos + 1) none

def trimTrailingSpaces (buf : Bytes) : Bytes :=
  match trimScan buf 0 none with
  | some (some k) => buf.take k
  | _ => buf

structure Pattern where
  /-- `pattern[0..patternlen)`: behind a `!`, without the trailing `/`, WITH a leading `/` -/
  pattern : Bytes
  negative : Bool
  mustBeDir : Bool
  noDir : Bool
  endsWith : Bool
  nowildcardlen : Nat
  deriving Repr, DecidableEq

/-- `simple_length`: length of the prefix without glob-special bytes -/
def simpleLength : Bytes → Nat
  | [] => 0
  | c :: r => if isGlobSpecial c then 0 else simpleLength r + 1

/-- `if (*p == '!') { flags |= NEGATIVE; p++; }` -/
def stripBang (entry : Bytes) : Bool × Bytes :=
  match entry with
  | 33 :: r => (true, r)
  | _ => (false, entry)

/-- `parse_path_pattern` -/
def parsePathPattern (entry : Bytes) : Pattern :=
  let negative := (stripBang entry).1
  let p := (stripBang entry).2
  let mustBeDir := p.getLast? == some 47
  let len := if mustBeDir then p.length - 1 else p.length
  let noDir := !(p.take len).contains 47
  let nowild := min (simpleLength p) len
  let endsWith :=
    match p with
    | 42 :: r => simpleLength r == r.length
    | _ => false
  { pattern := p.take len, negative, mustBeDir, noDir, endsWith, nowildcardlen := nowild }

/-- split at every '\n'; the piece behind the last '\n' is dropped (there is none: a '\n' was appended) -/
def splitLines : Bytes → Bytes → List Bytes
  | [], _ => []
  | c :: r, acc => if c == 10 then acc.reverse :: splitLines r [] else splitLines r (c :: acc)

/-- `add_patterns` + `add_patterns_from_buffer`: the patterns of a file with their line numbers.
An empty file yields nothing. -/
def parseFile (content : Bytes) : List (Pattern × Nat) :=
  if content.isEmpty then [] else
  let buf := content ++ [10]
  let buf := match buf with
    | 239 :: 187 :: 191 :: r => r
    | _ => buf
  let rec go : List Bytes → Nat → List (Pattern × Nat)
    | [], _ => []
    | l :: ls, n =>
      if l.isEmpty || l.head? == some 35 then go ls (n + 1)
      else
        let l := if l.getLast? == some 13 then l.dropLast else l
        (parsePathPattern (trimTrailingSpaces l), n) :: go ls (n + 1)
  go (splitLines buf []) 1

/-! ### one pattern, one path -/

/-- `fspathncmp(a, b, n) == 0` for two strings of length `n` -/
def fspathEq (icase : Bool) (a b : Bytes) : Bool :=
  if icase then a.map toLower == b.map toLower else a == b

def wmFlags (icase pathname : Bool) : Flags := { casefold := icase, pathname }

/-- `match_basename` -/
def matchBasename (wm : Flags → Bytes → Bytes → Bool) (icase : Bool) (basename : Bytes) (p : Pattern) : Bool :=
  if p.nowildcardlen == p.pattern.length then
    p.pattern.length == basename.length && fspathEq icase p.pattern basename
  else if p.endsWith then
    -- "*literal" against "fooliteral"
    p.pattern.length - 1 ≤ basename.length
      && fspathEq icase (p.pattern.drop 1) (basename.drop (basename.length - (p.pattern.length - 1)))
  else wm (wmFlags icase false) p.pattern basename

/-- `match_pathname`; `base` is "" or ends with `/` -/
def matchPathname (wm : Flags → Bytes → Bytes → Bool) (icase : Bool) (pathname base : Bytes) (p : Pattern) : Bool :=
  let (pattern, prefixLen) : Bytes × Nat :=
    match p.pattern with
    | 47 :: r => (r, p.nowildcardlen - 1)
    | _ => (p.pattern, p.nowildcardlen)
  let baselen := base.length - 1      -- does not count the trailing slash
  -- pathlen < baselen + 1 || (baselen && pathname[baselen] != '/') || fspathncmp(pathname, base, baselen)
  if base.length != 0 && (pathname.length < baselen + 1 || pathname[baselen]? != some 47
      || !fspathEq icase (pathname.take baselen) (base.take baselen)) then false
  else
    let name := if base.length != 0 then pathname.drop (baselen + 1) else pathname
    if prefixLen != 0 then
      if prefixLen > name.length then false
      else if !fspathEq icase (pattern.take prefixLen) (name.take prefixLen) then false
      else
        let pattern := pattern.drop prefixLen
        let name := name.drop prefixLen
        if pattern.isEmpty && name.isEmpty then true
        else wm (wmFlags icase true) pattern name
    else wm (wmFlags icase true) pattern name

/-- the body of the loop of `last_matching_pattern_from_list` for one pattern -/
def gitMatchOne (wm : Flags → Bytes → Bytes → Bool) (icase : Bool) (p : Pattern) (base pathname : Bytes)
    (isDir : Bool) : Bool :=
  if p.mustBeDir && !isDir then false
  else if p.noDir then
    let basename := (pathname.reverse.takeWhile (· != 47)).reverse
    matchBasename wm icase basename p
  else matchPathname wm icase pathname base p

/-! ### lists, groups, the directory walk — generic in the pattern type -/

structure PList (α : Type) where
  /-- in file order, with the line number -/
  patterns : List (α × Nat)
  /-- "" or the directory of the file with a trailing slash -/
  base : Bytes
  /-- which file -/
  source : Nat

/-- a match: which file, which line, negative? -/
structure Hit where
  source : Nat
  line : Nat
  negative : Bool
  deriving Repr, DecidableEq

/-- `last_matching_pattern_from_list`: `for (i = pl->nr - 1; 0 <= i; i--)` — the last pattern of the file that matches -/
def lastMatchingFromList {α : Type} (matchOne : α → Bytes → Bytes → Bool → Bool) (neg : α → Bool)
    (path : Bytes) (isDir : Bool) (pl : PList α) : Option Hit :=
  let rec go : List (α × Nat) → Option Hit → Option Hit
    | [], found => found
    | (p, n) :: rest, found =>
      go rest (if matchOne p pl.base path isDir then some ⟨pl.source, n, neg p⟩ else found)
  go pl.patterns none

/-- one group: `for (j = group->nr - 1; j >= 0; j--)` -/
def lastMatchingFromGroup {α : Type} (matchOne : α → Bytes → Bytes → Bool → Bool) (neg : α → Bool)
    (path : Bytes) (isDir : Bool) : List (PList α) → Option Hit
  | [] => none
  | pl :: rest =>
    match lastMatchingFromGroup matchOne neg path isDir rest with
    | some h => some h
    | none => lastMatchingFromList matchOne neg path isDir pl

/-- `last_matching_pattern_from_lists`: EXC_CMDL, then EXC_DIRS, then EXC_FILE -/
def lastMatchingFromLists {α : Type} (matchOne : α → Bytes → Bytes → Bool → Bool) (neg : α → Bool)
    (cmdl dirs file : List (PList α)) (path : Bytes) (isDir : Bool) : Option Hit :=
  match lastMatchingFromGroup matchOne neg path isDir cmdl with
  | some h => some h
  | none =>
    match lastMatchingFromGroup matchOne neg path isDir dirs with
    | some h => some h
    | none => lastMatchingFromGroup matchOne neg path isDir file

/-- `prep_exclude`: walk the directories of the path top-down. `dirs` = the directories still to
enter, each with its `.gitignore` list (an empty list when there is no file); `loaded` = the
per-directory lists read so far (root first). Returns `dir->pattern` (the positive match of the
first excluded directory) or the lists to use for the path itself. -/
def prepExclude {α : Type} (matchOne : α → Bytes → Bytes → Bool → Bool) (neg : α → Bool)
    (cmdl file : List (PList α)) : List (Bytes × PList α) → List (PList α) → Hit ⊕ List (PList α)
  | [], loaded => .inr loaded
  | (d, pl) :: rest, loaded =>
    match lastMatchingFromLists matchOne neg cmdl loaded file d true with
    | some h => if h.negative then prepExclude matchOne neg cmdl file rest (loaded ++ [pl]) else .inl h
    | none => prepExclude matchOne neg cmdl file rest (loaded ++ [pl])

/-- `last_matching_pattern(dir, istate, pathname, &dtype)`. `rootList` = the root `.gitignore`,
`dirs` = the proper directory prefixes of the path top-down with their lists. -/
def gitDecide {α : Type} (matchOne : α → Bytes → Bytes → Bool → Bool) (neg : α → Bool)
    (cmdl file : List (PList α)) (rootList : PList α) (dirs : List (Bytes × PList α))
    (path : Bytes) (isDir : Bool) : Option Hit :=
  match prepExclude matchOne neg cmdl file dirs [rootList] with
  | .inl h => some h
  | .inr loaded => lastMatchingFromLists matchOne neg cmdl loaded file path isDir

end GixModel.Spec.C37
