import GixModel.Basic.C18Core
/-
C18 — the git side, transcribed from git 2.39 (refs.c / refs/files-backend.c / ref-filter.c):

* `git for-each-ref` lists the union of the loose refs (files below `refs/` whose name passes
  `check_refname_format`) and the records of `packed-refs`, a loose ref shadowing a packed record of
  the same name, in ascending byte order of the full name, every name once.
* `git rev-parse <short>` / `dwim_ref` expands a short name with `ref_rev_parse_rules`
      "%.*s", "refs/%.*s", "refs/tags/%.*s", "refs/heads/%.*s", "refs/remotes/%.*s",
      "refs/remotes/%.*s/HEAD"
  and takes the first rule whose expansion resolves.
Both are validated against the git binary by the harness (`gitall`, `gitdwim` operations).
-/
namespace GixModel.C18.Spec
open GixModel GixModel.C18

/-- insert by name into a strictly sorted list; an item with the same name is replaced -/
def insertItem (x : Item) : List Item → List Item
  | [] => [x]
  | y :: ys =>
    match cmpB x.1 y.1 with
    | .lt => x :: y :: ys
    | .eq => x :: ys
    | .gt => y :: insertItem x ys

/-- sort by name, keeping of several items with the same name the first one -/
def sortItems : List Item → List Item
  | [] => []
  | x :: xs => insertItem x (sortItems xs)

/-- the list `git for-each-ref` prints for loose refs `loose` (in any order) and packed records
`packed` (in any order): loose before packed, first of a name wins, sorted by name -/
def forEachRef (valid : Name → Bool) (loose packed : List Item) : List Item :=
  sortItems (loose.filter (fun x => valid x.1) ++ packed)

/-- `ref_rev_parse_rules` applied to `n` -/
def rules (n : Name) : List Name :=
  [n, refsSlash ++ n, refsSlash ++ tagsC ++ 47 :: n, refsSlash ++ headsC ++ 47 :: n,
   refsSlash ++ remotesC ++ 47 :: n, refsSlash ++ remotesC ++ 47 :: n ++ 47 :: headName]

/-- first rule whose expansion exists in the store (`look`) -/
def dwimIn (look : Name → Option Target) : List Name → Found
  | [] => .none
  | r :: rs =>
    match look r with
    | some t => .ref r t
    | none => dwimIn look rs

def dwim (look : Name → Option Target) (n : Name) : Found := dwimIn look (rules n)

/-- follow symbolic refs (git resolves up to 5 levels; the harness never nests deeper) -/
def resolve (look : Name → Option Target) : Nat → Name → Option Nat
  | 0, _ => none
  | fuel + 1, n =>
    match look n with
    | some (.id i) => some i
    | some (.sym t) => resolve look fuel t
    | _ => none

end GixModel.C18.Spec
