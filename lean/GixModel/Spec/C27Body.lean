import GixModel.Model.C27Core
/-
C27 / C28 — the shape of section bodies. A body as the parser produces it (and as the editing calls
keep it) is a sequence of ITEMS: a whitespace / newline / comment event, or one key with the events
between name and value (`mid`: whitespace and `=`) and its value events (`vals`: one `value`, or
`notDone (notDone | newline)* done`; without a `=` there is exactly one value event). `findKv` says what `key_and_value_range_by` is supposed to find.
-/
namespace GixModel.C27
open GixModel GixModel.C26

/-! ### well-formed bodies: sequences of items -/

inductive Item
  | misc (e : Event)
  | kv (k : Bytes) (mid : List Event) (vals : List Event)
  deriving Repr, DecidableEq

def Item.events : Item → List Event
  | .misc e => [e]
  | .kv k mid vals => .name k :: (mid ++ vals)

def flatten (is : List Item) : List Event := is.flatMap Item.events

def isMid (e : Event) : Bool := evIsWs e || e == .sep

/-- `(notDone | newline)* done` -/
def contOk : List Event → Bool
  | [.done _] => true
  | .notDone _ :: r => contOk r
  | .newline _ :: r => contOk r
  | _ => false

/-- the value events of one key: a single `value`, or `notDone (notDone | newline)* done` -/
def valsOk : List Event → Bool
  | [.value _] => true
  | .notDone _ :: r => contOk r
  | _ => false

def Item.ok : Item → Bool
  | .misc e => evIsWs e || evIsNewline e || isComment e
  | .kv _ mid vals => mid.all isMid && valsOk vals && (mid.any (· == .sep) || vals.length == 1)

/-- a body is well formed when it is a sequence of items -/
def WFb (evs : List Event) : Prop := ∃ is : List Item, (∀ i ∈ is, i.ok = true) ∧ flatten is = evs

def Item.len (i : Item) : Nat := i.events.length

/-- the last item (first of the reversed list) whose key matches, with the indices
`(key, first value event, last value event)`; `n` is the number of events up to and including
the head item -/
def findKv (key : Bytes) : List Item → Nat → Option (Nat × Nat × Nat)
  | [], _ => none
  | .misc _ :: r, n => findKv key r (n - 1)
  | .kv k mid vals :: r, n =>
    if eqIgnoreCase k key then some (n - (1 + mid.length + vals.length), n - vals.length, n - 1)
    else findKv key r (n - (1 + mid.length + vals.length))


/-- concatenated raw text of the value events of one key -/
def valText (vals : List Event) : Bytes :=
  vals.flatMap fun e => match e with
    | .value v => v
    | .notDone v => v
    | .done v => v
    | _ => []

def Item.matches (key : Bytes) : Item → Bool
  | .kv k _ _ => eqIgnoreCase k key
  | _ => false

end GixModel.C27
