import GixModel.Model.C26
/-
C26 — declarative side: what "canonical escapes" means for a quoted sub-section, the event list
`File::write_to` can be read as having written (`File.aug`: the file's events with newline events
inserted), and the normal form in which nothing is inserted.
-/
namespace GixModel.C26
open GixModel

/-- the raw text between the quotes of a section header uses only the escapes the writer itself
produces: `\\`, `\"` and `\<NUL>`; no bare `"` or NUL -/
def canonEsc : Bytes → Bool
  | [] => true
  | [c] => c != 92 && c != 34 && c != 0
  | c :: d :: r =>
    if c == 92 then (d == 92 || d == 34 || d == 0) && canonEsc r
    else c != 34 && c != 0 && canonEsc (d :: r)

/-- a raw event whose `Event::write_to` form is the text it was parsed from -/
def Event.canon : Event → Bool
  | .header h =>
    (match h.sep, h.sub with
     | some s, some raw => s == [46] || canonEsc raw
     | _, _ => true)
  | _ => true

def isNewline : Event → Bool
  | .newline _ => true
  | _ => false

/-- all events of a file in writing order -/
def File.events (f : File) : List Event :=
  f.front ++ f.sections.flatMap fun s => .header s.header :: s.body

/-- `writeBody` as an event transformer: the same traversal, emitting a `newline nl` event where
`Section::write_to` writes `nl` -/
def augBody (nl : Bytes) : List Event → Bool → Bool → List Event
  | [], _, _ => []
  | e :: rest, saw, inKv =>
    match e with
    | .name _ => (if saw then [] else [.newline nl]) ++ e :: augBody nl rest false true
    | .newline _ => e :: augBody nl rest (if inKv then saw else true) inKv
    | .value _ => e :: augBody nl rest saw false
    | .done _ => e :: augBody nl rest saw false
    | .notDone _ =>
      e :: (match rest with | .newline _ :: _ => [] | _ => [.newline nl]) ++ augBody nl rest saw inKv
    | _ => e :: augBody nl rest saw inKv

def Section.aug (s : Section) : List Event :=
  .header s.header ::
    (if s.body.isEmpty then [] else
      let nl := (s.body.findSome? extractNewline).getD [10]
      (if ((s.body.takeWhile fun e => !isName e).any fun e => isInfix nl e.lossy) then [] else [.newline nl])
        ++ augBody nl s.body true false)

def augSections (nl : Bytes) : List Section → Bool → List Event
  | [], prevNl => if prevNl then [] else [.newline nl]
  | s :: rest, prevNl =>
    (if prevNl then [] else [.newline nl]) ++ s.aug ++ augSections nl rest (endsWithNewline s.body nl false)

/-- the event list whose plain rendering is `File.write f` -/
def File.aug (f : File) : List Event :=
  let nl := detectNewline f
  f.front
    ++ (if !endsWithNewline f.front nl true && !f.sections.isEmpty then [.newline nl] else [])
    ++ augSections nl f.sections true

/-- nothing is inserted when the file is written -/
def File.normal (f : File) : Bool := f.aug == f.events

end GixModel.C26
