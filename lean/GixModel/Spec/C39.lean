import GixModel.Model.C39Core
import GixModel.Spec.C38
/-
C39 — the git side: a transcription of git 2.39's pathspec.c (parse_element_magic, parse_long_magic,
parse_short_magic, parse_pathspec_attr_match, attr_value_unescape, init_pathspec_item, the implicit
"match everything" item when every pathspec is an exclude) and dir.c (match_pathspec_item,
match_pathspec_attrs, do_match_pathspec, match_pathspec_with_flags) as `git ls-files -- <specs>` uses
them from the top of the worktree (prefix 0, no DO_MATCH_DIRECTORY for index entries). Written from
memory of the C source and VALIDATED against the git 2.39.5 binary by the harness (every `select`
operation carries what `git ls-files` printed, and the driver must reproduce it from this file).

`git_fnmatch` (literal prefix comparison, the ONESTAR shortcut, `wildmatch` with or without
WM_PATHNAME / WM_CASEFOLD) is the matcher parameter `Env.wm` applied to the whole pattern and the whole
name — the same parameter the gitoxide model uses; attribute values are the parameter `Env.attr`.
The common-prefix pruning of ls-files (`prune_index`, `max_prefix`) is an optimisation of git that does
not change its result and is not transcribed.
-/
namespace GixModel.Spec.C39
open GixModel GixModel.C38 GixModel.C39

/-- `struct pathspec_item` (the fields the matcher reads) -/
structure Item where
  top : Bool
  literal : Bool
  glob : Bool
  icase : Bool
  exclude : Bool
  /-- `attr_check` has been allocated (an `attr:` element was seen) -/
  hasAttr : Bool
  attrMatch : List Asg
  match_ : Bytes
  deriving Repr

def Item.empty : Item := ⟨false, false, false, false, false, false, [], []⟩

/-- `strcspn_escaped(s, ",)")` -/
def strcspnEscaped : Bytes → Nat
  | [] => 0
  | 92 :: _ :: rest => 2 + strcspnEscaped rest
  | b :: rest => if b == 44 || b == 41 then 0 else 1 + strcspnEscaped rest

/-- `invalid_value_char` -/
def validValueChar (b : UInt8) : Bool :=
  (48 ≤ b && b ≤ 57) || (65 ≤ b && b ≤ 90) || (97 ≤ b && b ≤ 122) || b == 44 || b == 45 || b == 95

/-- `attr_value_unescape`; `none` = die -/
def attrValueUnescape : Bytes → Option Bytes
  | [] => some []
  | 92 :: [] => none
  | 92 :: c :: rest => if validValueChar c then (attrValueUnescape rest).map (c :: ·) else none
  | b :: rest => if validValueChar b then (attrValueUnescape rest).map (b :: ·) else none

/-- one element of the `attr:` list; `none` = die (invalid attribute name, bad value) -/
def parseAttrMatch (attr : Bytes) : Option Asg :=
  match attr with
  | 33 :: r => if GixModel.Spec.C38.attrNameValid r then some ⟨r, St.unspecified⟩ else none
  | 45 :: r => if GixModel.Spec.C38.attrNameValid r then some ⟨r, St.unset⟩ else none
  | _ =>
    let name := attr.takeWhile (· != 61)
    if !GixModel.Spec.C38.attrNameValid name then none
    else if attr.contains 61 then (attrValueUnescape ((attr.dropWhile (· != 61)).drop 1)).map fun v => ⟨name, St.value v⟩
    else some ⟨name, St.set⟩

/-- `parse_pathspec_attr_match` -/
def parsePathspecAttrMatch (item : Item) (value : Bytes) : Option Item :=
  if item.hasAttr then none
  else if value.isEmpty then none
  else
    let elems := (splitOnSpace [] value).filter fun e => !e.isEmpty
    (allSome (elems.map parseAttrMatch)).map fun ms => { item with hasAttr := true, attrMatch := ms }

def isDigits (bs : Bytes) : Bool := bs.all fun b => 48 ≤ b && b ≤ 57

/-- one element of the long form; `none` = die -/
def longKeyword (item : Item) (kw : Bytes) : Option Item :=
  if [112, 114, 101, 102, 105, 120, 58].isPrefixOf kw then      -- "prefix:" (internal; only the number is checked)
    (if isDigits (kw.drop 7) then some item else none)
  else if attrPrefix.isPrefixOf kw then parsePathspecAttrMatch item (kw.drop 5)
  else if kw == [116, 111, 112] then some { item with top := true }
  else if kw == [108, 105, 116, 101, 114, 97, 108] then some { item with literal := true }
  else if kw == [103, 108, 111, 98] then some { item with glob := true }
  else if kw == [105, 99, 97, 115, 101] then some { item with icase := true }
  else if kw == [101, 120, 99, 108, 117, 100, 101] then some { item with exclude := true }
  else if kw == [97, 116, 116, 114] then some item                -- the bare name of PATHSPEC_ATTR
  else none

/-- the loop of `parse_long_magic` (pos is behind `:(`); the result is the item and `copyfrom` -/
def longLoop : Nat → Item → Bytes → Option (Item × Bytes)
  | 0, _, _ => none
  | f + 1, item, pos =>
    if pos.isEmpty then none                                  -- Missing ')' at the end of pathspec magic
    else if pos.head? == some 41 then some (item, pos.drop 1)
    else
      let len := strcspnEscaped pos
      let nextat := if pos[len]? == some 44 then pos.drop (len + 1) else pos.drop len
      if len == 0 then longLoop f item nextat
      else match longKeyword item (pos.take len) with
        | none => none
        | some item' => longLoop f item' nextat

/-- `is_pathspec_magic` without `!`, `/`, `:` — a mnemonic nobody implements -/
def unimplementedMagic (b : UInt8) : Bool := unimplementedChars.contains b

/-- the loop of `parse_short_magic` (pos is behind the leading `:`) -/
def shortLoop : Item → Bytes → Option (Item × Bytes)
  | item, [] => some (item, [])
  | item, b :: rest =>
    if b == 58 then some (item, rest)
    else if b == 94 then shortLoop { item with exclude := true } rest
    else if b == 47 then shortLoop { item with top := true } rest
    else if b == 33 then shortLoop { item with exclude := true } rest
    else if unimplementedMagic b then none
    else some (item, b :: rest)

/-- `parse_element_magic` -/
def parseElementMagic (elem : Bytes) : Option (Item × Bytes) :=
  match elem with
  | 58 :: 40 :: rest => longLoop (rest.length + 1) Item.empty rest
  | 58 :: rest => shortLoop Item.empty rest
  | _ => some (Item.empty, elem)

/-- `normalize_path_copy` as `prefix_path_gently(NULL, 0, ..)` applies it to a relative path: empty and
`.` components vanish, `..` pops, a trailing slash survives; `none` = outside the repository -/
def normalizeGit (p : Bytes) : Option Bytes :=
  if p.head? == some 47 then none
  else match resolveDots [] (components p) with
    | none => none
    | some cs =>
      let body := joinSlash cs
      some (if p.getLast? == some 47 && !body.isEmpty then body ++ [47] else body)

/-- `init_pathspec_item`; `none` = die -/
def initItem (elem : Bytes) : Option Item :=
  if elem.isEmpty then none else
  match parseElementMagic elem with
  | none => none
  | some (item, copyfrom) =>
    if item.literal && item.glob then none
    else if item.top then some { item with match_ := copyfrom }
    else (normalizeGit copyfrom).map fun m => { item with match_ := m }

/-- `item->nowildcard_len` -/
def Item.nowildcardLen (it : Item) : Nat :=
  if it.literal then it.match_.length else (firstWildcardPos it.match_).getD it.match_.length

/-- `ps_strncmp(item, a, b, n) == 0` on pieces of equal length -/
def psEq (it : Item) (a b : Bytes) : Bool := if it.icase then eqIgnoreCase a b else a == b

/-- `match_pathspec_attrs` -/
def matchAttrs (env : C39.Env) (it : Item) (name : Bytes) : Bool :=
  it.attrMatch.all fun m => (env.attr name m.name).getD St.unspecified == m.st

/-- `match_pathspec_item(istate, item, prefix = 0, name, namelen, flags = 0) != 0` -/
def matchItem (env : C39.Env) (it : Item) (name : Bytes) : Bool :=
  let m := it.match_
  if !it.attrMatch.isEmpty && !matchAttrs env it name then false
  else if m.isEmpty then true
  else if m.length ≤ name.length && psEq it m (name.take m.length)
      && (m.length == name.length || m.getLast? == some 47 || name[m.length]? == some 47) then true
  else if it.nowildcardLen < m.length && env.wm m name it.glob it.icase then true
  else false

/-- `parse_pathspec`: every element becomes an item; when all are excludes a `:` item is added -/
def parsePathspec (elems : List Bytes) : Option (List Item) :=
  (allSome (elems.map initItem)).map fun items =>
    if items.all (fun it => it.exclude) then items ++ [Item.empty] else items

/-- `match_pathspec_with_flags` for one index entry -/
def matchPathspec (env : C39.Env) (items : List Item) (name : Bytes) : Bool :=
  let positive := items.any fun it => !it.exclude && matchItem env it name
  if !positive then false
  else !(items.any fun it => it.exclude && matchItem env it name)

/-- which of `names` `git ls-files -- elems` lists (`none` = git dies) -/
def gitSelect (env : C39.Env) (elems : List Bytes) (names : List Bytes) : Option (List Bool) :=
  (parsePathspec elems).map fun items => names.map fun n => matchPathspec env items n

end GixModel.Spec.C39
