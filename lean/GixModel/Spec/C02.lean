import GixModel.Model.C01
/-
C02 — the git side: the grammar of the commit / tag / tree objects that git 2.39 WRITES
(`git commit-tree` = commit.c:commit_tree_extended + ident.c:fmt_ident + date.c:date_string,
`git mktag` = the fsck_tag-checked buffer written verbatim, `git mktree` = tree.c "%o %s\0<raw id>"),
as plain values plus `render`. Transcribed from git 2.39 by hand; the harness validates the
transcription against the git binary on every run (ops `rendercommit`/`rendertag`/`rendertree`:
the expected observation is what *git* wrote for the same field values).

The well-formedness predicates say which field values the theorems of Props/C02 cover; they are
deliberately WEAKER than what git guarantees (git additionally strips "crud" from names, never
writes `<`/`>` in them, …), so the theorems cover more than git can produce.
-/
namespace GixModel.Spec.C02
open GixModel GixModel.C01

/-- ASCII whitespace in the sense of Rust's `u8::is_ascii_whitespace` (SP, TAB, LF, FF, CR). -/
def isWs (b : UInt8) : Bool := b == 32 || b == 9 || b == 10 || b == 12 || b == 13

/-- `fmt_ident`: `name <email> <seconds> <sign><hh><mm>`; `date_string` prints `%c%02d%02d`. -/
structure GitIdent where
  name : Bytes
  email : Bytes
  seconds : Int
  tzMinus : Bool
  tzH : Nat
  tzM : Nat
  deriving Repr, DecidableEq

def GitIdent.render (g : GitIdent) : Bytes :=
  g.name ++ [32, 60] ++ g.email ++ [62, 32] ++ intDec g.seconds ++ [32]
    ++ [if g.tzMinus then 45 else 43] ++ twoDigits g.tzH ++ twoDigits g.tzM

/-- name / email free of `<`, `>`, LF (git removes them); the email is not surrounded by
whitespace (git strips crud, which includes whitespace); the time fits i64 and the zone is what
`date_string` prints for a normalised offset below 100 h (`hh ≤ 99`, `mm ≤ 59`). -/
def GitIdent.Wf (g : GitIdent) : Prop :=
  illegalToken g.name = false ∧ illegalToken g.email = false
  ∧ (g.email.head?.map isWs ≠ some true) ∧ (g.email.getLast?.map isWs ≠ some true)
  ∧ (-9223372036854775808 ≤ g.seconds ∧ g.seconds ≤ 9223372036854775807)
  ∧ g.tzH ≤ 99 ∧ g.tzM ≤ 59

instance (g : GitIdent) : Decidable g.Wf := by unfold GitIdent.Wf; infer_instance

/-- An extra header as `commit.c:add_extra_header` writes it: the first line after `name SP`,
every further line of the value prefixed by one SP (an empty line becomes `SP LF`). -/
structure GitHeader where
  name : Bytes
  first : Bytes
  more : List Bytes
  deriving Repr, DecidableEq

def GitHeader.render (h : GitHeader) : Bytes :=
  h.name ++ [32] ++ h.first ++ [10] ++ h.more.flatMap (fun l => 32 :: l ++ [10])

def noNl (bs : Bytes) : Bool := !bs.contains 10

def GitHeader.Wf (h : GitHeader) : Prop :=
  h.name ≠ [] ∧ h.name.all (fun b => b != 32 && b != 10) = true
  ∧ h.first ≠ [] ∧ noNl h.first = true ∧ h.more.all noNl = true

instance (h : GitHeader) : Decidable h.Wf := by unfold GitHeader.Wf; infer_instance

structure GitCommit where
  tree : Bytes            -- raw 20-byte id
  parents : List Bytes
  author : GitIdent
  committer : GitIdent
  encoding : Option Bytes
  extra : List GitHeader  -- mergetag …, gpgsig last (sign_with_header inserts before the blank line)
  message : Bytes
  deriving Repr, DecidableEq

def encodingName : Bytes := [101, 110, 99, 111, 100, 105, 110, 103]

def renderEncoding : Option Bytes → Bytes
  | none => []
  | some e => encodingName ++ [32] ++ e ++ [10]

def GitCommit.render (c : GitCommit) : Bytes :=
  [116, 114, 101, 101, 32] ++ hexBytes c.tree ++ [10]
  ++ c.parents.flatMap (fun p => [112, 97, 114, 101, 110, 116, 32] ++ hexBytes p ++ [10])
  ++ ([97, 117, 116, 104, 111, 114, 32] ++ c.author.render ++ [10])
  ++ ([99, 111, 109, 109, 105, 116, 116, 101, 114, 32] ++ c.committer.render ++ [10])
  ++ renderEncoding c.encoding
  ++ c.extra.flatMap GitHeader.render
  ++ ([10] ++ c.message)

def encodingWf : Option Bytes → Prop
  | none => True
  | some e => e ≠ [] ∧ noNl e = true

instance (e : Option Bytes) : Decidable (encodingWf e) := by
  cases e <;> (unfold encodingWf; infer_instance)

/-- without an `encoding` header the first extra header must not itself be called `encoding`
(it would be read as the encoding) — git never writes such a header. -/
def firstExtraNotEncoding (enc : Option Bytes) (extra : List GitHeader) : Prop :=
  enc = none → (extra.head?.map (·.name)) ≠ some encodingName

instance (enc : Option Bytes) (extra : List GitHeader) : Decidable (firstExtraNotEncoding enc extra) := by
  unfold firstExtraNotEncoding; infer_instance

def GitCommit.Wf (c : GitCommit) : Prop :=
  c.tree.length = 20 ∧ (∀ p ∈ c.parents, p.length = 20)
  ∧ c.author.Wf ∧ c.committer.Wf ∧ encodingWf c.encoding
  ∧ (∀ h ∈ c.extra, h.Wf) ∧ firstExtraNotEncoding c.encoding c.extra

instance (c : GitCommit) : Decidable c.Wf := by unfold GitCommit.Wf; infer_instance

/-- `-----BEGIN PGP SIGNATURE-----` -/
def pgpBegin : Bytes :=
  [45, 45, 45, 45, 45, 66, 69, 71, 73, 78, 32, 80, 71, 80, 32, 83, 73, 71, 78, 65, 84, 85, 82, 69,
   45, 45, 45, 45, 45]
/-- `-----END PGP SIGNATURE-----` -/
def pgpEnd : Bytes :=
  [45, 45, 45, 45, 45, 69, 78, 68, 32, 80, 71, 80, 32, 83, 73, 71, 78, 65, 84, 85, 82, 69, 45, 45,
   45, 45, 45]

/-- `pat` occurs in `bs` -/
def hasInfix (pat : Bytes) : Bytes → Bool
  | [] => pat.isEmpty
  | b :: bs => pat.isPrefixOf (b :: bs) || hasInfix pat bs

/-- A tag as `git mktag` / `git tag -a|-s` writes it: the four header lines (tagger optional: tags
from before git 0.99 / `mktag --no-strict`), a blank line, the message, and for signed tags the
armoured signature appended to the message (`sigTail` = what follows `-----BEGIN PGP SIGNATURE-----`). -/
structure GitTag where
  target : Bytes
  kind : Kind
  name : Bytes
  tagger : Option GitIdent
  message : Bytes
  sigTail : Option Bytes
  deriving Repr, DecidableEq

def renderTagger : Option GitIdent → Bytes
  | none => []
  | some g => [116, 97, 103, 103, 101, 114, 32] ++ g.render ++ [10]

def renderSig : Option Bytes → Bytes
  | none => []
  | some t => [10] ++ pgpBegin ++ t

def GitTag.render (t : GitTag) : Bytes :=
  [111, 98, 106, 101, 99, 116, 32] ++ hexBytes t.target ++ [10]
  ++ ([116, 121, 112, 101, 32] ++ t.kind.bytes ++ [10])
  ++ ([116, 97, 103, 32] ++ t.name ++ [10])
  ++ renderTagger t.tagger
  ++ ([10] ++ t.message)
  ++ renderSig t.sigTail

def taggerWf : Option GitIdent → Prop
  | none => True
  | some g => g.Wf

instance (g : Option GitIdent) : Decidable (taggerWf g) := by
  cases g <;> (unfold taggerWf; infer_instance)

def sigWf : Option Bytes → Prop
  | none => True
  | some t => hasInfix pgpEnd t = true

instance (s : Option Bytes) : Decidable (sigWf s) := by
  cases s <;> (unfold sigWf; infer_instance)

/-- `nameValid` is the verdict of `gix_validate::tag::name` (property C15) on the tag name — git's
`check_refname_format("refs/tags/<name>")`, which mktag enforces; a parameter here. The message
itself does not contain an armour start line (else that would be where the signature starts). -/
def GitTag.Wf (t : GitTag) (nameValid : Bool) : Prop :=
  t.target.length = 20 ∧ nameValid = true ∧ t.name ≠ [] ∧ noNl t.name = true ∧ t.name.head? ≠ some 45
  ∧ taggerWf t.tagger ∧ hasInfix (10 :: pgpBegin) t.message = false ∧ sigWf t.sigTail

instance (t : GitTag) (v : Bool) : Decidable (t.Wf v) := by unfold GitTag.Wf; infer_instance

/-- `git mktree` / `write-tree`: `<octal mode> SP <name> NUL <raw id>` per entry. -/
structure GitEntry where
  mode : Nat
  name : Bytes
  oid : Bytes
  deriving Repr, DecidableEq

def GitEntry.render (e : GitEntry) : Bytes := natOct e.mode ++ [32] ++ e.name ++ [0] ++ e.oid

def renderTree (es : List GitEntry) : Bytes := es.flatMap GitEntry.render

/-- the modes git's index / `canon_mode` produces (100644, 100755, 120000, 40000, 160000) and,
more generally, every 16-bit mode with the regular-file bit (100664 of old repositories). -/
def modeOk (m : Nat) : Bool :=
  m == 0o40000 || m == 0o120000 || m == 0o160000 || (m < 65536 && (m / 32768) % 2 == 1)

def GitEntry.Wf (e : GitEntry) : Prop :=
  modeOk e.mode = true ∧ e.name.contains 0 = false ∧ e.oid.length = 20

instance (e : GitEntry) : Decidable e.Wf := by unfold GitEntry.Wf; infer_instance

end GixModel.Spec.C02
