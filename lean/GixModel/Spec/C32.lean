import GixModel.Basic.Hex
/-
C32 — git's side: a transcription of the C code git 2.39 uses to turn fetch refspecs and the
advertised remote refs into (source → destination) mappings.

  remote.c   match_name_with_pattern, get_expanded_map, find_ref_by_name_abbrev (get_remote_ref),
             get_local_ref, get_fetch_map (incl. the "Ignoring funny ref" filter),
             refspec_match / omit_name_by_refspec / apply_negative_refspecs, ref_remove_duplicates
  refs.c     ref_rev_parse_rules, refname_match
  builtin/fetch.c  get_ref_map for refspecs given on the command line (missing_ok = 0)

C strings are NUL-free byte lists here. `check_refname_format` (C15's subject) is the parameter
`validRef`. This file does not import the gitoxide model: it is the independent right-hand side.
-/
namespace GixModel.Spec.C32
open GixModel

/-- `strchr(s, c) - s` -/
def indexOf (c : UInt8) : Bytes → Option Nat
  | [] => none
  | b :: rest => if b == c then some 0 else (indexOf c rest).map (· + 1)

inductive PatRes where
  /-- `die("key '%s' of pattern had no '*'")` -/
  | die
  | noMatch
  | matched (result : Option Bytes)
  deriving Repr, DecidableEq

/-- `match_name_with_pattern(key, name, value, &result)`:
```
klen = kstar - key; ksuffixlen = strlen(kstar + 1); namelen = strlen(name);
ret = !strncmp(name, key, klen) && namelen >= klen + ksuffixlen &&
      !memcmp(name + namelen - ksuffixlen, kstar + 1, ksuffixlen);
if (ret && value) { strbuf_add(&sb, value, vstar - value);
                    strbuf_add(&sb, name + klen, namelen - klen - ksuffixlen);
                    strbuf_addstr(&sb, vstar + 1); }
``` -/
def matchNameWithPattern (key name : Bytes) (value : Option Bytes) : PatRes :=
  match indexOf 42 key with
  | none => .die
  | some klen =>
    let ksuffixlen := key.length - (klen + 1)
    let namelen := name.length
    let ret := name.take klen == key.take klen && decide (namelen ≥ klen + ksuffixlen) &&
      name.drop (namelen - ksuffixlen) == key.drop (klen + 1)
    if !ret then .noMatch
    else match value with
      | none => .matched none
      | some v =>
        match indexOf 42 v with
        | none => .die
        | some vlen =>
          .matched (some (v.take vlen ++ (name.drop klen).take (namelen - klen - ksuffixlen) ++ v.drop (vlen + 1)))

def sRefs : Bytes := [114, 101, 102, 115, 47]
def sHeads : Bytes := [104, 101, 97, 100, 115, 47]
def sTags : Bytes := [116, 97, 103, 115, 47]
def sRemotes : Bytes := [114, 101, 109, 111, 116, 101, 115, 47]
def sHEAD : Bytes := [72, 69, 65, 68]

/-- `ref_rev_parse_rules` applied to an abbreviation, in order -/
def revParseRules (a : Bytes) : List Bytes :=
  [ a, sRefs ++ a, sRefs ++ sTags ++ a, sRefs ++ sHeads ++ a, sRefs ++ sRemotes ++ a,
    sRefs ++ sRemotes ++ a ++ [47] ++ sHEAD ]

/-- `refname_match`: `&rules[num_rules] - p` for the first matching rule `p`, else 0 -/
def refnameMatch (abbr full : Bytes) : Nat :=
  go (revParseRules abbr) 6
where
  go : List Bytes → Nat → Nat
    | [], _ => 0
    | r :: rest, score => if r == full then score else go rest (score - 1)

/-- `find_ref_by_name_abbrev`: the first ref with the strictly best score -/
def findRefByNameAbbrev (refs : List Bytes) (name : Bytes) : Option Bytes :=
  (refs.foldl (fun (best : Option Bytes × Nat) r =>
      let s := refnameMatch name r
      if best.2 < s then (some r, s) else best) (none, 0)).1

/-- `get_local_ref` for a non-empty name -/
def getLocalRef (name : Bytes) : Bytes :=
  if sRefs.isPrefixOf name then name
  else if sHeads.isPrefixOf name || sTags.isPrefixOf name || sRemotes.isPrefixOf name then sRefs ++ name
  else sRefs ++ sHeads ++ name

/-- a parsed `struct refspec_item` of a fetch refspec -/
structure Item where
  negative : Bool
  force : Bool
  pattern : Bool
  exactSha1 : Bool
  /-- never empty: git and gitoxide both substitute `HEAD` -/
  src : Bytes
  dst : Option Bytes
  deriving Repr, DecidableEq

inductive Src where
  | ref (name : Bytes)
  | oid (hex : Bytes)
  deriving Repr, DecidableEq

structure Map where
  src : Src
  dst : Option Bytes
  force : Bool
  deriving Repr, DecidableEq

inductive Die
  /-- `couldn't find remote ref %s` -/
  | missing (name : Bytes)
  /-- `Cannot fetch both %s and %s to %s` -/
  | conflict (dst : Bytes)
  | noStar
  deriving Repr, DecidableEq

/-- `get_expanded_map` (names containing `^` are "dereference items" and skipped;
`ignore_symref_update` is false in a repository without symbolic refs below the destinations) -/
def getExpandedMap (refs : List Bytes) (it : Item) : Except Die (List Map) :=
  match refs with
  | [] => .ok []
  | r :: rest =>
    if r.contains 94 then getExpandedMap rest it
    else match matchNameWithPattern it.src r it.dst with
      | .die => .error .noStar
      | .noMatch => getExpandedMap rest it
      | .matched res =>
        match getExpandedMap rest it with
        | .error e => .error e
        | .ok ms => .ok (⟨.ref r, res, it.force⟩ :: ms)

/-- the loop at the end of `get_fetch_map`: "* Ignoring funny ref '%s' locally" -/
def notFunny (validRef : Bytes → Bool) (m : Map) : Bool :=
  match m.dst with
  | none => true
  | some d => sRefs.isPrefixOf d && validRef d

/-- `get_fetch_map(remote_refs, refspec, &tail, missing_ok = 0)` -/
def getFetchMap (validRef : Bytes → Bool) (refs : List Bytes) (it : Item) : Except Die (List Map) :=
  if it.negative then .ok []
  else
    let raw : Except Die (List Map) :=
      if it.pattern then getExpandedMap refs it
      else if it.exactSha1 then .ok [⟨.oid (it.src.map fun b => if 65 ≤ b && b ≤ 70 then b + 32 else b),
                                       it.dst.map getLocalRef, it.force⟩]
      else match findRefByNameAbbrev refs it.src with
        | none => .error (.missing it.src)
        | some r => .ok [⟨.ref r, it.dst.map getLocalRef, it.force⟩]
    match raw with
    | .error e => .error e
    | .ok ms => .ok (ms.filter (notFunny validRef))

/-- `refspec_match` -/
def refspecMatch (it : Item) (name : Bytes) : Bool :=
  if it.pattern then
    match matchNameWithPattern it.src name none with
    | .matched _ => true
    | _ => false
  else it.src == name

/-- `omit_name_by_refspec` -/
def omitName (rs : List Item) (name : Bytes) : Bool := rs.any fun it => it.negative && refspecMatch it name

def srcName : Src → Bytes
  | .ref n => n
  | .oid h => h

/-- `ref_remove_duplicates`: later entries with the destination of an earlier one are dropped when
the source is the same, and fatal otherwise -/
def removeDuplicates : List Map → List Map → Except Die (List Map)
  | [], acc => .ok acc.reverse
  | m :: rest, acc =>
    match m.dst with
    | none => removeDuplicates rest (m :: acc)
    | some d =>
      match acc.find? (fun x => x.dst == some d) with
      | some x => if srcName x.src == srcName m.src then removeDuplicates rest acc else .error (.conflict d)
      | none => removeDuplicates rest (m :: acc)

def concatMaps (validRef : Bytes → Bool) (refs : List Bytes) : List Item → Except Die (List Map)
  | [] => .ok []
  | it :: rest =>
    match getFetchMap validRef refs it with
    | .error e => .error e
    | .ok ms => match concatMaps validRef refs rest with
      | .error e => .error e
      | .ok more => .ok (ms ++ more)

/-- `get_ref_map` for command-line refspecs with `--no-tags`: per-refspec maps in order, negative
refspecs applied, duplicates removed -/
def getRefMap (validRef : Bytes → Bool) (refs : List Bytes) (rs : List Item) : Except Die (List Map) :=
  match concatMaps validRef refs rs with
  | .error e => .error e
  | .ok ms => removeDuplicates (ms.filter fun m => !omitName rs (srcName m.src)) []

end GixModel.Spec.C32
