import GixModel.Model.C24Core
import GixModel.Basic.Dec
/-
C24 — what GIT writes (git 2.39 `read-cache.c`, `cache-tree.c`, `resolve-undo.c`, `varint.c`),
transcribed from the C code:

  copy_cache_entry_to_ondisk + ce_write_entry   → `gitEncodeFixed`, `gitEncodeEntryV23`, `gitEncodeEntryV4`
  encode_varint                                  → `encodeVarint`
  write_one (cache-tree)                         → `gitEncodeTree`
  resolve_undo_write                             → `gitEncodeReuc`
  write_ieot_extension / write_eoie_extension    → `ieotPayload` / `eoiePayload`
  do_write_index                                 → `gitEncodeIndex` (header, entries in IEOT blocks, extensions, trailer)

The transcription is VALIDATED against the git binary on every run: the `spec` driver op decodes an
index file git wrote, re-encodes what it decoded with these functions and must reproduce git's
bytes exactly (entries region, TREE, REUC, IEOT and EOIE payloads).
-/
namespace GixModel.Spec.C24
open GixModel GixModel.C24

def be16 (n : Nat) : Bytes := [UInt8.ofNat (n / 256 % 256), UInt8.ofNat (n % 256)]

/-- the continuation bytes of `encode_varint`: `while (value >>= 7) varint[--pos] = 128 | (--value & 127)`,
for the value `m` that is left after the first shift; fuel `m` always suffices -/
def varintPre : Nat → Nat → Bytes
  | 0, _ => []
  | fuel + 1, m =>
    if m = 0 then [] else varintPre fuel ((m - 1) / 128) ++ [UInt8.ofNat (128 + (m - 1) % 128)]

/-- `encode_varint` -/
def encodeVarint (n : Nat) : Bytes := varintPre (n / 128) (n / 128) ++ [UInt8.ofNat (n % 128)]

/-- `copy_cache_entry_to_ondisk`: the stat block, mode, object id, the 16-bit flags with the name
length saturating at 0xfff and, if `CE_EXTENDED` is set, the extended flags. -/
def gitEncodeFixed (e : Entry) : Bytes :=
  be32 e.stat.ctimeS ++ (be32 e.stat.ctimeN ++ (be32 e.stat.mtimeS ++ (be32 e.stat.mtimeN ++
  (be32 e.stat.dev ++ (be32 e.stat.ino ++ (be32 e.mode ++ (be32 e.stat.uid ++ (be32 e.stat.gid ++
  (be32 e.stat.size ++ (e.id ++ (be16 (e.flags % 65536 + min e.path.length 4095) ++
  (if e.flags / 16384 % 2 = 1 then be16 (e.flags / 65536) else []))))))))))))

/-- `offsetof(struct ondisk_cache_entry, data) + ondisk_data_size(flags, 0)` for SHA-1 -/
def fixedSize (e : Entry) : Nat := if e.flags / 16384 % 2 = 1 then 64 else 62

/-- `align_padding_size(size, len) = ((size + len + 8) & ~7) - (size + len)` -/
def alignPadding (size len : Nat) : Nat := (size + len + 8) / 8 * 8 - (size + len)

/-- `ce_write_entry` without a previous name (index versions 2 and 3) -/
def gitEncodeEntryV23 (e : Entry) : Bytes :=
  gitEncodeFixed e ++ (e.path ++ List.replicate (alignPadding (fixedSize e) e.path.length) 0)

/-- `ce_write_entry` with a previous name (version 4): `common` bytes are shared with the previous
name, `to_remove = previous_name->len - common` is written as a varint, then the rest of the name
and one NUL. git takes the longest common prefix, or 0 at the start of an offset-table block. -/
def gitEncodeEntryV4 (prev : Bytes) (common : Nat) (e : Entry) : Bytes :=
  gitEncodeFixed e ++ (encodeVarint (prev.length - common) ++ (e.path.drop common ++ [0]))

/-- length of the longest common prefix -/
def lcp : Bytes → Bytes → Nat
  | a :: as, b :: bs => if a = b then lcp as bs + 1 else 0
  | _, _ => 0

/-- one offset-table block of version-4 entries: the first entry shares nothing with what came
before (`previous_name->buf[0] = 0`), the others share the longest common prefix -/
def gitEncodeV4Rest : Bytes → List Entry → Bytes
  | _, [] => []
  | prev, e :: es => gitEncodeEntryV4 prev (lcp prev e.path) e ++ gitEncodeV4Rest e.path es

def gitEncodeV4Block (prev : Bytes) : List Entry → Bytes
  | [] => []
  | e :: es => gitEncodeEntryV4 prev 0 e ++ gitEncodeV4Rest e.path es

def lastPath (prev : Bytes) (es : List Entry) : Bytes :=
  match es.getLast? with
  | none => prev
  | some e => e.path

/-- the entries region: blocks one after the other; for version 4 the previous name runs through -/
def gitEncodeBlocks (v4 : Bool) : Bytes → List (List Entry) → Bytes
  | _, [] => []
  | prev, b :: bs =>
    (if v4 then gitEncodeV4Block prev b else (b.flatMap gitEncodeEntryV23))
      ++ gitEncodeBlocks v4 (lastPath prev b) bs

/-- file offsets and entry counts of the blocks, the first block starting at `start` -/
def blockOffsets (v4 : Bool) : Nat → Bytes → List (List Entry) → List Offset
  | _, _, [] => []
  | start, prev, b :: bs =>
    let enc := if v4 then gitEncodeV4Block prev b else b.flatMap gitEncodeEntryV23
    { fromStart := start, numEntries := b.length } :: blockOffsets v4 (start + enc.length) (lastPath prev b) bs

/-! ### extensions -/

/-- git's `subtree_name_cmp`: shorter names first, then `memcmp` -/
def gitNameLe (a b : Bytes) : Bool :=
  if a.length < b.length then true else if b.length < a.length then false else bytesLe a b

def insertByGitOrder (t : Tree) : List Tree → List Tree
  | [] => [t]
  | x :: xs => if gitNameLe x.name t.name then x :: insertByGitOrder t xs else t :: x :: xs

def sortByGitOrder : List Tree → List Tree
  | [] => []
  | x :: xs => insertByGitOrder x (sortByGitOrder xs)

/-- decimal rendering (`%d`) of a count (`digitsFuel` with enough fuel: one unit per digit) -/
def natDecimal (n : Nat) : Bytes := digitsFuel 10 (n + 1) n

mutual
  /-- `write_one`: `path NUL entry_count SP subtree_nr LF [oid]` then the children in the order
  they are given (git keeps them sorted by `subtree_name_cmp`) -/
  def gitEncodeTree : Tree → Bytes
    | .mk name id num cs =>
      name ++ [0] ++
        (match num with
         | some n => natDecimal n
         | none => [45, 49]) ++ [32] ++ natDecimal cs.length ++ [10] ++
        (match num with
         | some _ => id
         | none => []) ++ gitEncodeTrees cs
  def gitEncodeTrees : List Tree → Bytes
    | [] => []
    | t :: ts => gitEncodeTree t ++ gitEncodeTrees ts
end

mutual
  /-- children re-ordered the way git keeps them -/
  def gitOrderTree : Tree → Tree
    | .mk name id num cs => .mk name id num (sortByGitOrder (gitOrderTrees cs))
  def gitOrderTrees : List Tree → List Tree
    | [] => []
    | t :: ts => gitOrderTree t :: gitOrderTrees ts
end

/-- octal rendering (`%o`) -/
def natOctal (n : Nat) : Bytes := digitsFuel 8 (n + 1) n

/-- the mode written for a stage: 0 when the stage is absent -/
def modeOf : Option (Nat × Bytes) → Nat
  | none => 0
  | some (m, _) => m

def hashOf : Option (Nat × Bytes) → Bytes
  | none => []
  | some (_, h) => h

/-- `resolve_undo_write`: per path `name NUL`, three times `"%o" NUL`, then the ids of the stages
whose mode is not 0 -/
def gitEncodeReucPath (p : ReucPath) : Bytes :=
  p.name ++ [0] ++ (p.stages.flatMap fun s => natOctal (modeOf s) ++ [0]) ++ p.stages.flatMap hashOf

def gitEncodeReuc (ps : List ReucPath) : Bytes := ps.flatMap gitEncodeReucPath

/-- `write_ieot_extension`: version 1, then (offset, count) pairs -/
def ieotPayload (offs : List Offset) : Bytes :=
  be32 1 ++ offs.flatMap fun o => be32 o.fromStart ++ be32 o.numEntries

/-- `write_eoie_extension`: offset of the first extension and the hash over the
(signature, size) pairs of the extensions before it -/
def eoiePayload (sha1 : Bytes → Bytes) (offset : Nat) (exts : List (Bytes × Bytes)) : Bytes :=
  be32 offset ++ sha1 (exts.flatMap fun (s, p) => s ++ be32 p.length)

def encodeExt (sig payload : Bytes) : Bytes := sig ++ be32 payload.length ++ payload

def header (version n : Nat) : Bytes := sigDIRC ++ be32 version ++ be32 n

/-- `do_write_index`: header, the entries in blocks, the extensions (`IEOT` first when there are
blocks to record, then whatever else git has, each as signature/size/payload), `EOIE` last when
requested, and the trailing hash. -/
def gitEncodeIndex (sha1 : Bytes → Bytes) (version : Nat) (blocks : List (List Entry))
    (recordIeot : Bool) (exts : List (Bytes × Bytes)) (recordEoie : Bool) (trailer : Bytes) : Bytes :=
  let v4 := version == 4
  let n := (blocks.map List.length).sum
  let body := gitEncodeBlocks v4 [] blocks
  let allExts := (if recordIeot then [(sigIEOT, ieotPayload (blockOffsets v4 12 [] blocks))] else []) ++ exts
  let extBytes := allExts.flatMap fun (s, p) => encodeExt s p
  let eoie := if recordEoie then encodeExt sigEOIE (eoiePayload sha1 (12 + body.length) allExts) else []
  header version n ++ body ++ extBytes ++ eoie ++ trailer

/-! ### re-encoding what was decoded (driver op `spec`: validates the transcription against git) -/

/-- split the decoded entries into the blocks the offset table names -/
def splitBlocks : List Offset → List Entry → List (List Entry)
  | [], es => if es.isEmpty then [] else [es]
  | o :: os, es => es.take o.numEntries :: splitBlocks os (es.drop o.numEntries)

def firstDiff : Nat → Bytes → Bytes → Option Nat
  | _, [], [] => none
  | i, [], _ :: _ => some i
  | i, _ :: _, [] => some i
  | i, a :: as, b :: bs => if a = b then firstDiff (i + 1) as bs else some i

def extPayload (data : Bytes) (offset : Nat) (sig : Bytes) : Option Bytes :=
  let ext := data.drop offset
  if ext.length < hashLen then none
  else
    let body := ext.take (ext.length - hashLen)
    ((extIter body.length body).1.find? (fun sp => sp.1 == sig)).map (·.2)

def cmpBytes (what : String) (mine git : Bytes) : String :=
  match firstDiff 0 mine git with
  | none => s!"{what}=same"
  | some i => s!"{what}=DIFF@{i}"

/-- decode `data` serially, re-encode with the spec, compare with git's bytes -/
def specCheck (sha1 : Bytes → Bytes) (data : Bytes) : String :=
  match headerDecode data with
  | none => "not-an-index"
  | some (version, n, postHeader) =>
    let v4 := version == 4
    match chunk v4 n postHeader with
    | none => "entries-not-decodable"
    | some (entries, rest) =>
      let regionLen := postHeader.length - rest.length
      let extOffset := 12 + regionLen
      let offs : List Offset := (ieotFind (data.drop extOffset)).getD []
      let blocks := splitBlocks offs entries
      let mine := gitEncodeBlocks v4 [] blocks
      let entriesS := cmpBytes "entries" mine (postHeader.take regionLen)
      let ieotS := match extPayload data extOffset sigIEOT with
        | none => "ieot=absent"
        | some p => cmpBytes "ieot" (ieotPayload (blockOffsets v4 12 [] blocks)) p
      let treeS := match extPayload data extOffset sigTREE with
        | none => "tree=absent"
        | some p =>
          match treeDecode p with
          | .ok (some t) => cmpBytes "tree" (gitEncodeTree (gitOrderTree t)) p
          | _ => "tree=undecodable"
      let reucS := match extPayload data extOffset sigREUC with
        | none => "reuc=absent"
        | some p =>
          match reucDecode p with
          | some ps => cmpBytes "reuc" (gitEncodeReuc ps) p
          | none => "reuc=undecodable"
      let eoieS := match extPayload data extOffset sigEOIE with
        | none => "eoie=absent"
        | some p =>
          let ext := data.drop extOffset
          let body := ext.take (ext.length - hashLen)
          let before := (extIter body.length body).1.filter (fun (sp : Bytes × Bytes) => sp.1 != sigEOIE)
          cmpBytes "eoie" (eoiePayload sha1 extOffset before) p
      s!"{entriesS} {ieotS} {treeS} {reucS} {eoieS}"

end GixModel.Spec.C24
