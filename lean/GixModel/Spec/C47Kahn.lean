import GixModel.Basic.CommitDag
/-
C47 — git's `--date-order` / `--topo-order` sequence as Kahn's algorithm over an abstract
selection `sel` (the commits `git rev-list tips ^hidden` selects).

`sort_in_topological_order` (git 2.39, commit.c): every selected commit has an in-degree counter
1 + number of selected children; the selected tips nothing selected points at start the queue (in
the order of the revision list: newest first, equal dates in the order given); a commit comes off
the queue, is shown, and the counters of its selected parents are decremented in parent order — a
parent whose counter drops to 1, i.e. whose selected children are now all shown (`ready`), is put
onto the queue. `--date-order`: a priority queue by commit date, ties broken by insertion order;
`--topo-order`: a stack. (A counter drops to 1 exactly when the last selected child is shown, so
the counters are not kept here; `Spec.C47.gitTopoOrder` keeps them. Both are compared with the git
binary by the harness.)
-/
namespace GixModel.Spec.C47
open GixModel.CG

/-- key of the date queue: commit time, then insertion counter (earlier = greater) -/
abbrev DKey := Int × Nat

def DKey.le (a b : DKey) : Bool := decide (a.1 < b.1) || (a.1 == b.1 && decide (b.2 ≤ a.2))

/-- remove a greatest entry -/
def popMax : List (DKey × Nat) → Option ((DKey × Nat) × List (DKey × Nat))
  | [] => none
  | e :: rest =>
    match popMax rest with
    | none => some (e, [])
    | some (m, rest') => if DKey.le m.1 e.1 then some (e, m :: rest') else some (m, e :: rest')

/-- the queue of commits that may be shown next -/
structure KQ where
  dq : List (DKey × Nat)
  ctr : Nat
  stack : List Nat

def kPush (g : Dag) (dateOrder : Bool) (k : KQ) (c : Nat) : KQ :=
  if dateOrder then { k with dq := ((g.time c, k.ctr), c) :: k.dq, ctr := k.ctr + 1 }
  else { k with stack := c :: k.stack }

def kPop (dateOrder : Bool) (k : KQ) : Option (Nat × KQ) :=
  if dateOrder then
    match popMax k.dq with
    | none => none
    | some (e, rest) => some (e.2, { k with dq := rest })
  else
    match k.stack with
    | [] => none
    | c :: rest => some (c, { k with stack := rest })

/-- `p` is selected and all its selected children (among `nodes`) have been shown -/
def ready (g : Dag) (sel : Nat → Bool) (nodes outp : List Nat) (p : Nat) : Bool :=
  sel p && nodes.all fun c => !(sel c && (g.parents c).contains p) || outp.contains c

/-- the parents of the commit just shown, in parent order -/
def kExpand (g : Dag) (sel : Nat → Bool) (nodes : List Nat) (dateOrder : Bool) (outp : List Nat) :
    List Nat → KQ → KQ
  | [], k => k
  | p :: ps, k =>
    if ready g sel nodes outp p then kExpand g sel nodes dateOrder outp ps (kPush g dateOrder k p)
    else kExpand g sel nodes dateOrder outp ps k

def kLoop (g : Dag) (sel : Nat → Bool) (nodes : List Nat) (dateOrder : Bool) : Nat → KQ → List Nat → List Nat
  | 0, _, out => out
  | fuel + 1, k, out =>
    match kPop dateOrder k with
    | none => out
    | some (c, k1) =>
      kLoop g sel nodes dateOrder fuel (kExpand g sel nodes dateOrder (out ++ [c]) (g.parents c) k1) (out ++ [c])

/-- the tips that start the queue, each once, in the order given -/
def kTips (g : Dag) (sel : Nat → Bool) (nodes : List Nat) (dateOrder : Bool) : List Nat → List Nat → KQ → KQ
  | [], _, k => k
  | t :: ts, done, k =>
    if ready g sel nodes [] t && !done.contains t then
      kTips g sel nodes dateOrder ts (t :: done) (kPush g dateOrder k t)
    else kTips g sel nodes dateOrder ts done k

/-- stable insertion sort by commit time, oldest first -/
def insertAsc (g : Dag) (c : Nat) : List Nat → List Nat
  | [] => [c]
  | x :: xs => if g.time x ≤ g.time c then x :: insertAsc g c xs else c :: x :: xs

def sortAsc (g : Dag) (l : List Nat) : List Nat := l.foldl (fun acc c => insertAsc g c acc) []

/-- git's sequence for the selection `sel`. For `--topo-order` the initial stack (last tip on top)
is sorted stably oldest-first and reversed: the tips come off newest first, equal dates in the order
given. -/
def gitKahn (g : Dag) (sel : Nat → Bool) (nodes tips : List Nat) (dateOrder : Bool) (n : Nat) : List Nat :=
  let k0 := kTips g sel nodes dateOrder tips [] { dq := [], ctr := 0, stack := [] }
  let k1 : KQ := if dateOrder then k0 else { k0 with stack := (sortAsc g k0.stack).reverse }
  kLoop g sel nodes dateOrder (n + 1) k1 []

end GixModel.Spec.C47
