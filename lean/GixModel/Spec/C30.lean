import GixModel.Basic.Hex
/-
C30 — the server's side: what `git upload-pack` (git 2.39) prints when it advertises references,
and what a client that understood the advertisement exactly has to report.

Transcribed from git's behaviour (upload-pack.c `send_ref`/`find_symref`/`format_symref_info`,
ls-refs.c `send_ref`/`send_possibly_unborn_head`/`ref_match`); this file does not import the
gitoxide model. The transcription is validated against the git 2.39.5 binary by the harness
(`adv1` / `adv2` operations: the lines computed here must equal the captured wire lines).

* protocol v0/v1: `<hex> <name>\0<capabilities>\n` for the first ref, `<hex> <name>\n` for the
  others, each followed by `<hex of the peeled object> <name>^{}\n` if the ref points to a tag
  object; `symref=<name>:<target>` capabilities (git sends one for HEAD only, and only if HEAD
  resolves; it is sent even if HEAD itself is hidden by transfer.hideRefs); `shallow <hex>\n`
  lines at the end; a repository without refs sends nothing (git < 2.41) or the dummy line
  `0{40} capabilities^{}\0<capabilities>\n` (git >= 2.41, `dummy := true`).
* protocol v2 `ls-refs` with `symrefs` and `peel` (what gitoxide always asks for):
  `<hex> <name>[ symref-target:<target>][ peeled:<hex>]\n`, restricted to the names that start
  with one of the `ref-prefix`es (all if none given); `unborn HEAD symref-target:<target>\n` first
  if HEAD is symbolic, its target does not exist and the client asked for `unborn`.
-/
namespace GixModel.Spec.C30
open GixModel

/-- a SHA-1 object id: 20 raw bytes -/
abbrev Oid := Bytes

def hexNib (n : Nat) : UInt8 := if n < 10 then UInt8.ofNat (48 + n) else UInt8.ofNat (87 + n)

/-- lower-case hex, as `oid_to_hex` prints -/
def toHex (o : Oid) : Bytes := o.flatMap fun b => [hexNib (b.toNat / 16), hexNib (b.toNat % 16)]

/-- One reference as the server knows it. -/
structure Entry where
  name : Bytes
  oid : Oid
  /-- the fully peeled object if `oid` names a tag object (`peel_iterated_oid`) -/
  peeled : Option Oid
  /-- where the ref finally leads if it is symbolic (`resolve_ref_unsafe`) -/
  sym : Option Bytes
  deriving Repr, DecidableEq

/-- What a client reports about one advertised reference (gitoxide's `handshake::Ref`). -/
inductive Ref where
  | peeled (name : Bytes) (tag obj : Oid)
  | direct (name : Bytes) (obj : Oid)
  | symbolic (name target : Bytes) (tag : Option Oid) (obj : Oid)
  | unborn (name target : Bytes)
  deriving Repr, DecidableEq

def bHEAD : Bytes := [72, 69, 65, 68]
def bPeelSuffix : Bytes := [94, 123, 125]                       -- ^{}
def bSymrefEq : Bytes := [115, 121, 109, 114, 101, 102, 61]      -- symref=
def bShallowSp : Bytes := [115, 104, 97, 108, 108, 111, 119, 32] -- "shallow "
def bUnborn : Bytes := [117, 110, 98, 111, 114, 110]             -- unborn
def bSymrefTarget : Bytes := [115, 121, 109, 114, 101, 102, 45, 116, 97, 114, 103, 101, 116, 58] -- symref-target:
def bPeeledColon : Bytes := [112, 101, 101, 108, 101, 100, 58]   -- peeled:
def bCapabilities : Bytes := [99, 97, 112, 97, 98, 105, 108, 105, 116, 105, 101, 115] -- capabilities
def bNull : Bytes := [40, 110, 117, 108, 108, 41]                -- (null)
def zeros40 : Bytes := List.replicate 40 48

/-- tokens joined by single spaces -/
def joinSp : List Bytes → Bytes
  | [] => []
  | [t] => t
  | t :: t2 :: ts => t ++ 32 :: joinSp (t2 :: ts)

/-- `<hex> <name><suffix>\n`, then the `^{}` line for a tag object -/
def refLines (e : Entry) (suffix : Bytes) : List Bytes :=
  (toHex e.oid ++ 32 :: (e.name ++ suffix ++ [10])) ::
    match e.peeled with
    | some p => [toHex p ++ 32 :: (e.name ++ bPeelSuffix ++ [10])]
    | none => []

/-- A server as protocol v0/v1 shows it. `entries` are in advertisement order (HEAD first if it
resolves and is not hidden, then the refs in name order). -/
structure V1Server where
  /-- capability tokens before / after the `symref=` capabilities -/
  capsPre : List Bytes
  capsPost : List Bytes
  /-- `symref=<name>:<target>` capabilities, in order -/
  symrefs : List (Bytes × Bytes)
  entries : List Entry
  shallow : List Oid
  /-- git >= 2.41: a repository without refs advertises its capabilities on a dummy line -/
  dummy : Bool

def symrefTok (s : Bytes × Bytes) : Bytes := bSymrefEq ++ s.1 ++ 58 :: s.2

def V1Server.capTokens (s : V1Server) : List Bytes :=
  s.capsPre ++ s.symrefs.map symrefTok ++ s.capsPost

def V1Server.caps (s : V1Server) : Bytes := joinSp s.capTokens

def shallowLines (sh : List Oid) : List Bytes := sh.map fun o => bShallowSp ++ toHex o ++ [10]

/-- the data lines `git upload-pack` writes before the flush packet -/
def advertiseV1 (s : V1Server) : List Bytes :=
  match s.entries with
  | [] =>
    (if s.dummy then [zeros40 ++ 32 :: (bCapabilities ++ bPeelSuffix ++ 0 :: s.caps ++ [10])] else [])
      ++ shallowLines s.shallow
  | e :: es =>
    refLines e (0 :: s.caps) ++ es.flatMap (fun e => refLines e []) ++ shallowLines s.shallow

def lookupSym (name : Bytes) : List (Bytes × Bytes) → Option Bytes
  | [] => none
  | (n, t) :: rest => if n = name then some t else lookupSym name rest

def plainRef (e : Entry) : Ref :=
  match e.peeled with
  | some p => .peeled e.name e.oid p
  | none => .direct e.name e.oid

def symRef (e : Entry) (target : Bytes) : Ref :=
  match e.peeled with
  | some p => .symbolic e.name target (some e.oid) p
  | none => .symbolic e.name target none e.oid

/-- what a v0/v1 client can know about the server: the symbolic target is known exactly for the
refs named by a `symref=` capability, every other ref shows its object (and peeled object) -/
def expectV1 (s : V1Server) : List Ref :=
  s.entries.map fun e =>
    match lookupSym e.name s.symrefs with
    | some t => symRef e t
    | none => plainRef e

/-- A server as an `ls-refs` request sees it. -/
structure V2Server where
  /-- HEAD first (if it resolves and is not hidden), then the refs in name order -/
  entries : List Entry
  /-- HEAD is symbolic and its final target does not exist -/
  unbornHead : Option Bytes
  /-- the client sent `unborn` (gitoxide does if the server advertises `ls-refs=unborn`) -/
  askedUnborn : Bool
  prefixes : List Bytes

def isPrefixB : Bytes → Bytes → Bool
  | [], _ => true
  | _ :: _, [] => false
  | a :: as, b :: bs => a == b && isPrefixB as bs

/-- ls-refs.c `ref_match` -/
def refMatch (prefixes : List Bytes) (name : Bytes) : Bool :=
  prefixes.isEmpty || prefixes.any fun p => isPrefixB p name

def v2Line (e : Entry) : Bytes :=
  toHex e.oid ++ 32 :: (e.name
    ++ (match e.sym with | some t => 32 :: (bSymrefTarget ++ t) | none => [])
    ++ (match e.peeled with | some p => 32 :: (bPeeledColon ++ toHex p) | none => [])
    ++ [10])

def V2Server.unbornShown (s : V2Server) : Option Bytes :=
  if s.askedUnborn && refMatch s.prefixes bHEAD then s.unbornHead else none

def advertiseV2 (s : V2Server) : List Bytes :=
  (match s.unbornShown with
    | some t => [bUnborn ++ 32 :: (bHEAD ++ 32 :: (bSymrefTarget ++ t ++ [10]))]
    | none => [])
  ++ (s.entries.filter fun e => refMatch s.prefixes e.name).map v2Line

def expectEntryV2 (e : Entry) : Ref :=
  match e.sym with
  | some t => symRef e t
  | none => plainRef e

def expectV2 (s : V2Server) : List Ref :=
  (match s.unbornShown with
    | some t => [Ref.unborn bHEAD t]
    | none => [])
  ++ (s.entries.filter fun e => refMatch s.prefixes e.name).map expectEntryV2

/-! ### well-formed ref sets

What git guarantees about the names it advertises (`check_refname_format`: no space, no control
characters, no `^`, not empty; everything advertised is `HEAD` or below `refs/`), about object ids
(20 bytes) and about symbolic targets (ref names again; `(null)` is the marker some servers send
for "target outside the namespace" and is not a name git would print here). -/

structure ValidName (n : Bytes) : Prop where
  ne : n ≠ []
  noSp : (32 : UInt8) ∉ n
  noNl : (10 : UInt8) ∉ n
  noNul : (0 : UInt8) ∉ n
  noCaret : (94 : UInt8) ∉ n
  notCaps : n ≠ bCapabilities

structure ValidTarget (t : Bytes) : Prop where
  ne : t ≠ []
  noSp : (32 : UInt8) ∉ t
  noNl : (10 : UInt8) ∉ t
  notNull : t ≠ bNull

structure WfEntry (e : Entry) : Prop where
  name : ValidName e.name
  oid : e.oid.length = 20
  peeled : ∀ p, e.peeled = some p → p.length = 20
  sym : ∀ t, e.sym = some t → ValidTarget t

structure WfV1 (s : V1Server) : Prop where
  entries : ∀ e ∈ s.entries, WfEntry e
  namesNodup : (s.entries.map (·.name)).Nodup
  shallow : ∀ o ∈ s.shallow, o.length = 20
  /-- names in `symref=` capabilities are ref names (no `:`), targets are ref names -/
  symrefs : ∀ p ∈ s.symrefs, p.1 ≠ [] ∧ (58 : UInt8) ∉ p.1 ∧ (32 : UInt8) ∉ p.1 ∧ (32 : UInt8) ∉ p.2 ∧ p.2 ≠ bNull
  symNodup : (s.symrefs.map (·.1)).Nodup
  /-- the other capabilities are space-free tokens, none of them is a `symref=` capability -/
  capTokens : ∀ t ∈ s.capsPre ++ s.capsPost, (32 : UInt8) ∉ t ∧ isPrefixB bSymrefEq t = false
  capsNe : s.caps ≠ []
  /-- git < 2.41 has no line to put capabilities on when there is no ref: a shallow boundary
  without any ref does not occur -/
  emptyShallow : s.entries = [] → s.dummy = false → s.shallow = []

structure WfV2 (s : V2Server) : Prop where
  entries : ∀ e ∈ s.entries, WfEntry e
  unborn : ∀ t, s.unbornHead = some t → ValidTarget t

end GixModel.Spec.C30
