import GixModel.Basic.Hex
/-
C31 — git's side of the ref-update decision: a transcription of `update_local_ref()`
(builtin/fetch.c, git 2.39) as a pure function of the per-ref situation and an abstract object
world (object kinds, tag peeling, commit ancestry). Validated against the git 2.39.5 binary by the
harness (`gitdec` operations: the flag column of `git fetch -v` must be the one computed here).

  if (!repo_has_object_file(new))                 die("object %s not found")
  if (oideq(old, new))                            '=' [up to date]
  if (!update_head_ok && !is_null_oid(old) && branch_checked_out(name))
                                                  '!' can't fetch into checked-out branch
  if (!is_null_oid(old) && starts_with(name, "refs/tags/"))
        force ? 't' [tag update] : '!' would clobber existing tag
  current = lookup_commit_reference_gently(old); updated = lookup_commit_reference_gently(new);
  if (!current || !updated)                       '*' [new tag|branch|ref]   (stored unconditionally)
  if (in_merge_bases(current, updated))           ' ' fast-forward
  else if (force)                                 '+' forced update
  else                                            '!' non-fast-forward
-/
namespace GixModel.Spec.C31
open GixModel

inductive Kind where
  | commit | tag | other
  deriving Repr, DecidableEq

/-- The object world both decision procedures look at. Ids are abstract (`Nat`). -/
structure World where
  /-- what kind of object an id names (trees and blobs are `other`) -/
  kind : Nat → Kind
  /-- `lookup_commit_reference_gently`: follow tag objects down to a commit, if there is one -/
  peel : Nat → Option Nat
  /-- the ancestry oracle: `anc a b` — commit `a` is `b` or an ancestor of `b` -/
  anc : Nat → Nat → Bool

/-- what peeling means for the three kinds -/
structure World.Lawful (w : World) : Prop where
  commit : ∀ x, w.kind x = .commit → w.peel x = some x
  other : ∀ x, w.kind x = .other → w.peel x = none
  toCommit : ∀ x c, w.peel x = some c → w.kind c = .commit

/-- One `(remote ref → local ref)` mapping at the moment the refs are updated. -/
structure Sit where
  /-- the refspec has a destination -/
  hasDst : Bool
  /-- the remote side is an unborn HEAD (protocol v2 only): no object id -/
  remoteUnborn : Bool
  remoteId : Nat
  /-- the object the remote ref points to is in the local object database (after the pack arrived) -/
  newExists : Bool
  /-- the mapping stems from the implicit `refs/tags/*:refs/tags/*` of tag auto-following -/
  implicitTag : Bool
  /-- the destination ref exists -/
  localExists : Bool
  /-- the id the destination resolves to (through symbolic refs) -/
  localId : Nat
  /-- the destination is a symbolic ref whose target does not exist -/
  localUnborn : Bool
  /-- `localUnborn` and its target name is the remote's symbolic target -/
  unbornSameTarget : Bool
  /-- the destination is HEAD or on HEAD's chain in some worktree -/
  checkedOut : Bool
  /-- the destination is below `refs/tags/` -/
  dstIsTag : Bool
  /-- `+` in the refspec -/
  force : Bool
  deriving Repr, DecidableEq

inductive GitOutcome where
  | die | upToDate | rejectCheckedOut | tagUpdate | rejectTag | storeNew | fastForward | forced | rejectNonFF
  deriving Repr, DecidableEq

/-- does the local ref change? -/
inductive Effect where
  | update | keep | abort
  deriving Repr, DecidableEq

def GitOutcome.effect : GitOutcome → Effect
  | .die => .abort
  | .upToDate | .rejectCheckedOut | .rejectTag | .rejectNonFF => .keep
  | .tagUpdate | .storeNew | .fastForward | .forced => .update

/-- `update_local_ref` (`update_head_ok` = false, `fetch.showForcedUpdates` = true: the defaults) -/
def gitDecide (w : World) (s : Sit) : GitOutcome :=
  if !s.newExists then .die
  else if s.localExists && s.localId == s.remoteId then .upToDate
  else if s.localExists && s.checkedOut then .rejectCheckedOut
  else if s.localExists && s.dstIsTag then (if s.force then .tagUpdate else .rejectTag)
  else
    match (if s.localExists then w.peel s.localId else none), w.peel s.remoteId with
    | some current, some updated =>
      if w.anc current updated then .fastForward
      else if s.force then .forced
      else .rejectNonFF
    | _, _ => .storeNew

/-- What `git fetch` does to the destination on EVERY situation (round 2): an unborn remote ref is
never mapped (ls-refs' `unborn` line only serves clone), a mapping without destination only feeds
FETCH_HEAD, and a destination that is a dangling symbolic ref reads as the null id, so
`update_local_ref` treats it like a missing ref (and writes through the symref). -/
def gitEffectX (w : World) (s : Sit) : Effect :=
  if s.remoteUnborn then .keep
  else if !s.hasDst then .keep
  else (gitDecide w { s with localExists := s.localExists && !s.localUnborn }).effect

def Effect.str : Effect → String
  | .update => "update" | .keep => "keep" | .abort => "abort"

/-- the flag column of `git fetch -v` -/
def GitOutcome.flag : GitOutcome → String
  | .die => "die" | .upToDate => "=" | .rejectCheckedOut => "!" | .tagUpdate => "t" | .rejectTag => "!"
  | .storeNew => "*" | .fastForward => "_" | .forced => "+" | .rejectNonFF => "!"

/-- Everything the end-to-end property talks about and Lean does NOT model: the two programs as
functions from (server repository, refspecs, options, local repository) to the local repository
afterwards, and the two observations made on a repository. -/
structure FetchSystem where
  Server : Type
  Repo : Type
  /-- refspecs, protocol version, depth … -/
  Request : Type
  gixFetch : Server → Request → Repo → Repo
  gitFetch : Server → Request → Repo → Repo
  /-- all references with the ids they resolve to (`git for-each-ref`) -/
  refs : Repo → List (Bytes × Nat)
  /-- `git fsck --connectivity-only` finds nothing missing or corrupt -/
  connected : Repo → Prop
  /-- `.git/shallow` -/
  shallow : Repo → List Nat

end GixModel.Spec.C31
