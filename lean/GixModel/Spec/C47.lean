import GixModel.Basic.CommitDag
/-
C47 — what the walks are compared with.

`RevList g tips hidden x`: the set `git rev-list tips ^hidden` prints — reachable from a tip and
not reachable from a hidden tip (git-rev-list(1): "List commits that are reachable by following
the parent links from the given commit(s), but exclude commits that are reachable from the one(s)
given with a ^ in front of them").

`Walkable`: the generalisation the `Simple` iterator implements: an arbitrary `accept` predicate
on commits (a rejected commit is neither returned nor walked through), optionally only first
parents. With `accept x ↔ x is not an ancestor of a hidden tip` and all parents this is `RevList`
(`walkable_iff_revList`); with a commit-time cut-off it is `git rev-list --max-age`.

`TopoValid`: no parent is shown before all of its children are shown (git-rev-list(1),
`--date-order` / `--topo-order`), for the edges the walk follows.

The harness validates this reading against the git 2.39.5 binary on every query it asks git.
-/
namespace GixModel.Spec.C47
open GixModel.CG

/-- the parent links a walk follows: all of them, or only the first one -/
def edges (g : Dag) (firstParent : Bool) (c : Nat) : List Nat :=
  if firstParent then (g.parents c).take 1 else g.parents c

inductive Walkable (g : Dag) (firstParent : Bool) (accept : Nat → Bool) (tips : List Nat) : Nat → Prop
  | tip {t : Nat} : t ∈ tips → accept t = true → Walkable g firstParent accept tips t
  | step {c p : Nat} : Walkable g firstParent accept tips c → p ∈ edges g firstParent c →
      accept p = true → Walkable g firstParent accept tips p

def Hidden (g : Dag) (hidden : List Nat) (x : Nat) : Prop := ∃ h, h ∈ hidden ∧ Reach g h x

def RevList (g : Dag) (tips hidden : List Nat) (x : Nat) : Prop :=
  (∃ t, t ∈ tips ∧ Reach g t x) ∧ ¬ Hidden g hidden x

/-- `accept` hides exactly the ancestors of the hidden tips -/
def HidesAncestors (g : Dag) (hidden : List Nat) (accept : Nat → Bool) : Prop :=
  ∀ x, accept x = true ↔ ¬ Hidden g hidden x

theorem walkable_iff_revList {g : Dag} {accept : Nat → Bool} {tips hidden : List Nat}
    (hacc : HidesAncestors g hidden accept) (x : Nat) :
    Walkable g false accept tips x ↔ RevList g tips hidden x := by
  constructor
  · intro h
    induction h with
    | tip ht hok => exact ⟨⟨_, ht, Reach.refl _⟩, (hacc _).mp hok⟩
    | step _ hp hok ih =>
      obtain ⟨⟨t, ht, hr⟩, _⟩ := ih
      refine ⟨⟨t, ht, hr.tail ?_⟩, (hacc _).mp hok⟩
      simpa [edges] using hp
  · intro ⟨⟨t, ht, hr⟩, hnh⟩
    -- every commit on the path from `t` to `x` is visible, because `x` is
    have key : ∀ a b, Reach g a b → ¬ Hidden g hidden b →
        Walkable g false accept tips a → Walkable g false accept tips b := by
      intro a b hab
      induction hab with
      | refl => intro _ h; exact h
      | head hp hpb ih =>
        intro hb ha
        apply ih hb
        refine Walkable.step ha (by simpa [edges] using hp) ((hacc _).mpr ?_)
        intro ⟨h, hh, hhp⟩
        exact hb ⟨h, hh, hhp.trans hpb⟩
    apply key t x hr hnh
    refine Walkable.tip ht ((hacc _).mpr ?_)
    intro ⟨h, hh, hht⟩
    exact hnh ⟨h, hh, hht.trans hr⟩

/-- position of a commit in the output -/
def Before (out : List Nat) (a b : Nat) : Prop :=
  ∃ l₁ l₂ l₃, out = l₁ ++ a :: l₂ ++ b :: l₃

/-- no parent before one of its children (among the shown commits, over the walked links) -/
def TopoValid (g : Dag) (firstParent : Bool) (out : List Nat) : Prop :=
  ∀ c p, c ∈ out → p ∈ out → p ∈ edges g firstParent c → Before out c p

end GixModel.Spec.C47
