import GixModel.Basic.CommitDag
/-
C47 — what the walks are compared with.

`RevList g tips hidden x`: the set `git rev-list tips ^hidden` prints — reachable from a tip and
not reachable from a hidden tip (git-rev-list(1): "List commits that are reachable by following
the parent links from the given commit(s), but exclude commits that are reachable from the one(s)
given with a ^ in front of them").

`Walkable`: the generalisation the `Simple` iterator implements: an arbitrary `accept` predicate
on commits (a rejected commit is neither returned nor walked through), optionally only first
parents. With `accept x ↔ x is not an ancestor of a hidden tip` and all parents this is `RevList`
(`walkable_iff_revList`); with a commit-time cut-off it is `git rev-list --max-age`.

`TopoValid`: no parent is shown before all of its children are shown (git-rev-list(1),
`--date-order` / `--topo-order`), for the edges the walk follows.

The harness validates this reading against the git 2.39.5 binary on every query it asks git.
-/
namespace GixModel.Spec.C47
open GixModel.CG

/-- the parent links a walk follows: all of them, or only the first one -/
def edges (g : Dag) (firstParent : Bool) (c : Nat) : List Nat :=
  if firstParent then (g.parents c).take 1 else g.parents c

inductive Walkable (g : Dag) (firstParent : Bool) (accept : Nat → Bool) (tips : List Nat) : Nat → Prop
  | tip {t : Nat} : t ∈ tips → accept t = true → Walkable g firstParent accept tips t
  | step {c p : Nat} : Walkable g firstParent accept tips c → p ∈ edges g firstParent c →
      accept p = true → Walkable g firstParent accept tips p

def Hidden (g : Dag) (hidden : List Nat) (x : Nat) : Prop := ∃ h, h ∈ hidden ∧ Reach g h x

def RevList (g : Dag) (tips hidden : List Nat) (x : Nat) : Prop :=
  (∃ t, t ∈ tips ∧ Reach g t x) ∧ ¬ Hidden g hidden x

/-- `accept` hides exactly the ancestors of the hidden tips -/
def HidesAncestors (g : Dag) (hidden : List Nat) (accept : Nat → Bool) : Prop :=
  ∀ x, accept x = true ↔ ¬ Hidden g hidden x

theorem walkable_iff_revList {g : Dag} {accept : Nat → Bool} {tips hidden : List Nat}
    (hacc : HidesAncestors g hidden accept) (x : Nat) :
    Walkable g false accept tips x ↔ RevList g tips hidden x := by
  constructor
  · intro h
    induction h with
    | tip ht hok => exact ⟨⟨_, ht, Reach.refl _⟩, (hacc _).mp hok⟩
    | step _ hp hok ih =>
      obtain ⟨⟨t, ht, hr⟩, _⟩ := ih
      refine ⟨⟨t, ht, hr.tail ?_⟩, (hacc _).mp hok⟩
      simpa [edges] using hp
  · intro ⟨⟨t, ht, hr⟩, hnh⟩
    -- every commit on the path from `t` to `x` is visible, because `x` is
    have key : ∀ a b, Reach g a b → ¬ Hidden g hidden b →
        Walkable g false accept tips a → Walkable g false accept tips b := by
      intro a b hab
      induction hab with
      | refl => intro _ h; exact h
      | head hp hpb ih =>
        intro hb ha
        apply ih hb
        refine Walkable.step ha (by simpa [edges] using hp) ((hacc _).mpr ?_)
        intro ⟨h, hh, hhp⟩
        exact hb ⟨h, hh, hhp.trans hpb⟩
    apply key t x hr hnh
    refine Walkable.tip ht ((hacc _).mpr ?_)
    intro ⟨h, hh, hht⟩
    exact hnh ⟨h, hh, hht.trans hr⟩

/-- position of a commit in the output -/
def Before (out : List Nat) (a b : Nat) : Prop :=
  ∃ l₁ l₂ l₃, out = l₁ ++ a :: l₂ ++ b :: l₃

/-- no parent before one of its children (among the shown commits, over the walked links) -/
def TopoValid (g : Dag) (firstParent : Bool) (out : List Nat) : Prop :=
  ∀ c p, c ∈ out → p ∈ out → p ∈ edges g firstParent c → Before out c p

/-! ### git's sequence for `--date-order` / `--topo-order` (executable transcription)

`sort_in_topological_order` (git 2.39 commit.c, used by revision.c after `limit_list`): Kahn's
algorithm over the selected commits; in-degree = 1 + number of selected children; the commits
nothing selected points at start the queue, in the order of the revision list (newest commit time
first, equal times in the order the tips were given); `--date-order`: a priority queue by commit
time whose ties are broken by insertion order; `--topo-order`: a LIFO stack (the initial content
reversed so that it comes off in list order); a parent is queued when its in-degree drops to 1.
With a commit-graph git runs the incremental variant of the same algorithm. The harness compares
this transcription with the sequences the git binary prints (`gitorder` operations). -/

/-- ancestors-or-self of `xs` as a table over the commits `0..n` -/
def ancestorsTable (g : Dag) (n : Nat) (xs : List Nat) : Array Bool :=
  let rec go : Nat → List Nat → Array Bool → Array Bool
    | 0, _, t => t
    | _, [], t => t
    | fuel + 1, c :: stack, t =>
      match t[c]? with
      | some false => go fuel (g.parents c ++ stack) (t.setIfInBounds c true)
      | _ => go fuel stack t
  go (n * n + n + xs.length + 1) xs (Array.replicate n false)

def tableHas (t : Array Bool) (x : Nat) : Bool :=
  match t[x]? with
  | some b => b
  | none => false

/-- insertion into a list kept sorted by (time descending, insertion counter ascending) -/
def dateInsert (e : Int × Nat × Nat) : List (Int × Nat × Nat) → List (Int × Nat × Nat)
  | [] => [e]
  | x :: xs => if x.1 ≥ e.1 then x :: dateInsert e xs else e :: x :: xs

/-- stable sort of commits by commit time, newest first -/
def insNewest (g : Dag) (c : Nat) : List Nat → List Nat
  | [] => [c]
  | x :: xs => if g.time x ≥ g.time c then x :: insNewest g c xs else c :: x :: xs

def sortNewestFirst (g : Dag) (l : List Nat) : List Nat :=
  l.foldl (fun acc c => insNewest g c acc) []

def dedup : List Nat → List Nat → List Nat
  | [], acc => acc.reverse
  | x :: xs, acc => if acc.contains x then dedup xs acc else dedup xs (x :: acc)

structure KahnState where
  indeg : Array Nat
  dateQ : List (Int × Nat × Nat)
  ctr : Nat
  stack : List Nat
  out : List Nat

/-- one more selected child of `p` -/
def bumpDeg (a : Array Nat) (p : Nat) : Array Nat :=
  match a[p]? with
  | some d => a.setIfInBounds p (d + 1)
  | none => a

/-- in-degrees: 1 + number of selected children -/
def indegInit (g : Dag) (n : Nat) (sel : Nat → Bool) : Array Nat :=
  (List.range n).foldl (fun (a : Array Nat) c =>
      if sel c then (g.parents c).foldl bumpDeg a else a) (Array.replicate n 1)

def cPush (g : Dag) (dateOrder : Bool) (s : KahnState) (c : Nat) : KahnState :=
  if dateOrder then { s with dateQ := dateInsert (g.time c, s.ctr, c) s.dateQ, ctr := s.ctr + 1 }
  else { s with stack := c :: s.stack }

def cNext (dateOrder : Bool) (s : KahnState) : Option (Nat × KahnState) :=
  if dateOrder then
    match s.dateQ with
    | [] => none
    | e :: rest => some (e.2.2, { s with dateQ := rest })
  else
    match s.stack with
    | [] => none
    | c :: rest => some (c, { s with stack := rest })

/-- the counter of a selected parent of the commit just shown is decremented; at 1 it is queued -/
def cStep (g : Dag) (sel : Nat → Bool) (dateOrder : Bool) (s : KahnState) (p : Nat) : KahnState :=
  if sel p then
    match s.indeg[p]? with
    | some d =>
      let s' := { s with indeg := s.indeg.setIfInBounds p (d - 1) }
      if d - 1 = 1 then cPush g dateOrder s' p else s'
    | none => s
  else s

def cLoop (g : Dag) (sel : Nat → Bool) (dateOrder : Bool) : Nat → KahnState → List Nat
  | 0, s => s.out
  | fuel + 1, s =>
    match cNext dateOrder s with
    | none => s.out
    | some (c, s1) =>
      cLoop g sel dateOrder fuel ((g.parents c).foldl (cStep g sel dateOrder) { s1 with out := s1.out ++ [c] })

/-- git's sort with its counters, over the selection `sel` -/
def gitCount (g : Dag) (n : Nat) (sel : Nat → Bool) (tips : List Nat) (dateOrder : Bool) : List Nat :=
  let indeg0 := indegInit g n sel
  let heads := sortNewestFirst g ((dedup tips []).filter fun t => sel t && (indeg0[t]? == some 1))
  let s0 : KahnState :=
    if dateOrder then heads.foldl (cPush g dateOrder) { indeg := indeg0, dateQ := [], ctr := 0, stack := [], out := [] }
    else { indeg := indeg0, dateQ := [], ctr := 0, stack := heads, out := [] }
  cLoop g sel dateOrder (n + 1) s0

def gitTopoOrder (g : Dag) (n : Nat) (tips hidden : List Nat) (dateOrder : Bool) : List Nat :=
  let hid := ancestorsTable g n hidden
  let rch := ancestorsTable g n tips
  gitCount g n (fun x => tableHas rch x && !tableHas hid x) tips dateOrder

end GixModel.Spec.C47
