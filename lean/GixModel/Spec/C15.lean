import GixModel.Basic.Hex
/-
C15 — git's side: `check_refname_format` / `check_refname_component` of refs.c (git 2.39), the
rule `git check-ref-format [--allow-onelevel] <name>` applies (no `--refspec-pattern`, no
sanitising), plus the one-level rule of `refname_is_safe` (only `A-Z` and `_`).

The C code walks a NUL-terminated string component by component; `last` is reset to NUL at the
start of each component; the checks "component is empty", "component starts with '.'" and
"component ends with .lock" run when the terminator of the component is reached; "the name ends
with '.'" and the component count run after the last component. `gitLoop` below does the same on
a byte list, carrying the current component reversed (`rc`) and the number of finished components.

A byte string containing NUL is not a C string: no git API can be handed such a name, so it is
refused here (`gitCheckRefFormat` is `false` on it).

This transcription is validated against the git 2.39.5 binary by the C15 harness (op `git`).
-/
namespace GixModel.Spec.C15
open GixModel

/-- `refname_disposition[256]` of refs.c: 0 fine, 1 end of component (NUL, '/'), 2 '.', 3 '{',
4 forbidden, 5 '*'. -/
def refnameDisposition : List Nat := [
  1, 4, 4, 4, 4, 4, 4, 4, 4, 4, 4, 4, 4, 4, 4, 4,
  4, 4, 4, 4, 4, 4, 4, 4, 4, 4, 4, 4, 4, 4, 4, 4,
  4, 0, 0, 0, 0, 0, 0, 0, 0, 0, 5, 0, 0, 0, 2, 1,
  0, 0, 0, 0, 0, 0, 0, 0, 0, 0, 4, 0, 0, 0, 0, 4,
  0, 0, 0, 0, 0, 0, 0, 0, 0, 0, 0, 0, 0, 0, 0, 0,
  0, 0, 0, 0, 0, 0, 0, 0, 0, 0, 0, 4, 4, 0, 4, 0,
  0, 0, 0, 0, 0, 0, 0, 0, 0, 0, 0, 0, 0, 0, 0, 0,
  0, 0, 0, 0, 0, 0, 0, 0, 0, 0, 0, 3, 0, 0, 4, 4]

/-- bytes ≥ 0x80 are beyond the initialised part of the table: 0 -/
def disp (b : UInt8) : Nat := refnameDisposition.getD b.toNat 0

/-- ".lock" reversed -/
def rlock : Bytes := [107, 99, 111, 108, 46]

/-- one character of `check_refname_component`'s loop (not the terminator): `false` = `return -1`.
`last` is the previous character of the same component, NUL at its start. -/
def gitStep (last b : UInt8) : Bool :=
  match disp b with
  | 2 => last != 46          -- ".."
  | 3 => last != 64          -- "@{"
  | 4 => false               -- forbidden character
  | 5 => false               -- '*' without REFNAME_REFSPEC_PATTERN
  | 1 => false               -- NUL inside the byte string: not a C string
  | _ => true

/-- at the terminator of a component (`rc` = the component reversed): non-empty, does not start
with '.', does not end with ".lock" -/
def gitCompEnd (rc : Bytes) : Bool :=
  !rc.isEmpty && rc.getLast? != some 46 && !rlock.isPrefixOf rc

/-- the `while (1)` of `check_or_sanitize_refname` with `sanitized == NULL` -/
def gitLoop (oneLevel : Bool) : Bytes → Nat → Bytes → Bool
  | rc, n, [] =>
    gitCompEnd rc && rc.head? != some 46 && (oneLevel || n + 1 ≥ 2)
  | rc, n, b :: rest =>
    if b == 47 then gitCompEnd rc && gitLoop oneLevel [] (n + 1) rest
    else gitStep (rc.headD 0) b && gitLoop oneLevel (b :: rc) n rest

/-- `check_refname_format(name, oneLevel ? REFNAME_ALLOW_ONELEVEL : 0) == 0` -/
def gitCheckRefFormat (oneLevel : Bool) (name : Bytes) : Bool :=
  !name.contains 0 && name != [64] && gitLoop oneLevel [] 0 name

/-- the one-level branch of `refname_is_safe`: every character is `isupper` or '_' -/
def isUpperOrUnderscore (b : UInt8) : Bool := (65 ≤ b && b ≤ 90) || b == 95

/-- "one-level names judged by git's one-level rules": a name without '/' must additionally
consist of upper-case ASCII letters and '_' only -/
def gitFullName (name : Bytes) : Bool :=
  gitCheckRefFormat true name && (name.contains 47 || name.all isUpperOrUnderscore)

end GixModel.Spec.C15
