import GixModel.Basic.Hex
/-
C04 — the abstract specification the editor is compared with: a file system is a partial map from
paths (lists of components) to leaves (mode, id). Directories exist only implicitly, as prefixes of
leaf paths — so empty directories do not exist, and a path cannot be both a file and a directory.

  upsert p v   the leaf at `p` becomes `v` (`none` = a null-id placeholder: nothing); whatever was
               at `p`, below `p` (it was a directory) or on the way to `p` (a file turned into a
               directory) is gone
  remove p     `p` and everything below it is gone
  mkdir p      (`cursor_at`) `p` is to be a directory: files at `p` or on the way to it are gone

This is what `git update-index --index-info` + `git write-tree` build from scratch for the
resulting set of paths (the harness asks git on every run).
-/
namespace GixModel.Spec.C04
open GixModel

abbrev Path := List Bytes
abbrev Leaf := Nat × Bytes
abbrev FS := Path → Option Leaf

def empty : FS := fun _ => none

def upsert (p : Path) (v : Option Leaf) (fs : FS) : FS := fun q =>
  if q = p then v else if p <+: q ∨ q <+: p then none else fs q

def remove (p : Path) (fs : FS) : FS := fun q => if p <+: q then none else fs q

def mkdir (p : Path) (fs : FS) : FS := fun q => if q <+: p then none else fs q

/-- graft: the whole file system `sub` is put at `p` as a directory (`upsert` of kind Tree with the id
of a stored tree); whatever was at, below or on the way to `p` is gone -/
def graft (p : Path) (sub : FS) (fs : FS) : FS := fun q =>
  if p <+: q then (if q = p then none else sub (q.drop p.length))
  else if q <+: p then none else fs q

/-- restriction to what lies below `p` (the view of a cursor at `p`) -/
def below (p : Path) (fs : FS) : FS := fun q => fs (p ++ q)

end GixModel.Spec.C04
