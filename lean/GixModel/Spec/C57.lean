import GixModel.Basic.Hex
/-
C57 — git's side: a transcription of `quote.c: quote_c_style_counted` (git 2.39.5) for the two
settings of `core.quotePath` (`quote_path_fully`), without `CQUOTE_NODQ`.

  cq_lookup[c]:  1 = quote as octal; 0 = quote as octal iff quote_path_fully; -1 = never quote;
                 a letter = quote as backslash + that letter.
  cq_must_quote(c) = cq_lookup[c] + quote_path_fully > 0
  output: unchanged if no byte must be quoted, else `"` + per-byte pieces + `"`.

The transcription is validated on every run against the real git binary (`git mktree -z` +
`git ls-tree`, with core.quotePath true and false) through the correspondence channel (op `gitq`).
NUL is handled like the table says (octal `\000`), although git itself never sees a NUL inside a
path.
-/
namespace GixModel.C57
open GixModel

/-- `cq_lookup` -/
def cqLookup (c : UInt8) : Int :=
  if c = 7 then 97        -- 'a'
  else if c = 8 then 98   -- 'b'
  else if c = 9 then 116  -- 't'
  else if c = 10 then 110 -- 'n'
  else if c = 11 then 118 -- 'v'
  else if c = 12 then 102 -- 'f'
  else if c = 13 then 114 -- 'r'
  else if c < 32 then 1
  else if c = 34 then 34  -- '"'
  else if c = 92 then 92  -- '\\'
  else if c < 127 then -1
  else if c = 127 then 1
  else 0                  -- 0x80.. "set to 0"

/-- `cq_must_quote` with `quote_path_fully = full` -/
def mustQuote (full : Bool) (c : UInt8) : Bool := cqLookup c + (if full then 1 else 0) > 0

/-- `((ch >> 6) & 03) + '0'`, `((ch >> 3) & 07) + '0'`, `((ch >> 0) & 07) + '0'` -/
def octD0 (c : UInt8) : UInt8 := ((c >>> 6) &&& 3) + 48
def octD1 (c : UInt8) : UInt8 := ((c >>> 3) &&& 7) + 48
def octD2 (c : UInt8) : UInt8 := (c &&& 7) + 48

/-- what the loop body emits for one byte that must be quoted -/
def escByte (c : UInt8) : Bytes :=
  if cqLookup c ≥ 32 then [92, UInt8.ofNat (cqLookup c).toNat]
  else [92, octD0 c, octD1 c, octD2 c]

def quotePiece (full : Bool) (c : UInt8) : Bytes := if mustQuote full c then escByte c else [c]

def needsQuote (full : Bool) (bs : Bytes) : Bool := bs.any (mustQuote full)

/-- `quote_c_style(name, …)` -/
def gitQuote (full : Bool) (bs : Bytes) : Bytes :=
  if needsQuote full bs then [34] ++ bs.flatMap (quotePiece full) ++ [34] else bs

end GixModel.C57
