import GixModel.Basic.Tree
/-
C03 — what git does: transcription of `base_name_compare` (read-cache.c, git 2.39.5), the
comparison `git mktree` (`ent_compare`), `write-tree`/cache-tree and `fsck` use for tree entries:

    int base_name_compare(const char *name1, size_t len1, int mode1,
                          const char *name2, size_t len2, int mode2)
    {
        unsigned char c1, c2;
        size_t len = len1 < len2 ? len1 : len2;
        int cmp;

        cmp = memcmp(name1, name2, len);
        if (cmp)
            return cmp;
        c1 = name1[len];
        c2 = name2[len];
        if (!c1 && S_ISDIR(mode1))
            c1 = '/';
        if (!c2 && S_ISDIR(mode2))
            c2 = '/';
        return (c1 < c2) ? -1 : (c1 > c2) ? 1 : 0;
    }

Names are C strings: `name[len]` with `len = strlen(name)` reads the terminating NUL. Only the
sign of the result is used by callers (`QSORT`), and only the sign of `memcmp` is specified.
-/
namespace GixModel.Spec.C03
open GixModel

/-- `memcmp(a, b, n)`: difference of the first differing bytes (as unsigned char) among the first
`n`, else 0. (`n ≤` both lengths at the only call site; running off an end gives 0.) -/
def memcmp : Bytes → Bytes → Nat → Int
  | a :: as, b :: bs, n + 1 => if a = b then memcmp as bs n else (a.toNat : Int) - (b.toNat : Int)
  | _, _, _ => 0

/-- `name[i]` of a NUL-terminated C string -/
def cstrAt (name : Bytes) (i : Nat) : UInt8 :=
  match name[i]? with
  | some c => c
  | none => 0

/-- `S_ISDIR(mode)`: `(mode & S_IFMT) == S_IFDIR` -/
def sIsDir (mode : Nat) : Bool := (mode &&& 0o170000) == 0o040000

def baseNameCompare (name1 : Bytes) (mode1 : Nat) (name2 : Bytes) (mode2 : Nat) : Int :=
  let len := if name1.length < name2.length then name1.length else name2.length
  let cmp := memcmp name1 name2 len
  if cmp ≠ 0 then cmp
  else
    let c1 := cstrAt name1 len
    let c2 := cstrAt name2 len
    let c1 := if c1 == 0 && sIsDir mode1 then 47 else c1
    let c2 := if c2 == 0 && sIsDir mode2 then 47 else c2
    if c1 < c2 then -1 else if c1 > c2 then 1 else 0

/-- how a caller (`QSORT`) reads the `int` -/
def ordOfInt (i : Int) : Ordering := if i < 0 then .lt else if i = 0 then .eq else .gt

def NulFree (n : Bytes) : Prop := ∀ b ∈ n, b ≠ 0

instance (n : Bytes) : Decidable (NulFree n) := by unfold NulFree; infer_instance

end GixModel.Spec.C03
