import GixModel.Model.C09M
import GixModel.Spec.C14
/-
C09 — the bytes `multi_index::File::write_from_index_paths` writes for the tables `midxBuild`
computes (`multi_index/write.rs`, `multi_index/chunk.rs`: `write_header`, `index_names::write` with
its padding to 4 bytes, `fanout::write`, `lookup::write`, `offsets::write`, `large_offsets::write`,
`gix_chunk::file::write`). Tied to the real writer by the harness (`midx` + `midxraw` operations on
the same file); used as the specification side of `Props.C09.midx_bytes_roundtrip`.
-/
namespace GixModel.C09M
open GixModel

-- (the definitions `namesPayload`, `ooffPayload`, `mChunks`, `mHeader`, `mWrite` live in Model/C09M.lean so that the
-- driver can print the bytes: operation `midxw`, compared with the real writer's output byte for byte)

end GixModel.C09M
