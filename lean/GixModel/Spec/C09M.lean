import GixModel.Model.C09M
import GixModel.Spec.C14
/-
C09 — the bytes `multi_index::File::write_from_index_paths` writes for the tables `midxBuild`
computes (`multi_index/write.rs`, `multi_index/chunk.rs`: `write_header`, `index_names::write` with
its padding to 4 bytes, `fanout::write`, `lookup::write`, `offsets::write`, `large_offsets::write`,
`gix_chunk::file::write`). Tied to the real writer by the harness (`midx` + `midxraw` operations on
the same file); used as the specification side of `Props.C09.midx_bytes_roundtrip`.
-/
namespace GixModel.C09M
open GixModel
open GixModel.C09 (be32 be64 Midx)
open GixModel.C14 (tocBytes layout optChunk)

/-- `index_names::write`: every name followed by NUL, then zero padding up to a multiple of 4 -/
def namesPayload (names : List Bytes) : Bytes :=
  let b := names.flatMap (fun n => n ++ [0])
  b ++ List.replicate (if b.length % 4 = 0 then 0 else 4 - b.length % 4) 0

/-- `offsets::write`: pack index and 32-bit offset word per object -/
def ooffPayload (x : Midx) : Bytes := ((x.packIds.zip x.ofs32).map (fun p => be32 p.1 ++ be32 p.2)).flatten

/-- the chunks in the order they are planned -/
def mChunks (names : List Bytes) (x : Midx) : List (Bytes × Bytes) :=
  [(PNAM, namesPayload names), (OIDF, x.fan.flatMap be32), (OIDL, x.ids.flatten), (OOFF, ooffPayload x)]
    ++ optChunk LOFF (x.large.map (fun l => l.flatMap be64))

def mHeader (names : List Bytes) (x : Midx) : Bytes :=
  [77, 73, 68, 88, 1, 1, UInt8.ofNat (mChunks names x).length, 0] ++ be32 names.length

/-- the whole multi-pack-index file (`trailer` = the checksum, not modelled) -/
def mWrite (names : List Bytes) (x : Midx) (trailer : Bytes) : Bytes :=
  mHeader names x ++ (tocBytes (layout (mChunks names x) (12 + 12 * ((mChunks names x).length + 1)))
    ++ (((mChunks names x).map (·.2)).flatten ++ trailer))

end GixModel.C09M
