import GixModel.Model.C28
import GixModel.Spec.C26
/-
C28 — what an edited file *says* (its view), in terms of which the frame properties are stated.
-/
namespace GixModel.C28
open GixModel GixModel.C26 GixModel.C27

/-- the comments of an event list, in order -/
def commentsOf (evs : List Event) : List Event := evs.filter isComment

/-- (section, sub-section, key, raw value text) of one section, in order -/
def Sec.entries (s : Sec) : List Entry := bodyEntries s.header s.body none []

/-- the view of a file: per section its header and entries -/
def FileS.view (f : FileS) : List (Header × List Entry) := f.sections.map fun s => (s.header, s.entries)

def FileS.comments (f : FileS) : List (List Event) := f.sections.map fun s => commentsOf s.body

/-- run a history, skipping the calls that fail (a failed call changes nothing) -/
def applyAll : FileS → List Op → FileS
  | f, [] => f
  | f, op :: rest =>
    match apply f op with
    | .ok f1 => applyAll f1 rest
    | _ => applyAll f rest

def Op.isRemoveSection : Op → Bool
  | .removeSection _ _ => true
  | _ => false

end GixModel.C28
