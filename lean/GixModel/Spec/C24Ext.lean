import GixModel.Spec.C24
/-
C24 — what GIT writes for the remaining index extensions (git 2.39 `ewah/ewah_io.c`,
`split-index.c`, `fsmonitor.c`, `dir.c`), transcribed from the C code:

  ewah_serialize_strbuf            → `gitEncodeEwah`
  write_link_extension             → `gitEncodeLink`
  write_fsmonitor_extension        → `gitEncodeFsmn`
  write_untracked_extension + write_one_dir → `gitEncodeUntr`

Which words a bitmap consists of is git's compression choice; the transcription takes the bitmap
(bit size, words, position of the last run-length word) as given. Validated against the git binary
by the `spec` driver op (UNTR of git-written indices, link of split indices).
-/
namespace GixModel.Spec.C24
open GixModel GixModel.C24

def be64 (n : Nat) : Bytes := be32 (n / 4294967296) ++ be32 (n % 4294967296)

/-- `ewah_serialize_strbuf`: bit size, word count, the words big-endian, the position of the
current run-length word -/
def gitEncodeEwah (e : Ewah) : Bytes :=
  be32 e.numBits ++ (be32 e.words.length ++ (e.words.flatMap be64 ++ be32 e.rlw))

/-- `write_link_extension`: the checksum of the shared index and, unless both bitmaps are absent,
the delete and the replace bitmap -/
def gitEncodeLink (l : Link) : Bytes :=
  l.checksum ++
    (match l.bitmaps with
     | none => []
     | some (del, rep) => gitEncodeEwah del ++ gitEncodeEwah rep)

/-- `write_fsmonitor_extension`: version (2: the token string with its NUL; 1 was: a 64-bit
timestamp), the byte size of the bitmap that follows, the bitmap -/
def gitEncodeFsmn (f : FsMonitor) : Bytes :=
  be32 f.version ++ ((if f.version = 1 then f.token else f.token ++ [0]) ++
    (be32 (gitEncodeEwah f.dirty).length ++ gitEncodeEwah f.dirty))

/-- `stat_data_to_disk`: ctime, mtime, dev, ino, uid, gid, size -/
def gitEncodeStat (s : Stat) : Bytes :=
  be32 s.ctimeS ++ (be32 s.ctimeN ++ (be32 s.mtimeS ++ (be32 s.mtimeN ++ (be32 s.dev ++ (be32 s.ino ++
    (be32 s.uid ++ (be32 s.gid ++ be32 s.size)))))))

/-- one directory of the untracked cache as git holds it (`struct untracked_cache_dir`):
its untracked names, the sub-directories that are written (`recurse`) -/
inductive UNode where
  | mk (name : Bytes) (untracked : List Bytes) (children : List UNode)

mutual
  /-- `write_one_dir`: number of untracked names, number of written sub-directories, the name,
  the untracked names (each with NUL), then the sub-directories -/
  def gitEncodeUNode : UNode → Bytes
    | .mk name untracked children =>
      encodeVarint untracked.length ++ (encodeVarint children.length ++ (name ++ (0 ::
        ((untracked.flatMap fun n => n ++ [0]) ++ gitEncodeUNodes children))))
  def gitEncodeUNodes : List UNode → Bytes
    | [] => []
    | n :: ns => gitEncodeUNode n ++ gitEncodeUNodes ns
end

mutual
  def UNode.count : UNode → Nat
    | .mk _ _ children => 1 + UNode.counts children
  def UNode.counts : List UNode → Nat
    | [] => 0
    | n :: ns => n.count + UNode.counts ns
end

/-- the part of `write_untracked_extension` before the directories: ident (with its length),
the stat data of info/exclude and of core.excludesFile, the directory flags, the two hashes, the
name of the per-directory exclude file -/
def gitEncodeUntrHeader (ident : Bytes) (infoStat exclStat : Stat) (dirFlags : Nat) (infoOid exclOid perDir : Bytes) :
    Bytes :=
  encodeVarint ident.length ++ (ident ++ (gitEncodeStat infoStat ++ (gitEncodeStat exclStat ++
    (be32 dirFlags ++ (infoOid ++ (exclOid ++ (perDir ++ [0])))))))

/-- `write_untracked_extension`: header, then — if there is a root — the number of directories,
the directories in pre-order, the bitmaps `valid`, `check_only`, `sha1_valid`, the stat data of
the valid directories and the exclude-file hashes of the hashed ones (both in index order), and a
final NUL; without a root a single 0. -/
def gitEncodeUntr (header : Bytes) (root : Option UNode) (valid checkOnly hashValid : Ewah)
    (stats : List Stat) (oids : List Bytes) : Bytes :=
  header ++
    (match root with
     | none => encodeVarint 0
     | some r =>
       encodeVarint r.count ++ (gitEncodeUNode r ++ (gitEncodeEwah valid ++ (gitEncodeEwah checkOnly ++
         (gitEncodeEwah hashValid ++ (stats.flatMap gitEncodeStat ++ (oids.flatMap id ++ [0])))))))

/-! ### re-encoding what was decoded (driver op `spec`) -/

/-- rebuild the directory tree from the flat list and its sub-directory indices -/
def unflatten (dirs : List UDir) : Nat → Nat → Option UNode
  | 0, _ => none
  | fuel + 1, i =>
    match dirs[i]? with
    | none => none
    | some d =>
      match d.subDirs.mapM (unflatten dirs fuel) with
      | none => none
      | some cs => some (.mk d.name d.untracked cs)

/-- decode a UNTR payload with the model, re-encode it with the transcription of git's writer (the
three bitmaps are taken from where the model finds them), compare with git's bytes -/
def untrSpecCheck (payload : Bytes) : String :=
  match untrDecode payload with
  | .ok (some u) =>
    let nullStat : Stat := ⟨0, 0, 0, 0, 0, 0, 0, 0, 0⟩
    let infoStat := (u.infoExclude.map (·.stat)).getD nullStat
    let exclStat := (u.excludesFile.map (·.stat)).getD nullStat
    let nullOid := List.replicate hashLen 0
    let header := gitEncodeUntrHeader u.identifier infoStat exclStat u.dirFlags
      ((u.infoExclude.map (·.id)).getD nullOid) ((u.excludesFile.map (·.id)).getD nullOid) u.excludePerDir
    match u.dirs with
    | [] => cmpBytes "untr" (gitEncodeUntr header none ⟨0, [], 0⟩ ⟨0, [], 0⟩ ⟨0, [], 0⟩ [] []) payload
    | _ =>
      match unflatten u.dirs (u.dirs.length + 1) 0 with
      | none => "untr=unflatten-failed"
      | some root =>
        let pre := header ++ (encodeVarint root.count ++ gitEncodeUNode root)
        match ewahDecode (payload.drop pre.length) with
        | none => "untr=bitmaps-undecodable"
        | some (valid, d) =>
          match ewahDecode d with
          | none => "untr=bitmaps-undecodable"
          | some (checkOnly, d) =>
            match ewahDecode d with
            | none => "untr=bitmaps-undecodable"
            | some (hashValid, _) =>
              cmpBytes "untr" (gitEncodeUntr header (some root) valid checkOnly hashValid
                (u.dirs.filterMap (·.stat)) (u.dirs.filterMap (·.excludeOid))) payload
  | _ => "untr=undecodable"

def linkSpecCheck (payload : Bytes) : String :=
  match linkDecode payload with
  | some l => cmpBytes "link" (gitEncodeLink l) payload
  | none => "link=undecodable"

def extSpecCheck (data : Bytes) : String :=
  match headerDecode data with
  | none => "not-an-index"
  | some (version, n, postHeader) =>
    match chunk (version == 4) n postHeader with
    | none => "entries-not-decodable"
    | some (_, rest) =>
      let extOffset := 12 + (postHeader.length - rest.length)
      let u := match extPayload data extOffset sigUNTR with
        | none => "untr=absent"
        | some p => untrSpecCheck p
      let l := match extPayload data extOffset sigLink with
        | none => "link=absent"
        | some p => linkSpecCheck p
      s!"{u} {l}"

end GixModel.Spec.C24
