import GixModel.Spec.C47Kahn
import GixModel.Model.C47Walks
/-
C47 — `gitTopoOrder2`: the executable form of `gitKahn` that the harness compares with the git
binary (`gitorder2` operations). The selection `git rev-list tips ^hidden` is computed with two
breadth-first `Simple` walks of the (verified, see `Lemmas.C47Simple.simple_spec`) model: the
ancestors of the hidden tips, then the commits reachable from the tips that are not among them.
-/
namespace GixModel.Spec.C47
open GixModel.CG GixModel.C47

def leIntS (a b : Int) : Bool := decide (a ≤ b)

/-- everything reachable from `xs` that `pred` accepts (walking only through accepted commits) -/
def reachList (g : Dag) (n : Nat) (pred : Nat → Bool) (xs : List Nat) : List Nat :=
  match simpleWalk g (listPQ leIntS) { pred := pred, sorting := .breadthFirst, firstParent := false } n xs with
  | .ok l => l
  | _ => []

def hiddenList (g : Dag) (n : Nat) (hidden : List Nat) : List Nat := reachList g n (fun _ => true) hidden

/-- `git rev-list tips ^hidden` selects `x` -/
def selOf (g : Dag) (n : Nat) (tips hidden : List Nat) : Nat → Bool :=
  let hid := hiddenList g n hidden
  let vis := reachList g n (fun x => !hid.contains x) tips
  fun x => vis.contains x

def gitTopoOrder2 (g : Dag) (n : Nat) (tips hidden : List Nat) (dateOrder : Bool) : List Nat :=
  gitKahn g (selOf g n tips hidden) (List.range n) tips dateOrder n

end GixModel.Spec.C47
