import GixModel.Spec.C48
import GixModel.Model.C48R
/-
C48 (round 2) — a direct denotational semantics of the revision grammar over an abstract repository:
`denote R ast` is what gitrevisions(7) says the spec names, transcribed clause by clause (ref lookup
by the DWIM rules, `<rev>~<n>` = n-th first-parent ancestor of the commit `<rev>` peels to,
`<rev>^<n>` = n-th parent, `<rev>^{<type>}` = peel until that type, `<rev>^{}` = peel tags,
`<rev>:<path>` = entry of the tree `<rev>` peels to, `:<n>:<path>` = index entry, `<ref>@{<n>}` =
n-th prior value from the reflog, `@{-<n>}` = n-th branch checked out before, `<branch>@{upstream}`,
`r1..r2`, `r1...r2`, `^r`, `r^@`, `r^!`, `r^-<n>`).

Where today's gitoxide is known to deviate from git, the clause follows GIT and the theorem in
`Props/C48.lean` carries the class as an explicit hypothesis (`Clean`).
-/
namespace GixModel.Spec.C48D
open GixModel GixModel.C48 GixModel.C48R
open GixModel.Spec.C48 (Nav Anchor Rev Ast)

def unique (l : List Nat) : Option Nat :=
  match l with
  | [x] => some x
  | _ => none

/-- the branch HEAD points to -/
def headBranch (R : Repo) : Option Ref := R.headRef.bind R.lookupFull

def denoteNav (R : Repo) (fuel : Nat) (n : Nav) (x : Nat) : Option Nat :=
  match n with
  | .parent k => (toCommit R fuel x).bind fun y => (R.parents y)[k - 1]?
  | .parent1 => (toCommit R fuel x).bind fun y => (R.parents y)[0]?
  | .ancestor k => (toCommit R fuel x).bind (ancestor R k)
  | .ancestor1 => (toCommit R fuel x).bind (ancestor R 1)
  | .commit0 => peelTo R .commit fuel x
  | .peel k => peelTo R k fuel x
  | .peelObject => if R.has x then some x else none
  | .peelTags => peelTags R fuel x
  | .search re neg => (toCommit R fuel x).bind fun y => R.search (some y) re neg

def denoteNavs (R : Repo) (fuel : Nat) : List Nav → Nat → Option Nat
  | [], x => some x
  | n :: ns, x => (denoteNav R fuel n x).bind (denoteNavs R fuel ns)

/-- the reference a `@{…}` suffix is about: the named one, or the current branch -/
def baseRef (R : Repo) (n : Option Bytes) : Option Ref :=
  match n with
  | some n => R.findRef n
  | none => headBranch R

def denoteAnchor (R : Repo) (fuel : Nat) : Anchor → Option Nat
  | .ref n => (R.findRef n).map (·.target)
  | .hex h =>
    -- a full object name is that object; a shorter one may also be a reference, which wins
    if h.length == 40 then unique (R.byPrefix (h.map lower))
    else match R.findRef (h.map lower) with
      | some r => some r.target
      | none => unique (R.byPrefix (h.map lower))
  | .describe _ _ h => unique (R.byPrefix (h.map lower))
  | .head => (R.findRef HEAD).map (·.target)
  | .reflog n k => (baseRef R n).bind fun r => (R.reflog r.name).bind fun log => log[k]?
  | .nthCheckedOut k =>
    (R.checkouts[k - 1]?).bind fun c =>
      match R.findRef c.1 with
      | some r => some ((peelTags R fuel r.target).getD c.2)
      | none => some c.2
  | .sibling n push =>
    let base : Option Ref := match n with
      | some n => (R.findRef n).map fun (r : Ref) => if r.name == HEAD then (headBranch R).getD r else r
      | none => headBranch R
    base.bind fun (b : Ref) => ((R.tracking b.name push).bind R.lookupFull).map fun (t : Ref) => t.target
  | .date _ _ => none

def denotePath (R : Repo) (fuel : Nat) (p : Option Bytes) (x : Nat) : Option Nat :=
  match p with
  | none => some x
  | some p => (peelTo R .tree fuel x).bind fun t => if p.isEmpty then some t else R.treePath t p

def denoteRev (R : Repo) (fuel : Nat) : Rev → Option Nat
  | .nav a ns p => ((denoteAnchor R fuel a).bind (denoteNavs R fuel ns)).bind (denotePath R fuel p)
  | .searchAll re neg => R.search none re neg
  | .index st p => R.index p (st.getD 0)

/-- a missing side of a range is HEAD -/
def denoteOpt (R : Repo) (fuel : Nat) : Option Rev → Option Nat
  | none => (R.findRef HEAD).map (·.target)
  | some r => denoteRev R fuel r

/-- the sides of ranges and of `^@ ^! ^-` must be commits (possibly through tags) -/
def commitish (R : Repo) (fuel : Nat) (x : Nat) : Option Nat := (toCommit R fuel x).map fun _ => x

def denote (R : Repo) (fuel : Nat) : Ast → Option RSpec
  | .single r => (denoteRev R fuel r).map .include_
  | .exclude r => (denoteRev R fuel r).map .exclude
  | .range a b =>
    ((denoteOpt R fuel a).bind (commitish R fuel)).bind fun x =>
      ((denoteOpt R fuel b).bind (commitish R fuel)).map fun y => .range x y
  | .merge a b =>
    ((denoteOpt R fuel a).bind (commitish R fuel)).bind fun x =>
      ((denoteOpt R fuel b).bind (commitish R fuel)).map fun y => .merge x y
  | .parents r => ((denoteRev R fuel r).bind (commitish R fuel)).map .includeParents
  | .excludeParents r => ((denoteRev R fuel r).bind (commitish R fuel)).map .excludeParents
  | .parentRange r n =>
    (denoteRev R fuel r).bind fun x =>
      ((toCommit R fuel x).bind fun y => (R.parents y)[n - 1]?).map fun p => .range p x

def toOutcome : Option RSpec → Outcome
  | some s => .ok s
  | none => .err

/-! ### the classes in which today's gitoxide is known to answer differently (explicit predicates) -/

def anchorClean (R : Repo) : Anchor → Prop
  -- an abbreviated id names exactly one object (ambiguity: gitoxide keeps all candidates and lets
  -- later steps choose — recorded; no candidate: the tokenizer falls back to a ref lookup, which the
  -- interpretation of `calls` does not include)
  | .hex h => ∃ x, R.byPrefix (h.map lower) = [x]
  -- … and for describe output no reference is named like its hex part (gitoxide would prefer it)
  | .describe _ _ h => (∃ x, R.byPrefix (h.map lower) = [x]) ∧ (h.length = 40 ∨ R.findRef (h.map lower) = none)
  -- reflog lookup by date is not implemented
  | .date _ _ => False
  | _ => True

def revClean (R : Repo) : Rev → Prop
  | .nav a _ _ => anchorClean R a
  | _ => True

def OptClean (R : Repo) : Option Rev → Prop
  | none => True
  | some r => revClean R r

/-- gitoxide does not check that the sides of a range are commits (recorded) -/
def Commitish (R : Repo) (fuel : Nat) (x : Option Nat) : Prop :=
  ∀ v, x = some v → (toCommit R fuel v).isSome

def astClean (R : Repo) (fuel : Nat) : Ast → Prop
  | .single r => revClean R r
  | .exclude r => revClean R r
  | .range a b => OptClean R a ∧ OptClean R b ∧ Commitish R fuel (denoteOpt R fuel a) ∧ Commitish R fuel (denoteOpt R fuel b)
  | .merge a b => OptClean R a ∧ OptClean R b ∧ Commitish R fuel (denoteOpt R fuel a) ∧ Commitish R fuel (denoteOpt R fuel b)
  | .parents r => revClean R r ∧ Commitish R fuel (denoteRev R fuel r)
  | .excludeParents r => revClean R r ∧ Commitish R fuel (denoteRev R fuel r)
  | .parentRange r _ => revClean R r

/-! ### a small repository for the non-vacuity examples: commits 0 ← 1 (tree 9), tag 2 → 1,
`main` → 1, tags `v` → 2 and `t` → 9 (a tree) -/

def demo : Repo where
  has x := x == 0 || x == 1 || x == 2 || x == 9
  kind x := if x == 2 then .tag else if x == 9 then .tree else .commit
  parents x := if x == 1 then [0] else []
  treeOf _ := 9
  target _ := 1
  byPrefix _ := []
  refs := [([114,101,102,115,47,104,101,97,100,115,47,109,97,105,110], 1),
           ([114,101,102,115,47,116,97,103,115,47,118], 2),
           ([114,101,102,115,47,116,97,103,115,47,116], 9)]
  headRef := some [114,101,102,115,47,104,101,97,100,115,47,109,97,105,110]
  reflog _ := none
  checkouts := []
  tracking _ _ := none
  treePath _ _ := none
  index _ _ := none
  search _ _ _ := none

def main_ : Bytes := [109,97,105,110]

end GixModel.Spec.C48D
