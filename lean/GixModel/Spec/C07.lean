import GixModel.Model.C07
/-
C07 — git's side of the delta format (diff-delta.c `create_delta` / patch-delta.c): a delta is
the base size, the target size (little-endian base-128) and a list of instructions. What a delta
MEANS (`sem`) is independent of gitoxide; `encDelta` is the byte layout git writes, generalised
over the encoder's freedom to spell out zero bytes (`extra` flag bits).
-/
namespace GixModel.C07
open GixModel

inductive Instr
  /-- copy `len` bytes of the base starting at `ofs`; `extra` = flag bits (0..127) the encoder
  sets although the corresponding offset/size byte is zero (git sets none) -/
  | copy (ofs len extra : Nat)
  /-- insert 1..127 literal bytes -/
  | insert (bs : Bytes)
  deriving Repr, DecidableEq

/-- the target a list of instructions describes -/
def sem (base : Bytes) : List Instr → Bytes
  | [] => []
  | .copy ofs len _ :: is => (base.drop ofs).take len ++ sem base is
  | .insert bs :: is => bs ++ sem base is

/-- what git can express: a copy stays inside the base, its offset fits 32 bits and its length
24 bits (git itself emits at most 0x10000 per copy); an insert carries 1..127 bytes -/
def Instr.Wf (base : Bytes) : Instr → Prop
  | .copy ofs len extra => 1 ≤ len ∧ len < 16777216 ∧ ofs < 4294967296 ∧ ofs + len ≤ base.length ∧ extra < 128
  | .insert bs => 1 ≤ bs.length ∧ bs.length ≤ 127

instance (base : Bytes) (i : Instr) : Decidable (i.Wf base) := by
  cases i <;> unfold Instr.Wf <;> infer_instance

/-- the `k`-th byte of `v` -/
def byteAt (v k : Nat) : Nat := v / 256 ^ k % 256

/-- is the optional byte `k` (0..3 offset, 4..6 size) present? git: iff it is non-zero -/
def present (b extra k : Nat) : Bool := b != 0 || extra / 2 ^ k % 2 == 1

def optEnc (p : Bool) (b : Nat) : Bytes := if p then [UInt8.ofNat b] else []

def flag (p : Bool) (k : Nat) : Nat := if p then 2 ^ k else 0

/-- the size field: 0x10000 is written as 0 -/
def sizeField (len : Nat) : Nat := if len = 65536 then 0 else len

def encInstr : Instr → Bytes
  | .insert bs => UInt8.ofNat bs.length :: bs
  | .copy ofs len extra =>
    let f := sizeField len
    let p0 := present (byteAt ofs 0) extra 0
    let p1 := present (byteAt ofs 1) extra 1
    let p2 := present (byteAt ofs 2) extra 2
    let p3 := present (byteAt ofs 3) extra 3
    let p4 := present (byteAt f 0) extra 4
    let p5 := present (byteAt f 1) extra 5
    let p6 := present (byteAt f 2) extra 6
    UInt8.ofNat (128 + flag p0 0 + flag p1 1 + flag p2 2 + flag p3 3 + flag p4 4 + flag p5 5 + flag p6 6) ::
      (optEnc p0 (byteAt ofs 0) ++ (optEnc p1 (byteAt ofs 1) ++ (optEnc p2 (byteAt ofs 2) ++
      (optEnc p3 (byteAt ofs 3) ++ (optEnc p4 (byteAt f 0) ++ (optEnc p5 (byteAt f 1) ++
      optEnc p6 (byteAt f 2)))))))

def encInstrs : List Instr → Bytes
  | [] => []
  | i :: is => encInstr i ++ encInstrs is

/-- the size header: little-endian base-128 with continuation bits -/
def encSize : Nat → Nat → Bytes
  | 0, n => [UInt8.ofNat (n % 128)]
  | fuel + 1, n =>
    if n / 128 = 0 then [UInt8.ofNat (n % 128)]
    else UInt8.ofNat (n % 128 + 128) :: encSize fuel (n / 128)

/-- the delta git writes for `instrs` against `base` -/
def encDelta (base : Bytes) (instrs : List Instr) : Bytes :=
  encSize 10 base.length ++ (encSize 10 (sem base instrs).length ++ encInstrs instrs)

end GixModel.C07
