import GixModel.Model.C14
/-
C14 — git's side: what `commit-graph.c` (git 2.39: `write_graph_chunk_data`,
`write_graph_chunk_extra_edges`, `write_graph_chunk_fanout`, `write_graph_chunk_oids`) writes for a
layer of commits. This is the specification the reader (`Model.C14`) is compared with; it is
*not* gitoxide code (gitoxide has no commit-graph writer).

A commit as the writer knows it: root tree, parents as *graph positions* (position in the whole
chain, base files first), topological level ("generation") and committer date.
-/
namespace GixModel.C14
open GixModel
open GixModel.C09 (be32)

structure SCommit where
  tree : Bytes
  parents : List Nat
  generation : Nat
  time : Nat
  deriving Repr, DecidableEq

/-- first parent field: `GRAPH_PARENT_NONE` or the position -/
def sParent1 (c : SCommit) : Nat :=
  match c.parents with
  | [] => NO_PARENT
  | p :: _ => p

/-- second parent field: none, the position, or `GRAPH_EXTRA_EDGES_NEEDED | num_extra_edges` -/
def sParent2 (c : SCommit) (edgeBase : Nat) : Nat :=
  match c.parents with
  | [] => NO_PARENT
  | [_] => NO_PARENT
  | [_, q] => q
  | _ :: _ :: _ :: _ => EXTENDED_EDGES_MASK + edgeBase

/-- the entries appended to the extra edge list: all parents but the first, the last one marked -/
def markLast : List Nat → List Nat
  | [] => []
  | [p] => [p + EXTENDED_EDGES_MASK]
  | p :: q :: rest => p :: markLast (q :: rest)

def sExtraEdges (c : SCommit) : List Nat :=
  match c.parents with
  | _ :: q :: r :: rest => markLast (q :: r :: rest)
  | _ => []

/-- the 36-byte CDAT record: tree, parent fields, `generation << 2 | date >> 32 & 3`, low 32 bits of the date -/
def sRecord (c : SCommit) (edgeBase : Nat) : Bytes :=
  c.tree ++ be32 (sParent1 c) ++ be32 (sParent2 c edgeBase)
    ++ be32 (c.generation * 4 + c.time / 4294967296 % 4) ++ be32 (c.time % 4294967296)

/-- CDAT records and extra edge entries of a layer, commits in id order; `edgeBase` counts the
entries already in the list -/
def sLayer : List SCommit → Nat → List Bytes × List Nat
  | [], _ => ([], [])
  | c :: rest, edgeBase =>
    let r := sLayer rest (edgeBase + (sExtraEdges c).length)
    (sRecord c edgeBase :: r.1, sExtraEdges c ++ r.2)

/-- a layer: its commits in ascending id order -/
structure SLayer where
  ids : List Bytes
  commits : List SCommit
  deriving Repr

/-- the chunks of the file git writes for a layer (fan-out = cumulative counts of first bytes) -/
def sFile (l : SLayer) (baseCount : Nat) : File :=
  let r := sLayer l.commits 0
  { baseGraphCount := baseCount
    baseGraphs := none
    cdat := r.1.flatten
    edges := if r.2.isEmpty then none else some (r.2.flatMap be32)
    fan := (List.range 256).map (fun b => (l.ids.filter (fun id => decide ((id.headD 0).toNat ≤ b))).length)
    oidl := l.ids.flatten }

/-! ### the chunk file git writes (`chunk-format.c`: `write_chunkfile`) -/

/-- table-of-contents entries: 4-byte id + 8-byte big-endian offset each -/
def tocBytes (es : List (Bytes × Nat)) : Bytes := es.flatMap (fun e => e.1 ++ C09.be64 e.2)

/-- chunk ids with their start offsets when the payloads are laid out back to back from `pos`,
terminated by the zero id with the end offset -/
def layout : List (Bytes × Bytes) → Nat → List (Bytes × Nat)
  | [], pos => [([0, 0, 0, 0], pos)]
  | (k, p) :: rest, pos => (k, pos) :: layout rest (pos + p.length)

/-- header, table of contents, payloads, trailing checksum -/
def sWriteChunks (hdr : Bytes) (cs : List (Bytes × Bytes)) (trailer : Bytes) : Bytes :=
  hdr ++ (tocBytes (layout cs (8 + 12 * (cs.length + 1))) ++ ((cs.map (·.2)).flatten ++ trailer))

/-- a chunk that is only written when there is something to put in it -/
def optChunk (kind : Bytes) : Option Bytes → List (Bytes × Bytes)
  | some payload => [(kind, payload)]
  | none => []

/-- the hashes of the base graphs, if any -/
def basePayload (bases : List Bytes) : Option Bytes := if bases.isEmpty then none else some bases.flatten

/-- the chunks of a layer: OIDF, OIDL, CDAT, then EDGE if there are extra edges, then BASE if the
layer has base graphs -/
def sGraphChunks (l : SLayer) (bases : List Bytes) : List (Bytes × Bytes) :=
  let f := sFile l bases.length
  [(OIDF, f.fan.flatMap be32), (OIDL, f.oidl), (CDAT, f.cdat)]
    ++ optChunk EDGE f.edges ++ optChunk BASE (basePayload bases)

/-- the whole commit-graph file of a layer (`trailer` = the checksum, not modelled) -/
def sWriteGraph (l : SLayer) (bases : List Bytes) (trailer : Bytes) : Bytes :=
  sWriteChunks [67, 71, 80, 72, 1, 1, UInt8.ofNat (sGraphChunks l bases).length, UInt8.ofNat bases.length]
    (sGraphChunks l bases) trailer

end GixModel.C14
