import GixModel.Model.C05
/-
C05 — declarative notions the property compares the code with: ASCII lower-casing, "the first n
hex digits" (`hexPrefix`), "keep the first n nibbles, zero the rest" (`maskTo`), "all digits from
position n on are '0'" (`ZeroPast`) and the well-formedness invariant of `Prefix` values.
-/
namespace GixModel.C05
open GixModel

/-- ASCII lower-casing of one byte -/
def lowerAscii (c : UInt8) : UInt8 := if 65 ≤ c ∧ c ≤ 90 then c + 32 else c

/-- the byte is one of `0-9a-fA-F` -/
def isHexDigit (c : UInt8) : Bool := (unhexDigit c).isSome

/-- the first `n` hex digits of an id — what a "prefix of n hex digits" means in the property -/
def hexPrefix (id : Bytes) (n : Nat) : Bytes := (hex id).take n

/-- Specification of `Prefix::new`'s byte surgery: keep the first `n` nibbles, zero the rest. -/
def maskTo : Nat → Bytes → Bytes
  | _, [] => []
  | 0, _ :: rest => 0 :: maskTo 0 rest
  | 1, b :: rest => (b &&& 0xf0) :: maskTo 0 rest
  | n + 2, b :: rest => b :: maskTo n rest

/-- every hex digit of `b` from position `n` on is `'0'` -/
def ZeroPast (n : Nat) (b : Bytes) : Prop := (hex b).drop n = List.replicate (2 * b.length - n) 48

/-- what every `Prefix` value built by the public constructors satisfies: a 20-byte id, 4..=40
digits, "all other bytes and bits set to zero" -/
structure Prefix.WF (p : Prefix) : Prop where
  len : p.bytes.length = 20
  lo : 4 ≤ p.hexLen
  hi : p.hexLen ≤ 40
  zero : ZeroPast p.hexLen p.bytes

end GixModel.C05
