import GixModel.Basic.AsciiCase
/-
C53 — git side: transcription of git 2.39 `mailmap.c` (`read_mailmap_file`, `read_mailmap_line`,
`parse_name_and_email`, `add_mapping`, `map_user`) and of what `git check-mailmap` prints.

The transcription is validated against the git binary by the harness (op `git`, the observation
is what `git -c mailmap.file=F check-mailmap --stdin` printed).

Conventions
* C strings: the spec is stated for NUL-free buffers (every theorem that mentions a raw line carries
  that hypothesis; the harness never generates NUL for the git oracle).
* `read_mailmap_file` reads with `fgets(buffer, 1024, f)`: a physical line longer than 1023 bytes
  is read in pieces. `fgetsLines` below is the split for files whose lines are shorter; the
  harness keeps lines shorter.
* git's `string_list` (sorted array, `strcasecmp`, binary search) is written as an association
  list in insertion order that is searched with `eqIgnoreCase` — the sortedness of git's own
  array is not part of this property. `string_list_insert` of a key that is already present (in
  the `strcasecmp` sense) returns the existing item, whose key keeps its first spelling.
-/
namespace GixModel.Spec.C53
open GixModel

/-- git's `isspace` (`sane_ctype`): SP, HT, LF, CR — not VT, not FF -/
def isSpace (b : UInt8) : Bool := b == 32 || b == 9 || b == 10 || b == 13

/-- `strchr(s, c)`: the bytes before the first `c` and the bytes after it -/
def splitAt1 (c : UInt8) : Bytes → Option (Bytes × Bytes)
  | [] => none
  | b :: rest =>
    if b == c then some ([], rest)
    else match splitAt1 c rest with
      | none => none
      | some (p, s) => some (b :: p, s)

def dropEndWhile (p : UInt8 → Bool) (bs : Bytes) : Bytes := (bs.reverse.dropWhile p).reverse

/-- `parse_name_and_email(buffer, &name, &email, allow_empty_email)`.
`none`: the function returned NULL before assigning (`*name = *email = NULL`).
`some (name, email, rest)`: name (NULL = `none`), email, and the returned pointer (`none` when
nothing follows the `>`).

The name is what lies between `nstart` (first non-space, at most `left`) and `nend` (last non-space
before `left`; the loop `while (nend > nstart && isspace(*nend))` never passes `nstart`, which is
a non-space whenever `nstart < left`), NULL if that range is empty. -/
def parseNameAndEmail (buffer : Bytes) (allowEmptyEmail : Bool) :
    Option (Option Bytes × Bytes × Option Bytes) :=
  match splitAt1 60 buffer with
  | none => none
  | some (pre, afterLeft) =>
    match splitAt1 62 afterLeft with
    | none => none
    | some (email, afterRight) =>
      if !allowEmptyEmail && email.isEmpty then none
      else
        let n := dropEndWhile isSpace (pre.dropWhile isSpace)
        some (if n.isEmpty then none else some n, email,
              if afterRight.isEmpty then none else some afterRight)

/-- `read_mailmap_line` after the comment check: what it hands to
`add_mapping(map, name1, email1, name2, email2)`; `none` = no call (`email1 == NULL`). -/
def readLineBody (buffer : Bytes) : Option (Option Bytes × Bytes × Option Bytes × Option Bytes) :=
  match parseNameAndEmail buffer false with
  | none => none
  | some (name1, email1, none) => some (name1, email1, none, none)
  | some (name1, email1, some rest) =>
    match parseNameAndEmail rest true with
    | none => some (name1, email1, none, none)
    | some (name2, email2, _) => some (name1, email1, name2, some email2)

/-- `read_mailmap_line`: `if (buffer[0] == '#') return;` then the above -/
def readLine (buffer : Bytes) : Option (Option Bytes × Bytes × Option Bytes × Option Bytes) :=
  if buffer.head? == some 35 then none else readLineBody buffer

/-- One mapping after `add_mapping`'s `if (!old_email) { old_email = new_email; new_email = NULL; }`.
This is also the shape of `gix_mailmap::Entry`. -/
structure Entry where
  newName : Option Bytes
  newEmail : Option Bytes
  oldName : Option Bytes
  oldEmail : Bytes
  deriving Repr, DecidableEq

def Entry.ofArgs (newName : Option Bytes) (newEmail : Bytes) (oldName oldEmail : Option Bytes) : Entry :=
  match oldEmail with
  | none => { newName, newEmail := none, oldName, oldEmail := newEmail }
  | some oe => { newName, newEmail := some newEmail, oldName, oldEmail := oe }

/-- `struct mailmap_info` -/
structure Info where
  name : Option Bytes
  email : Option Bytes
  deriving Repr, DecidableEq

/-- `struct mailmap_entry`: the simple mapping plus the per-name mappings -/
structure Me where
  name : Option Bytes
  email : Option Bytes
  namemap : List (Bytes × Info)
  deriving Repr, DecidableEq

abbrev Map := List (Bytes × Me)

/-- `string_list_lookup` / `lookup_prefix`: the item whose key equals `k` ignoring ASCII case -/
def slLookup {V : Type} (m : List (Bytes × V)) (k : Bytes) : Option (Bytes × V) :=
  m.find? (fun kv => eqIgnoreCase kv.1 k)

/-- `string_list_insert(list, k)` followed by an update of the item's `util`: an existing item
keeps its key, a new item gets `upd fresh`. -/
def slUpsert {V : Type} (m : List (Bytes × V)) (k : Bytes) (fresh : V) (upd : V → V) : List (Bytes × V) :=
  match m with
  | [] => [(k, upd fresh)]
  | kv :: rest => if eqIgnoreCase kv.1 k then (kv.1, upd kv.2) :: rest else kv :: slUpsert rest k fresh upd

/-- the body of `add_mapping` after the swap -/
def addEntry (map : Map) (e : Entry) : Map :=
  slUpsert map e.oldEmail { name := none, email := none, namemap := [] } fun me =>
    match e.oldName with
    | none =>
      -- "Replace current name and new email for simple entry": only what the line gives
      { me with name := (match e.newName with | some n => some n | none => me.name),
                email := (match e.newEmail with | some m => some m | none => me.email) }
    | some on =>
      -- string_list_insert(&me->namemap, old_name)->util = mi
      { me with namemap := slUpsert me.namemap on { name := none, email := none }
                  (fun _ => { name := e.newName, email := e.newEmail }) }

def addMapping (map : Map) (newName : Option Bytes) (newEmail : Bytes) (oldName oldEmail : Option Bytes) : Map :=
  addEntry map (Entry.ofArgs newName newEmail oldName oldEmail)

/-- `map_user(map, &email, &emaillen, &name, &namelen)`: the (name, email) afterwards -/
def mapUser (map : Map) (name email : Bytes) : Bytes × Bytes :=
  match slLookup map email with
  | none => (name, email)
  | some (_, me) =>
    let mi : Info :=
      match slLookup me.namemap name with
      | some (_, sub) => sub
      | none => { name := me.name, email := me.email }
    (mi.name.getD name, mi.email.getD email)

/-- the map built from a list of already parsed mappings -/
def build (es : List Entry) : Map := es.foldl addEntry []

/-- `fgets` lines: split after each LF, the LF stays; a last piece without LF is a line -/
def fgetsLines (bs : Bytes) : List Bytes := go bs []
where
  go : Bytes → Bytes → List Bytes
    | [], acc => if acc.isEmpty then [] else [acc.reverse]
    | b :: rest, acc => if b == 10 then (b :: acc).reverse :: go rest [] else go rest (b :: acc)

/-- the mappings `read_mailmap_file` adds, in file order -/
def fileEntries (file : Bytes) : List Entry :=
  (fgetsLines file).filterMap fun l =>
    match readLine l with
    | none => none
    | some (n1, e1, n2, e2) => some (Entry.ofArgs n1 e1 n2 e2)

def readMailmap (file : Bytes) : Map := build (fileEntries file)

/-- `git -c mailmap.file=F check-mailmap "name <email>"`: the mapped (name, email) -/
def checkMailmap (file name email : Bytes) : Bytes × Bytes := mapUser (readMailmap file) name email

/-! ### gitoxide's documented deviation (`Snapshot::try_resolve_ref` doc comment)

"opposed to what git seems to do, we also normalize the case of email addresses to match the one
given in the mailmap": if the mapping does not assign an email and the key stored in the map is
spelled differently from the looked-up email, the stored spelling is returned. -/
def mapUserNormalized (map : Map) (name email : Bytes) : Bytes × Bytes :=
  match slLookup map email with
  | none => (name, email)
  | some (key, me) =>
    let mi : Info :=
      match slLookup me.namemap name with
      | some (_, sub) => sub
      | none => { name := me.name, email := me.email }
    (mi.name.getD name, (mi.email.getD key))

/-- EXACTLY when the normalisation is invisible: the address is not in the map, or the mapping that
applies (by name if there is one, else the simple one) assigns an email, or the address is spelled
as the stored key -/
def emailKept (map : Map) (name email : Bytes) : Bool :=
  match slLookup map email with
  | none => true
  | some (key, me) =>
    let mi : Info :=
      match slLookup me.namemap name with
      | some (_, sub) => sub
      | none => { name := me.name, email := me.email }
    mi.email.isSome || key == email

/-- the looked-up email is spelled exactly as the key stored for it (or is not in the map) -/
def spellingExact (map : Map) (email : Bytes) : Bool :=
  match slLookup map email with
  | none => true
  | some (key, _) => key == email

end GixModel.Spec.C53
