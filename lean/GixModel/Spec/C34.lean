import GixModel.Basic.Hex
/-
C34 — the POSIX shell's word splitting (XCU 2.2 quoting, 2.3 token recognition), restricted to the
constructs `gix_quote::single` can emit plus plain words and blanks, which is what the remote
shell gets to see as `git-upload-pack '<path>'`:

  * `'…'`   single quotes: every byte up to the next `'` is literal (2.2.2);
  * `\c`    outside quotes: the next byte is literal (2.2.1); `\<newline>` is a line continuation;
  * space / tab outside quotes end the current word; a word exists as soon as a quote, an escape or
    a plain byte was seen (so `''` is one empty word);
  * plain bytes (letters, digits, `-_./:@,+%`) are literal.
Every other unquoted byte (operators, `$`, backquote, double quote, globs, `#`, `~`, `=`, newline,
…) is OUTSIDE the fragment: `shWords` answers `none` for it. The theorem `single_quote_one_word`
therefore also shows that `single` never emits such a byte unquoted. The fragment is validated
against the real /bin/sh by the harness for every generated case.
-/
namespace GixModel.Spec.C34
open GixModel

def isPlain (b : UInt8) : Bool :=
  (48 ≤ b && b ≤ 57) || (65 ≤ b && b ≤ 90) || (97 ≤ b && b ≤ 122) ||
  b == 45 || b == 95 || b == 46 || b == 47 || b == 58 || b == 64 || b == 44 || b == 43 || b == 37

def push (cur : Option Bytes) (b : UInt8) : Option Bytes :=
  match cur with
  | none => some [b]
  | some w => some (w ++ [b])

/-- a quote opens a word if none is open -/
def openWord (cur : Option Bytes) : Option Bytes :=
  match cur with
  | none => some []
  | some w => some w

def emit (cur : Option Bytes) (rest : Option (List Bytes)) : Option (List Bytes) :=
  match cur with
  | none => rest
  | some w => rest.map (w :: ·)

/-- `cur`: the word being built (`none` between words); `inQuote`: inside `'…'` -/
def shGo : Bytes → Option Bytes → Bool → Option (List Bytes)
  | [], cur, false => emit cur (some [])
  | [], _, true => none                                        -- unterminated quote
  | b :: rest, cur, true =>
    if b == 39 then shGo rest cur false else shGo rest (push cur b) true
  | b :: rest, cur, false =>
    if b == 39 then shGo rest (openWord cur) true
    else if b == 92 then
      match rest with
      | [] => none
      | c :: rest' => if c == 10 then shGo rest' cur false else shGo rest' (push cur c) false
    else if b == 32 || b == 9 then emit cur (shGo rest none false)
    else if isPlain b then shGo rest (push cur b) false
    else none

/-- the fields a POSIX shell splits `line` into, or `none` if `line` leaves the modelled fragment -/
def shWords (line : Bytes) : Option (List Bytes) := shGo line none false

end GixModel.Spec.C34
