/-
C16 — the abstract side: a reference store is a map from names to values, and a transaction is
an all-or-nothing compare-and-swap on it.

`Spec.apply` reads ONLY the map: it splits dereferencing edits along symbolic refs of the map (the
same `preProcess` the implementation model uses, instantiated with the map), evaluates every
expectation against the map, and — only if all hold — applies the effects of the edits that are
not reflog-only. Packed-refs modes do not exist here, except that a mode which writes packed-refs
needs the new objects to exist (they get peeled).
-/
import GixModel.Model.C17Core

namespace GixModel.C16
open GixModel.C17

abbrev RefMap := Name → Option Target

def RefMap.set (M : RefMap) (n : Name) (v : Option Target) : RefMap :=
  fun m => if m = n then v else M m

/-- what a concrete store looks like through `try_find`: loose first, then packed -/
def abs (S : Store) : RefMap := S.find

inductive SpecRes where
  | ok (M : RefMap)
  /-- an expectation does not hold, an edit names a ref twice, a symbolic cycle, an unknown object -/
  | err
  /-- `Change::Delete` with `PreviousValue::MustNotExist` ("makes no sense", the code panics) -/
  | contract

/-- the expectation of one (split) edit against the current value of its name -/
def checkEdit (M : RefMap) (e : Edit) : Option CheckErr :=
  match e.update.change with
  | .delete expected _ => checkDelete expected (M e.name)
  | .update _ expected new => checkUpdate expected (M e.name) new

/-- the first expectation that does not hold, in edit order -/
def firstFailure (M : RefMap) : List Edit → Option CheckErr
  | [] => none
  | e :: es => match checkEdit M e with
    | some ce => some ce
    | none => firstFailure M es

/-- the effect of one edit on the map (reflog-only edits have none) -/
def effect (M : RefMap) (e : Edit) : RefMap :=
  match e.update.change with
  | .update .andReference _ new => M.set e.name (some new)
  | .delete _ .andReference => M.set e.name none
  | _ => M

def applyEffects (M : RefMap) : List Edit → RefMap
  | [] => M
  | e :: es => applyEffects (effect M e) es

/-- objects that go to packed-refs get peeled and must exist -/
def objectsKnown (env : Env) (mode : Mode) (es : List Edit) : Bool :=
  es.all fun e =>
    match e.update.change with
    | .update .andReference _ (.object o) =>
      if mode ≠ .deletionsOnly && packable e.name then env.known o else true
    | _ => true

/-- all-or-nothing compare-and-swap -/
def Spec.apply (env : Env) (M : RefMap) (t : Txn) : SpecRes :=
  match preProcess M t.edits with
  | .ok es =>
    if !objectsKnown env t.mode es then .err
    else match firstFailure M es with
      | none => .ok (applyEffects M es)
      | some .bug => .contract
      | some _ => .err
  | _ => .err

/-! ### `git update-ref` on the map: the same decision (`gitDecide`, transcribed from git 2.39 and
validated against the binary by the harness) applied to the map -/

def Spec.gitUpdateRef (M : RefMap) (fuel : Nat) (del noderef : Bool) (name : Name) (new : Option Oid)
    (old : Option (Option Oid)) : Option RefMap :=
  match gitDecide M fuel del noderef name new old with
  | none => none
  | some (target, .erase) => some (M.set target none)
  | some (target, .write o) => some (M.set target (some (.object o)))
  | some (_, .nothing) => some M

end GixModel.C16
