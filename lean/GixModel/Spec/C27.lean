import GixModel.Model.C27Core
/-
C27 — git's side, transcribed from git 2.39's config.c / parse.c (from knowledge of the sources;
every function here is VALIDATED against the git 2.39.5 binary by the harness: the ops `gitvalue`,
`gitbool`, `gitint` print what the binary answered and the driver prints what these definitions
compute).

  get_next_char        : CR LF is read as LF; at end of input every further read yields LF
  parse_value          : quote toggling, escapes \t \b \n \\ \", line continuation, `;`/`#` comment
                         start outside quotes, leading whitespace skipped, inner unquoted
                         whitespace bytes each become one ' ', trailing unquoted whitespace dropped
  git_parse_maybe_bool : true/yes/on, false/no/off/"" (strcasecmp), else git_parse_int != 0
  git_parse_signed     : strtoimax(value, &end, 0) (leading C whitespace, sign, 0x / 0 prefixes),
                         unit factor k/m/g (strcasecmp of the whole rest), range check against max
-/
namespace GixModel.C27
open GixModel GixModel.C26

/-- git's `isspace` (sane-ctype: space, TAB, LF, CR) -/
def gitIsSpace (c : UInt8) : Bool := c == 32 || c == 9 || c == 10 || c == 13

/-- C locale `isspace`, what `strtoimax` skips -/
def cIsSpace (c : UInt8) : Bool := c == 32 || (9 ≤ c && c ≤ 13)

/-- `get_next_char`: CR LF → LF (a lone CR stays) -/
def foldCrlf : Bytes → Bytes
  | [] => []
  | [c] => [c]
  | c :: d :: r => if c == 13 && d == 10 then 10 :: foldCrlf r else c :: foldCrlf (d :: r)

/-- `parse_value` on the (CRLF-folded) text that follows `=`. State: the value so far, the number
of pending unquoted whitespace bytes, `quote`, `comment`. End of input reads as LF. -/
def gitValueGo : Bytes → Bytes → Nat → Bool → Bool → Option Bytes
  | [], val, _, quote, _ => if quote then none else some val
  | [c], val, space, quote, comment =>
    if c == 10 then (if quote then none else some val)
    else if comment then (if quote then none else some val)
    else if gitIsSpace c && !quote then some val
    else if !quote && (c == 59 || c == 35) then some val
    else if c == 92 then
      -- the escaped character is the LF that end of input reads as: a continuation, then LF again
      (if quote then none else some (val ++ List.replicate space 32))
    else if c == 34 then (if !quote then none else some (val ++ List.replicate space 32))
    else (if quote then none else some (val ++ List.replicate space 32 ++ [c]))
  | c :: d :: r, val, space, quote, comment =>
    if c == 10 then (if quote then none else some val)
    else if comment then gitValueGo (d :: r) val space quote comment
    else if gitIsSpace c && !quote then gitValueGo (d :: r) val (if val.isEmpty then space else space + 1) quote comment
    else if !quote && (c == 59 || c == 35) then gitValueGo (d :: r) val space quote true
    else if c == 92 then
      let val' := val ++ List.replicate space 32
      if d == 10 then gitValueGo r val' 0 quote comment
      else if d == 116 then gitValueGo r (val' ++ [9]) 0 quote comment
      else if d == 98 then gitValueGo r (val' ++ [8]) 0 quote comment
      else if d == 110 then gitValueGo r (val' ++ [10]) 0 quote comment
      else if d == 92 || d == 34 then gitValueGo r (val' ++ [d]) 0 quote comment
      else none
    else if c == 34 then gitValueGo (d :: r) (val ++ List.replicate space 32) 0 (!quote) comment
    else gitValueGo (d :: r) (val ++ List.replicate space 32 ++ [c]) 0 quote comment

/-- the value git reads from the text following `=` (up to the end of the logical line) -/
def gitParseValue (text : Bytes) : Option Bytes := gitValueGo (foldCrlf text) [] 0 false false

/-! ### numbers -/

def digitVal (base : Nat) (c : UInt8) : Option Nat :=
  let v : Option Nat :=
    if 48 ≤ c && c ≤ 57 then some (c.toNat - 48)
    else if 97 ≤ c && c ≤ 122 then some (c.toNat - 87)
    else if 65 ≤ c && c ≤ 90 then some (c.toNat - 55)
    else none
  v.filter (· < base)

/-- optional sign -/
def signOf (s : Bytes) : Bool × Bytes :=
  match s with
  | 45 :: r => (true, r)
  | 43 :: r => (false, r)
  | r => (false, r)

/-- base detection of `strtol`-family functions called with base 0: `0x`/`0X` followed by a hex
digit is hexadecimal (and skipped), another leading `0` is octal, else decimal -/
def baseOf (body : Bytes) : Nat × Bytes :=
  match body with
  | 48 :: x :: h :: r =>
    if (x == 120 || x == 88) && (digitVal 16 h).isSome then (16, h :: r) else (8, body)
  | 48 :: _ => (8, body)
  | _ => (10, body)

/-- `strtoimax(s, &end, 0)`: `none` when no conversion was performed or on ERANGE, else the value
and the unparsed rest -/
def strtoimax (s : Bytes) : Option (Int × Bytes) :=
  let sg := signOf (s.dropWhile cIsSpace)
  let bs := baseOf sg.2
  let p := spanP (fun c => (digitVal bs.1 c).isSome) bs.2
  if p.1.isEmpty then none
  else
    let n := p.1.foldl (fun a c => a * bs.1 + (digitVal bs.1 c).getD 0) 0
    let v : Int := if sg.1 then -(n : Int) else (n : Int)
    if i64Min ≤ v ∧ v ≤ i64Max then some (v, p.2) else none

/-- `get_unit_factor` -/
def unitFactor (e : Bytes) : Option Nat :=
  match e with
  | [] => some 1
  | [c] => if c == 107 || c == 75 then some 1024
           else if c == 109 || c == 77 then some 1048576
           else if c == 103 || c == 71 then some 1073741824
           else none
  | _ => none

/-- `git_parse_signed(value, &ret, max)` -/
def gitParseSigned (max : Int) (s : Bytes) : Option Int :=
  if s.isEmpty then none
  else match strtoimax s with
    | none => none
    | some (v, e) =>
      match unitFactor e with
      | none => none
      | some f =>
        if (v < 0 ∧ Int.tdiv (-max) f > v) ∨ (v > 0 ∧ max / f < v) then none
        else some (v * f)

/-- `git config --type=int` (git_config_int64) -/
def gitInt (s : Bytes) : Option Int := gitParseSigned i64Max s

def gitTrueWords : List Bytes := [[116, 114, 117, 101], [121, 101, 115], [111, 110]]
def gitFalseWords : List Bytes := [[102, 97, 108, 115, 101], [110, 111], [111, 102, 102]]

/-- `git config --type=bool` on a present value (git_parse_maybe_bool; a key without `=` is true) -/
def gitBool (s : Bytes) : Option Bool :=
  if gitTrueWords.any (eqIgnoreCase s) then some true
  else if gitFalseWords.any (eqIgnoreCase s) || s.isEmpty then some false
  else (gitParseSigned 2147483647 s).map fun v => v != 0

/-! ### keys -/

/-- the (section, sub-section) under which git files the variables of a header: section
lower-cased; a quoted sub-section kept as is, a legacy `[section.sub]` one lower-cased -/
def gitHeaderKey (h : Header) : Bytes × Option Bytes :=
  (h.name.map asciiLower, if h.sep == some [46] then h.sub.map (·.map asciiLower) else h.sub)

/-- does the query `(section, sub)` — as `git config section.sub.key` canonicalises it: section
lower-cased, sub-section untouched — select this header? -/
def gitMatches (h : Header) (sec : Bytes) (sub : Option Bytes) : Bool :=
  gitHeaderKey h == (sec.map asciiLower, sub)

/-- gitoxide's test (`section_ids_by_name_and_subname`) -/
def gixMatches (h : Header) (sec : Bytes) (sub : Option Bytes) : Bool :=
  eqIgnoreCase h.name sec && h.sub == sub

end GixModel.C27
