import GixModel.Model.C48
/-
C48 — declarative side.

(1) `Spec.Ast`: an inductive syntax tree of gitrevisions(7) for the forms gitoxide supports, with
    `print : Ast → Bytes` (the spec as one writes it) and `calls : Ast → List Call` (the resolution
    steps the spec MEANS, in order). `Props.C48.tokenize_print` says the tokenizer turns the first
    into the second for every well-formed tree.
(2) Navigation semantics on an abstract object graph (`Repo`): what `~n`, `^n`, `^{kind}`, `^{}`
    denote. The arithmetic laws in `Props.C48` are stated about `runNav`, the interpretation of the
    navigation calls.

Everything else a delegate call needs from a repository (ref lookup rules, prefix disambiguation,
reflogs, regex search, index) is NOT given a semantics here: it is compared with `git rev-parse`
by the harness only.
-/
namespace GixModel.Spec.C48
open GixModel GixModel.C48

/-! ### syntax -/

inductive Nav
  | parent (n : Nat)          -- `^n`, n ≥ 1
  | parent1                   -- `^`
  | ancestor (n : Nat)        -- `~n`, n ≥ 1
  | ancestor1                 -- `~`
  | commit0                   -- `^0`
  | peel (k : OKind)          -- `^{commit}` `^{tag}` `^{tree}` `^{blob}`
  | peelObject                -- `^{object}`
  | peelTags                  -- `^{}`
  | search (re : Bytes) (neg : Bool)   -- `^{/re}` / `^{/!-re}`
  deriving Repr, DecidableEq

inductive Anchor
  | ref (name : Bytes)                          -- `main`, `refs/heads/x`, `v1.0`
  | hex (h : Bytes)                             -- `abcdef12`
  | describe (refName : Bytes) (gen : Nat) (h : Bytes)  -- `v1.0-3-gabcdef1`
  | head                                        -- `@`
  | reflog (name : Option Bytes) (n : Nat)      -- `name@{n}` / `@{n}`
  | nthCheckedOut (n : Nat)                     -- `@{-n}`, n ≥ 1
  | sibling (name : Option Bytes) (push : Bool) -- `name@{upstream}` / `@{push}`
  | date (name : Option Bytes) (d : Bytes)      -- `name@{<date>}` / `@{<date>}`
  deriving Repr, DecidableEq

inductive Rev
  | nav (a : Anchor) (navs : List Nav) (path : Option Bytes)   -- `<anchor><navs>[:<path>]`
  | searchAll (re : Bytes) (neg : Bool)                        -- `:/re` / `:/!-re`
  | index (stage : Option Nat) (path : Bytes)                  -- `:path` / `:n:path`
  deriving Repr, DecidableEq

inductive Ast
  | single (r : Rev)                   -- `r`
  | exclude (r : Rev)                  -- `^r`
  | range (a b : Option Rev)           -- `a..b` (a missing side is HEAD)
  | merge (a b : Option Rev)           -- `a...b`
  | parents (r : Rev)                  -- `r^@`
  | excludeParents (r : Rev)           -- `r^!`
  | parentRange (r : Rev) (n : Nat)    -- `r^-n`
  deriving Repr, DecidableEq

/-! ### printing -/

def kindWord : OKind → Bytes
  | .commit => [99, 111, 109, 109, 105, 116]
  | .tag => [116, 97, 103]
  | .tree => [116, 114, 101, 101]
  | .blob => [98, 108, 111, 98]

def printRegex (re : Bytes) (neg : Bool) : Bytes := if neg then 33 :: 45 :: re else re

def Nav.print : Nav → Bytes
  | .parent n => 94 :: natDec n
  | .parent1 => [94]
  | .ancestor n => 126 :: natDec n
  | .ancestor1 => [126]
  | .commit0 => [94, 48]
  | .peel k => [94, 123] ++ kindWord k ++ [125]
  | .peelObject => [94, 123, 111, 98, 106, 101, 99, 116, 125]
  | .peelTags => [94, 123, 125]
  | .search re neg => [94, 123, 47] ++ printRegex re neg ++ [125]

def printNavs (ns : List Nav) : Bytes := ns.flatMap Nav.print

def optName : Option Bytes → Bytes
  | none => []
  | some n => n

def Anchor.print : Anchor → Bytes
  | .ref n => n
  | .hex h => h
  | .describe r g h => r ++ [45] ++ natDec g ++ [45, 103] ++ h
  | .head => [64]
  | .reflog n k => optName n ++ [64, 123] ++ natDec k ++ [125]
  | .nthCheckedOut k => [64, 123, 45] ++ natDec k ++ [125]
  | .sibling n push =>
    optName n ++ [64, 123] ++ (if push then [112, 117, 115, 104] else [117, 112, 115, 116, 114, 101, 97, 109]) ++ [125]
  | .date n d => optName n ++ [64, 123] ++ d ++ [125]

def printPath : Option Bytes → Bytes
  | none => []
  | some p => 58 :: p

def Rev.print : Rev → Bytes
  | .nav a ns p => a.print ++ printNavs ns ++ printPath p
  | .searchAll re neg => [58, 47] ++ printRegex re neg
  | .index none p => 58 :: p
  | .index (some st) p => [58] ++ natDec st ++ [58] ++ p

def optRev : Option Rev → Bytes
  | none => []
  | some r => r.print

def Ast.print : Ast → Bytes
  | .single r => r.print
  | .exclude r => 94 :: r.print
  | .range a b => optRev a ++ [46, 46] ++ optRev b
  | .merge a b => optRev a ++ [46, 46, 46] ++ optRev b
  | .parents r => r.print ++ [94, 64]
  | .excludeParents r => r.print ++ [94, 33]
  | .parentRange r n => r.print ++ [94, 45] ++ natDec n

/-! ### meaning: the resolution steps -/

def Nav.call : Nav → Call
  | .parent n => .parent n
  | .parent1 => .parent 1
  | .ancestor n => .ancestor n
  | .ancestor1 => .ancestor 1
  | .commit0 => .peelKind .commit
  | .peel k => .peelKind k
  | .peelObject => .peelValid
  | .peelTags => .peelTags
  | .search re neg => .find re neg

def nameCalls : Option Bytes → List Call
  | none => []
  | some n => [.findRef n]

def Anchor.calls : Anchor → List Call
  | .ref n => [.findRef n]
  | .hex h => [.prefix (h.map lower) .none]
  | .describe r g h => [.prefix (h.map lower) (.anchor r g)]
  | .head => [.findRef HEAD]
  | .reflog n k => nameCalls n ++ [.reflogEntry k]
  | .nthCheckedOut k => [.nthCheckedOut k]
  | .sibling n push => nameCalls n ++ [.sibling push]
  | .date n d => nameCalls n ++ [.reflogDate d]

def pathCalls : Option Bytes → List Call
  | none => []
  | some p => [.peelPath p]

def Rev.calls : Rev → List Call
  | .nav a ns p => a.calls ++ ns.map Nav.call ++ pathCalls p
  | .searchAll re neg => [.find re neg]
  | .index none p => [.index p 0]
  | .index (some st) p => [.index p st]

def optRevCalls : Option Rev → List Call
  | none => [.findRef HEAD]
  | some r => r.calls

/-- the call that `r^-n` re-issues for the right-hand side of the range: the anchor again -/
def Rev.anchorAgain : Rev → List Call
  | .nav (.ref n) _ _ => [.findRef n]
  | .nav (.hex h) _ _ => [.prefix (h.map lower) .none]
  | .nav (.describe r g h) _ _ => [.prefix (h.map lower) (.anchor r g)]
  | .nav .head _ _ => [.findRef HEAD]
  | _ => []

def Ast.calls : Ast → List Call
  | .single r => r.calls ++ [.done]
  | .exclude r => .kind .excludeReachable :: r.calls ++ [.done]
  | .range a b => optRevCalls a ++ [.kind .rangeBetween] ++ optRevCalls b ++ [.done]
  | .merge a b => optRevCalls a ++ [.kind .reachableToMergeBase] ++ optRevCalls b ++ [.done]
  | .parents r => r.calls ++ [.kind .includeParents, .done]
  | .excludeParents r => r.calls ++ [.kind .excludeParents, .done]
  | .parentRange r n => r.calls ++ [.parent n, .kind .rangeBetween] ++ r.anchorAgain ++ [.done]

/-! ### well-formedness (all conditions are decidable) -/

/-- a byte that may appear in a name: not one of `~ ^ : @` -/
def nameByte (b : UInt8) : Bool := !(b == 126 || b == 94 || b == 58 || b == 64)

/-- no separator bytes; every `.` is followed by a byte that is not `.` (no `..`, no trailing `.`) -/
def nameOk : Bytes → Bool
  | [] => true
  | b :: rest =>
    nameByte b && (b != 46 || (match rest with | [] => false | n :: _ => n != 46)) && nameOk rest

/-- `consecutive_hex_chars` after scanning a name without `@`: `.` is skipped, any other
non-hex byte resets to `none` -/
def nameHex (hex : Option Nat) : Bytes → Option Nat
  | [] => hex
  | b :: rest => nameHex (if b == 46 then hex else hexStep hex b) rest

/-- a name the tokenizer hands to `find_ref` unchanged: non-empty, separator-free, not mistaken
for an object prefix (fewer than 4 leading hex characters seen) or for `git describe` output -/
def RefName (n : Bytes) : Prop :=
  n ≠ [] ∧ nameOk n = true ∧ (nameHex (some 0) n).getD 0 < 4 ∧ longDescribe n = none ∧ shortDescribe n = none

instance (n : Bytes) : Decidable (RefName n) := by unfold RefName; infer_instance

def HexName (h : Bytes) : Prop := 4 ≤ h.length ∧ h.length ≤ 40 ∧ h.all isHexDigit = true

instance (h : Bytes) : Decidable (HexName h) := by unfold HexName; infer_instance

/-- brace content that needs no escaping -/
def plain (bs : Bytes) : Bool := bs.all fun b => !(b == 123 || b == 125 || b == 92)

def RegexOk (re : Bytes) : Prop := re ≠ [] ∧ plain re = true ∧ re.head? ≠ some 33

instance (re : Bytes) : Decidable (RegexOk re) := by unfold RegexOk; infer_instance

def Nav.Wf : Nav → Prop
  | .parent n => 1 ≤ n ∧ n < 2 ^ 63
  | .ancestor n => 1 ≤ n ∧ n < 2 ^ 64
  | .search re _ => RegexOk re
  | _ => True

instance (n : Nav) : Decidable n.Wf := by cases n <;> unfold Nav.Wf <;> infer_instance

def OptRefName : Option Bytes → Prop
  | none => True
  | some n => RefName n

instance (n : Option Bytes) : Decidable (OptRefName n) := by cases n <;> unfold OptRefName <;> infer_instance

def Anchor.Wf (dateOk : Bytes → Bool) : Anchor → Prop
  | .ref n => RefName n
  | .hex h => HexName h
  | .describe r g h =>
    r ≠ [] ∧ nameOk r = true ∧ g < 2 ^ 64 ∧ HexName h
  | .head => True
  | .reflog n k => OptRefName n ∧ k < 2 ^ 63
  | .nthCheckedOut k => 1 ≤ k ∧ k ≤ 2 ^ 63
  | .sibling n _ => OptRefName n
  | .date n d =>
    OptRefName n ∧ plain d = true ∧ dateOk d = true ∧ parseIsize d = none ∧ siblingParse d = none

instance (dateOk : Bytes → Bool) (a : Anchor) : Decidable (a.Wf dateOk) := by
  cases a <;> unfold Anchor.Wf <;> infer_instance

/-- does a path look like `0:…`, `1:…`, `2:…`, `3:…` (then `:<path>` would be read as `:<stage>:<path>`) -/
def stagePrefixed (p : Bytes) : Bool :=
  match p with
  | d :: 58 :: _ => d == 48 || d == 49 || d == 50 || d == 51
  | _ => false

def Rev.Wf (dateOk : Bytes → Bool) : Rev → Prop
  | .nav a ns _ => a.Wf dateOk ∧ ∀ n ∈ ns, n.Wf
  | .searchAll re _ => RegexOk re
  | .index none p => p ≠ [] ∧ p.head? ≠ some 47 ∧ stagePrefixed p = false
  | .index (some st) _ => st ≤ 3

instance (dateOk : Bytes → Bool) (r : Rev) : Decidable (r.Wf dateOk) := by
  cases r with
  | nav a ns p => unfold Rev.Wf; infer_instance
  | searchAll re neg => unfold Rev.Wf; infer_instance
  | index st p => cases st <;> unfold Rev.Wf <;> infer_instance

/-- a revision that can stand on the left of `..` or before `^@`, `^!`, `^-n`: it must not end in
a form that swallows the rest of the input (`:path`, `:/re`, `:n:path`) -/
def Rev.Open : Rev → Prop
  | .nav _ _ none => True
  | _ => False

instance (r : Rev) : Decidable r.Open := by
  cases r with
  | nav a ns p => cases p <;> unfold Rev.Open <;> infer_instance
  | searchAll re neg => unfold Rev.Open; infer_instance
  | index st p => unfold Rev.Open; infer_instance

def OptWf (dateOk : Bytes → Bool) : Option Rev → Prop
  | none => True
  | some r => r.Wf dateOk

def OptOpen : Option Rev → Prop
  | none => True
  | some r => r.Open

instance (dateOk : Bytes → Bool) (r : Option Rev) : Decidable (OptWf dateOk r) := by
  cases r <;> unfold OptWf <;> infer_instance

instance (r : Option Rev) : Decidable (OptOpen r) := by
  cases r <;> unfold OptOpen <;> infer_instance

/-- `r^-n` means `r^n..r`. The tokenizer re-issues only the ANCHOR of `r` for the right-hand side
(it remembers the last ref or prefix, not the navigation that followed), so the calls mean `r^n..r`
only when `r` is a bare ref or prefix. With navigation in between (`HEAD~2^-`) today's gitoxide
resolves the right-hand side to the anchor instead of `r` — a recorded finding, excluded here. -/
def Rev.Remembered : Rev → Prop
  | .nav (.ref _) [] _ => True
  | .nav (.hex _) [] _ => True
  | .nav (.describe _ _ _) [] _ => True
  | .nav .head [] _ => True
  | _ => False

instance (r : Rev) : Decidable r.Remembered := by
  cases r with
  | nav a ns p => cases a <;> cases ns <;> unfold Rev.Remembered <;> infer_instance
  | searchAll re neg => unfold Rev.Remembered; infer_instance
  | index st p => unfold Rev.Remembered; infer_instance

/-- (in `a..b` the right side must not start with `.`: `a...b` is the symmetric difference) -/
def Ast.Wf (dateOk : Bytes → Bool) : Ast → Prop
  | .single r => r.Wf dateOk
  | .exclude r => r.Wf dateOk
  | .range a b => OptWf dateOk a ∧ OptOpen a ∧ OptWf dateOk b ∧ (optRev b).head? ≠ some 46
  | .merge a b => OptWf dateOk a ∧ OptOpen a ∧ OptWf dateOk b
  | .parents r => r.Wf dateOk ∧ r.Open
  | .excludeParents r => r.Wf dateOk ∧ r.Open
  | .parentRange r n => r.Wf dateOk ∧ r.Open ∧ r.Remembered ∧ 1 ≤ n ∧ n < 2 ^ 63

instance (dateOk : Bytes → Bool) (a : Ast) : Decidable (a.Wf dateOk) := by
  cases a <;> unfold Ast.Wf <;> infer_instance

/-! ### navigation semantics on an abstract object graph -/

/-- Objects are numbers. `kind`, the parents of a commit, the tree of a commit and the target of
a tag are plain data (whatever the object database holds). -/
structure Repo where
  kind : Nat → OKind
  parents : Nat → List Nat
  treeOf : Nat → Nat
  target : Nat → Nat

/-- `x~n`: follow first parents `n` times -/
def ancestor (R : Repo) : Nat → Nat → Option Nat
  | 0, x => some x
  | n + 1, x => (R.parents x).head?.bind (ancestor R n)

/-- `x^n` for `n ≥ 1`: the n-th parent of a commit (`Traversal::NthParent`) -/
def nthParent (R : Repo) (n x : Nat) : Option Nat :=
  if R.kind x = .commit then (R.parents x)[n - 1]? else none

/-- `Object::peel_to_kind`: tags to their target, commits to their tree, until `k` is met;
`fuel` bounds the length of the tag chain -/
def peelTo (R : Repo) (k : OKind) : Nat → Nat → Option Nat
  | 0, _ => none
  | fuel + 1, x =>
    if R.kind x = k then some x
    else match R.kind x with
      | .commit => peelTo R k fuel (R.treeOf x)
      | .tag => peelTo R k fuel (R.target x)
      | _ => none

/-- `Object::peel_tags_to_end` -/
def peelTags (R : Repo) : Nat → Nat → Option Nat
  | 0, _ => none
  | fuel + 1, x => if R.kind x = .tag then peelTags R fuel (R.target x) else some x

/-- the meaning of one navigation call on a single object (other calls are not navigation) -/
def stepNav (R : Repo) (fuel : Nat) (c : Call) (x : Nat) : Option Nat :=
  match c with
  | .ancestor n => if R.kind x = .commit then ancestor R n x else none
  | .parent n => nthParent R n x
  | .peelKind k => peelTo R k fuel x
  | .peelTags => peelTags R fuel x
  | .peelValid => some x
  | _ => none

def runNav (R : Repo) (fuel : Nat) : List Call → Nat → Option Nat
  | [], x => some x
  | c :: cs, x => (stepNav R fuel c x).bind (runNav R fuel cs)

end GixModel.Spec.C48
