import GixModel.Lemmas.C20M3
/-
C20 helper lemmas, part 12 (all packed-refs modes): what the rewritten packed-refs says about a
name — gone if deleted, the new value if updated, unchanged otherwise — and how an allowed pair reads.
-/
namespace GixModel.C20
open GixModel

/-- first record of a name -/
def findRec (q : Name) (l : List (Name × Bytes)) : Option (Name × Bytes) := l.find? fun r => r.1 = q

theorem findRec_insertRec_ne {u : Name × Bytes} {q : Name} (h : u.1 ≠ q) (l : List (Name × Bytes)) :
    findRec q (insertRec u l) = findRec q l := by
  induction l with
  | nil => simp [insertRec, findRec, List.find?_cons, h]
  | cons x xs ih =>
    simp only [insertRec]
    split
    · simp [findRec, List.find?_cons, h]
    · simp only [findRec, List.find?_cons] at ih ⊢
      split
      · rfl
      · exact ih

theorem findRec_insertRec_eq (u : Name × Bytes) (l : List (Name × Bytes)) (h : ∀ x ∈ l, x.1 ≠ u.1) :
    findRec u.1 (insertRec u l) = some u := by
  induction l with
  | nil => simp [insertRec, findRec, List.find?_cons]
  | cons x xs ih =>
    have hx : x.1 ≠ u.1 := h x (List.mem_cons_self ..)
    simp only [insertRec]
    split
    · simp [findRec, List.find?_cons]
    · simp only [findRec, List.find?_cons, hx, decide_false] at ih ⊢
      exact ih (fun y hy => h y (List.mem_cons_of_mem _ hy))

theorem mem_insertRec {u x : Name × Bytes} {l : List (Name × Bytes)} : x ∈ insertRec u l ↔ x = u ∨ x ∈ l := by
  induction l with
  | nil => simp [insertRec]
  | cons y ys ih =>
    simp only [insertRec]
    split
    · simp
    · simp only [List.mem_cons, ih]
      constructor
      · rintro (h | h | h)
        · exact .inr (.inl h)
        · exact .inl h
        · exact .inr (.inr h)
      · rintro (h | h | h)
        · exact .inr (.inl h)
        · exact .inl h
        · exact .inr (.inr h)

def restOf (kept ups : List (Name × Bytes)) : List (Name × Bytes) := ups.foldl (fun acc u => insertRec u acc) kept

theorem mem_restOf {kept ups : List (Name × Bytes)} {x : Name × Bytes} :
    x ∈ restOf kept ups ↔ x ∈ ups ∨ x ∈ kept := by
  induction ups generalizing kept with
  | nil => simp [restOf]
  | cons u us ih =>
    have : restOf kept (u :: us) = restOf (insertRec u kept) us := rfl
    rw [this, ih, mem_insertRec]
    simp only [List.mem_cons]
    constructor
    · rintro (h | h | h)
      · exact .inl (.inr h)
      · exact .inl (.inl h)
      · exact .inr h
    · rintro ((h | h) | h)
      · exact .inr (.inl h)
      · exact .inl h
      · exact .inr (.inr h)

theorem findRec_restOf_notin {q : Name} (kept ups : List (Name × Bytes)) (h : q ∉ ups.map (·.1)) :
    findRec q (restOf kept ups) = findRec q kept := by
  induction ups generalizing kept with
  | nil => rfl
  | cons u us ih =>
    have : restOf kept (u :: us) = restOf (insertRec u kept) us := rfl
    simp only [List.map_cons, List.mem_cons, not_or] at h
    rw [this, ih _ h.2, findRec_insertRec_ne (fun e => h.1 e.symm)]

theorem findRec_restOf_in (kept ups : List (Name × Bytes)) (u : Name × Bytes) (hu : u ∈ ups)
    (hnd : (ups.map (·.1)).Nodup) (hk : ∀ x ∈ kept, x.1 ∉ ups.map (·.1)) :
    findRec u.1 (restOf kept ups) = some u := by
  induction ups generalizing kept with
  | nil => cases hu
  | cons v vs ih =>
    have hr : restOf kept (v :: vs) = restOf (insertRec v kept) vs := rfl
    simp only [List.map_cons, List.nodup_cons] at hnd
    rw [hr]
    rcases List.mem_cons.mp hu with rfl | hu'
    · rw [findRec_restOf_notin _ _ hnd.1]
      apply findRec_insertRec_eq
      intro x hx e
      exact hk x hx (by simp [e])
    · apply ih _ hu' hnd.2
      intro x hx
      rcases mem_insertRec.mp hx with rfl | hx
      · exact hnd.1
      · intro hm; exact hk x hx (by simp [hm])

theorem mem_objUpdates {txn : List Edit} {n : Name} {h : Bytes} :
    (n, h) ∈ objUpdates txn ↔ Edit.update n (.id h) ∈ txn := by
  simp only [objUpdates, List.mem_filterMap]
  constructor
  · rintro ⟨e, he, hx⟩
    cases e with
    | delete m => simp at hx
    | update m t =>
      cases t with
      | sym x => simp at hx
      | id y => simp at hx; obtain ⟨rfl, rfl⟩ := hx; exact he
  · intro he; exact ⟨_, he, rfl⟩

theorem objUpdates_names {txn : List Edit} {q : Name} (h : q ∈ (objUpdates txn).map (·.1)) : q ∈ names txn := by
  obtain ⟨⟨n, hx⟩, hm, rfl⟩ := List.mem_map.mp h
  exact List.mem_map.mpr ⟨_, mem_objUpdates.mp hm, rfl⟩

theorem objUpdates_nodup {txn : List Edit} (h : (names txn).Nodup) : ((objUpdates txn).map (·.1)).Nodup := by
  induction txn with
  | nil => simp [objUpdates]
  | cons e es ih =>
    simp only [names, List.map_cons, List.nodup_cons] at h
    have ih' := ih h.2
    have hstep : objUpdates (e :: es) = (match e with
        | .update n (.id hx) => [(n, hx)]
        | _ => []) ++ objUpdates es := by
      cases e with
      | delete n => simp [objUpdates]
      | update n t => cases t <;> simp [objUpdates]
    rw [hstep]
    cases e with
    | delete n => simpa using ih'
    | update n t =>
      cases t with
      | sym x => simpa using ih'
      | id hx =>
        simp only [List.singleton_append, List.map_cons, List.nodup_cons]
        exact ⟨fun hm => h.1 (objUpdates_names hm), ih'⟩

theorem upsOf_names {m : Mode} {txn : List Edit} {q : Name} (h : q ∈ (upsOf m txn).map (·.1)) : q ∈ names txn := by
  unfold upsOf at h
  split at h
  · simp at h
  · exact objUpdates_names h

theorem upsOf_nodup {m : Mode} {txn : List Edit} (h : (names txn).Nodup) : ((upsOf m txn).map (·.1)).Nodup := by
  unfold upsOf
  split
  · simp
  · exact objUpdates_nodup h

theorem remainingM_eq (s : Store) (m : Mode) (txn : List Edit) :
    s.remainingM m txn = restOf ((s.packed.getD []).filter fun r =>
      !(deleteNames txn).contains r.1 && !((upsOf m txn).map (·.1)).contains r.1) (upsOf m txn) := rfl

/-- the old record of a name -/
def oldRec (s : Store) (q : Name) : Option (Name × Bytes) := findRec q (s.packed.getD [])

theorem findRec_remaining_keep (s : Store) (m : Mode) (txn : List Edit) (q : Name) (hq : q ∉ names txn) :
    findRec q (s.remainingM m txn) = oldRec s q := by
  rw [remainingM_eq, findRec_restOf_notin _ _ (fun h => hq (upsOf_names h))]
  unfold findRec oldRec findRec
  apply find_filter_of_imp
  intro x _ hx
  have e : x.1 = q := by simpa using hx
  have h1 : (deleteNames txn).contains x.1 = false := by
    rw [e]
    cases hc : (deleteNames txn).contains q with
    | false => rfl
    | true =>
      have := mem_deleteNames.mp (by simpa using hc)
      exact absurd (List.mem_map.mpr ⟨_, this, rfl⟩) hq
  have h2 : ((upsOf m txn).map (·.1)).contains x.1 = false := by
    rw [e]
    cases hc : ((upsOf m txn).map (·.1)).contains q with
    | false => rfl
    | true => exact absurd (upsOf_names (by simpa using hc)) hq
  rw [h1, h2]; rfl

theorem findRec_remaining_deleted (s : Store) (m : Mode) (txn : List Edit) (hnd : (names txn).Nodup) (n : Name)
    (he : Edit.delete n ∈ txn) : findRec n (s.remainingM m txn) = none := by
  have hnu : n ∉ (upsOf m txn).map (·.1) := by
    intro hm
    unfold upsOf at hm
    split at hm
    · simp at hm
    · obtain ⟨⟨n', hx⟩, hmem, rfl⟩ := List.mem_map.mp hm
      have := nodup_map_inj hnd (mem_objUpdates.mp hmem) he rfl
      cases this
  rw [remainingM_eq, findRec_restOf_notin _ _ hnu]
  unfold findRec
  apply List.find?_eq_none.mpr
  intro x hx
  simp only [List.mem_filter] at hx
  intro e
  have e' : x.1 = n := by simpa using e
  have : (deleteNames txn).contains x.1 = true := by
    rw [e']; simpa using mem_deleteNames.mpr he
  rw [this] at hx; simp at hx

theorem findRec_remaining_updated (s : Store) (m : Mode) (txn : List Edit) (hnd : (names txn).Nodup)
    (hm : m ≠ .d) (n : Name) (h : Bytes) (he : Edit.update n (.id h) ∈ txn) :
    findRec n (s.remainingM m txn) = some (n, h) := by
  have hu : (n, h) ∈ upsOf m txn := by simp [upsOf, hm, mem_objUpdates.mpr he]
  rw [remainingM_eq]
  apply findRec_restOf_in _ _ (n, h) hu (upsOf_nodup hnd)
  intro x hx
  simp only [List.mem_filter, Bool.and_eq_true, Bool.not_eq_true'] at hx
  intro hmem
  have := hx.2.2
  simp [hmem] at this

theorem lookup_render (cd : Codec) (rs : List (Name × Bytes)) (q : Name) :
    lookupPacked ((some (renderPacked rs)).bind cd.parsePacked) q = (findRec q rs).map fun r => Target.id r.2 := by
  simp [lookupPacked, cd.packed_rt, findRec]

theorem lookup_old (cd : Codec) (s : Store) (q : Name) :
    lookupPacked ((s.packed.map renderPacked).bind cd.parsePacked) q = (oldRec s q).map fun r => Target.id r.2 := by
  simp only [oldRec, findRec]
  cases s.packed with
  | none => simp [lookupPacked]
  | some rs => simp [lookupPacked, cd.packed_rt]

/-- the three facts about the new packed-refs file, for whatever shape `newPackedFileM` takes -/
theorem lookupM_keep (cd : Codec) (s : Store) (m : Mode) (txn : List Edit) (q : Name) (hq : q ∉ names txn) :
    lookupPacked ((newPackedFileM m s txn).bind cd.parsePacked) q =
      lookupPacked ((s.packed.map renderPacked).bind cd.parsePacked) q := by
  unfold newPackedFileM
  split
  · have hk := findRec_remaining_keep s m txn q hq
    split
    · rename_i hr
      have : s.remainingM m txn = [] := by simpa using hr
      rw [this] at hk
      rw [lookup_old, ← hk]; simp [lookupPacked, findRec]
    · rw [lookup_render, lookup_old, hk]
  · rfl

theorem global_of_packed {s : Store} {m : Mode} {txn : List Edit} (hs : s.packed.isSome = true) (hne : txn ≠ []) :
    s.hasGlobalLockM m txn = true := by
  have : s.hasGlobalLock txn = true := by
    simp only [Store.hasGlobalLock, Bool.and_eq_true, Bool.not_eq_true', List.isEmpty_eq_false_iff]
    exact ⟨hs, hne⟩
  cases m <;> simp [Store.hasGlobalLockM, this]

theorem lookupM_deleted (cd : Codec) (s : Store) (m : Mode) (txn : List Edit) (hnd : (names txn).Nodup) (n : Name)
    (he : Edit.delete n ∈ txn) : lookupPacked ((newPackedFileM m s txn).bind cd.parsePacked) n = none := by
  have hd := findRec_remaining_deleted s m txn hnd n he
  unfold newPackedFileM
  split
  · split
    · rfl
    · rw [lookup_render, hd]; rfl
  · rename_i hc
    rw [lookup_old]
    cases hs : s.packed with
    | none => simp [oldRec, findRec, hs]
    | some rs =>
      have hg := global_of_packed (m := m) (by simp [hs] : s.packed.isSome = true) (List.ne_nil_of_mem he)
      -- then nothing is deleted from the buffer: the name is not in it
      have hdel : (delsOf s txn).isEmpty = true := by
        cases hde : (delsOf s txn).isEmpty with
        | true => rfl
        | false => exact absurd ⟨hg, by simp [hde]⟩ hc
      have hnot : n ∉ s.packedDeletions txn := by
        have : delsOf s txn = s.packedDeletions txn := by simp [delsOf, hs]
        rw [this] at hdel
        have : s.packedDeletions txn = [] := by simpa using hdel
        rw [this]; simp
      have : s.packedOf n = none := by
        cases hp : s.packedOf n with
        | none => rfl
        | some v => exact absurd (mem_packedDeletions s txn he (by simp [hp])) hnot
      simp only [Store.packedOf, hs] at this
      simp only [oldRec, findRec, hs, Option.getD_some]
      cases hf : rs.find? (fun x => decide (x.1 = n)) with
      | none => rfl
      | some r => simp [hf] at this

theorem lookupM_updated (cd : Codec) (s : Store) (m : Mode) (txn : List Edit) (hnd : (names txn).Nodup)
    (hm : m ≠ .d) (n : Name) (h : Bytes) (he : Edit.update n (.id h) ∈ txn) :
    lookupPacked ((newPackedFileM m s txn).bind cd.parsePacked) n = some (.id h) := by
  have hu := findRec_remaining_updated s m txn hnd hm n h he
  have hmem : (n, h) ∈ s.remainingM m txn := by
    unfold findRec at hu
    exact List.mem_of_find?_eq_some hu
  have hg : s.hasGlobalLockM m txn = true := by
    cases m with
    | d => exact absurd rfl hm
    | u => simp only [Store.hasGlobalLockM, Bool.or_eq_true, List.any_eq_true]; exact .inl ⟨_, he, rfl⟩
    | r => simp only [Store.hasGlobalLockM, Bool.or_eq_true, List.any_eq_true]; exact .inl ⟨_, he, rfl⟩
  have hups : (upsOf m txn).isEmpty = false := by
    have : (n, h) ∈ upsOf m txn := by simp [upsOf, hm, mem_objUpdates.mpr he]
    cases hl : upsOf m txn with
    | nil => rw [hl] at this; cases this
    | cons => rfl
  unfold newPackedFileM
  rw [if_pos ⟨hg, by simp [hups]⟩]
  split
  · rename_i hr
    have : s.remainingM m txn = [] := by simpa using hr
    rw [this] at hmem; cases hmem
  · rw [lookup_render, hu]; rfl

/-- an allowed pair reads as the old or the intended value -/
theorem allowed_readsM (cd : Codec) (m : Mode) (s : Store) (txn : List Edit) (hnd : (names txn).Nodup)
    (e : Edit) (he : e ∈ txn) (a b : Option Bytes) (h : AllowedM m s txn e a b) :
    readOf cd a b e.name = readOf cd ((s.looseOf e.name).map renderRef) (s.packed.map renderPacked) e.name ∨
      readOf cd a b e.name = e.intended := by
  have pairA : ∀ (n : Name) (t : Target), PairA m s txn n (renderRef t) a b →
      readOf cd a b n = readOf cd ((s.looseOf n).map renderRef) (s.packed.map renderPacked) n ∨
        readOf cd a b n = some t := by
    intro n t hp
    rcases hp with ⟨rfl, rfl⟩ | ⟨rfl, _⟩
    · exact .inl rfl
    · right; simp [readOf, cd.ref_rt]
  have pairB : ∀ (n : Name) (v : Option Target),
      lookupPacked ((newPackedFileM m s txn).bind cd.parsePacked) n = v → PairB m s txn n a b →
      readOf cd a b n = readOf cd ((s.looseOf n).map renderRef) (s.packed.map renderPacked) n ∨
        readOf cd a b n = v := by
    intro n v hv hp
    rcases hp with ⟨rfl, rfl | rfl⟩ | ⟨rfl, rfl⟩
    · exact .inl rfl
    · cases hl : s.looseOf n with
      | some t => left; simp [readOf, cd.ref_rt, hl]
      | none => right; simp [readOf, hl, hv]
    · right; simp [readOf, hv]
  cases e with
  | delete n =>
    simpa [Edit.name, Edit.intended] using pairB n none (lookupM_deleted cd s m txn hnd n he) h
  | update n new =>
    cases new with
    | sym t => simpa [Edit.name, Edit.intended] using pairA n (.sym t) h
    | id hx =>
      simp only [AllowedM] at h
      by_cases hm : m = .r
      · simp only [hm, if_true] at h
        subst hm
        simpa [Edit.name, Edit.intended] using
          pairB n (some (.id hx)) (lookupM_updated cd s .r txn hnd (by simp) n hx he) h
      · simp only [hm, if_false] at h
        simpa [Edit.name, Edit.intended, renderRef] using pairA n (.id hx) (by simpa [renderRef] using h)

end GixModel.C20
