import GixModel.Lemmas.C02Prim
/-
C02 helper lemmas, part 6: trees — octal modes and the entry decoder on what the tree writer prints.
-/
namespace GixModel.C02
open GixModel GixModel.C01 GixModel.Spec.C02

/-! ### octal -/

theorem oct_facts : ∀ d, d < 8 →
    (UInt8.ofNat (48 + d) == 32) = false ∧ (UInt8.ofNat (48 + d) < 48 || UInt8.ofNat (48 + d) > 55) = false
    ∧ (UInt8.ofNat (48 + d)).toNat - 48 = d := by
  decide

def isOct (b : UInt8) : Prop := (b == 32) = false ∧ (b < 48 || b > 55) = false

def val8 (acc : Nat) (ds : Bytes) : Nat := ds.foldl (fun a b => a * 8 + (b.toNat - 48)) acc

def octStep (a : Nat) (b : UInt8) : Nat := (a * 8 + (b.toNat - 48)) % 4294967296

theorem val8_concat (acc : Nat) (ds : Bytes) (b : UInt8) :
    val8 acc (ds ++ [b]) = val8 acc ds * 8 + (b.toNat - 48) := by
  simp [val8, List.foldl_append]

theorem val8_ge (ds : Bytes) : ∀ acc, acc ≤ val8 acc ds := by
  induction ds with
  | nil => intro acc; simp [val8]
  | cons d ds ih =>
    intro acc
    have := ih (acc * 8 + (d.toNat - 48))
    simp only [val8, List.foldl_cons] at this ⊢
    omega

theorem foldl_octStep (ds : Bytes) : ∀ acc, val8 acc ds < 4294967296 → ds.foldl octStep acc = val8 acc ds := by
  induction ds with
  | nil => intro acc _; rfl
  | cons d ds ih =>
    intro acc h
    have hge := val8_ge ds (acc * 8 + (d.toNat - 48))
    simp only [val8, List.foldl_cons] at h hge ⊢
    have hlt : acc * 8 + (d.toNat - 48) < 4294967296 := by omega
    have : octStep acc d = acc * 8 + (d.toNat - 48) := by
      unfold octStep; exact Nat.mod_eq_of_lt hlt
    rw [this]
    exact ih _ h

theorem modeGo_digits (ds r : Bytes) (hd : ∀ b ∈ ds, isOct b) :
    ∀ acc, modeGo acc (ds ++ 32 :: r) = some (ds.foldl octStep acc, r) := by
  induction ds with
  | nil => intro acc; simp [modeGo]
  | cons d ds ih =>
    intro acc
    obtain ⟨h1, h2⟩ := hd d (by simp)
    have := ih (fun x hx => hd x (by simp [hx])) (octStep acc d)
    simp only [List.cons_append, modeGo, h1, h2, Bool.false_eq_true, if_false, List.foldl_cons]
    exact this

theorem digitsFuel8_val : ∀ (f n : Nat), n < 8 ^ (f + 1) →
    ((∀ b ∈ digitsFuel 8 (f + 1) n, isOct b) ∧ val8 0 (digitsFuel 8 (f + 1) n) = n) := by
  intro f
  induction f with
  | zero =>
    intro n hn
    have h8 : n < 8 := by simpa using hn
    have hd := oct_facts n h8
    unfold digitsFuel
    simp only [h8, if_true]
    refine ⟨?_, ?_⟩
    · intro b hb
      simp only [List.mem_singleton] at hb
      subst hb
      exact ⟨hd.1, hd.2.1⟩
    · simp only [val8, List.foldl_cons, List.foldl_nil, hd.2.2]; omega
  | succ f ih =>
    intro n hn
    unfold digitsFuel
    by_cases h8 : n < 8
    · have hd := oct_facts n h8
      simp only [h8, if_true]
      refine ⟨?_, ?_⟩
      · intro b hb
        simp only [List.mem_singleton] at hb
        subst hb
        exact ⟨hd.1, hd.2.1⟩
      · simp only [val8, List.foldl_cons, List.foldl_nil, hd.2.2]; omega
    · simp only [h8, if_false]
      have hq : n / 8 < 8 ^ (f + 1) := by
        rw [Nat.div_lt_iff_lt_mul (by omega)]
        rw [Nat.pow_succ] at hn
        exact hn
      obtain ⟨h2, h3⟩ := ih (n / 8) hq
      have hd := oct_facts (n % 8) (Nat.mod_lt _ (by omega))
      refine ⟨?_, ?_⟩
      · intro b hb
        simp only [List.mem_append, List.mem_singleton] at hb
        rcases hb with hb | rfl
        · exact h2 b hb
        · exact ⟨hd.1, hd.2.1⟩
      · rw [val8_concat, h3, hd.2.2]
        omega

theorem lt_pow8_log2 (n : Nat) : n < 8 ^ (n.log2 + 1 + 1) := by
  have h1 : n < 2 ^ (n.log2 + 1) := Nat.lt_log2_self
  have h2 : 2 ^ (n.log2 + 1) ≤ 8 ^ (n.log2 + 1) := Nat.pow_le_pow_left (by omega) _
  have h3 : 8 ^ (n.log2 + 1) ≤ 8 ^ (n.log2 + 2) := Nat.pow_le_pow_right (by omega) (by omega)
  omega

theorem modeGo_natOct (m : Nat) (hm : m < 4294967296) (r : Bytes) :
    modeGo 0 (natOct m ++ 32 :: r) = some (m, r) := by
  obtain ⟨h1, h2⟩ := digitsFuel8_val (m.log2 + 1) m (lt_pow8_log2 m)
  have e : natOct m = digitsFuel 8 (m.log2 + 1 + 1) m := rfl
  rw [e, modeGo_digits _ r h1 0, foldl_octStep _ 0 (by rw [h2]; exact hm), h2]

/-! ### entries -/

theorem entryMode_ok (m : Nat) (h : modeOk m = true) : entryMode m = some m := by
  unfold modeOk at h
  unfold entryMode
  simp only [Bool.or_eq_true, beq_iff_eq, Bool.and_eq_true, decide_eq_true_eq] at h
  rcases h with ((h | h) | h) | ⟨h1, h2⟩
  · subst h; rfl
  · subst h; rfl
  · subst h; rfl
  · have hm : m % 65536 = m := Nat.mod_eq_of_lt h1
    by_cases hs : (m == 0o40000 || m == 0o120000 || m == 0o160000) = true
    · simp [hs, hm]
    · simp [hs, h2, hm]

/-- the writable (round-trip) domain of a tree entry: a mode the decoder accepts (40000, 120000,
160000 or any 16-bit mode with the regular-file bit), a NUL-free name, a 20-byte id. (`Tree::write_to`
additionally debug-asserts C03's order; the decoder does not care.) -/
def EntryWritable (e : Entry) : Prop :=
  modeOk e.mode = true ∧ e.name.contains 0 = false ∧ e.oid.length = 20

instance (e : Entry) : Decidable (EntryWritable e) := by unfold EntryWritable; infer_instance

def entryBytes (e : Entry) : Bytes := natOct e.mode ++ 32 :: (e.name ++ 0 :: e.oid)

theorem modeOk_lt (m : Nat) (h : modeOk m = true) : m < 65536 := by
  unfold modeOk at h
  simp only [Bool.or_eq_true, beq_iff_eq, Bool.and_eq_true, decide_eq_true_eq] at h
  rcases h with ((h | h) | h) | ⟨h1, _⟩ <;> omega

theorem fastEntry_bytes (e : Entry) (hw : EntryWritable e) (rest : Bytes) :
    fastEntry (entryBytes e ++ rest) = some (e, rest) := by
  obtain ⟨hm, hn, ho⟩ := hw
  have hlt := modeOk_lt e.mode hm
  have h1 := modeGo_natOct e.mode (by omega) (e.name ++ 0 :: (e.oid ++ rest))
  have hn' : ∀ b ∈ e.name, (b == 0) = false := by
    intro b hb
    cases hc : (b == 0) with
    | false => rfl
    | true =>
      have : b = 0 := by simpa using hc
      subst this
      have : e.name.contains 0 = true := by simpa using hb
      rw [hn] at this
      exact absurd this (by simp)
  have h2 := splitFirst_append 0 e.name (e.oid ++ rest) hn'
  have h3 : ¬ ((e.oid ++ rest).length < 20) := by simp only [List.length_append]; omega
  have h4 : (e.oid ++ rest).take 20 = e.oid := by rw [← ho]; exact List.take_left
  have h5 : (e.oid ++ rest).drop 20 = rest := by rw [← ho]; exact List.drop_left
  have e1 : entryBytes e ++ rest = natOct e.mode ++ 32 :: (e.name ++ 0 :: (e.oid ++ rest)) := by
    simp [entryBytes]
  rw [e1]
  simp only [fastEntry, h1, entryMode_ok e.mode hm, h2, h3, if_false, h4, h5]

theorem entry_write_bytes (e : Entry) (hw : EntryWritable e) : e.write = some (entryBytes e) := by
  obtain ⟨_, hn, _⟩ := hw
  simp only [Entry.write, hn, Bool.false_eq_true, if_false, entryBytes, modeBytes]
  simp

theorem treeWrite_bytes (es : List Entry) (hw : ∀ e ∈ es, EntryWritable e) :
    treeWrite es = some (es.flatMap entryBytes) := by
  induction es with
  | nil => rfl
  | cons e es ih =>
    have h1 := entry_write_bytes e (hw e (by simp))
    have h2 := ih (fun x hx => hw x (by simp [hx]))
    unfold treeWrite at h2 ⊢
    simp only [List.map_cons, concatOpts, h1, h2, optAppend, List.flatMap_cons]

theorem entryBytes_ne (e : Entry) (rest : Bytes) : (entryBytes e ++ rest).isEmpty = false := by
  have : (entryBytes e ++ rest).length ≠ 0 := by
    simp only [entryBytes, List.length_append, List.length_cons]; omega
  cases h : entryBytes e ++ rest with
  | nil => simp [h] at this
  | cons _ _ => rfl

theorem treeLoop_bytes (es : List Entry) (hw : ∀ e ∈ es, EntryWritable e) :
    ∀ fuel, es.length ≤ fuel → treeLoop fuel (es.flatMap entryBytes) = (es, true) := by
  induction es with
  | nil =>
    intro fuel _
    cases fuel <;> simp [treeLoop]
  | cons e es ih =>
    intro fuel hf
    cases fuel with
    | zero => simp at hf
    | succ f =>
      have h1 := fastEntry_bytes e (hw e (by simp)) (es.flatMap entryBytes)
      have h2 := ih (fun x hx => hw x (by simp [hx])) f (by simpa using hf)
      simp only [List.flatMap_cons, treeLoop, entryBytes_ne, Bool.false_eq_true, if_false, h1, h2]

theorem entries_length_le (es : List Entry) : es.length ≤ (es.flatMap entryBytes).length := by
  induction es with
  | nil => simp
  | cons e es ih =>
    simp only [List.flatMap_cons, List.length_append, List.length_cons, entryBytes]
    omega

theorem tree_roundtrip_core (es : List Entry) (hw : ∀ e ∈ es, EntryWritable e) :
    ∃ bs, treeWrite es = some bs ∧ parseTree bs = some es ∧ iterTree bs = some es := by
  refine ⟨_, treeWrite_bytes es hw, ?_, ?_⟩
  · have := treeLoop_bytes es hw ((es.flatMap entryBytes).length + 1) (by have := entries_length_le es; omega)
    simp only [parseTree, this, if_true]
  · have := treeLoop_bytes es hw ((es.flatMap entryBytes).length + 1) (by have := entries_length_le es; omega)
    simp only [iterTree, iterTreeTokens, this, if_true]

/-! ### every decoded entry is writable (input side) -/

theorem entryMode_sound (m k : Nat) (h : entryMode m = some k) : modeOk k = true := by
  unfold entryMode at h
  unfold modeOk
  split at h
  · rename_i hs
    simp only [Option.some.injEq] at h
    simp only [Bool.or_eq_true, beq_iff_eq] at hs
    rcases hs with (hs | hs) | hs <;> (subst hs; subst h; decide)
  · split at h
    · rename_i hbit
      simp only [Option.some.injEq] at h
      subst h
      simp only [beq_iff_eq] at hbit
      have h1 : m % 65536 < 65536 := Nat.mod_lt _ (by omega)
      have h2 : (m % 65536 / 32768) % 2 = 1 := by omega
      simp [h1, h2]
    · simp at h

theorem fastEntry_sound (i : Bytes) (e : Entry) (r : Bytes) (h : fastEntry i = some (e, r)) :
    EntryWritable e := by
  unfold fastEntry at h
  split at h
  · simp at h
  · rename_i m r0 _
    split at h
    · simp at h
    · rename_i mode hmode
      split at h
      · simp at h
      · rename_i name r1 hsf
        split at h
        · simp at h
        · rename_i hlen
          simp only [Option.some.injEq, Prod.mk.injEq] at h
          obtain ⟨rfl, _⟩ := h
          refine ⟨entryMode_sound m mode hmode, ?_, ?_⟩
          · have := (splitFirst_eq 0 r0 name r1 hsf).2
            cases hc : name.contains 0 with
            | false => rfl
            | true =>
              have hm : (0 : UInt8) ∈ name := by simpa using hc
              have := this 0 hm
              exact absurd this (by decide)
          · simp only [List.length_take]
            omega

theorem treeLoop_sound : ∀ (n : Nat) (i : Bytes), ∀ e ∈ (treeLoop n i).1, EntryWritable e := by
  intro n
  induction n with
  | zero => intro i e he; simp [treeLoop] at he
  | succ n ih =>
    intro i e he
    unfold treeLoop at he
    split at he
    · simp at he
    · split at he
      · simp at he
      · rename_i e0 r hfe
        simp only [List.mem_cons] at he
        rcases he with rfl | he
        · exact fastEntry_sound i _ r hfe
        · exact ih r e he

theorem parseTree_sound (i : Bytes) (es : List Entry) (h : parseTree i = some es) :
    ∀ e ∈ es, EntryWritable e := by
  unfold parseTree at h
  split at h
  · simp only [Option.some.injEq] at h
    rw [← h]
    exact treeLoop_sound _ _
  · simp at h

/-! ### git's trees -/

theorem renderTree_bytes (es : List GitEntry) : renderTree es = (es.map absEntry).flatMap entryBytes := by
  induction es with
  | nil => rfl
  | cons e es ih =>
    simp only [renderTree, List.flatMap_cons, List.map_cons] at ih ⊢
    rw [ih]
    simp [GitEntry.render, entryBytes, absEntry]

theorem absEntry_writable (e : GitEntry) (hw : e.Wf) : EntryWritable (absEntry e) := hw

end GixModel.C02
