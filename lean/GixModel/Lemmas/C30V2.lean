import GixModel.Lemmas.C30Bytes
/-
C30 — protocol v2: every line `ls-refs` prints parses back to the reference it describes.
-/
namespace GixModel.C30
open GixModel
open GixModel.Spec.C30

theorem not_hex_32 : ¬ IsHexDigit 32 := by decide
theorem not_hex_58 : ¬ IsHexDigit 58 := by decide

theorem sp_not_mem_symTok (t : Bytes) (h : (32 : UInt8) ∉ t) : (32 : UInt8) ∉ bSymrefTarget ++ t := by
  have : (32 : UInt8) ∉ bSymrefTarget := by decide
  simp [List.mem_append, this, h]

theorem sp_not_mem_peelTok (p : Oid) : (32 : UInt8) ∉ bPeeledColon ++ toHex p := by
  have : (32 : UInt8) ∉ bPeeledColon := by decide
  simp [List.mem_append, this, not_mem_toHex p 32 not_hex_32]

theorem parseAttr_sym (acc : V2Attrs) (t : Bytes) (hne : t ≠ []) :
    parseAttr acc (bSymrefTarget ++ t) = .ok { acc with symrefTarget := some t } := by
  have e : bSymrefTarget ++ t = bSymrefTargetName ++ 58 :: t := by
    simp [bSymrefTarget, bSymrefTargetName]
  have hn : (58 : UInt8) ∉ bSymrefTargetName := by decide
  have hp : bSymrefTargetName ≠ bPeeled := by decide
  have hte : t.isEmpty = false := by cases t <;> simp_all
  simp [parseAttr, e, splitOnce_append 58 _ _ hn, hte, hp]

theorem parseAttr_peeled (acc : V2Attrs) (p : Oid) (hp : p.length = 20) :
    parseAttr acc (bPeeledColon ++ toHex p) = .ok { acc with peeled := some p } := by
  have e : bPeeledColon ++ toHex p = bPeeled ++ 58 :: toHex p := by
    simp [bPeeledColon, bPeeled]
  have hn : (58 : UInt8) ∉ bPeeled := by decide
  have hte : (toHex p).isEmpty = false := by
    have := toHex_ne_nil p hp
    cases h : toHex p <;> simp_all
  simp [parseAttr, e, splitOnce_append 58 _ _ hn, hte, fromHex_toHex p hp]

theorem toHex_ne_unborn (o : Oid) (h : o.length = 20) : toHex o ≠ bUnborn := by
  intro e
  have := toHex_length o
  rw [e, h] at this
  simp [bUnborn] at this

theorem isEmpty_false_of_ne {l : Bytes} (h : l ≠ []) : l.isEmpty = false := by
  cases l <;> simp_all

theorem parseV2_v2Line (e : Entry) (h : WfEntry e) : parseV2 (v2Line e) = .ok (expectEntryV2 e) := by
  have hsp : (32 : UInt8) ∉ toHex e.oid := not_mem_toHex _ _ not_hex_32
  have hname := h.name.noSp
  have hne := isEmpty_false_of_ne h.name.ne
  have hfh := fromHex_toHex e.oid h.oid
  have hub := toHex_ne_unborn e.oid h.oid
  unfold v2Line parseV2
  cases hs : e.sym with
  | none =>
    cases hp : e.peeled with
    | none =>
      have e1 : toHex e.oid ++ 32 :: (e.name ++ [] ++ [] ++ [10]) = (toHex e.oid ++ 32 :: e.name) ++ [10] := by simp
      simp only [e1, chomp_append_nl, splitN, splitOnce_append 32 _ _ hsp, splitOnce_none 32 _ hname]
      simp [hub, hfh, hne, parseAttrs, expectEntryV2, hs, plainRef, hp]
    | some p =>
      have hpl := h.peeled p hp
      have e1 : toHex e.oid ++ 32 :: (e.name ++ [] ++ 32 :: (bPeeledColon ++ toHex p) ++ [10])
          = (toHex e.oid ++ 32 :: (e.name ++ 32 :: (bPeeledColon ++ toHex p))) ++ [10] := by simp
      simp only [e1, chomp_append_nl, splitN, splitOnce_append 32 _ _ hsp, splitOnce_append 32 _ _ hname,
        splitOnce_none 32 _ (sp_not_mem_peelTok p)]
      simp [hub, hfh, hne, parseAttrs, parseAttr_peeled _ p hpl, expectEntryV2, hs, plainRef, hp]
  | some t =>
    have ht := h.sym t hs
    cases hp : e.peeled with
    | none =>
      have e1 : toHex e.oid ++ 32 :: (e.name ++ 32 :: (bSymrefTarget ++ t) ++ [] ++ [10])
          = (toHex e.oid ++ 32 :: (e.name ++ 32 :: (bSymrefTarget ++ t))) ++ [10] := by simp
      simp only [e1, chomp_append_nl, splitN, splitOnce_append 32 _ _ hsp, splitOnce_append 32 _ _ hname,
        splitOnce_none 32 _ (sp_not_mem_symTok t ht.noSp)]
      simp [hub, hfh, hne, parseAttrs, parseAttr_sym _ t ht.ne, expectEntryV2, hs, symRef, hp, ht.notNull]
    | some p =>
      have hpl := h.peeled p hp
      have e1 : toHex e.oid ++ 32 :: (e.name ++ 32 :: (bSymrefTarget ++ t) ++ 32 :: (bPeeledColon ++ toHex p) ++ [10])
          = (toHex e.oid ++ 32 :: (e.name ++ 32 :: ((bSymrefTarget ++ t) ++ 32 :: (bPeeledColon ++ toHex p)))) ++ [10] := by simp
      simp only [e1, chomp_append_nl, splitN, splitOnce_append 32 _ _ hsp, splitOnce_append 32 _ _ hname,
        splitOnce_append 32 _ _ (sp_not_mem_symTok t ht.noSp)]
      simp [hub, hfh, hne, parseAttrs, parseAttr_sym _ t ht.ne, parseAttr_peeled _ p hpl, expectEntryV2, hs,
        symRef, hp, ht.notNull]

theorem parseV2_unbornLine (t : Bytes) (ht : ValidTarget t) :
    parseV2 (bUnborn ++ 32 :: (bHEAD ++ 32 :: (bSymrefTarget ++ t ++ [10]))) = .ok (Ref.unborn bHEAD t) := by
  have e1 : bUnborn ++ 32 :: (bHEAD ++ 32 :: (bSymrefTarget ++ t ++ [10]))
      = (bUnborn ++ 32 :: (bHEAD ++ 32 :: (bSymrefTarget ++ t))) ++ [10] := by simp
  have h1 : (32 : UInt8) ∉ bUnborn := by decide
  have h2 : (32 : UInt8) ∉ bHEAD := by decide
  have h3 : bHEAD.isEmpty = false := by decide
  unfold parseV2
  simp only [e1, chomp_append_nl, splitN, splitOnce_append 32 _ _ h1, splitOnce_append 32 _ _ h2,
    splitOnce_none 32 _ (sp_not_mem_symTok t ht.noSp)]
  simp [h3, parseAttrs, parseAttr_sym _ t ht.ne, ht.notNull]

theorem startsWith_ERR_hexline (o : Oid) (h : o.length = 20) (rest : Bytes) :
    startsWith bERR (toHex o ++ rest) = false := by
  obtain ⟨c, r, e, hc⟩ := toHex_head o h
  have hne : (69 : UInt8) ≠ c := by
    intro e2; subst e2; revert hc; decide
  exact startsWith_false_of_head bERR _ 69 c [82, 82, 32] (r ++ rest) rfl (by simp [e]) hne

theorem fromV2_map (es : List Entry) (h : ∀ e ∈ es, WfEntry e) :
    fromV2 (es.map v2Line) = .ok (es.map expectEntryV2) := by
  induction es with
  | nil => rfl
  | cons e es ih =>
    have he := h e (by simp)
    have hs : startsWith bERR (v2Line e) = false := by
      unfold v2Line; exact startsWith_ERR_hexline e.oid he.oid _
    simp only [List.map_cons, fromV2, hs, parseV2_v2Line e he, ih (fun x hx => h x (by simp [hx]))]
    simp

theorem startsWith_ERR_unborn (rest : Bytes) : startsWith bERR (bUnborn ++ rest) = false := by
  simp [startsWith, stripPrefix, bERR, bUnborn]

theorem fromV2_advertise (s : V2Server) (h : WfV2 s) : fromV2 (advertiseV2 s) = .ok (expectV2 s) := by
  have hmap := fromV2_map (s.entries.filter fun e => refMatch s.prefixes e.name)
    (fun e he => h.entries e (List.mem_filter.mp he).1)
  unfold advertiseV2 expectV2
  cases hu : s.unbornShown with
  | none => simpa using hmap
  | some t =>
    have ht : ValidTarget t := by
      apply h.unborn
      unfold V2Server.unbornShown at hu
      split at hu
      · exact hu
      · simp at hu
    simp only [List.cons_append, List.nil_append, fromV2, startsWith_ERR_unborn,
      parseV2_unbornLine t ht, hmap]
    simp

end GixModel.C30
