import GixModel.Lemmas.C52Casc2
/-
C52 — `parse(format(fmt, t))` through the whole cascade, for the seven strftime formats.
-/
namespace GixModel.C52
open GixModel GixModel.Civil

theorem format_ok (fmt : Bytes) (items : List Item) (hpf : parseFormat fmt = some items) (t : Time) (hr : InRange t) :
    format (.custom fmt) t = .ok (strftime items (breakDown t.seconds t.offset)) := by
  obtain ⟨h1, h2, h3, h4⟩ := hr
  unfold format
  simp only
  have g1 : ¬ (t.offset < -offMax ∨ t.offset > offMax) := by omega
  have g2 : ¬ (t.seconds < tsMin ∨ t.seconds > tsMax) := by omega
  rw [if_neg g1, if_neg g2, hpf]

theorem parseZoned_text (fmt : Bytes) (items : List Item) (hpf : parseFormat fmt = some items)
    (hchain : chainOk items = true) (hcomplete : complete items = true) (t : Time) (hr : InRange t) (hs : SignOk t) :
    parseZoned fmt (strftime items (breakDown t.seconds t.offset)) = some t := by
  obtain ⟨text, hf, hp⟩ := format_parse_zoned fmt items hpf hchain hcomplete t hr hs
  rw [format_ok fmt items hpf t hr] at hf
  simp only [Outcome.ok.injEq] at hf
  rw [hf]; exact hp

theorem parseRfc_text (fmt : Bytes) (noPad : Bool) (hpf : parseFormat fmt = some (rfcItems noPad)) (t : Time) (hr : InRange t)
    (hs : SignOk t) (hy : 0 ≤ (breakDown t.seconds t.offset).year) (hmin : t.offset % 60 = 0) :
    parseRfc2822 (strftime (rfcItems noPad) (breakDown t.seconds t.offset)) = some t := by
  obtain ⟨text, hf, hp⟩ := rfc2822_roundtrip fmt noPad hpf t hr hs hy hmin
  rw [format_ok fmt _ hpf t hr] at hf
  simp only [Outcome.ok.injEq] at hf
  rw [hf]; exact hp

theorem order_eq : Extracted.dateParseOrder = [0, 1, 2, 3, 4, 5] := by decide

theorem magic_head : ∃ r, magicInput = 49 :: r := ⟨_, rfl⟩

theorem ne_magic_of_head {x : UInt8} {r : Bytes} (hx : x ≠ 49) : ((x :: r) == magicInput) = false := by
  obtain ⟨m, hm⟩ := magic_head
  rw [hm]
  simp [hx]

theorem ne_magic_of_length {text : Bytes} (h : text.length ≠ 19) : (text == magicInput) = false := by
  cases hb : (text == magicInput) with
  | false => rfl
  | true =>
    have : text = magicInput := by simpa using hb
    rw [this] at h
    exact absurd rfl h

theorem fmtOffset_length (off : Int) (hoff : off.natAbs ≤ 93599) (colon : Bool) : 5 ≤ (fmtOffset off colon).length := by
  unfold fmtOffset
  simp only [List.length_append, List.length_cons, List.length_nil, pad2_length _ (show off.natAbs / 3600 < 100 by omega),
    pad2_length _ (show off.natAbs % 3600 / 60 < 100 by omega)]
  omega

theorem fmtY_length (b : Broken) (hb : BrokenOk b) : 4 ≤ (fmtItem b .Y).length := by
  have := hb.year
  simp only [fmtItem, pad4, List.length_append, pad2_length _ (show b.year.natAbs / 100 < 100 by omega),
    pad2_length _ (show b.year.natAbs % 100 < 100 by omega)]
  omega

theorem short_text_length (b : Broken) (hb : BrokenOk b) (more : List Item) :
    10 ≤ (strftime shortItems b).length ∧ (strftime shortItems b).length ≤ 11 := by
  have hy := hb.year
  have hm := hb.date.2.1
  have hd31 : b.day ≤ 31 := Nat.le_trans hb.date.2.2.2 (daysInMonth_le31 _ _)
  have l1 := pad2_length (b.year.natAbs / 100) (by omega)
  have l2 := pad2_length (b.year.natAbs % 100) (by omega)
  have l3 := pad2_length b.month (by omega)
  have l4 := pad2_length b.day (by omega)
  simp only [shortItems, strftime, List.flatMap_cons, List.flatMap_nil, fmtItem, pad4, List.length_append, List.length_cons,
    List.length_nil, l1, l2, l3, l4]
  split <;> simp <;> omega

theorem tail_iso_length (b : Broken) (hb : BrokenOk b) : 15 ≤ (strftime isoTail b).length := by
  have l1 := pad2_length b.hour (by have := hb.hour; omega)
  have l2 := pad2_length b.minute (by have := hb.minute; omega)
  have l3 := pad2_length b.second (by have := hb.second; omega)
  have l4 := fmtOffset_length b.offset hb.offset false
  simp only [isoTail, strftime, List.flatMap_cons, List.flatMap_nil, fmtItem, List.length_append, List.length_cons,
    List.length_nil, l1, l2, l3]
  omega

theorem tail_strict_length (b : Broken) (hb : BrokenOk b) : 14 ≤ (strftime strictTail b).length := by
  have l1 := pad2_length b.hour (by have := hb.hour; omega)
  have l2 := pad2_length b.minute (by have := hb.minute; omega)
  have l3 := pad2_length b.second (by have := hb.second; omega)
  have l4 := fmtOffset_length b.offset hb.offset true
  simp only [strictTail, strftime, List.flatMap_cons, List.flatMap_nil, fmtItem, List.length_append, List.length_cons,
    List.length_nil, l1, l2, l3]
  omega

theorem fmtOfCode_vals : fmtOfCode 0 = Extracted.dateFmtShort ∧ fmtOfCode 2 = Extracted.dateFmtIso8601 ∧
    fmtOfCode 3 = Extracted.dateFmtIso8601Strict ∧ fmtOfCode 4 = Extracted.dateFmtGitoxide ∧
    fmtOfCode 5 = Extracted.dateFmtDefault := by
  refine ⟨rfl, rfl, rfl, rfl, rfl⟩

theorem branch0 (inp : Bytes) : branch 0 inp = parseDate Extracted.dateFmtShort inp := rfl
theorem branch1 (inp : Bytes) : branch 1 inp = (parseRfc2822 inp).map some := rfl
theorem branch2 (inp : Bytes) : branch 2 inp = (parseZoned Extracted.dateFmtIso8601 inp).map some := rfl
theorem branch3 (inp : Bytes) : branch 3 inp = (parseZoned Extracted.dateFmtIso8601Strict inp).map some := rfl
theorem branch4 (inp : Bytes) : branch 4 inp = (parseZoned Extracted.dateFmtGitoxide inp).map some := rfl
theorem branch5 (inp : Bytes) : branch 5 inp = (parseZoned Extracted.dateFmtDefault inp).map some := rfl

theorem parse_of_cascade {text : Bytes} {t : Time} (hm : (text == magicInput) = false)
    (hc : cascade text [0, 1, 2, 3, 4, 5] = some (some t)) : parse text = .ok t := by
  unfold parse
  rw [hm, order_eq, hc]
  rfl

theorem short_year_text (b : Broken) (more : List Item) :
    ∃ tail, strftime (shortItems ++ more) b = fmtItem b .Y ++ 45 :: tail :=
  ⟨strftime ([.m, .lit 45, .d] ++ more) b, by simp [shortItems, strftime, fmtItem]⟩

theorem iso_through_cascade (t : Time) (hr : InRange t) (hs : SignOk t) :
    ∃ text, format (.custom Extracted.dateFmtIso8601) t = .ok text ∧ parse text = .ok t := by
  have hb := brokenOk_breakDown t hr
  obtain ⟨_, p2, _, _, _, c2, _, _, _, _⟩ := formats_parsed
  have hcomp : complete (shortItems ++ isoTail) = true := by decide
  refine ⟨_, format_ok _ _ p2 t hr, ?_⟩
  generalize hbd : breakDown t.seconds t.offset = b at *
  have hlen : (strftime (shortItems ++ isoTail) b).length ≠ 19 := by
    rw [strftime_append, List.length_append]
    have := (short_text_length b hb []).1
    have := tail_iso_length b hb
    omega
  apply parse_of_cascade (ne_magic_of_length hlen)
  have hne : strftime isoTail b ≠ [] := by
    intro h; have := tail_iso_length b hb; rw [h] at this; simp at this
  obtain ⟨tail, htail⟩ := short_year_text b isoTail
  rw [cascade_skip (by rw [branch0]; exact date_rejects_longer b hb isoTail c2 hne),
    cascade_skip (by rw [branch1, htail, rfc_rejects_year_text b hb tail]; rfl)]
  apply cascade_hit
  rw [branch2, ← hbd, parseZoned_text _ _ p2 c2 hcomp t hr hs]
  rfl

theorem strict_through_cascade (t : Time) (hr : InRange t) (hs : SignOk t) :
    ∃ text, format (.custom Extracted.dateFmtIso8601Strict) t = .ok text ∧ parse text = .ok t := by
  have hb := brokenOk_breakDown t hr
  obtain ⟨_, _, p3, _, _, _, c3, _, _, _⟩ := formats_parsed
  have hcomp : complete (shortItems ++ strictTail) = true := by decide
  refine ⟨_, format_ok _ _ p3 t hr, ?_⟩
  generalize hbd : breakDown t.seconds t.offset = b at *
  have hlen : (strftime (shortItems ++ strictTail) b).length ≠ 19 := by
    rw [strftime_append, List.length_append]
    have := (short_text_length b hb []).1
    have := tail_strict_length b hb
    omega
  apply parse_of_cascade (ne_magic_of_length hlen)
  have hne : strftime strictTail b ≠ [] := by
    intro h; have := tail_strict_length b hb; rw [h] at this; simp at this
  obtain ⟨tail, htail⟩ := short_year_text b strictTail
  rw [cascade_skip (by rw [branch0]; exact date_rejects_longer b hb strictTail c3 hne),
    cascade_skip (by rw [branch1, htail, rfc_rejects_year_text b hb tail]; rfl),
    cascade_skip (by rw [branch2, iso_rejects_strict b hb]; rfl)]
  apply cascade_hit
  rw [branch3, ← hbd, parseZoned_text _ _ p3 c3 hcomp t hr hs]
  rfl

theorem gitoxide_through_cascade (t : Time) (hr : InRange t) (hs : SignOk t) :
    ∃ text, format (.custom Extracted.dateFmtGitoxide) t = .ok text ∧ parse text = .ok t := by
  have hb := brokenOk_breakDown t hr
  obtain ⟨p0, p2, p3, p4, _, _, _, c4, _, _⟩ := formats_parsed
  have hcomp : complete (wdMonth ++ gitoxideTail) = true := by decide
  refine ⟨_, format_ok _ _ p4 t hr, ?_⟩
  generalize hbd : breakDown t.seconds t.offset = b at *
  have hshape : wdMonth ++ gitoxideTail = .a :: .lit 32 :: ([.b, .lit 32] ++ gitoxideTail) := rfl
  obtain ⟨x, r, hx, _, _, _, h49⟩ := weekday_text_head b hb (.lit 32 :: ([.b, .lit 32] ++ gitoxideTail))
  have hm : (strftime (wdMonth ++ gitoxideTail) b == magicInput) = false := by
    rw [hshape, hx]; exact ne_magic_of_head h49
  apply parse_of_cascade hm
  rw [hshape,
    cascade_skip (by rw [branch0]; exact date_Y_rejects_weekday_text _ _ p0 b hb _),
    cascade_skip (by rw [branch1, rfc_rejects_weekday_blank b hb]; rfl),
    cascade_skip (by rw [branch2, zoned_Y_rejects_weekday_text _ _ p2 b hb]; rfl),
    cascade_skip (by rw [branch3, zoned_Y_rejects_weekday_text _ _ p3 b hb]; rfl)]
  apply cascade_hit
  rw [branch4, ← hshape, ← hbd, parseZoned_text _ _ p4 c4 hcomp t hr hs]
  rfl

theorem default_through_cascade (t : Time) (hr : InRange t) (hs : SignOk t) :
    ∃ text, format (.custom Extracted.dateFmtDefault) t = .ok text ∧ parse text = .ok t := by
  have hb := brokenOk_breakDown t hr
  obtain ⟨p0, p2, p3, _, p5, _, _, _, c5, _⟩ := formats_parsed
  have hcomp : complete (wdMonth ++ defaultTail) = true := by decide
  refine ⟨_, format_ok _ _ p5 t hr, ?_⟩
  generalize hbd : breakDown t.seconds t.offset = b at *
  have hshape : wdMonth ++ defaultTail = .a :: .lit 32 :: ([.b, .lit 32] ++ defaultTail) := rfl
  obtain ⟨x, r, hx, _, _, _, h49⟩ := weekday_text_head b hb (.lit 32 :: ([.b, .lit 32] ++ defaultTail))
  have hm : (strftime (wdMonth ++ defaultTail) b == magicInput) = false := by
    rw [hshape, hx]; exact ne_magic_of_head h49
  apply parse_of_cascade hm
  have h4 : branch 4 (strftime (wdMonth ++ defaultTail) b) = none := by
    rw [branch4, gitoxide_rejects_default b hb]; rfl
  rw [hshape] at h4 ⊢
  rw [cascade_skip (by rw [branch0]; exact date_Y_rejects_weekday_text _ _ p0 b hb _),
    cascade_skip (by rw [branch1, rfc_rejects_weekday_blank b hb]; rfl),
    cascade_skip (by rw [branch2, zoned_Y_rejects_weekday_text _ _ p2 b hb]; rfl),
    cascade_skip (by rw [branch3, zoned_Y_rejects_weekday_text _ _ p3 b hb]; rfl),
    cascade_skip h4]
  apply cascade_hit
  rw [branch5, ← hshape, ← hbd, parseZoned_text _ _ p5 c5 hcomp t hr hs]
  rfl

theorem rfc_through_cascade (fmt : Bytes) (noPad : Bool) (hpf : parseFormat fmt = some (rfcItems noPad))
    (t : Time) (hr : InRange t) (hs : SignOk t) (hy : 0 ≤ (breakDown t.seconds t.offset).year) (hmin : t.offset % 60 = 0) :
    ∃ text, format (.custom fmt) t = .ok text ∧ parse text = .ok t := by
  have hb := brokenOk_breakDown t hr
  have p0 := formats_parsed.1
  refine ⟨_, format_ok _ _ hpf t hr, ?_⟩
  have hres := parseRfc_text fmt noPad hpf t hr hs hy hmin
  generalize hbd : breakDown t.seconds t.offset = b at *
  have hshape : ∃ rest, rfcItems noPad = .a :: rest := ⟨_, rfl⟩
  obtain ⟨rest, hrest⟩ := hshape
  obtain ⟨x, r, hx, _, _, _, h49⟩ := weekday_text_head b hb rest
  have hm : (strftime (rfcItems noPad) b == magicInput) = false := by
    rw [hrest, hx]; exact ne_magic_of_head h49
  apply parse_of_cascade hm
  rw [cascade_skip (by rw [branch0, hrest]; exact date_Y_rejects_weekday_text _ _ p0 b hb _)]
  apply cascade_hit
  rw [branch1, hres]
  rfl

end GixModel.C52
