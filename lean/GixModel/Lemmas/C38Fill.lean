import GixModel.Lemmas.C38Ref
/-
C38 — `Outcome::fill_attributes` (the explicit work stack): it terminates within the fuel the model
gives it, keeps `remaining` an upper bound of the attributes still to be found (so it never
underflows), and is simulated by git's recursive `fill_one`.
-/
namespace GixModel.Lemmas.C38
open GixModel GixModel.C38 GixModel.Spec.C38

theorem isFilled_eq_known (o : Out) (n : Bytes) : o.isFilled n = known o.filled n := rfl

theorem fill_filled (cx : Ctx) (o : Out) (a : Asg) : (o.fill cx a).filled = (a.name, a.st) :: o.filled := by
  unfold Out.fill; split <;> rfl

theorem fill_isFilled (cx : Ctx) (o : Out) (a : Asg) (n : Bytes) :
    (o.fill cx a).isFilled n = (n == a.name || o.isFilled n) := by
  rw [isFilled_eq_known, fill_filled, known_cons]; rfl

/-! ### termination -/

/-- total size of the macro bodies whose macro satisfies `p` -/
def phiP (ms : List (Bytes × List Asg)) (p : Bytes → Bool) : Nat :=
  ((ms.filter fun m => p m.1).map fun m => m.2.length).sum

theorem phiP_mono (ms : List (Bytes × List Asg)) (p q : Bytes → Bool) (h : ∀ n, q n = true → p n = true) :
    phiP ms q ≤ phiP ms p := by
  unfold phiP
  induction ms with
  | nil => simp
  | cons m ms ih =>
    simp only [List.filter_cons]
    by_cases hq : q m.1 = true
    · simp only [hq, h _ hq, if_true, List.map_cons, List.sum_cons]; omega
    · have hq' : q m.1 = false := by simpa using hq
      by_cases hp : p m.1 = true
      · simp only [hq', hp, if_true, Bool.false_eq_true, if_false, List.map_cons, List.sum_cons]; omega
      · have hp' : p m.1 = false := by simpa using hp
        simp only [hq', hp', Bool.false_eq_true, if_false]; exact ih

theorem phiP_drop (ms : List (Bytes × List Asg)) (p q : Bytes → Bool) (k : Bytes)
    (h : ∀ n, q n = true → p n = true) (hq : q k = false) (hp : p k = true) :
    phiP ms q + ((ms.lookup k).getD []).length ≤ phiP ms p := by
  induction ms with
  | nil => simp [phiP]
  | cons m ms ih =>
    obtain ⟨k', body⟩ := m
    have hmono := phiP_mono ms p q h
    unfold phiP at ih hmono ⊢
    simp only [List.filter_cons, List.lookup_cons]
    by_cases hk : k == k'
    · have hk' : k = k' := by simpa using hk
      subst hk'
      simp only [hk, hq, hp, if_true, Bool.false_eq_true, if_false, List.map_cons, List.sum_cons, Option.getD_some]
      omega
    · simp only [hk]
      by_cases hq' : q k' = true
      · simp only [hq', h _ hq', if_true, List.map_cons, List.sum_cons]; omega
      · have hq'' : q k' = false := by simpa using hq'
        by_cases hp' : p k' = true
        · simp only [hq'', hp', if_true, Bool.false_eq_true, if_false, List.map_cons, List.sum_cons]; omega
        · have hp'' : p k' = false := by simpa using hp'
          simp only [hq'', hp'', Bool.false_eq_true, if_false]; exact ih

/-- total size of the macro bodies whose macro has no value yet -/
def phi (ms : List (Bytes × List Asg)) (o : Out) : Nat := phiP ms fun n => !o.isFilled n

theorem phi_fill (cx : Ctx) (ms : List (Bytes × List Asg)) (o : Out) (a : Asg) (h : o.isFilled a.name = false) :
    phi ms (o.fill cx a) + ((ms.lookup a.name).getD []).length ≤ phi ms o := by
  unfold phi
  apply phiP_drop
  · intro n hn
    rw [fill_isFilled] at hn
    simp only [Bool.not_or, Bool.and_eq_true] at hn
    exact hn.2
  · rw [fill_isFilled]; simp
  · simp [h]

theorem pushable_length_le (o : Out) (as : List Asg) : (pushable o as).length ≤ as.length :=
  List.length_filter_le _ _

/-- `macro_expansion_terminates`, the loop invariant: the stack height plus the size of the macros
not yet expanded bounds the number of iterations -/
theorem fillLoop_isSome (cx : Ctx) : ∀ (n : Nat) (stk : List Asg) (o : Out),
    stk.length + phi cx.coll.macros o + 1 ≤ n → (fillLoop cx n stk o).isSome = true := by
  intro n
  induction n with
  | zero => intro stk o h; omega
  | succ n ih =>
    intro stk o h
    cases stk with
    | nil => simp [fillLoop]
    | cons a stk =>
      unfold fillLoop
      by_cases hf : o.isFilled a.name = true
      · simp only [hf, if_true]
        exact ih stk o (by simp only [List.length_cons] at h; omega)
      · have hf' : o.isFilled a.name = false := by simpa using hf
        simp only [hf', Bool.false_eq_true, if_false]
        have hphi := phi_fill cx cx.coll.macros o a hf'
        split
        · rfl
        · split
          · apply ih
            have := pushable_length_le (o.fill cx a) (cx.coll.macroOf a.name)
            simp only [List.length_append, List.length_reverse, List.length_cons] at h ⊢
            unfold Coll.macroOf at this ⊢
            omega
          · apply ih
            simp only [List.length_cons] at h
            omega

theorem phiP_le_total (ms : List (Bytes × List Asg)) (p : Bytes → Bool) :
    phiP ms p ≤ (ms.map fun m => m.2.length).sum := by
  unfold phiP
  induction ms with
  | nil => simp
  | cons m ms ih =>
    simp only [List.filter_cons]
    by_cases hm : p m.1 = true
    · simp only [hm, if_true, List.map_cons, List.sum_cons]; omega
    · have hm' : p m.1 = false := by simpa using hm
      simp only [hm', Bool.false_eq_true, if_false, List.map_cons, List.sum_cons]; omega

theorem phi_le_total (ms : List (Bytes × List Asg)) (o : Out) : phi ms o ≤ (ms.map fun m => m.2.length).sum :=
  phiP_le_total ms _

theorem fillAttributes_isSome (cx : Ctx) (attrs : List Asg) (o : Out) :
    (fillAttributes cx attrs o).isSome = true := by
  unfold fillAttributes
  apply fillLoop_isSome
  have := phi_le_total cx.coll.macros o
  unfold fillFuel Coll.macroTotal
  omega

/-! ### the `remaining` counter -/

/-- the attributes whose discovery is counted by `remaining` -/
def counted (cx : Ctx) : List Bytes :=
  if cx.sel.isEmpty then cx.coll.names else cx.sel.filter fun s => cx.coll.names.contains s

def unfilledCount (cx : Ctx) (o : Out) : Nat := ((counted cx).filter fun n => !o.isFilled n).length

/-- `remaining` never underestimates what is still to be found, and it never wrapped around -/
def Inv (cx : Ctx) (o : Out) : Prop := unfilledCount cx o ≤ o.remaining ∧ o.bad = false

theorem init_inv (cx : Ctx) : Inv cx (Out.init cx) := by
  unfold Inv unfilledCount counted Out.init
  constructor
  · by_cases hs : cx.sel.isEmpty = true
    · simp only [hs, if_true]; exact List.length_filter_le _ _
    · simp only [hs]; exact List.length_filter_le _ _
  · rfl

theorem counts_mem (cx : Ctx) (n : Bytes) (hn : n ∈ cx.coll.names) (hc : cx.counts n = true) : n ∈ counted cx := by
  unfold Ctx.counts at hc
  unfold counted
  by_cases hs : cx.sel.isEmpty = true
  · simp [hs, hn]
  · simp only [hs, Bool.false_or, List.any_eq_true, Bool.and_eq_true, beq_iff_eq] at hc
    obtain ⟨s, hsm, hsn, hsc⟩ := hc
    subst hsn
    simp only [hs]
    exact List.mem_filter.mpr ⟨hsm, hsc⟩

theorem filter_drop_one (C : List Bytes) (p : Bytes → Bool) (a : Bytes) (ha : a ∈ C) (hp : p a = true) :
    (C.filter fun n => !(n == a) && p n).length + 1 ≤ (C.filter p).length := by
  induction C with
  | nil => simp at ha
  | cons x xs ih =>
    have hle : (xs.filter fun n => !(n == a) && p n).length ≤ (xs.filter p).length := by
      clear ih ha
      induction xs with
      | nil => simp
      | cons y ys ihy =>
        simp only [List.filter_cons]
        by_cases hy : p y = true
        · by_cases hya : y == a
          · simp [hy, hya]; omega
          · simp [hy, hya]; exact ihy
        · simp [hy]; exact ihy
    simp only [List.filter_cons]
    by_cases hxa : x = a
    · subst hxa
      simp [hp]; omega
    · have hmem : a ∈ xs := by
        cases ha with
        | head => exact absurd rfl hxa
        | tail _ h => exact h
      have := ih hmem
      have hxa' : (x == a) = false := by simpa using hxa
      by_cases hx : p x = true
      · simp [hx, hxa']; omega
      · simp [hx]; omega

theorem filter_mono (C : List Bytes) (p q : Bytes → Bool) (h : ∀ n, q n = true → p n = true) :
    (C.filter q).length ≤ (C.filter p).length := by
  induction C with
  | nil => simp
  | cons x xs ih =>
    simp only [List.filter_cons]
    by_cases hq : q x = true
    · simp [hq, h x hq]; exact ih
    · by_cases hp : p x = true
      · simp [hq, hp]; omega
      · simp [hq, hp]; exact ih

theorem fill_inv (cx : Ctx) (o : Out) (a : Asg) (hi : Inv cx o) (hf : o.isFilled a.name = false)
    (hn : a.name ∈ cx.coll.names) : Inv cx (o.fill cx a) := by
  obtain ⟨hr, hb⟩ := hi
  unfold Inv unfilledCount at *
  have heq : (fun n => !(o.fill cx a).isFilled n) = fun n => !(n == a.name) && !o.isFilled n := by
    funext n; rw [fill_isFilled]; simp
  rw [heq]
  by_cases hc : cx.counts a.name = true
  · have hmem := counts_mem cx a.name hn hc
    have hdrop := filter_drop_one (counted cx) (fun n => !o.isFilled n) a.name hmem (by simp [hf])
    unfold Out.fill
    simp only [hc, if_true]
    constructor
    · omega
    · simp only [hb, Bool.false_or, beq_eq_false_iff_ne, ne_eq]; omega
  · have hmono := filter_mono (counted cx) (fun n => !o.isFilled n) (fun n => !(n == a.name) && !o.isFilled n)
      (fun n h => by simp only [Bool.and_eq_true] at h; exact h.2)
    unfold Out.fill
    simp only [hc]
    exact ⟨by simpa using Nat.le_trans hmono hr, hb⟩

/-- every attribute name the search can meet has an id in the collection -/
def NamesOk (cx : Ctx) (as : List Asg) : Prop := ∀ a ∈ as, a.name ∈ cx.coll.names

def MacrosOk (cx : Ctx) : Prop := ∀ n, NamesOk cx (cx.coll.macroOf n)

theorem fillLoop_inv (cx : Ctx) (hm : MacrosOk cx) : ∀ (n : Nat) (stk : List Asg) (o : Out) (r : Out × Bool),
    fillLoop cx n stk o = some r → Inv cx o → NamesOk cx stk → Inv cx r.1 := by
  intro n
  induction n with
  | zero => intro stk o r h; simp [fillLoop] at h
  | succ n ih =>
    intro stk o r h hi hs
    cases stk with
    | nil => simp only [fillLoop, Option.some.injEq] at h; subst h; exact hi
    | cons a stk =>
      have hs' : NamesOk cx stk := fun b hb => hs b (by simp [hb])
      unfold fillLoop at h
      by_cases hf : o.isFilled a.name = true
      · simp only [hf, if_true] at h
        exact ih stk o r h hi hs'
      · have hf' : o.isFilled a.name = false := by simpa using hf
        simp only [hf', Bool.false_eq_true, if_false] at h
        have hi1 := fill_inv cx o a hi hf' (hs a (by simp))
        split at h
        · simp only [Option.some.injEq] at h; subst h; exact hi1
        · split at h
          · apply ih _ _ r h hi1
            intro b hb
            simp only [List.mem_append, List.mem_reverse] at hb
            cases hb with
            | inl hb => exact hm a.name b (List.mem_filter.mp hb).1
            | inr hb => exact hs' b hb
          · exact ih _ _ r h hi1 hs'

theorem fillAttributes_inv (cx : Ctx) (hm : MacrosOk cx) (attrs : List Asg) (o : Out) (r : Out × Bool)
    (h : fillAttributes cx attrs o = some r) (hi : Inv cx o) (hn : NamesOk cx attrs) : Inv cx r.1 := by
  unfold fillAttributes at h
  apply fillLoop_inv cx hm _ _ _ _ h hi
  intro b hb
  simp only [List.mem_reverse] at hb
  exact hn b (List.mem_filter.mp hb).1

/-! ### simulation by `fill_one` -/

theorem step_unknown (mo : Bytes → Option (List Asg)) (f : Nat) (v : Vals) (a : Asg) (h : ¬ known v a.name = true) :
    step mo f v a = match mo a.name with
      | some body => if a.st = St.set then fillOne mo f body ((a.name, a.st) :: v) else (a.name, a.st) :: v
      | none => (a.name, a.st) :: v := by
  unfold step
  simp only [h]
  rfl

/-- the work stack is git's recursion: a run that is not cut short yields exactly the values the
fold of `step` yields; a run that stops because `remaining` hit zero yields a suffix of them
(the values found so far) -/
theorem fillLoop_sim (cx : Ctx) (mo : Bytes → Option (List Asg)) (mnames : List Bytes) (D : Nat)
    (hmo : ∀ n, (mo n).getD [] = cx.coll.macroOf n) (hmn : ∀ n b, mo n = some b → n ∈ mnames) :
    ∀ (n : Nat) (stk : List Asg) (o : Out) (r : Out × Bool), fillLoop cx n stk o = some r →
      psi mnames o.filled ≤ D →
      (r.2 = false → r.1.filled = stk.foldl (step mo D) o.filled) ∧
      (r.2 = true → r.1.remaining = 0 ∧ Ext r.1.filled (stk.foldl (step mo D) o.filled)) := by
  intro n
  induction n with
  | zero => intro stk o r h; simp [fillLoop] at h
  | succ n ih =>
    intro stk o r h hpsi
    cases stk with
    | nil =>
      simp only [fillLoop, Option.some.injEq] at h; subst h
      exact ⟨fun _ => rfl, fun h => by simp at h⟩
    | cons a stk =>
      unfold fillLoop at h
      by_cases hf : o.isFilled a.name = true
      · simp only [hf, if_true] at h
        rw [List.foldl_cons, step_known mo D o.filled a hf]
        exact ih stk o r h hpsi
      · have hf' : o.isFilled a.name = false := by simpa using hf
        have hk : ¬ known o.filled a.name = true := hf
        simp only [hf', Bool.false_eq_true, if_false] at h
        have hfil := fill_filled cx o a
        have hpsi1 : psi mnames (o.fill cx a).filled ≤ psi mnames o.filled := by
          rw [hfil]
          exact psi_mono _ _ _ (fun m hm => by rw [known_cons]; simp [hm])
        split at h
        · -- remaining hit zero
          rename_i hz
          simp only [Option.some.injEq] at h; subst h
          refine ⟨fun h => by simp at h, fun _ => ⟨by simpa using hz, ?_⟩⟩
          rw [List.foldl_cons]
          have hst : Ext ((a.name, a.st) :: o.filled) (step mo D o.filled a) := by
            rw [step_unknown mo D o.filled a hk]
            cases hmo' : mo a.name with
            | none => exact Ext.refl _
            | some body =>
              by_cases hs : a.st = St.set
              · simp only [hs, if_true]
                exact ext_fillOne mo D body _
              · simp only [hs]; exact Ext.refl _
          rw [hfil]
          exact hst.trans (ext_foldl_step mo D stk _)
        · split at h
          · -- a set attribute: its macro body (if any) goes on the stack
            rename_i hset
            have hstep : step mo D o.filled a
                = ((pushable (o.fill cx a) (cx.coll.macroOf a.name)).reverse).foldl (step mo D) (o.fill cx a).filled := by
              rw [step_unknown mo D o.filled a hk, hfil]
              cases hmo' : mo a.name with
              | none =>
                have : cx.coll.macroOf a.name = [] := by rw [← hmo, hmo']; rfl
                simp [this, pushable]
              | some body =>
                have hb : cx.coll.macroOf a.name = body := by rw [← hmo, hmo']; rfl
                simp only [hset, if_true, hb]
                have hlt := psi_cons_lt mnames o.filled a.name St.set (hmn _ _ hmo') hk
                rw [fillOne_fuel mo mnames hmn D (D + 1) body _ (by omega) (by omega), fillOne_succ]
                unfold pushable
                rw [← List.filter_reverse]
                have := foldl_filter_known mo D ((a.name, St.set) :: o.filled) body.reverse
                  ((a.name, St.set) :: o.filled) (fun _ h => h)
                simp only [isFilled_eq_known, hfil, hset] at this ⊢
                exact this.symm
            have := ih _ _ r h (by omega)
            rw [List.foldl_append, ← hstep] at this
            rw [List.foldl_cons]
            exact this
          · rename_i hset
            have hstep : step mo D o.filled a = (o.fill cx a).filled := by
              rw [step_unknown mo D o.filled a hk, hfil]
              cases hmo' : mo a.name with
              | none => rfl
              | some body => simp [hset]
            have := ih _ _ r h (by omega)
            rw [List.foldl_cons, hstep]
            exact this

theorem fillAttributes_sim (cx : Ctx) (mo : Bytes → Option (List Asg)) (mnames : List Bytes) (D : Nat)
    (hmo : ∀ n, (mo n).getD [] = cx.coll.macroOf n) (hmn : ∀ n b, mo n = some b → n ∈ mnames)
    (attrs : List Asg) (o : Out) (r : Out × Bool) (h : fillAttributes cx attrs o = some r)
    (hpsi : psi mnames o.filled ≤ D) :
    (r.2 = false → r.1.filled = fillOne mo (D + 1) attrs o.filled) ∧
    (r.2 = true → r.1.remaining = 0 ∧ Ext r.1.filled (fillOne mo (D + 1) attrs o.filled)) := by
  unfold fillAttributes at h
  have := fillLoop_sim cx mo mnames D hmo hmn _ _ _ _ h hpsi
  unfold pushable at this
  rw [← List.filter_reverse] at this
  have hk := foldl_filter_known mo D o.filled attrs.reverse o.filled (fun _ h => h)
  simp only [isFilled_eq_known] at this
  rw [hk] at this
  rw [fillOne_succ]
  exact this

end GixModel.Lemmas.C38
