import GixModel.Spec.C27Value
import GixModel.Lemmas.C27
import GixModel.Lemmas.C27Body
/-
C27 — `value_eq_git`: a simulation between gitoxide's two passes (`value_impl` splitting the text
into events and trimming, then `normalize`) and git's single pass `parse_value` (value buffer,
pending-space counter, quote flag). The invariant `Inv` says how the two states correspond after
the same prefix; each kind of token preserves it; at the end of the logical line both give the
same answer.
-/
namespace GixModel.C27
open GixModel GixModel.C26

/-! ### one step of `unescLoop`, whatever follows -/

theorem unesc_plain (c : UInt8) (q out : Bytes) (h1 : c ≠ 92) (h2 : c ≠ 34) :
    unescLoop (c :: q) out = unescLoop q (out ++ [c]) := by
  cases q with
  | nil => simp [unescLoop, h1, h2]
  | cons d r => rw [unescLoop]; simp [h1, h2]

theorem unesc_quote (q out : Bytes) : unescLoop (34 :: q) out = unescLoop q out :=
  unescLoop_cons_quote q out

theorem unesc_esc (d : UInt8) (q out : Bytes) (hb : d ≠ 98) :
    unescLoop (92 :: d :: q) out =
      unescLoop q (out ++ [if d == 110 then 10 else if d == 116 then 9 else d]) := by
  rw [unescLoop]
  by_cases h1 : d = 110
  · subst h1; simp
  · by_cases h2 : d = 116
    · subst h2; simp
    · simp [h1, h2, hb]

theorem unesc_spaces (k : Nat) (q out : Bytes) :
    unescLoop (List.replicate k 32 ++ q) out = unescLoop q (out ++ List.replicate k 32) := by
  induction k generalizing out with
  | zero => simp
  | succ k ih =>
    rw [List.replicate_succ, List.cons_append, unesc_plain 32 _ _ (by decide) (by decide), ih]
    congr 1
    rw [List.append_assoc]
    congr 1

/-! ### git: a comment runs to the end of the line -/

theorem git_comment : ∀ (i val : Bytes) (space : Nat), gitValueGo i val space false true = some val := by
  intro i
  induction i using List.rec with
  | nil => intro val space; simp [gitValueGo]
  | cons c r ih =>
    intro val space
    cases r with
    | nil => simp [gitValueGo]
    | cons d r' =>
      rw [gitValueGo]
      by_cases h : c = 10
      · simp [h]
      · simp [h]; exact ih val space

/-! ### trimming -/

theorem trimEnd_spaces (acc0 : Bytes) (k : Nat) (h : acc0.getLast?.all (fun b => !isAsciiWs b) = true) :
    trimEnd (acc0 ++ List.replicate k 32) = acc0 := by
  unfold trimEnd
  rw [List.reverse_append, List.reverse_replicate]
  have h1 : (List.replicate k 32 ++ acc0.reverse).dropWhile isAsciiWs = acc0.reverse.dropWhile isAsciiWs := by
    induction k with
    | zero => simp
    | succ k ih => rw [List.replicate_succ, List.cons_append, List.dropWhile_cons]; simp [isAsciiWs, ih]
  rw [h1]
  cases hr : acc0.reverse with
  | nil => have : acc0 = [] := by simpa using hr
           subst this; simp
  | cons x t =>
    have hx : acc0.getLast? = some x := by
      rw [List.getLast?_eq_head?_reverse, hr]; rfl
    rw [hx] at h
    simp at h
    rw [List.dropWhile_cons]
    simp [h]
    have := congrArg List.reverse hr
    simpa using this.symm

/-- how gitoxide's scanner state (raw text so far `R ++ acc`, `inQ`) and git's (value, pending
spaces, quote) correspond after reading the same prefix -/
structure Inv (R acc : Bytes) (inQ : Bool) (val : Bytes) (space : Nat) : Prop where
  quoted : inQ = true → space = 0 ∧ ∀ q, unescLoop (R ++ acc ++ q) [] = unescLoop q val
  unquoted : inQ = false → ∃ acc0, acc = acc0 ++ List.replicate space 32 ∧
      acc0.getLast?.all (fun b => !isAsciiWs b) = true ∧ ∀ q, unescLoop (R ++ acc0 ++ q) [] = unescLoop q val
  empty : val = [] → inQ = false → space = 0

def gixResult (o : Option (List Event × Bytes)) : Option Bytes := o.map fun p => normalize (valText p.1)

theorem valText_snoc (em : List Event) (e : Event) : valText (em ++ [e]) = valText em ++ valText [e] := by
  simp [valText]

@[simp] theorem valText_value (v : Bytes) : valText [Event.value v] = v := by simp [valText]
@[simp] theorem valText_done (v : Bytes) : valText [Event.done v] = v := by simp [valText]
@[simp] theorem valText_notDone_nl (v n : Bytes) : valText [Event.notDone v, Event.newline n] = v := by simp [valText]
theorem valText_append (a b : List Event) : valText (a ++ b) = valText a ++ valText b := by simp [valText]

theorem finish_sim (acc rest : Bytes) (inQ part eof : Bool) (em : List Event) (val : Bytes) (space : Nat)
    (hinv : Inv (valText em) acc inQ val space) :
    gixResult (valueFinish acc rest inQ part eof em) = if inQ then none else some val := by
  unfold valueFinish gixResult
  cases hq : inQ with
  | true => simp
  | false =>
    obtain ⟨acc0, hacc, hlast, hun⟩ := hinv.unquoted hq
    simp only [Bool.false_eq_true, ↓reduceIte]
    have hres : unescLoop (valText em ++ acc0) [] = val := by
      have := hun []
      simpa [unescLoop] using this
    have htrim : trimEnd acc = acc0 := by rw [hacc]; exact trimEnd_spaces acc0 space hlast
    split
    · rename_i he
      simp only [Bool.and_eq_true] at he
      have hae : acc = [] := by simpa using he.2
      have h0 : acc0 = [] := by
        rw [hae] at hacc
        have := congrArg List.length hacc
        simp at this
        exact List.eq_nil_of_length_eq_zero (by omega)
      subst h0
      cases part <;> simp only [Bool.false_eq_true, ↓reduceIte, Option.map_some, valText_snoc, valText_value,
        valText_done, normalize_eq, List.append_nil, Option.some.injEq] <;> simpa using hres
    · cases part <;> simp only [Bool.false_eq_true, ↓reduceIte, Option.map_some, valText_snoc, valText_value,
        valText_done, normalize_eq, htrim, Option.some.injEq] <;> exact hres


theorem replicate_snoc (k : Nat) : List.replicate k (32 : UInt8) ++ [32] = List.replicate (k + 1) 32 := by
  rw [List.replicate_succ']

/-- an unquoted space while the value is not empty -/
theorem Inv.space {R acc val : Bytes} {space : Nat} (h : Inv R acc false val space) (hv : val ≠ []) :
    Inv R (acc ++ [32]) false val (space + 1) := by
  obtain ⟨acc0, hacc, hlast, hun⟩ := h.unquoted rfl
  refine ⟨by intro hq; simp at hq, fun _ => ⟨acc0, ?_, hlast, hun⟩, fun hv' => absurd hv' hv⟩
  rw [hacc, List.append_assoc, replicate_snoc]

/-- a byte inside quotes -/
theorem Inv.inQuote {R acc val : Bytes} {space : Nat} (h : Inv R acc true val space) (c : UInt8)
    (h1 : c ≠ 92) (h2 : c ≠ 34) : Inv R (acc ++ [c]) true (val ++ [c]) 0 := by
  obtain ⟨_, hq⟩ := h.quoted rfl
  refine ⟨fun _ => ⟨rfl, fun q => ?_⟩, by intro hq'; simp at hq', by intro _ hq'; simp at hq'⟩
  have := hq (c :: q)
  rw [unesc_plain c q val h1 h2] at this
  rw [← this]; simp

/-- an unquoted byte that is not whitespace: pending spaces are flushed first -/
theorem Inv.plain {R acc val : Bytes} {space : Nat} (h : Inv R acc false val space) (c : UInt8)
    (h1 : c ≠ 92) (h2 : c ≠ 34) (h3 : isAsciiWs c = false) :
    Inv R (acc ++ [c]) false (val ++ List.replicate space 32 ++ [c]) 0 := by
  obtain ⟨acc0, hacc, _, hun⟩ := h.unquoted rfl
  refine ⟨by intro hq; simp at hq, fun _ => ⟨acc ++ [c], by simp, by simp [h3], fun q => ?_⟩,
    by intro hv; simp at hv⟩
  have := hun (List.replicate space 32 ++ c :: q)
  rw [unesc_spaces, unesc_plain c q _ h1 h2] at this
  rw [← this, hacc]; simp

theorem Inv.openQuote {R acc val : Bytes} {space : Nat} (h : Inv R acc false val space) :
    Inv R (acc ++ [34]) true (val ++ List.replicate space 32) 0 := by
  obtain ⟨acc0, hacc, _, hun⟩ := h.unquoted rfl
  refine ⟨fun _ => ⟨rfl, fun q => ?_⟩, by intro hq; simp at hq, by intro _ hq; simp at hq⟩
  have := hun (List.replicate space 32 ++ 34 :: q)
  rw [unesc_spaces, unesc_quote] at this
  rw [← this, hacc]; simp

theorem Inv.closeQuote {R acc val : Bytes} {space : Nat} (h : Inv R acc true val space) :
    Inv R (acc ++ [34]) false val 0 := by
  obtain ⟨_, hq⟩ := h.quoted rfl
  refine ⟨by intro hq'; simp at hq', fun _ => ⟨acc ++ [34], by simp, by simp [isAsciiWs], fun q => ?_⟩, fun _ _ => rfl⟩
  have := hq (34 :: q)
  rw [unesc_quote] at this
  rw [← this]; simp

def decodeEsc (d : UInt8) : UInt8 := if d == 110 then 10 else if d == 116 then 9 else d

theorem Inv.escape {R acc val : Bytes} {space : Nat} {inQ : Bool} (h : Inv R acc inQ val space) (d : UInt8)
    (hb : d ≠ 98) (he : isEscapable d = true) :
    Inv R (acc ++ [92, d]) inQ (val ++ List.replicate space 32 ++ [decodeEsc d]) 0 := by
  have hdws : isAsciiWs d = false := by
    unfold isEscapable at he
    simp only [Bool.or_eq_true, beq_iff_eq] at he
    rcases he with (((h1 | h1) | h1) | h1) | h1 <;> subst h1 <;> rfl
  cases inQ with
  | true =>
    obtain ⟨hs, hq⟩ := h.quoted rfl
    subst hs
    refine ⟨fun _ => ⟨rfl, fun q => ?_⟩, by intro hq'; simp at hq', by intro _ hq'; simp at hq'⟩
    have := hq (92 :: d :: q)
    rw [unesc_esc d q val hb] at this
    unfold decodeEsc
    simp only [List.replicate_zero, List.append_nil]
    rw [← this]; simp
  | false =>
    obtain ⟨acc0, hacc, _, hun⟩ := h.unquoted rfl
    refine ⟨by intro hq; simp at hq, fun _ => ⟨acc ++ [92, d], by simp, by simp [hdws], fun q => ?_⟩,
      by intro hv; simp at hv⟩
    have := hun (List.replicate space 32 ++ 92 :: d :: q)
    rw [unesc_spaces, unesc_esc d q _ hb] at this
    unfold decodeEsc
    rw [← this, hacc]; simp

/-- a continuation line: the text so far moves from `acc` to the emitted events; git flushes its
pending spaces -/
theorem Inv.continuation {R acc val : Bytes} {space : Nat} {inQ : Bool} (h : Inv R acc inQ val space) :
    Inv (R ++ acc) [] inQ (val ++ List.replicate space 32) 0 := by
  cases inQ with
  | true =>
    obtain ⟨hs, hq⟩ := h.quoted rfl
    subst hs
    refine ⟨fun _ => ⟨rfl, fun q => ?_⟩, by intro hq'; simp at hq', by intro _ hq'; simp at hq'⟩
    have := hq q
    simpa using this
  | false =>
    obtain ⟨acc0, hacc, _, hun⟩ := h.unquoted rfl
    refine ⟨by intro hq; simp at hq, fun _ => ⟨[], by simp, by simp, fun q => ?_⟩, fun _ _ => rfl⟩
    have := hun (List.replicate space 32 ++ q)
    rw [unesc_spaces] at this
    rw [← this, hacc]; simp


/-! ### git's steps, one at a time -/

theorem git_nl (r val : Bytes) (space : Nat) (quote : Bool) :
    gitValueGo (10 :: r) val space quote false = if quote then none else some val := by
  cases r with
  | nil => simp [gitValueGo]
  | cons d r' => rw [gitValueGo]; simp

theorem git_comment_start (c : UInt8) (r val : Bytes) (space : Nat) (hc : c = 59 ∨ c = 35) :
    gitValueGo (c :: r) val space false false = some val := by
  have h10 : c ≠ 10 := by rcases hc with rfl | rfl <;> decide
  have hsp : gitIsSpace c = false := by rcases hc with rfl | rfl <;> decide
  cases r with
  | nil =>
    rw [gitValueGo]
    rcases hc with rfl | rfl <;> simp [gitIsSpace]
  | cons d r' =>
    rw [gitValueGo]
    simp only [beq_iff_eq, h10, ↓reduceIte, Bool.false_eq_true, hsp, Bool.false_and, Bool.not_false, Bool.true_and]
    have : (c == 59 || c == 35) = true := by rcases hc with rfl | rfl <;> decide
    simp only [this, ↓reduceIte]
    exact git_comment _ _ _

theorem git_quote (d : UInt8) (r val : Bytes) (space : Nat) (quote : Bool) :
    gitValueGo (34 :: d :: r) val space quote false =
      gitValueGo (d :: r) (val ++ List.replicate space 32) 0 (!quote) false := by
  rw [gitValueGo]; simp [gitIsSpace]

theorem git_space (d : UInt8) (r val : Bytes) (space : Nat) :
    gitValueGo (32 :: d :: r) val space false false =
      gitValueGo (d :: r) val (if val.isEmpty then space else space + 1) false false := by
  rw [gitValueGo]; simp [gitIsSpace]

theorem git_char (c d : UInt8) (r val : Bytes) (space : Nat) (quote : Bool) (h10 : c ≠ 10) (h92 : c ≠ 92)
    (h34 : c ≠ 34) (hsp : (gitIsSpace c && !quote) = false) (hcm : (!quote && (c == 59 || c == 35)) = false) :
    gitValueGo (c :: d :: r) val space quote false =
      gitValueGo (d :: r) (val ++ List.replicate space 32 ++ [c]) 0 quote false := by
  rw [gitValueGo]; simp [h10, h92, h34, hsp, hcm]

theorem git_cont (r val : Bytes) (space : Nat) (quote : Bool) :
    gitValueGo (92 :: 10 :: r) val space quote false =
      gitValueGo r (val ++ List.replicate space 32) 0 quote false := by
  rw [gitValueGo]; simp [gitIsSpace]

theorem git_esc (d : UInt8) (r val : Bytes) (space : Nat) (quote : Bool) (he : isEscapable d = true) (hb : d ≠ 98) :
    gitValueGo (92 :: d :: r) val space quote false =
      gitValueGo r (val ++ List.replicate space 32 ++ [decodeEsc d]) 0 quote false := by
  rw [gitValueGo]
  unfold isEscapable at he
  simp only [Bool.or_eq_true, beq_iff_eq] at he
  rcases he with (((h1 | h1) | h1) | h1) | h1 <;> subst h1 <;> simp [gitIsSpace, decodeEsc] at hb ⊢

theorem git_bad_esc (d : UInt8) (r val : Bytes) (space : Nat) (quote : Bool) (he : isEscapable d = false)
    (h10 : d ≠ 10) : gitValueGo (92 :: d :: r) val space quote false = none := by
  rw [gitValueGo]
  unfold isEscapable at he
  simp only [Bool.or_eq_false_iff, beq_eq_false_iff_ne, ne_eq] at he
  obtain ⟨⟨⟨⟨h1, h2⟩, h3⟩, h4⟩, h5⟩ := he
  simp [gitIsSpace, h10, h1, h2, h3, h4, h5]

theorem started_eq {R acc val : Bytes} {space : Nat} {inQ : Bool} (h : Inv R acc inQ val space) :
    (val ++ List.replicate space 32).isEmpty = val.isEmpty := by
  cases hv : val with
  | nil =>
    cases inQ with
    | true => have := (h.quoted rfl).1; subst this; simp
    | false => have := h.empty hv rfl; subst this; simp
  | cons x t => simp

theorem git_last (c : UInt8) (val : Bytes) (space : Nat) (quote : Bool) (h10 : c ≠ 10) (h92 : c ≠ 92) :
    gitValueGo [c] val space quote false =
      if gitIsSpace c && !quote then some val
      else if !quote && (c == 59 || c == 35) then some val
      else if c == 34 then (if !quote then none else some (val ++ List.replicate space 32))
      else (if quote then none else some (val ++ List.replicate space 32 ++ [c])) := by
  rw [gitValueGo]; simp [h10, h92]

theorem value_sim : ∀ (i acc : Bytes) (inQ part : Bool) (em : List Event) (val : Bytes) (space : Nat),
    Inv (valText em) acc inQ val space → plainGo i (!val.isEmpty) inQ = true →
    gixResult (valueScan i acc inQ part em) = gitValueGo i val space inQ false := by
  intro i acc inQ part em
  fun_induction valueScan i acc inQ part em <;> intro val space hinv hp
  case case1 =>
    rw [finish_sim _ _ _ _ _ _ _ _ hinv]; simp [gitValueGo]
  case case2 =>
    rename_i c _ _ _ _ hc
    have : c = 10 := by simpa using hc
    subst this
    rw [finish_sim _ _ _ _ _ _ _ _ hinv, git_nl]
  case case3 =>
    rename_i c _ inQ _ _ _ hc
    simp only [Bool.and_eq_true, Bool.or_eq_true, beq_iff_eq, Bool.not_eq_true'] at hc
    obtain ⟨hc1, hq⟩ := hc
    subst hq
    rw [finish_sim _ _ _ _ _ _ _ _ hinv, git_comment_start _ _ _ _ hc1]; rfl
  case case4 =>
    rename_i c _ _ _ _ _ _ hc
    have : c = 92 := by simpa using hc
    subst this
    simp [plainGo] at hp
  case case5 =>
    rename_i c acc inQ part em h10 hcm h92
    have h10' : c ≠ 10 := by simpa using h10
    have h92' : c ≠ 92 := by simpa using h92
    rw [git_last c val space inQ h10' h92']
    unfold plainGo at hp
    simp only [h10, hcm, Bool.false_eq_true, ↓reduceIte, Bool.and_eq_true, bne_iff_ne, ne_eq, Bool.or_eq_true,
      Bool.not_eq_true'] at hp
    obtain ⟨⟨⟨⟨_, h9⟩, h12⟩, h13⟩, hsp⟩ := hp
    by_cases h34 : c = 34
    · subst h34
      simp only [beq_self_eq_true, ↓reduceIte]
      cases inQ with
      | false =>
        simp only [Bool.not_false]
        rw [finish_sim _ _ _ _ _ _ _ _ hinv.openQuote]; simp [gitIsSpace]
      | true =>
        have hs := (hinv.quoted rfl).1
        subst hs
        simp only [Bool.not_true]
        rw [finish_sim _ _ _ _ _ _ _ _ hinv.closeQuote]; simp [gitIsSpace]
    · by_cases h32 : c = 32
      · subst h32
        cases inQ with
        | false =>
          have hv : val ≠ [] := by
            rcases hsp with (h | h) | h
            · exact absurd rfl h
            · simp at h
            · intro hv; subst hv; simp at h
          simp only [show ((32 : UInt8) == 34) = false by decide, Bool.false_eq_true, ↓reduceIte]
          rw [finish_sim _ _ _ _ _ _ _ _ (hinv.space hv)]; simp [gitIsSpace]
        | true =>
          simp only [show ((32 : UInt8) == 34) = false by decide, Bool.false_eq_true, ↓reduceIte]
          rw [finish_sim _ _ _ _ _ _ _ _ (hinv.inQuote 32 (by decide) (by decide))]; simp [gitIsSpace]
      · have hgs : gitIsSpace c = false := by
          simp [gitIsSpace, h32, h9, h10', h13]
        have haw : isAsciiWs c = false := by
          simp [isAsciiWs, h32, h9, h10', h12, h13]
        have h34b : (c == 34) = false := by simpa using h34
        simp only [h34b, Bool.false_eq_true, ↓reduceIte]
        cases inQ with
        | false =>
          rw [finish_sim _ _ _ _ _ _ _ _ (hinv.plain c h92' h34 haw)]
          simp only [Bool.not_false, Bool.and_true, Bool.true_and] at hcm
          simp [hgs, hcm, h34b]
        | true =>
          rw [finish_sim _ _ _ _ _ _ _ _ (hinv.inQuote c h92' h34)]
          simp [hgs, h34b]
  case case6 =>
    rename_i c d r _ _ _ _ hc
    have : c = 10 := by simpa using hc
    subst this
    rw [finish_sim _ _ _ _ _ _ _ _ hinv, git_nl]
  case case7 =>
    rename_i c d r _ inQ _ _ _ hc
    simp only [Bool.and_eq_true, Bool.or_eq_true, beq_iff_eq, Bool.not_eq_true'] at hc
    obtain ⟨hc1, hq⟩ := hc
    subst hq
    rw [finish_sim _ _ _ _ _ _ _ _ hinv, git_comment_start _ _ _ _ hc1]; rfl
  case case8 =>
    rename_i c d r acc inQ part em h10 hcm h92 hd ih
    have hc : c = 92 := by simpa using h92
    have hd' : d = 10 := by simpa using hd
    subst hc hd'
    rw [git_cont]
    apply ih
    · have := hinv.continuation
      simpa [valText_append] using this
    · unfold plainGo at hp
      simp only [show ((92 : UInt8) == 10) = false by decide, Bool.false_eq_true, ↓reduceIte, hcm,
        show ((92 : UInt8) == 92) = true by decide, show ((10 : UInt8) == 10) = true by decide] at hp
      rw [started_eq hinv]; exact hp
  case case9 =>
    rename_i c d acc inQ part em h10 hcm h92 hd10 hd13 r3 ih
    have hc : c = 92 := by simpa using h92
    have hd' : d = 13 := by simpa using hd13
    subst hc hd'
    unfold plainGo at hp
    simp [hcm] at hp
  case case10 =>
    rename_i c d r acc inQ part em h10 hcm h92 hd10 hd13 _
    have hc : c = 92 := by simpa using h92
    have hd' : d = 13 := by simpa using hd13
    subst hc hd'
    unfold plainGo at hp
    simp [hcm] at hp
  case case11 =>
    rename_i c d r acc inQ part em h10 hcm h92 hd10 hd13 hesc ih
    have hc : c = 92 := by simpa using h92
    subst hc
    unfold plainGo at hp
    simp only [show ((92 : UInt8) == 10) = false by decide, Bool.false_eq_true, ↓reduceIte, hcm,
      show ((92 : UInt8) == 92) = true by decide, hd10, hesc, Bool.or_eq_true, beq_iff_eq] at hp
    split at hp
    · simp at hp
    · rename_i hb
      have hb' : d ≠ 98 := fun h => hb (Or.inl h)
      rw [git_esc d r val space inQ hesc hb']
      apply ih
      · exact hinv.escape d hb' hesc
      · have : (!(val ++ List.replicate space 32 ++ [decodeEsc d]).isEmpty) = true := by simp
        rw [this]; exact hp
  case case12 =>
    rename_i c d r acc inQ part em h10 hcm h92 hd10 hd13 hesc
    have hc : c = 92 := by simpa using h92
    subst hc
    rw [git_bad_esc d r val space inQ (by simpa using hesc) (by simpa using hd10)]; rfl
  case case13 =>
    rename_i c d r acc inQ part em h10 hcm h92 ih
    have h10' : c ≠ 10 := by simpa using h10
    have h92' : c ≠ 92 := by simpa using h92
    unfold plainGo at hp
    simp only [h10, hcm, h92, Bool.false_eq_true, ↓reduceIte] at hp
    split at hp
    · simp at hp
    · rename_i hbad
      simp only [Bool.or_eq_true, beq_iff_eq, not_or] at hbad
      obtain ⟨⟨h9, h12⟩, h13⟩ := hbad
      by_cases h34 : c = 34
      · subst h34
        simp only [beq_self_eq_true, ↓reduceIte] at hp ih ⊢
        rw [git_quote]
        cases inQ with
        | false =>
          apply ih _ _ hinv.openQuote
          rw [started_eq hinv]; exact hp
        | true =>
          have hs := (hinv.quoted rfl).1
          subst hs
          apply ih _ _ (by simpa using hinv.closeQuote)
          simpa using hp
      · have h34b : (c == 34) = false := by simpa using h34
        simp only [h34b, Bool.false_eq_true, ↓reduceIte] at hp ih ⊢
        by_cases h32 : c = 32
        · subst h32
          simp only [beq_self_eq_true, ↓reduceIte, Bool.and_eq_true, Bool.or_eq_true, Bool.not_eq_true'] at hp
          obtain ⟨hst, hp'⟩ := hp
          cases inQ with
          | false =>
            have hv : val ≠ [] := by
              rcases hst with h | h
              · simp at h
              · intro hv; subst hv; simp at h
            rw [git_space]
            have hne : val.isEmpty = false := by cases val <;> simp_all
            simp only [hne, Bool.false_eq_true, ↓reduceIte]
            apply ih _ _ (hinv.space hv)
            simpa [hne] using hp'
          | true =>
            have hs := (hinv.quoted rfl).1
            subst hs
            rw [git_char 32 d r val 0 true (by decide) (by decide) (by decide) (by simp) (by simp)]
            apply ih _ _ (by simpa using hinv.inQuote 32 (by decide) (by decide))
            have : (!(val ++ List.replicate 0 32 ++ [32]).isEmpty) = true := by simp
            rw [this]
            simpa using hp'
        · have h32b : (c == 32) = false := by simpa using h32
          simp only [h32b, Bool.false_eq_true, ↓reduceIte] at hp
          have hgs : gitIsSpace c = false := by simp [gitIsSpace, h32, h9, h10', h13]
          have haw : isAsciiWs c = false := by simp [isAsciiWs, h32, h9, h10', h12, h13]
          cases inQ with
          | false =>
            simp only [Bool.not_false, Bool.and_true] at hcm
            rw [git_char c d r val space false h10' h92' h34 (by simp [hgs]) (by simpa using hcm)]
            apply ih _ _ (hinv.plain c h92' h34 haw)
            have : (!(val ++ List.replicate space 32 ++ [c]).isEmpty) = true := by simp
            rw [this]; exact hp
          | true =>
            have hs := (hinv.quoted rfl).1
            subst hs
            rw [git_char c d r val 0 true h10' h92' h34 (by simp) (by simp)]
            apply ih _ _ (by simpa using hinv.inQuote c h92' h34)
            have : (!(val ++ List.replicate 0 32 ++ [c]).isEmpty) = true := by simp
            rw [this]; exact hp


/-! ### from the states to the texts -/

theorem optSpaces_snd (t : Bytes) : (optSpaces t).2 = t.dropWhile isSpace := by
  unfold optSpaces takeSpaces1 spanP
  simp only
  split
  · rename_i w r h
    split at h
    · simp at h
    · simp at h; exact h.2.symm
  · rename_i h
    split at h
    · rename_i he
      simp only [List.isEmpty_iff] at he
      have : ∀ (l : Bytes), l.takeWhile isSpace = [] → l.dropWhile isSpace = l := by
        intro l hl
        cases l with
        | nil => rfl
        | cons x t =>
          simp only [List.takeWhile_cons] at hl
          split at hl
          · simp at hl
          · rename_i hx; simp [List.dropWhile_cons, hx]
      exact (this t he).symm
    · simp at h

theorem foldCrlf_noCR : ∀ (t : Bytes), t.all (· != 13) = true → foldCrlf t = t := by
  intro t
  fun_induction foldCrlf t
  · intro _; rfl
  · intro _; rfl
  · rename_i c d r hc ih
    intro h
    simp only [List.all_cons, Bool.and_eq_true, bne_iff_ne, ne_eq] at h
    simp only [Bool.and_eq_true, beq_iff_eq] at hc
    exact absurd hc.1 h.1
  · rename_i c d r hc ih
    intro h
    simp only [List.all_cons, Bool.and_eq_true] at h
    rw [ih (by simp [h.2])]

/-- git skips the blanks after `=` -/
theorem git_skip_blanks : ∀ (w rest : Bytes), w.all isSpace = true →
    gitValueGo (w ++ rest) [] 0 false false = gitValueGo rest [] 0 false false := by
  intro w
  induction w with
  | nil => intro rest _; rfl
  | cons c t ih =>
    intro rest h
    simp only [List.all_cons, Bool.and_eq_true] at h
    have hc : c = 32 ∨ c = 9 := by simpa [isSpace] using h.1
    have h10 : c ≠ 10 := by rcases hc with rfl | rfl <;> decide
    have hsp : gitIsSpace c = true := by rcases hc with rfl | rfl <;> decide
    cases hr : t ++ rest with
    | nil =>
      have ht : t = [] := by cases t <;> simp_all
      have hrest : rest = [] := by cases t <;> simp_all
      subst ht hrest
      rw [List.cons_append, List.nil_append, gitValueGo]
      simp [h10, hsp, gitValueGo]
    | cons d r =>
      rw [List.cons_append, hr, gitValueGo]
      simp only [beq_iff_eq, h10, ↓reduceIte, Bool.false_eq_true, hsp, Bool.not_false, Bool.and_self,
        List.isEmpty_nil]
      rw [← hr]; exact ih rest h.2

theorem takeWhile_dropWhile_blanks (t : Bytes) :
    t = t.takeWhile isSpace ++ t.dropWhile isSpace ∧ (t.takeWhile isSpace).all isSpace = true :=
  ⟨List.takeWhile_append_dropWhile.symm, List.all_takeWhile⟩

theorem Inv.init : Inv (valText []) [] false [] 0 :=
  ⟨by intro h; simp at h, fun _ => ⟨[], by simp, by simp, fun q => by simp [valText]⟩, fun _ _ => rfl⟩

/-- gitoxide's value of the text after `=` is git's, on every plain text -/
theorem value_eq_git_proof (text : Bytes) (hp : plainText text = true) :
    gixValueOfText text = gitParseValue text := by
  unfold plainText at hp
  simp only [Bool.and_eq_true] at hp
  obtain ⟨hcr, hplain⟩ := hp
  unfold gixValueOfText gitParseValue
  rw [foldCrlf_noCR text hcr, optSpaces_snd]
  have hsplit := takeWhile_dropWhile_blanks text
  conv => rhs; rw [hsplit.1]
  rw [git_skip_blanks _ _ hsplit.2]
  exact value_sim _ [] false false [] [] 0 Inv.init (by simpa using hplain)

/-! ### CRLF texts -/

theorem foldCrlf_cons (c : UInt8) (x : Bytes) (h : c ≠ 13) : foldCrlf (c :: x) = c :: foldCrlf x := by
  cases x with
  | nil => simp [foldCrlf]
  | cons d r => rw [foldCrlf]; simp [h]

theorem foldCrlf_crlf (r : Bytes) : foldCrlf (13 :: 10 :: r) = 10 :: foldCrlf r := by
  rw [foldCrlf]; simp

theorem crOk_cons (c : UInt8) (x : Bytes) (h : c ≠ 13) : crOk (c :: x) = crOk x := by
  cases x with
  | nil => simp [crOk, h]
  | cons d r => rw [crOk]; simp [h]

theorem foldCrlf_ne_nil (d : UInt8) (r : Bytes) : foldCrlf (d :: r) ≠ [] := by
  cases r with
  | nil => simp [foldCrlf]
  | cons e r' => rw [foldCrlf]; split <;> simp

theorem finish_valText (acc acc' rest rest' : Bytes) (inQ part eof : Bool) (em em' : List Event)
    (hv : valText em = valText em') (ht : trimEnd acc = trimEnd acc') (he : (eof && acc.isEmpty) = (eof && acc'.isEmpty))
    :
    gixResult (valueFinish acc rest inQ part eof em) = gixResult (valueFinish acc' rest' inQ part eof em') := by
  unfold valueFinish gixResult
  cases inQ with
  | true => simp
  | false =>
    simp only [Bool.false_eq_true, ↓reduceIte]
    rw [← he]
    split
    · cases part <;> simp [valText_append, hv]
    · cases part <;> simp [valText_append, hv, ht]

theorem trimEnd_snoc_cr (acc : Bytes) : trimEnd (acc ++ [13]) = trimEnd acc := by
  unfold trimEnd
  simp [List.dropWhile_cons, isAsciiWs]


theorem scan_nl (x acc : Bytes) (inQ part : Bool) (em : List Event) :
    valueScan (10 :: x) acc inQ part em = valueFinish acc (10 :: x) inQ part false em := by
  cases x with
  | nil => conv => lhs; unfold valueScan
           simp
  | cons d r => conv => lhs; unfold valueScan
                simp

theorem scan_comment (c : UInt8) (x acc : Bytes) (part : Bool) (em : List Event) (hc : c = 59 ∨ c = 35) :
    valueScan (c :: x) acc false part em = valueFinish acc (c :: x) false part false em := by
  have h10 : (c == 10) = false := by rcases hc with rfl | rfl <;> decide
  have hcm : (c == 59 || c == 35) = true := by rcases hc with rfl | rfl <;> decide
  cases x with
  | nil => conv => lhs; unfold valueScan
           simp [h10, hcm]
  | cons d r => conv => lhs; unfold valueScan
                simp [h10, hcm]

/-- gitoxide's scanner gives the same value on a text and on the text with every CR LF folded to
LF, provided every CR is part of a CR LF -/
theorem scan_fold : ∀ (i acc : Bytes) (inQ part : Bool) (em : List Event) (em' : List Event),
    valText em = valText em' → crOk i = true →
    gixResult (valueScan i acc inQ part em) = gixResult (valueScan (foldCrlf i) acc inQ part em') := by
  intro i acc inQ part em
  fun_induction valueScan i acc inQ part em <;> intro em' hv hcr
  case case1 =>
    simp only [foldCrlf, valueScan]
    exact finish_valText _ _ _ _ _ _ _ _ _ hv rfl rfl
  case case2 =>
    rename_i c _ _ _ _ hc
    have : c = 10 := by simpa using hc
    subst this
    simp only [foldCrlf]
    rw [scan_nl]
    exact finish_valText _ _ _ _ _ _ _ _ _ hv rfl rfl
  case case3 =>
    rename_i c _ inQ _ _ _ hc
    simp only [Bool.and_eq_true, Bool.or_eq_true, beq_iff_eq, Bool.not_eq_true'] at hc
    obtain ⟨hc1, hq⟩ := hc
    subst hq
    simp only [foldCrlf]
    rw [scan_comment c [] _ _ _ hc1]
    exact finish_valText _ _ _ _ _ _ _ _ _ hv rfl rfl
  case case4 =>
    rename_i c _ _ _ _ h10 hcm hc
    simp only [foldCrlf]
    conv => rhs; unfold valueScan
    simp [h10, hcm, hc, gixResult]
  case case5 =>
    rename_i c acc inQ part em h10 hcm h92
    simp only [foldCrlf]
    conv => rhs; unfold valueScan
    simp only [h10, hcm, h92, Bool.false_eq_true, ↓reduceIte]
    exact finish_valText _ _ _ _ _ _ _ _ _ hv rfl rfl
  case case6 =>
    rename_i c d r _ _ _ _ hc
    have : c = 10 := by simpa using hc
    subst this
    rw [foldCrlf_cons 10 _ (by decide), scan_nl]
    exact finish_valText _ _ _ _ _ _ _ _ _ hv rfl rfl
  case case7 =>
    rename_i c d r _ inQ _ _ _ hc
    simp only [Bool.and_eq_true, Bool.or_eq_true, beq_iff_eq, Bool.not_eq_true'] at hc
    obtain ⟨hc1, hq⟩ := hc
    subst hq
    have h13 : c ≠ 13 := by rcases hc1 with rfl | rfl <;> decide
    rw [foldCrlf_cons c _ h13, scan_comment c _ _ _ _ hc1]
    exact finish_valText _ _ _ _ _ _ _ _ _ hv rfl rfl
  case case8 =>
    rename_i c d r acc inQ part em h10 hcm h92 hd ih
    have hc : c = 92 := by simpa using h92
    have hd' : d = 10 := by simpa using hd
    subst hc hd'
    rw [foldCrlf_cons 92 _ (by decide), foldCrlf_cons 10 _ (by decide)]
    conv => rhs; unfold valueScan
    simp only [show ((92 : UInt8) == 10) = false by decide, Bool.false_eq_true, ↓reduceIte, hcm,
      show ((92 : UInt8) == 92) = true by decide, show ((10 : UInt8) == 10) = true by decide]
    apply ih
    · simp [valText_append, hv]
    · rw [crOk_cons 92 _ (by decide), crOk_cons 10 _ (by decide)] at hcr; exact hcr
  case case9 =>
    rename_i c d acc inQ part em h10 hcm h92 hd10 hd13 r3 ih
    have hc : c = 92 := by simpa using h92
    have hd' : d = 13 := by simpa using hd13
    subst hc hd'
    rw [foldCrlf_cons 92 _ (by decide), foldCrlf_crlf]
    conv => rhs; unfold valueScan
    simp only [show ((92 : UInt8) == 10) = false by decide, Bool.false_eq_true, ↓reduceIte, hcm,
      show ((92 : UInt8) == 92) = true by decide, show ((10 : UInt8) == 10) = true by decide]
    apply ih
    · rw [valText_append, valText_append, hv]; simp [valText]
    · rw [crOk_cons 92 _ (by decide), crOk] at hcr
      simpa using hcr
  case case10 =>
    rename_i c d r acc inQ part em h10 hcm h92 hd10 hd13 hnot
    have hc : c = 92 := by simpa using h92
    have hd' : d = 13 := by simpa using hd13
    subst hc hd'
    exfalso
    rw [crOk_cons 92 _ (by decide)] at hcr
    cases r with
    | nil => simp [crOk] at hcr
    | cons e r' =>
      rw [crOk] at hcr
      simp only [beq_self_eq_true, ↓reduceIte, Bool.and_eq_true, beq_iff_eq] at hcr
      exact hnot r' (by rw [hcr.1])
  case case11 =>
    rename_i c d r acc inQ part em h10 hcm h92 hd10 hd13 hesc ih
    have hc : c = 92 := by simpa using h92
    subst hc
    have hd13' : d ≠ 13 := by simpa using hd13
    rw [foldCrlf_cons 92 _ (by decide), foldCrlf_cons d _ hd13']
    conv => rhs; unfold valueScan
    simp only [show ((92 : UInt8) == 10) = false by decide, Bool.false_eq_true, ↓reduceIte, hcm,
      show ((92 : UInt8) == 92) = true by decide, hd10, hd13, hesc]
    apply ih _ hv
    rw [crOk_cons 92 _ (by decide), crOk_cons d _ hd13'] at hcr; exact hcr
  case case12 =>
    rename_i c d r acc inQ part em h10 hcm h92 hd10 hd13 hesc
    have hc : c = 92 := by simpa using h92
    subst hc
    have hd13' : d ≠ 13 := by simpa using hd13
    rw [foldCrlf_cons 92 _ (by decide), foldCrlf_cons d _ hd13']
    conv => rhs; unfold valueScan
    simp [hcm, hd10, hd13, hesc, gixResult]
  case case13 =>
    rename_i c d r acc inQ part em h10 hcm h92 ih
    by_cases h13 : c = 13
    · subst h13
      rw [crOk] at hcr
      simp only [beq_self_eq_true, ↓reduceIte, Bool.and_eq_true, beq_iff_eq] at hcr
      obtain ⟨hd, hcr'⟩ := hcr
      subst hd
      rw [foldCrlf_crlf, scan_nl, scan_nl]
      simp only [show ((13 : UInt8) == 34) = false by decide, Bool.false_eq_true, ↓reduceIte]
      exact finish_valText _ _ _ _ _ _ _ _ _ hv (trimEnd_snoc_cr acc) rfl
    · rw [foldCrlf_cons c _ h13]
      obtain ⟨d', r', hfold⟩ : ∃ d' r', foldCrlf (d :: r) = d' :: r' := by
        cases h : foldCrlf (d :: r) with
        | nil => exact absurd h (foldCrlf_ne_nil d r)
        | cons d' r' => exact ⟨d', r', rfl⟩
      rw [hfold]
      conv => rhs; unfold valueScan
      simp only [h10, hcm, h92, Bool.false_eq_true, ↓reduceIte]
      rw [← hfold]
      apply ih _ hv
      rw [crOk_cons c _ h13] at hcr; exact hcr


theorem crOk_dropBlanks : ∀ (t : Bytes), crOk t = true → crOk (t.dropWhile isSpace) = true := by
  intro t
  induction t with
  | nil => intro h; exact h
  | cons c x ih =>
    intro h
    by_cases hc : isSpace c = true
    · have h13 : c ≠ 13 := by intro h'; subst h'; simp [isSpace] at hc
      rw [crOk_cons c x h13] at h
      simpa [List.dropWhile_cons, hc] using ih h
    · simpa [List.dropWhile_cons, hc] using h

theorem foldCrlf_dropBlanks : ∀ (t : Bytes), foldCrlf (t.dropWhile isSpace) = (foldCrlf t).dropWhile isSpace := by
  intro t
  induction t with
  | nil => rfl
  | cons c x ih =>
    by_cases hc : isSpace c = true
    · have h13 : c ≠ 13 := by intro h'; subst h'; simp [isSpace] at hc
      rw [foldCrlf_cons c x h13]
      simp [List.dropWhile_cons, hc, ih]
    · have hl : (c :: x).dropWhile isSpace = c :: x := by simp [List.dropWhile_cons, hc]
      rw [hl]
      -- the folded text starts with `c`, or with LF if `c` is the CR of a CR LF: no blank either way
      have hhead : (foldCrlf (c :: x)).head?.all (fun b => !isSpace b) = true := by
        cases x with
        | nil => simp [foldCrlf, hc]
        | cons d r =>
          rw [foldCrlf]
          split
          · simp [isSpace]
          · simp [hc]
      cases hf : foldCrlf (c :: x) with
      | nil => rfl
      | cons y r => rw [hf] at hhead; simp at hhead; simp [List.dropWhile_cons, hhead]

/-- `value_eq_git` for CRLF texts: every CR belongs to a CR LF (line ends and continuation lines
in a CRLF file), and the text with CR LF read as LF is plain -/
theorem value_eq_git_crlf_proof (text : Bytes) (hcr : crOk text = true) (hp : plainText (foldCrlf text) = true) :
    gixValueOfText text = gitParseValue text := by
  have hnocr : (foldCrlf text).all (· != 13) = true := by
    unfold plainText at hp; simp only [Bool.and_eq_true] at hp; exact hp.1
  have hg : gitParseValue text = gitParseValue (foldCrlf text) := by
    unfold gitParseValue; rw [foldCrlf_noCR _ hnocr]
  rw [hg, ← value_eq_git_proof _ hp]
  unfold gixValueOfText
  rw [optSpaces_snd, optSpaces_snd, ← foldCrlf_dropBlanks]
  exact scan_fold _ [] false false [] [] rfl (crOk_dropBlanks text hcr)

end GixModel.C27
