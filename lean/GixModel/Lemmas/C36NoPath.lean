import GixModel.Lemmas.C36Multi2
/-
C36 — without NO_MATCH_SLASH_LITERAL / WM_PATHNAME: every pattern, also with `**` (a run of stars is
one star that may cross everything). The star arms of both matchers for runs of stars, the
soundness of ABORT_ALL, and the joint induction.
-/
namespace GixModel.C36
open GixModel GixModel.Spec.C36

/-- without WM_PATHNAME a run of stars is one star that may cross everything -/
theorem dw_star_np {f : Flags} {n : Nat} {prev : Option UInt8} {rest t : Bytes} (hp : f.pathname = false) :
    dowild f (n + 1) prev (42 :: rest) t =
      (let x := rest.dropWhile (· == 42)
       if hd x == 0 then .matched
       else Spec.C36.starLoop f (fun tx => dowild f n none x tx) x true (t.length + 1) (Spec.C36.fold f (hd t)) t) := by
  conv => lhs; unfold dowild
  have h42 : Spec.C36.fold f 42 = 42 := by unfold Spec.C36.fold Spec.C36.isUpper; simp
  simp only [hd, List.headD_cons, List.tail_cons, h42, hp]
  by_cases hr : (rest.headD 0 == 42) = true
  · have : (42 :: rest).tail = rest := rfl
    simp [hr]
    cases rest with
    | nil => simp at hr
    | cons a b =>
      simp at hr; subst hr
      simp [List.dropWhile_cons]
  · have hx : rest.dropWhile (· == 42) = rest := by
      cases rest with
      | nil => rfl
      | cons a b => simp at hr; simp [List.dropWhile_cons, hr]
    simp [hr, hx]


theorem skipStarsAux_eq (m : Mode) (l : Bytes) : ∀ (j : Nat),
    skipStarsAux m j l = ⟨j + (l.length - (l.dropWhile (· == 42)).length), l.dropWhile (· == 42)⟩ := by
  induction l with
  | nil => intro j; simp [skipStarsAux]
  | cons c r ih =>
    intro j
    have h42 := (lc_special m c).1
    by_cases hc : c = 42
    · subst hc
      have hl := dropWhile_length_le (· == 42) r
      simp [skipStarsAux, STAR, lc42, ih, List.dropWhile_cons]
      omega
    · have : lc m c ≠ 42 := fun h => hc (h42.mp h)
      simp [skipStarsAux, STAR, this, List.dropWhile_cons, hc]

/-- the star arm of the model without NO_MATCH_SLASH_LITERAL, text left -/
theorem go_star_np {m : Mode} {fuel d : Nat} {pattern text : Bytes} {i ti : Nat} {tc : UInt8} {rest tr : Bytes}
    (hp : m.noMatchSlash = false) (hti : ti ≤ text.length) :
    go m (fuel + 1) d pattern text ⟨i, 42 :: rest⟩ ⟨ti, tc :: tr⟩ =
      match rest.dropWhile (· == 42) with
      | [] => .matched
      | c :: _ =>
        C36.starLoop m (fun k => recCall m fuel d pattern text
            (i + 1 + (rest.length - (rest.dropWhile (· == 42)).length)) k)
          (lc m c) true (tr.length + 1) ti (lc m tc) ⟨ti + 1, tr⟩ := by
  cases rest with
  | nil =>
    conv => lhs; unfold go
    simp [Iter.next, STAR, BACKSLASH, SLASH, lc42, hp, sliceFrom, hti]
  | cons a r2 =>
    by_cases ha : a = 42
    · subst ha
      conv => lhs; unfold go
      simp only [Iter.next, STAR, BACKSLASH, SLASH, lc42, hp, Iter.skipStars, skipStarsAux_eq, List.dropWhile_cons]
      simp
      have hl := dropWhile_length_le (fun x => x == 42) r2
      cases hx : List.dropWhile (fun x => x == 42) r2 with
      | nil => simp [sliceFrom, hti]
      | cons c r =>
        simp only [recCall]
        have e : i + 1 + 1 + (r2.length - (c :: r).length) = i + 1 + (r2.length + 1 - (c :: r).length) := by
          rw [hx] at hl; simp at hl ⊢; omega
        rw [e]
        rw [if_neg (by simp)]
        congr 1
        funext k
        simp only [beq_iff_eq]
        generalize sliceFrom pattern (i + 1 + (r2.length + 1 - (c :: r).length)) = x
        generalize sliceFrom text k = y
        cases x <;> cases y <;> rfl
    · have hl : lc m a ≠ 42 := fun h => ha ((lc_special m a).1.mp h)
      rw [go_star1 hl (by simp [hp])]
      simp [List.dropWhile_cons, ha, hp]


/-- the same with the text exhausted -/
theorem go_star_np_nil {m : Mode} {fuel d : Nat} {pattern text : Bytes} {i ti : Nat} {rest : Bytes}
    (hp : m.noMatchSlash = false) :
    go m (fuel + 1) d pattern text ⟨i, 42 :: rest⟩ ⟨ti, []⟩ =
      match rest.dropWhile (· == 42) with
      | [] => .matched
      | c :: _ =>
        C36.starLoop m (fun k => recCall m fuel d pattern text
            (i + 1 + (rest.length - (rest.dropWhile (· == 42)).length)) k)
          (lc m c) true 1 text.length 0 ⟨ti, []⟩ := by
  cases rest with
  | nil =>
    conv => lhs; unfold go
    simp [Iter.next, STAR, BACKSLASH, SLASH, lc42, hp, sliceFrom]
  | cons a r2 =>
    by_cases ha : a = 42
    · subst ha
      conv => lhs; unfold go
      simp only [Iter.next, STAR, BACKSLASH, SLASH, lc42, hp, Iter.skipStars, skipStarsAux_eq, List.dropWhile_cons]
      simp
      have hl := dropWhile_length_le (fun x => x == 42) r2
      cases hx : List.dropWhile (fun x => x == 42) r2 with
      | nil => simp [sliceFrom]
      | cons c r =>
        simp only [recCall]
        have e : i + 1 + 1 + (r2.length - (c :: r).length) = i + 1 + (r2.length + 1 - (c :: r).length) := by
          rw [hx] at hl; simp at hl ⊢; omega
        rw [e]
        rw [if_neg (by simp)]
        congr 1
        funext k
        simp only [beq_iff_eq]
        generalize sliceFrom pattern (i + 1 + (r2.length + 1 - (c :: r).length)) = x
        generalize sliceFrom text k = y
        cases x <;> cases y <;> rfl
    · have hl : lc m a ≠ 42 := fun h => ha ((lc_special m a).1.mp h)
      rw [go_star1_nil hl (by simp [hp])]
      simp [List.dropWhile_cons, ha, hp]


/-- ABORT_ALL is sound for EVERY pattern when slashes are ordinary bytes -/
theorem dowild_abort_sound_np (m : Mode) (hnp : m.noMatchSlash = false) :
    ∀ (n : Nat) (prev : Option UInt8) (p t : Bytes), (∀ c ∈ p, c ≠ 0) → (∀ c ∈ t, c ≠ 0) →
      dowild (flagsOf m) n prev p t = .abortAll →
      ∀ k, dowild (flagsOf m) n prev p (t.drop k) ≠ .matched := by
  intro n
  induction n with
  | zero => intro prev p t _ _ h; simp [dowild] at h
  | succ n ih =>
    intro prev p t hpn htn hAA k
    have hun : ∀ c ∈ t.drop k, c ≠ 0 := fun c hc => htn c (List.mem_of_mem_drop hc)
    cases p with
    | nil =>
      rw [dw_nil (by intro h; exact htn 0 h rfl)] at hAA
      split at hAA <;> cases hAA
    | cons c rest =>
      have hc0 : c ≠ 0 := hpn c (by simp)
      have hrn : ∀ x ∈ rest, x ≠ 0 := fun x hx => hpn x (by simp [hx])
      obtain ⟨s42, s92, s63, s91, s47, s0, s93⟩ := lc_special m c
      by_cases h42 : c = 42
      · -- a star
        subst h42
        have hpf : (flagsOf m).pathname = false := by simpa using hnp
        rw [dw_star_np hpf] at hAA ⊢
        simp only at hAA ⊢
        obtain ⟨kx, hkx⟩ := dropWhile_is_drop (· == 42) rest
        have hxn : ∀ c ∈ rest.dropWhile (· == 42), c ≠ 0 := by
          intro c hc; rw [hkx] at hc; exact hrn c (List.mem_of_mem_drop hc)
        by_cases hx0 : (hd (rest.dropWhile (· == 42)) == 0) = true
        · rw [if_pos hx0] at hAA; cases hAA
        · rw [if_neg hx0] at hAA ⊢
          have hxne : hd (rest.dropWhile (· == 42)) ≠ 0 := by simpa using hx0
          have hrec : ∀ j, dowild (flagsOf m) n none (rest.dropWhile (· == 42)) (t.drop j) = .abortAll →
              ∀ i, dowild (flagsOf m) n none (rest.dropWhile (· == 42)) (t.drop (j + i)) ≠ .matched := by
            intro j hj' i
            have := ih none (rest.dropWhile (· == 42)) (t.drop j) hxn
              (fun c hc => htn c (List.mem_of_mem_drop hc)) hj' i
            rwa [List.drop_drop] at this
          exact spec_starLoop_abort (flagsOf m) (fun tx => dowild (flagsOf m) n none (rest.dropWhile (· == 42)) tx)
            (rest.dropWhile (· == 42)) true (fold_ne0 m hxne) t htn (t.length + 1)
            (Spec.C36.fold (flagsOf m) (hd t)) (fold_hd_zero_iff m htn) hAA hrec k
            ((t.drop k).length + 1) (Spec.C36.fold (flagsOf m) (hd (t.drop k))) (fold_hd_zero_iff m hun)
      · -- not a star: one text byte is consumed (or the text is exhausted)
        have hc42 : c ≠ 42 := h42
        -- the suffix `t.drop k` is empty, is `t` itself, or starts further down
        cases hu : t.drop k with
        | nil => rw [dw_abort hc0 hc42]; simp
        | cons uc ur =>
          have huc0 : uc ≠ 0 := by rw [hu] at hun; exact hun uc (by simp)
          have hurdrop : ∃ k', t = [] ∨ ur = t.tail.drop k' := by
            cases k with
            | zero => exact ⟨0, Or.inr (by simp at hu; rw [hu]; simp)⟩
            | succ k' =>
              cases t with
              | nil => simp at hu
              | cons tc tr =>
                exact ⟨k' + 1, Or.inr (by
                  simp at hu
                  have := congrArg List.tail hu
                  simp [List.tail_drop] at this
                  simpa using this.symm)⟩
          cases t with
          | nil => simp at hu
          | cons tc tr =>
            have htc0 : tc ≠ 0 := htn tc (by simp)
            have htrn : ∀ c ∈ tr, c ≠ 0 := fun x hx => htn x (by simp [hx])
            obtain ⟨k', hk'⟩ := hurdrop
            have hur : ur = tr.drop k' := by
              rcases hk' with h | h
              · cases h
              · simpa using h
            by_cases h92 : c = 92
            · subst h92
              rw [dw_esc hc0 htc0 (by rw [fold_eq_lc, s92])] at hAA
              rw [dw_esc hc0 huc0 (by rw [fold_eq_lc, s92])]
              split at hAA
              · cases hAA
              · split
                · simp
                · rw [hur]
                  exact ih _ _ _ (fun x hx => hrn x (List.mem_of_mem_tail hx)) htrn hAA k'
            · by_cases h63 : c = 63
              · subst h63
                rw [dw_qm hc0 htc0 (by rw [fold_eq_lc, s63])] at hAA
                rw [dw_qm hc0 huc0 (by rw [fold_eq_lc, s63])]
                split at hAA
                · cases hAA
                · split
                  · simp
                  · rw [hur]
                    exact ih _ _ _ hrn htrn hAA k'
              · by_cases h91 : c = 91
                · subst h91
                  rw [dw_br hc0 htc0 (by rw [fold_eq_lc, s91])] at hAA
                  rw [dw_br hc0 huc0 (by rw [fold_eq_lc, s91])]
                  have hind := spec_bracket_indep (flagsOf m) (Spec.C36.fold (flagsOf m) tc)
                    (Spec.C36.fold (flagsOf m) uc) n rest
                  cases hb : Spec.C36.bracket (flagsOf m) (Spec.C36.fold (flagsOf m) tc) n rest with
                  | abort =>
                    rw [brShape_abort hind hb]; simp
                  | fuel => rw [hb] at hAA; cases hAA
                  | done ok r =>
                    rw [hb] at hAA
                    simp only at hAA
                    obtain ⟨ok', hb'⟩ := brShape_done hind hb
                    rw [hb']
                    simp only
                    split at hAA
                    · cases hAA
                    · split
                      · simp
                      · obtain ⟨j, hj⟩ := spec_bracket_suffix _ _ _ _ _ _ hb
                        rw [hur]
                        exact ih _ r _
                          (fun x hx => hrn x (by rw [hj] at hx; exact List.mem_of_mem_drop hx)) htrn hAA k'
                · rw [dw_lit hc0 htc0 (by rw [fold_eq_lc, Ne, s42]; exact hc42) (by rw [fold_eq_lc, Ne, s92]; exact h92)
                      (by rw [fold_eq_lc, Ne, s63]; exact h63) (by rw [fold_eq_lc, Ne, s91]; exact h91)] at hAA
                  rw [dw_lit hc0 huc0 (by rw [fold_eq_lc, Ne, s42]; exact hc42) (by rw [fold_eq_lc, Ne, s92]; exact h92)
                      (by rw [fold_eq_lc, Ne, s63]; exact h63) (by rw [fold_eq_lc, Ne, s91]; exact h91)]
                  split at hAA
                  · cases hAA
                  · split
                    · simp
                    · rw [hur]
                      exact ih _ _ _ hrn htrn hAA k'


/-- every pattern, slashes being ordinary bytes -/
theorem go_rel_np (m : Mode) (hnp : m.noMatchSlash = false) :
    ∀ (fuel d : Nat) (pattern text : Bytes), PatOk m pattern → (∀ c ∈ text, c ≠ 0) →
      ∀ (ps ts : Bytes) (i ti : Nat) (prev : Option UInt8),
        pattern.drop i = ps → text.drop ti = ts → ps.length ≤ fuel → count42 ps ≤ d →
        RelAA (go m fuel d pattern text ⟨i, ps⟩ ⟨ti, ts⟩) (dowild (flagsOf m) fuel prev ps ts) := by
  intro fuel
  induction fuel with
  | zero => intros; left; simp [go, dowild, ofWm]
  | succ n ih =>
    intro d pattern text hok htext ps ts i ti prev hinv htinv hfuel hdepth
    have htnn : ∀ c ∈ ts, c ≠ 0 := fun c hc => htext c (List.mem_of_mem_drop (htinv ▸ hc))
    cases ps with
    | nil =>
      left
      rw [go_nil, dw_nil (by intro h; exact (htnn 0 h) rfl)]
      cases ts <;> simp [ofWm]
    | cons c r =>
      have hmem : ∀ x ∈ c :: r, x ∈ pattern := fun x hx => List.mem_of_mem_drop (hinv ▸ hx)
      have hc0 : c ≠ 0 := hok.noNul c (hmem c (by simp))
      have hr := drop_succ_of_drop hinv
      have hrl : r.length ≤ n := by simp at hfuel; omega
      have hrd : count42 r ≤ d := Nat.le_trans (count42_tail_le c r) hdepth
      obtain ⟨s42, s92, s63, s91, s47, s0, s93⟩ := lc_special m c
      by_cases h42 : c = 42
      · subst h42
        have hdpos : count42 r + 1 ≤ d := by rw [count42_cons42] at hdepth; exact hdepth
        have hdne : d ≠ 0 := by omega
        have hilen : i + 1 ≤ pattern.length := lt_of_drop_cons hinv
        have hpf : (flagsOf m).pathname = false := by simpa using hnp
        rw [dw_star_np hpf]
        simp only
        -- the bytes behind the run of stars, as a suffix of the pattern
        have hxlen := dropWhile_length_le (· == 42) r
        have hxdrop : r.dropWhile (· == 42) = r.drop (r.length - (r.dropWhile (· == 42)).length) := by
          have : ∀ (l : Bytes), l.dropWhile (· == 42) = l.drop (l.length - (l.dropWhile (· == 42)).length) := by
            intro l
            induction l with
            | nil => rfl
            | cons a b ih2 =>
              by_cases ha : a = 42
              · have hb := dropWhile_length_le (· == 42) b
                simp only [List.dropWhile_cons, ha, beq_self_eq_true, if_true, List.length_cons]
                rw [show b.length + 1 - (List.dropWhile (fun x => x == 42) b).length
                  = (b.length - (List.dropWhile (fun x => x == 42) b).length) + 1 by omega]
                simpa using ih2
              · simp [List.dropWhile_cons, ha]
          exact this r
        have hpx : pattern.drop (i + 1 + (r.length - (r.dropWhile (· == 42)).length)) = r.dropWhile (· == 42) := by
          rw [← List.drop_drop, hr, ← hxdrop]
        have hxcount : count42 (r.dropWhile (· == 42)) ≤ d - 1 := by
          have := count42_drop r (r.length - (r.dropWhile (· == 42)).length)
          rw [← hxdrop] at this
          omega
        have hxpl : i + 1 + (r.length - (r.dropWhile (· == 42)).length) ≤ pattern.length := by
          have := congrArg List.length hr
          simp at this
          omega
        cases hx : r.dropWhile (· == 42) with
        | nil =>
          left
          cases ts with
          | nil => rw [go_star_np_nil hnp, hx]; simp [hd, ofWm]
          | cons tc tr => rw [go_star_np hnp (Nat.le_of_lt (lt_of_drop_cons htinv)), hx]; simp [hd, ofWm]
        | cons c1 x' =>
          rw [hx] at hpx hxcount hxlen
          have hc1_0 : c1 ≠ 0 := by
            have : c1 ∈ pattern := List.mem_of_mem_drop (hpx ▸ (by simp : c1 ∈ c1 :: x'))
            exact hok.noNul c1 this
          have hc1_42 : c1 ≠ 42 := by
            intro e
            have : (c1 :: x').head? = some 42 := by simp [e]
            have h2 := List.head?_dropWhile_not (· == 42) r
            rw [hx] at h2
            simp [e] at h2
          have hhd : (hd (c1 :: x') == 0) = false := by simpa [hd] using hc1_0
          simp only [hhd, Bool.false_eq_true, if_false]
          have hsubok : PatOk m (c1 :: x') := by rw [← hpx]; exact patOk_drop hok _
          have hrecM : ∀ k, k ≤ text.length →
              RelAA (recCall m n d pattern text (i + 1 + (r.length - (c1 :: x').length)) k)
                (dowild (flagsOf m) n none (c1 :: x') (text.drop k)) := by
            intro k hk
            unfold recCall sliceFrom
            rw [hx] at hxpl
            simp only [hxpl, hk, if_true]
            have hd' : (d == 0) = false := by simpa using hdne
            simp only [hd', Bool.false_eq_true, if_false, Iter.ofSlice, hpx]
            exact ih (d - 1) (c1 :: x') (text.drop k) hsubok
              (fun c hc => htext c (List.mem_of_mem_drop hc)) (c1 :: x') (text.drop k) 0 0 none
              (by simp) (by simp) (by simp at hxlen hrl ⊢; omega) hxcount
          have hrecBeyond : ∀ k, text.length < k →
              recCall m n d pattern text (i + 1 + (r.length - (c1 :: x').length)) k ≠ .matched := by
            intro k hk
            unfold recCall sliceFrom
            have : ¬ k ≤ text.length := by omega
            simp [this]
          have hn1 : ∃ n', n = n' + 1 := ⟨n - 1, by simp at hxlen hrl; omega⟩
          cases ts with
          | nil =>
            rw [go_star_np_nil hnp, hx]
            simp only [hd, List.headD_nil]
            have hf0 : Spec.C36.fold (flagsOf m) 0 = 0 := by rw [fold_eq_lc]; exact (lc_special m 0).2.2.2.2.2.1.mpr rfl
            rw [hf0, List.length_nil, sl_zero]
            right
            refine ⟨rfl, ?_⟩
            by_cases hg : isGlobCharacter (lc m c1) = true
            · rw [starLoop_glob m _ _ _ _ hg]
              have hR := hrecM text.length (Nat.le_refl _)
              simp only [List.drop_length] at hR
              obtain ⟨n', e⟩ := hn1
              subst e
              rw [dw_abort hc1_0 hc1_42] at hR
              have hne := hR.ne_matched (by simp)
              simp only [Iter.next]
              split
              · exact hne
              · split <;> simp
            · simp only [Bool.not_eq_true] at hg
              have hne : (0 : UInt8) ≠ lc m c1 := fun h => hc1_0 ((lc_special m c1).2.2.2.2.2.1.mp h.symm)
              rw [starLoop_end m _ _ _ _ hg hne]
              simp
          | cons tc tr =>
            have hti := lt_of_drop_cons htinv
            have hlen : text.length - ti = tr.length + 1 := by
              have := congrArg List.length htinv
              simpa using this
            rw [go_star_np hnp (Nat.le_of_lt hti), hx]
            simp only
            have := starLoop_relAA m (fun k => recCall m n d pattern text (i + 1 + (r.length - (c1 :: x').length)) k)
              (fun tx => dowild (flagsOf m) n none (c1 :: x') tx) (c1 :: x') true
              (by simpa [hd] using hc1_0) (by simp)
              (tc :: tr) htnn (by simp) ti (tr.length + 1) ((tc :: tr).length + 1)
              (Spec.C36.fold (flagsOf m) (hd (tc :: tr)))
              (by simp) (by simp) (Or.inr rfl)
              (by
                intro j hj
                have := hrecM (ti + j) (by simp at hj; omega)
                rwa [drop_add_eq htinv j] at this)
              (by
                intro k' hk'
                by_cases hk : k' ≤ text.length
                · have hke : k' = text.length := by simp at hk'; omega
                  subst hke
                  have hR := hrecM text.length (Nat.le_refl _)
                  simp only [List.drop_length] at hR
                  obtain ⟨n', e⟩ := hn1
                  subst e
                  rw [dw_abort hc1_0 hc1_42] at hR
                  exact hR.ne_matched (by simp)
                · exact hrecBeyond k' (by omega))
              (by
                intro j hj' i'
                have := dowild_abort_sound_np m hnp n none (c1 :: x') ((tc :: tr).drop j) hsubok.noNul
                  (fun c hc => htnn c (List.mem_of_mem_drop hc)) hj' i'
                rwa [List.drop_drop] at this)
            simpa [hd] using this
      · have hc42 : c ≠ 42 := h42
        cases ts with
        | nil =>
          left
          rw [go_abort (by rw [Ne, s42]; exact hc42), dw_abort hc0 hc42]
          rfl
        | cons tc tr =>
          have htc : tc ≠ 0 := htnn tc (by simp)
          have htr := drop_succ_of_drop htinv
          have htc' : lc m tc ≠ 0 := fun h => htc ((lc_special m tc).2.2.2.2.2.1.mp h)
          by_cases h92 : c = 92
          · subst h92
            cases r with
            | nil =>
              left
              rw [go_esc_end (by rw [s92]), dw_esc hc0 htc (by rw [fold_eq_lc, s92])]
              simp [hd, fold_eq_lc, ofWm, htc']
            | cons e r2 =>
              rw [go_esc (by rw [s92]), dw_esc hc0 htc (by rw [fold_eq_lc, s92])]
              have hle : lc m e = e := by
                cases hic : m.ignoreCase with
                | false => simp [lc, hic]
                | true =>
                  have := escSafe_drop pattern (hok.icase hic).2 i
                  rw [hinv] at this
                  simp [escSafe] at this
                  exact lc_of_not_upper m e (by simpa using this.1)
              simp only [hd, List.headD_cons, List.tail_cons, fold_eq_lc, hle]
              have hr2 := drop_succ_of_drop hr
              have := ih d pattern text hok htext r2 tr (i + 2) (ti + 1) (some e) hr2 htr
                (by simp at hrl ⊢; omega) (Nat.le_trans (count42_tail_le e r2) hrd)
              exact relAA_if (by constructor <;> (intro h; exact fun x => h x.symm)) this
          · by_cases h63 : c = 63
            · subst h63
              rw [go_qm (by rw [s63]), dw_qm hc0 htc (by rw [fold_eq_lc, s63])]
              have := ih d pattern text hok htext r tr (i + 1) (ti + 1) (some 63) hr htr hrl hrd
              simp only [fold_eq_lc, flagsOf_pathname]
              exact relAA_if (by simp) this
            · by_cases h91 : c = 91
              · subst h91
                have hic : m.ignoreCase = false := by
                  cases h : m.ignoreCase with
                  | false => rfl
                  | true => exact absurd rfl ((hok.icase h).1 91 (hmem 91 (by simp)))
                rw [go_br (by rw [s91]), dw_br hc0 htc (by rw [fold_eq_lc, s91])]
                have hb := bracket_rel m hic pattern hok.noNul (lc m tc) n (i + 1) r hr
                simp only [fold_eq_lc, flagsOf_pathname]
                cases hbs : Spec.C36.bracket (flagsOf m) (lc m tc) n r with
                | abort =>
                  rw [hbs] at hb
                  cases hbm : C36.bracket m pattern (lc m tc) n ⟨i + 1, r⟩ <;> rw [hbm] at hb <;> simp [BrRel] at hb
                  left; rfl
                | fuel =>
                  rw [hbs] at hb
                  cases hbm : C36.bracket m pattern (lc m tc) n ⟨i + 1, r⟩ <;> rw [hbm] at hb <;> simp [BrRel] at hb
                  left; rfl
                | done ok' rest =>
                  rw [hbs] at hb
                  have hlen := spec_bracket_len _ _ _ _ _ _ hbs
                  obtain ⟨jd, hjd⟩ := spec_bracket_suffix _ _ _ _ _ _ hbs
                  cases hbm : C36.bracket m pattern (lc m tc) n ⟨i + 1, r⟩ with
                  | abort => rw [hbm] at hb; simp [BrRel] at hb
                  | panic => rw [hbm] at hb; simp [BrRel] at hb
                  | fuel => rw [hbm] at hb; simp [BrRel] at hb
                  | done ok p =>
                    rw [hbm] at hb
                    obtain ⟨h1, h2, h3⟩ := hb
                    obtain ⟨k, pr⟩ := p
                    simp at h2 h3
                    subst h1 h2
                    simp only []
                    have := ih d pattern text hok htext pr tr k (ti + 1) (some 93) h3 htr (by omega)
                      (by rw [hjd]; exact Nat.le_trans (count42_drop r jd) hrd)
                    exact relAA_if (by simp) this
              · rw [go_lit (by rw [Ne, s42]; exact hc42) (by rw [Ne, s92]; exact h92)
                    (by rw [Ne, s63]; exact h63) (by rw [Ne, s91]; exact h91),
                  dw_lit hc0 htc (by rw [fold_eq_lc, Ne, s42]; exact hc42) (by rw [fold_eq_lc, Ne, s92]; exact h92)
                    (by rw [fold_eq_lc, Ne, s63]; exact h63) (by rw [fold_eq_lc, Ne, s91]; exact h91)]
                have := ih d pattern text hok htext r tr (i + 1) (ti + 1) (some c) hr htr hrl hrd
                simp only [fold_eq_lc]
                exact relAA_if (by constructor <;> (intro h; exact fun x => h x.symm)) this



end GixModel.C36
