import GixModel.Lemmas.C06
import GixModel.Model.C06b
import GixModel.Props.C05
import GixModel.Props.C15
import GixModel.Props.C29
/-
C06 (round 2) — helper lemmas: panic-freedom of the models in Model/C06b.lean, and of C29's
`allAtOnce`.
-/
namespace GixModel.C06
open GixModel

/-! ### signature -/

theorem mem_takeWhile_imp {p : UInt8 → Bool} : ∀ {l : Bytes} {x : UInt8}, x ∈ l.takeWhile p → p x = true
  | [], x, h => by simp at h
  | a :: l, x, h => by
    simp only [List.takeWhile_cons] at h
    split at h
    · rename_i hp
      simp only [List.mem_cons] at h
      rcases h with h | h
      · subst h; exact hp
      · exact mem_takeWhile_imp h
    · simp at h

theorem length_takeWhile_le' (p : UInt8 → Bool) : ∀ (l : Bytes), (l.takeWhile p).length ≤ l.length
  | [] => by simp
  | a :: l => by
    simp only [List.takeWhile_cons]
    split
    · simp; exact length_takeWhile_le' p l
    · simp

theorem rfindByte_lt (c : UInt8) : ∀ (l : Bytes) (k : Nat), rfindByte c l = some k → k < l.length
  | [], k, h => by simp [rfindByte] at h
  | b :: bs, k, h => by
    unfold rfindByte at h
    cases hr : rfindByte c bs with
    | some j =>
      simp [hr] at h; subst h
      have := rfindByte_lt c bs j hr
      simp; omega
    | none =>
      simp [hr] at h
      obtain ⟨_, rfl⟩ := h
      simp

theorem identity_total (i : Bytes) : identity i ≠ .panic ∧ identity i ≠ .hang := by
  unfold identity
  have heol : (findByte 10 i).getD i.length ≤ i.length := by
    cases h : findByte 10 i with
    | none => simp
    | some k => simp; exact Nat.le_of_lt (findByte_lt _ _ _ h)
  simp only [sliceTo, if_pos heol]
  cases hrd : rfindByte 62 (List.take ((findByte 10 i).getD i.length) i) with
  | none => simp
  | some rd =>
    have hrdlt := rfindByte_lt _ _ _ hrd
    have hrdlen : rd ≤ i.length := by
      rw [List.length_take] at hrdlt; omega
    simp only [if_pos hrdlen]
    cases hld : findByte 60 (List.take rd i) with
    | none => simp
    | some ld =>
      have hldlt := findByte_lt _ _ _ hld
      have hldlen : ld ≤ i.length := by
        rw [List.length_take] at hldlt; omega
      simp only [sliceFrom, if_pos hldlen]
      have hskip : ((List.take rd i).reverse.takeWhile fun b => isAsciiWs b || decide (b = 62)).length ≤ rd := by
        have := length_takeWhile_le' (fun b => isAsciiWs b || decide (b = 62)) (List.take rd i).reverse
        simp only [List.length_reverse, List.length_take] at this
        omega
      have hno : ¬ (rd < ((List.take rd i).reverse.takeWhile fun b => isAsciiWs b || decide (b = 62)).length) := by omega
      simp only [if_neg hno]
      split <;> simp

theorem decVal_le_99 (ds : Bytes) (hd : ∀ b ∈ ds, isDec b = true) (hl : ds.length ≤ 2) : decVal ds ≤ 99 := by
  have bound : ∀ b : UInt8, isDec b = true → b.toNat - 48 ≤ 9 := by
    intro b hb
    simp only [isDec, Bool.and_eq_true, decide_eq_true_eq, UInt8.le_iff_toNat_le] at hb
    have h2 := hb.2
    simp at h2
    omega
  match ds, hd, hl with
  | [], _, _ => simp [decVal]
  | [a], hd, _ =>
    have := bound a (hd a (by simp))
    simp [decVal]; omega
  | [a, b], hd, _ =>
    have h1 := bound a (hd a (by simp))
    have h2 := bound b (hd b (by simp))
    simp [decVal]; omega
  | _ :: _ :: _ :: _, _, hl => simp at hl

theorem toSignedIn_dec2 (lo hi : Int) (ds : Bytes) (hd : ∀ b ∈ ds, isDec b = true) (hl : ds.length ≤ 2)
    (v : Int) (h : toSignedIn lo hi ds = some v) : 0 ≤ v ∧ v ≤ 99 := by
  cases ds with
  | nil => simp [toSignedIn] at h
  | cons b rest =>
    have hb := hd b (by simp)
    have hb' : 48 ≤ b.toNat := by
      simp only [isDec, Bool.and_eq_true, decide_eq_true_eq, UInt8.le_iff_toNat_le] at hb
      have := hb.1; simp at this; exact this
    have h43 : b ≠ 43 := by intro h; subst h; simp at hb'
    have h45 : b ≠ 45 := by intro h; subst h; simp at hb'
    simp only [toSignedIn, if_neg h43, if_neg h45] at h
    split at h
    · simp at h
    · simp only [Bool.false_eq_true, if_false] at h
      split at h
      · simp at h
        have := decVal_le_99 (b :: rest) hd hl
        omega
      · simp at h

theorem offsetOf_ne_panic (neg : Bool) (h m : Int) (hh : 0 ≤ h ∧ h ≤ 99) (hm : 0 ≤ m ∧ m ≤ 99) :
    offsetOf neg h m ≠ .panic := by
  unfold offsetOf
  have e1 : i32Max = 2147483647 := rfl
  have e2 : i32Min = -2147483648 := rfl
  have n1 : ¬ (h * 3600 > i32Max ∨ h * 3600 < i32Min) := by omega
  have n2 : ¬ (m * 60 > i32Max ∨ m * 60 < i32Min) := by omega
  have n3 : ¬ (h * 3600 + m * 60 > i32Max ∨ h * 3600 + m * 60 < i32Min) := by omega
  have n4 : ¬ ((if neg = true then -(h * 3600 + m * 60) else h * 3600 + m * 60) > i32Max ∨
      (if neg = true then -(h * 3600 + m * 60) else h * 3600 + m * 60) < i32Min) := by
    split <;> omega
  simp only [if_neg n1, if_neg n2, if_neg n3, if_neg n4]
  simp

theorem timeOffset_ne_panic (neg : Bool) (hh mm : Bytes) (nt : Bool)
    (h1 : ∀ b ∈ hh, isDec b = true) (l1 : hh.length ≤ 2) (h2 : ∀ b ∈ mm, isDec b = true) (l2 : mm.length ≤ 2) :
    timeOffset neg hh mm nt ≠ some .panic := by
  unfold timeOffset
  split
  · rename_i hours minutes e1 e2
    have a := toSignedIn_dec2 _ _ _ h1 l1 hours e1
    have b := toSignedIn_dec2 _ _ _ h2 l2 minutes e2
    split
    · intro h; injection h with h; exact offsetOf_ne_panic neg hours minutes a b h
    · simp
  · simp

theorem timeTuple_ne_panic (i : Bytes) : timeTuple i ≠ some .panic := by
  unfold timeTuple
  split
  · simp
  split
  · simp
  simp only []
  repeat' split
  all_goals first
    | (simp; done)
    | (apply timeOffset_ne_panic
       · intro b hb; exact mem_takeWhile_imp (List.mem_of_mem_take hb)
       · rw [List.length_take]; omega
       · intro b hb; exact mem_takeWhile_imp (List.mem_of_mem_take hb)
       · rw [List.length_take]; omega)

theorem signatureDecode_total (i : Bytes) : signatureDecode i ≠ .panic ∧ signatureDecode i ≠ .hang := by
  unfold signatureDecode
  have hi := identity_total i
  split
  · simp
  · rename_i h; exact absurd h hi.1
  · rename_i h; exact absurd h hi.2
  · rename_i rest _
    have ht := timeTuple_ne_panic (dropOneSpace rest)
    split
    · rename_i heq; exact absurd heq ht
    · simp

/-! ### capabilities, fetch lines, loose refs, expand_path, packet line -/

theorem capsFromBytes_total (b : Bytes) : capsFromBytes b ≠ .panic ∧ capsFromBytes b ≠ .hang := by
  unfold capsFromBytes
  cases h : findByte 0 b with
  | none => simp
  | some pos =>
    have := findByte_lt _ _ _ h
    simp only
    split
    · simp
    · have hle : pos + 1 ≤ b.length := by omega
      simp only [sliceFrom, if_pos hle]
      simp

theorem capsFromLines_total (b : Bytes) : capsFromLines b ≠ .panic ∧ capsFromLines b ≠ .hang := by
  unfold capsFromLines
  split
  · simp
  · rename_i vl _
    cases h : findByte 32 vl with
    | none => simp
    | some sp =>
      have := findByte_lt _ _ _ h
      simp only [splitAt, if_pos (Nat.le_of_lt this)]
      repeat' split
      all_goals simp

theorem orRes_total (a b : Res Unit) (ha : a ≠ .panic ∧ a ≠ .hang) (hb : b ≠ .panic ∧ b ≠ .hang) :
    orRes a b ≠ .panic ∧ orRes a b ≠ .hang := by
  cases a <;> cases b <;> simp_all [orRes]

theorem capabilitiesRun_total (d : Bytes) : capabilitiesRun d ≠ .panic ∧ capabilitiesRun d ≠ .hang :=
  orRes_total _ _ (capsFromBytes_total d) (capsFromLines_total d)

theorem hexRes_total (id : Bytes) : hexRes id ≠ .panic ∧ hexRes id ≠ .hang := by
  unfold hexRes
  have h := (Props.C05.id_from_hex_total id).1
  cases hh : C05.idFromHex id with
  | ok _ => simp
  | err _ => simp
  | panic => exact absurd hh h

theorem bindHex_total (id : Bytes) (k : Res Unit) (hk : k ≠ .panic ∧ k ≠ .hang) :
    bindHex id k ≠ .panic ∧ bindHex id k ≠ .hang := by
  unfold bindHex
  have h := hexRes_total id
  split
  · exact hk
  · simp
  · rename_i heq; exact absurd heq h.1
  · rename_i heq; exact absurd heq h.2

theorem shallowFromLine_total (l : Bytes) : shallowFromLine l ≠ .panic ∧ shallowFromLine l ≠ .hang := by
  unfold shallowFromLine
  split
  · simp
  · apply bindHex_total; split <;> simp

theorem wantedFromLine_total (l : Bytes) : wantedFromLine l ≠ .panic ∧ wantedFromLine l ≠ .hang := by
  unfold wantedFromLine
  split
  · simp
  · apply bindHex_total; simp

theorem ackTail_total (r : Bytes) : ackTail r ≠ .panic ∧ ackTail r ≠ .hang := by
  unfold ackTail
  split
  · apply bindHex_total; simp
  · apply bindHex_total; split <;> simp

theorem ackFromLine_total (l : Bytes) : ackFromLine l ≠ .panic ∧ ackFromLine l ≠ .hang := by
  unfold ackFromLine
  split
  · split <;> simp
  · split
    · simp
    · split
      · exact ackTail_total _
      · simp

theorem fetchLineRun_total (d : Bytes) : fetchLineRun d ≠ .panic ∧ fetchLineRun d ≠ .hang := by
  unfold fetchLineRun
  split
  · simp
  · exact orRes_total _ _ (ackFromLine_total d) (orRes_total _ _ (shallowFromLine_total d) (wantedFromLine_total d))

theorem isHexLc_isHexDigit (c : UInt8) (h : isHexLc c = true) : C05.isHexDigit c = true := by
  unfold C05.isHexDigit C05.unhexDigit
  simp only [isHexLc, Bool.or_eq_true, Bool.and_eq_true, decide_eq_true_eq] at h
  rcases h with h | h
  · simp [h]
  · by_cases h0 : 48 ≤ c ∧ c ≤ 57
    · simp [h0]
    · simp [h0, h]

theorem idFromHex_ok_of_lc (hex : Bytes) (hl : hex.length = 40) (hc : ∀ c ∈ hex, isHexLc c = true) :
    ∃ id, C05.idFromHex hex = .ok id := by
  have ht := Props.C05.id_from_hex_total hex
  cases h : C05.idFromHex hex with
  | ok id => exact ⟨id, rfl⟩
  | panic => exact absurd h ht.1
  | err e =>
    cases e with
    | invalidLength => exact absurd hl (ht.2.1.mp h)
    | invalid =>
      obtain ⟨_, c, hcm, hcf⟩ := ht.2.2.mp h
      have := isHexLc_isHexDigit c (hc c hcm)
      rw [this] at hcf; cases hcf

theorem looseRef_total (c : Bytes) : looseRef c ≠ .panic ∧ looseRef c ≠ .hang := by
  unfold looseRef
  split
  · rename_i r _
    simp only []
    have h := (Props.C15.validate_never_panics _ Props.C15.extracted_table_ok
      ((r.dropWhile (· = 32)).takeWhile fun b => b ≠ 13 && b ≠ 10)).2
    split
    · simp
    · simp
    · rename_i heq; exact absurd heq h
  · simp only []
    split
    · simp
    · rename_i hlen
      have hl : (List.take 40 (List.takeWhile isHexLc c)).length = 40 := by
        have := List.length_take_le 40 (List.takeWhile isHexLc c)
        omega
      obtain ⟨id, hid⟩ := idFromHex_ok_of_lc _ hl (fun x hx => mem_takeWhile_imp (List.mem_of_mem_take hx))
      rw [hid]
      simp

theorem expandPathParse_total (p : Bytes) : expandPathParse p ≠ .panic ∧ expandPathParse p ≠ .hang := by
  unfold expandPathParse
  split
  · rename_i tl
    have h1 : 1 ≤ ((47 : UInt8) :: tl).length := by simp
    simp only [sliceFrom, if_pos h1]
    split
    · rename_i seg tl2 heq
      split
      · simp
      · have h2 : 1 ≤ (List.takeWhile (fun x => decide (x ≠ 47)) (List.drop 1 ((47 : UInt8) :: tl))).length := by
          rw [heq]; simp
        simp only [if_pos h2]
        simp
    · simp
  · simp

theorem allAtOnce_ne_panic (data : Bytes) : C29.allAtOnce C29.consts data ≠ .panic := by
  unfold C29.allAtOnce
  have h := Props.C29.streaming_never_panics _ Props.C29.extracted_consts_ok data
  split
  · simp
  · simp
  · simp
  · rename_i heq; exact absurd heq h

end GixModel.C06
